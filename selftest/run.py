#!/usr/bin/env python3
"""run.py <Cxx> <out.json>  — the checker's own test, both ways (DESIGN §8).

For property Cxx: every seeded change listed for it in selftest/expect.json must be reported (exit 1 with a
VIOLATION line) and every behaviour-preserving control under selftest/controls/ must stay silent (exit 0).
Changes are applied in memory (packages.Config.Overlay) by selftest/with_patch.sh, one subprocess each;
/repo is not modified. A patch that no longer applies to the current tree is reported as skipped.
Exit 0 = all expectations met, 2 = the checker failed its own test.
"""
import json, os, subprocess, sys, concurrent.futures as cf

here = os.path.dirname(os.path.abspath(__file__))
verif = os.path.dirname(here)
prop, out = sys.argv[1], sys.argv[2]
expect = json.load(open(os.path.join(here, "expect.json")))


def run(patch):
    p = subprocess.run([os.path.join(here, "with_patch.sh"), patch, prop], capture_output=True, text=True)
    return p.returncode, p.stdout


seeded = [(sid, os.path.join(verif, "seeded", sid, "patch.diff")) for sid, props in sorted(expect["seeded"].items()) if prop in props]
synthetic = [(sid, os.path.join(here, "synthetic", sid + ".diff")) for sid, props in sorted(expect.get("synthetic", {}).items()) if prop in props]
all_controls = sorted(f for f in os.listdir(os.path.join(here, "controls")) if f.endswith(".diff")) if os.path.isdir(os.path.join(here, "controls")) else []
# the property's own controls plus a fixed pseudo-random sample of the others (the full matrix — every control against
# every property — is what selftest/regress.py runs; F1_SELFTEST_ALL=1 runs it here too)
import hashlib
own = [c for c in all_controls if c.startswith(prop + "-")]
others = sorted((c for c in all_controls if not c.startswith(prop + "-")), key=lambda c: hashlib.sha1((prop + c).encode()).hexdigest())
controls = own + (others if os.environ.get("F1_SELFTEST_ALL") == "1" else others[:16])

res = {"seeded": len(seeded) + len(synthetic), "reported": 0, "controls": len(controls), "silent": 0, "skipped": 0, "failures": [], "details": []}
jobs = [("seeded", sid, p) for sid, p in seeded + synthetic] + [("control", c[:-5], os.path.join(here, "controls", c)) for c in controls]
with cf.ThreadPoolExecutor(max_workers=6) as ex:
    futs = {ex.submit(run, p): (kind, sid) for kind, sid, p in jobs}
    for f in cf.as_completed(futs):
        kind, sid = futs[f]
        rc, outp = f.result()
        viol = [l for l in outp.splitlines() if l.startswith("  " + prop) or l.startswith("UNDECIDED")]
        if rc == 3:
            res["skipped"] += 1
            res["details"].append({"id": sid, "kind": kind, "outcome": "skipped (patch no longer applies)"})
            continue
        if kind == "seeded":
            if rc == 1 and "VIOLATION property=" + prop in outp:
                res["reported"] += 1
                res["details"].append({"id": sid, "kind": kind, "outcome": "reported", "first": (viol[0].strip()[:240] if viol else "")})
            else:
                res["failures"].append(f"seeded change {sid} was NOT reported by {prop} (exit {rc})")
        else:
            if rc == 0:
                res["silent"] += 1
            else:
                res["failures"].append(f"control {sid} raised an alarm in {prop} (exit {rc}): " + (viol[0].strip()[:300] if viol else ""))
res["details"].sort(key=lambda d: d["id"])
json.dump(res, open(out, "w"), indent=1)
print(f"selftest {prop}: seeded {res['reported']}/{res['seeded']} reported, controls {res['silent']}/{res['controls']} silent, {res['skipped']} skipped")
for f in res["failures"]:
    print("SELFTEST-FAILURE:", f)
sys.exit(2 if res["failures"] else 0)
