#!/usr/bin/env bash
# with_patch.sh <patch.diff> <Cxx|all> [extra f1lint args]
# Analyses /repo with the patch applied *in memory* (packages.Config.Overlay); /repo is not touched.
set -u
VERIF="$(cd "$(dirname "${BASH_SOURCE[0]}")/.." && pwd)"
REPO="${F1_REPO:-/repo}"
patchf="$(readlink -f "$1")"; prop="$2"; shift 2
tmp="$(mktemp -d /tmp/f1ov.XXXXXX)"
trap 'rm -rf "$tmp"' EXIT
# copy the files the patch touches, then patch the copies
git -C "$REPO" apply --numstat "$patchf" 2>/dev/null | awk '{print $3}' | while read -r f; do
  mkdir -p "$tmp/$(dirname "$f")"
  [ -f "$REPO/$f" ] && cp "$REPO/$f" "$tmp/$f"
done
( cd "$tmp" && patch -s -p1 -F0 --no-backup-if-mismatch < "$patchf" ) || { echo "SELFTEST: patch does not apply: $patchf"; exit 3; }
"$VERIF/bin/f1lint" -prop "$prop" -repo "$REPO" -verif "$VERIF" -overlay "$tmp" -no-evidence "$@"
