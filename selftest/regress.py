#!/usr/bin/env python3
"""regress.py [filter] — development regression over the whole self-test set:
every seeded/synthetic change must be reported by the properties listed for it, every control must be silent
for ALL properties, and the unchanged tree must be silent. Prints only deviations. (Not registered in MANIFEST.)
"""
import json, os, subprocess, sys, concurrent.futures as cf

here = os.path.dirname(os.path.abspath(__file__))
verif = os.path.dirname(here)
flt = sys.argv[1] if len(sys.argv) > 1 else ""
subprocess.run([os.path.join(verif, "check"), "build"], check=True)


def run(patch):
    p = subprocess.run([os.path.join(here, "with_patch.sh"), patch, "all"], capture_output=True, text=True)
    fired = sorted({l.split("property=")[1].split()[0] for l in p.stdout.splitlines() if l.startswith("VIOLATION property=")})
    und = sorted({l.split("property=")[1].split()[0].rstrip(":") for l in p.stdout.splitlines() if l.startswith("UNDECIDED property=")})
    return p.returncode, fired, und, p.stdout


jobs = []
exp = json.load(open(os.path.join(here, "expect.json"))) if os.path.exists(os.path.join(here, "expect.json")) else {"seeded": {}}
for sid in sorted(os.listdir(os.path.join(verif, "seeded"))):
    if not os.path.isdir(os.path.join(verif, "seeded", sid)):
        continue
    jobs.append(("seeded", sid, os.path.join(verif, "seeded", sid, "patch.diff"), exp.get("seeded", {}).get(sid, [sid.split("-")[0]])))
syn = json.load(open(os.path.join(here, "synthetic", "expect.json")))
for sid, props in sorted(syn.items()):
    jobs.append(("synthetic", sid, os.path.join(here, "synthetic", sid + ".diff"), props))
for f in sorted(os.listdir(os.path.join(here, "controls"))):
    if f.endswith(".diff"):
        jobs.append(("control", f[:-5], os.path.join(here, "controls", f), []))
jobs = [j for j in jobs if flt in j[0] or flt in j[1]]
bad = 0
matrix = {}
with cf.ThreadPoolExecutor(max_workers=8) as ex:
    futs = {ex.submit(run, j[2]): j for j in jobs}
    for f in cf.as_completed(futs):
        kind, sid, _, props = futs[f]
        rc, fired, und, out = f.result()
        matrix[sid] = {"fired": fired, "undecided": und}
        if rc == 3:
            print(f"[stale] {kind} {sid}: patch does not apply")
            bad += 1
            continue
        if kind == "control":
            if fired or und:
                bad += 1
                print(f"[FALSE ALARM] control {sid}: fired={fired} undecided={und}")
                for l in out.splitlines():
                    if l.startswith("  C") or l.startswith("UNDECIDED"):
                        print("      " + l.strip()[:260])
        else:
            missing = [p for p in props if p not in fired]
            extra = [p for p in fired if p not in props]
            if missing:
                bad += 1
                print(f"[MISSED] {kind} {sid}: expected {props}, fired {fired}, undecided {und}")
            if extra and "-v" in sys.argv:
                print(f"[also] {kind} {sid}: additionally fired {extra}")
json.dump(matrix, open("/tmp/regress_matrix.json", "w"), indent=1, sort_keys=True)
print(f"{len(jobs)} cases, {bad} deviations")
