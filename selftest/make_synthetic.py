#!/usr/bin/env python3
"""Regenerates selftest/synthetic/*.diff from /repo's HEAD: small hand-written seeded defects (DESIGN App. B),
each a textual edit that compiles. They are only used to test that the checker fires (selftest/run.py);
the sub-agent changes with demonstrations live under /verif/seeded. Usage: make_synthetic.py [--check-build]
"""
import difflib, json, os, subprocess, sys

REPO = "/repo"
here = os.path.dirname(os.path.abspath(__file__))
out = os.path.join(here, "synthetic")
os.makedirs(out, exist_ok=True)

S = []  # (id, [props], file, old, new)


def add(i, props, f, old, new):
    S.append((i, props, f, old, new))


W = "internal/workers/"
# ---------------- C01
add("c01-record-only-success", ["C01"], W + "active_scenario.go",
    "\ts.progress.Record(metrics.Result(failed), duration)\n}",
    "\tif !failed {\n\t\ts.progress.Record(metrics.Result(failed), duration)\n\t}\n}")
add("c01-failed-read-before-body", ["C01", "C07"], W + "active_scenario.go",
    "\tstart := xtime.NanoTime()\n\tfunc() {\n\t\tdefer testing.CheckResults(state.t, nil)\n\t\ts.scenario.RunFn(state.t)\n\t}()\n\n\tfailed := state.t.Failed()\n",
    "\tfailed := state.t.Failed()\n\tstart := xtime.NanoTime()\n\tfunc() {\n\t\tdefer testing.CheckResults(state.t, nil)\n\t\ts.scenario.RunFn(state.t)\n\t}()\n\n")
add("c01-snapshot-without-lock", ["C01"], "internal/run/result.go",
    "func (r *Result) SnapshotProgress(period time.Duration) {\n\tr.mu.Lock()\n\tdefer r.mu.Unlock()\n\n",
    "func (r *Result) SnapshotProgress(period time.Duration) {\n")
add("c01-failed-routed-to-success", ["C01"], "internal/progress/stats.go",
    "\tcase metrics.FailedResult:\n\t\ts.failedIterationDurations.Record(nanoseconds)",
    "\tcase metrics.FailedResult:\n\t\ts.successfulIterationDurations.Record(nanoseconds)")
add("c01-total-drains-success-twice", ["C01"], "internal/progress/stats.go",
    "\t_, lifetimeSuccessful := s.successfulIterationDurations.CollectLifetime()\n\t_, lifetimeFailed := s.failedIterationDurations.CollectLifetime()\n\n\treturn Snapshot{\n\t\tDroppedIterationCount:        s",
    "\t_, lifetimeSuccessful := s.successfulIterationDurations.CollectLifetime()\n\t_, lifetimeFailed := s.successfulIterationDurations.CollectLifetime()\n\n\treturn Snapshot{\n\t\tDroppedIterationCount:        s")
add("c01-totals-before-run", ["C01"], "internal/run/test_runner.go",
    "\tr.run(ctx)\n\n\tr.progressRunner.Stop()\n\tclose(metricsCloseCh)\n\tr.result.GetTotals()\n",
    "\tr.result.GetTotals()\n\tr.run(ctx)\n\n\tr.progressRunner.Stop()\n\tclose(metricsCloseCh)\n")
add("c01-dropped-add-two", ["C01"], "internal/progress/stats.go",
    "s.droppedIterationCount.Add(1)", "s.droppedIterationCount.Add(2)")
add("c01-drop-without-progress", ["C01"], W + "active_scenario.go",
    "\ts.m.RecordIterationResult(s.scenario.Name, metrics.DroppedResult, instantDuration)\n\ts.progress.Record(metrics.DroppedResult, instantDuration)\n",
    "\ts.m.RecordIterationResult(s.scenario.Name, metrics.DroppedResult, instantDuration)\n")
add("c01-result-true-is-success", ["C01"], "internal/metrics/result.go",
    "\tif failed {\n\t\treturn FailedResult\n\t}\n\treturn SuccessResult", "\tif failed {\n\t\treturn SuccessResult\n\t}\n\treturn FailedResult")
# ---------------- C02
add("c02-take-load-then-add", ["C02"], W + "trigger_pool.go",
    "\treturn w.num.Add(-1) >= 0", "\tif w.num.Load() <= 0 {\n\t\treturn false\n\t}\n\tw.num.Add(-1)\n\n\treturn true")
add("c02-drop-loop-numjobs", ["C02"], W + "trigger_pool.go",
    "\tfor range jobsDiscarded {", "\t_ = jobsDiscarded\n\tfor range numJobs {")
add("c02-wait-in-if", ["C04", "C05"], W + "trigger_pool.go",
    "\tfor p.jobsToExecute.none() && p.running() {", "\tif p.jobsToExecute.none() && p.running() {")
add("c02-limit-path-calls-stop", ["C02"], W + "trigger_pool.go",
    "\tp.jobsToExecute.set(0)\n\tp.workerCtxCancel()", "\tp.stop()\n\tp.workerCtxCancel()")
add("c02-no-return-after-limit", ["C02", "C03"], W + "trigger_pool.go",
    "\t\t\t\tp.maxIterationsReached()\n\t\t\t\treturn\n\t\t\t}\n\n\t\t\titerationState.t.Reset",
    "\t\t\t\tp.maxIterationsReached()\n\t\t\t}\n\n\t\t\titerationState.t.Reset")
add("c02-stop-flag-after-broadcast", ["C04", "C05"], W + "trigger_pool.go",
    "\tp.stopWorkers.Store(true)\n\tp.sendJobsForExecution(0)", "\tp.sendJobsForExecution(0)\n\tp.stopWorkers.Store(true)")
add("c02-limit-path-cancel-first", ["C02"], W + "trigger_pool.go",
    "\tp.jobsToExecute.set(0)\n\tp.workerCtxCancel()", "\tp.workerCtxCancel()\n\tp.jobsToExecute.set(0)")
# ---------------- C03
add("c03-refuse-geq", ["C03"], W + "pool_manager.go",
    "\tif m.maxIterations > 0 && iteration > m.maxIterations {", "\tif m.maxIterations > 0 && iteration >= m.maxIterations {")
add("c03-reset-with-worker-count", ["C03"], W + "trigger_pool.go",
    "iterationState.t.Reset(strconv.FormatUint(iteration, 10))", "_ = iteration\n\t\t\titerationState.t.Reset(strconv.Itoa(p.numWorkers))")
add("c03-continuous-ignores-error", ["C03"], W + "continuous_pool.go",
    "\t\titeration, err := p.manager.NextIteration()\n\t\tif err != nil {\n\t\t\tp.maxIterationsReached()\n\t\t\treturn\n\t\t}\n",
    "\t\titeration, err := p.manager.NextIteration()\n\t\tif err != nil {\n\t\t\tp.maxIterationsReached()\n\t\t}\n")
add("c03-manager-per-stage", ["C03"], "internal/trigger/file/stages_worker.go",
    "\t\t\tdoWork := api.NewIterationWorker(stage.IterationDuration, stage.Rate)\n\t\t\tdoWork(stageCtx, output, workers, options)",
    "\t\t\tdoWork := api.NewIterationWorker(stage.IterationDuration, stage.Rate)\n\t\t\tdoWork(stageCtx, output, workersPkgNew(options), options)")
add("c03-increment-by-two", ["C03"], W + "pool_manager.go", "iteration := m.iteration.Add(1)", "iteration := m.iteration.Add(2)")
# ---------------- C04
add("c04-shared-state", ["C04", "C07"], W + "pool_manager.go",
    "\tfor i := range numWorkers {\n\t\tstatePool[i] = m.activeScenario.newIterationState()\n\t}",
    "\tshared := m.activeScenario.newIterationState()\n\tfor i := range numWorkers {\n\t\tstatePool[i] = shared\n\t}")
add("c04-go-run", ["C04"], W + "trigger_pool.go",
    "\t\t\tp.manager.activeScenario.Run(iterationState)", "\t\t\tgo p.manager.activeScenario.Run(iterationState)")
add("c04-no-start-wait", ["C04"], W + "trigger_pool.go", "\tstartedWg.Wait()\n", "")
add("c04-continuous-no-wait", ["C04"], W + "continuous_pool.go", "\tworkersStarted.Done()\n\tworkersStarted.Wait()\n", "\tworkersStarted.Done()\n")
add("c04-one-extra-state", ["C04"], W + "trigger_pool.go",
    "iterationStatePool: m.makeIterationStatePool(numWorkers),\n\t\tmanager:            m,\n\t\tjobsAvailableCond", "iterationStatePool: m.makeIterationStatePool(numWorkers + 1),\n\t\tmanager:            m,\n\t\tjobsAvailableCond")
# ---------------- C05
add("c05-progress-callback-nested-read", ["C05"], "internal/run/test_runner.go",
    "\t\tresult.SnapshotProgress(rate)\n", "\t\tresult.SnapshotProgress(rate)\n\t\t_ = result.Failed()\n")
add("c05-no-completion-timeout", ["C05", "C06"], "internal/run/test_runner.go",
    "\t\tselect {\n\t\tcase <-poolManager.WaitForCompletion():\n\t\tcase <-time.After(r.waitForCompletionTimeout):\n\t\t\tr.output.Display(ui.WarningMessage{\n\t\t\t\tMessage: fmt.Sprintf(\"Active tests not completed after %s. Stopping...\", r.waitForCompletionTimeout.String()),\n\t\t\t})\n\t\t}\n\n\tcase <-triggerCtx.Done():",
    "\t\t<-poolManager.WaitForCompletion()\n\n\tcase <-triggerCtx.Done():")
add("c05-runner-done-arm-loops", ["C05", "C18"], "internal/raterun/runner.go",
    "\t\t\tcase <-schedulesCtx.Done():\n\t\t\t\tr.schedules.stop()\n\t\t\t\treturn\n", "\t\t\tcase <-schedulesCtx.Done():\n\t\t\t\tr.schedules.stop()\n")
add("c05-no-cancel-watcher", ["C05"], W + "continuous_pool.go",
    "\tgo func() {\n\t\t<-workerCtx.Done()\n\t\tp.stopWorkers.Store(true)\n\t}()\n", "\t_ = workerCtx\n")
add("c05-gettotals-nested-lock", ["C05"], "internal/run/result.go",
    "\tr.snapshot = r.progressStats.Total()\n", "\t_ = r.Snapshot()\n\tr.snapshot = r.progressStats.Total()\n")
add("c05-no-progress-stop", ["C05"], "internal/run/test_runner.go", "\tr.progressRunner.Stop()\n", "")
add("c05-trigger-cancel-not-deferred", ["C05"], "internal/run/test_runner.go",
    "\tdefer triggerCancel()\n", "\t_ = triggerCancel\n")
add("c05-trigger-gets-caller-ctx", ["C05"], "internal/run/test_runner.go",
    "r.trigger.Trigger(triggerCtx, r.output, poolManager, r.options)", "r.trigger.Trigger(ctx, r.output, poolManager, r.options)")
# ---------------- C06
add("c06-teardown-defer-after-failure-check", ["C06"], "internal/run/test_runner.go",
    "\tteardownContext := xcontext.Detach(ctx)\n\tdefer r.teardownActiveScenario(teardownContext)\n\n\tif r.activeScenario.Failed() {\n\t\treturn r.reportSetupFailure(ctx), nil\n\t}\n",
    "\tif r.activeScenario.Failed() {\n\t\treturn r.reportSetupFailure(ctx), nil\n\t}\n\n\tteardownContext := xcontext.Detach(ctx)\n\tdefer r.teardownActiveScenario(teardownContext)\n")
add("c06-forward-cleanup-loop", ["C06"], "pkg/f1/testing/t.go",
    "\tfor i := len(t.teardownStack) - 1; i >= 0; i-- {", "\tfor i := 0; i < len(t.teardownStack); i++ {")
add("c06-reset-keeps-stack", ["C06", "C07"], "pkg/f1/testing/t.go",
    "\tt.tearingDown = false\n\tt.teardownStack = []func(){}\n}", "\tt.tearingDown = false\n}")
add("c06-no-iteration-teardown", ["C06"], W + "active_scenario.go", "\tdefer state.teardown()\n\n", "")
add("c06-setup-twice", ["C06", "C16"], "internal/run/test_runner.go",
    "\tr.activeScenario.Setup()\n", "\tr.activeScenario.Setup()\n\tif r.activeScenario.Failed() {\n\t\tr.activeScenario.Setup()\n\t}\n")
add("c06-run-despite-setup-failure", ["C06", "C08"], "internal/run/test_runner.go",
    "\tif r.activeScenario.Failed() {\n\t\treturn r.reportSetupFailure(ctx), nil\n\t}\n", "\tif r.activeScenario.Failed() {\n\t\tr.reportSetupFailure(ctx)\n\t}\n")
add("c06-cleanup-loop-stops-at-one", ["C06"], "pkg/f1/testing/t.go",
    "\tfor i := len(t.teardownStack) - 1; i >= 0; i-- {", "\tfor i := len(t.teardownStack) - 1; i > 0; i-- {")
# ---------------- C07
add("c07-recover-in-helper", ["C07", "C06", "C20"], "pkg/f1/testing/t.go",
    "\thandlePanic(t, recover())\n", "\thandlePanic(t, nil)\n")
add("c07-errorf-without-fail", ["C07"], "pkg/f1/testing/t.go",
    "func (t *T) Errorf(format string, args ...interface{}) {\n\tt.logger.Error(fmt.Sprintf(format, args...))\n\tt.Fail()\n}",
    "func (t *T) Errorf(format string, args ...interface{}) {\n\tt.logger.Error(fmt.Sprintf(format, args...))\n}")
add("c07-reset-keeps-failed", ["C07"], "pkg/f1/testing/t.go", "\tt.failed.Store(false)\n\tt.teardownFailed.Store(false)\n", "\tt.teardownFailed.Store(false)\n")
add("c07-failnow-marks-only-teardown", ["C07"], "pkg/f1/testing/t.go",
    "func (t *T) FailNow() {\n\tif t.tearingDown {\n\t\tt.teardownFailed.Store(true)\n\t} else {\n\t\tt.failed.Store(true)\n\t}\n",
    "func (t *T) FailNow() {\n\tif t.tearingDown {\n\t\tt.teardownFailed.Store(true)\n\t}\n")
add("c07-body-outside-recovered-frame", ["C07", "C20"], W + "active_scenario.go",
    "\tfunc() {\n\t\tdefer testing.CheckResults(state.t, nil)\n\t\ts.scenario.RunFn(state.t)\n\t}()\n\n\tfailed",
    "\tfunc() {\n\t\tdefer testing.CheckResults(state.t, nil)\n\t}()\n\ts.scenario.RunFn(state.t)\n\n\tfailed")
# ---------------- C08
add("c08-share-over-started", ["C08"], "internal/progress/stats.go",
    "s.FailedIterationDurations.Count*100 > ratePercent*s.Iterations()", "s.FailedIterationDurations.Count*100 > ratePercent*s.IterationsStarted()")
add("c08-share-geq", ["C08"], "internal/progress/stats.go",
    "s.FailedIterationDurations.Count*100 > ratePercent*s.Iterations()", "s.FailedIterationDurations.Count*100 >= ratePercent*s.Iterations()")
add("c08-cli-ignores-failed", ["C08"], "internal/run/run_cmd.go",
    "\t\t} else if result.Failed() {\n\t\t\treturn errors.New(\"load test failed - see log for details\")\n\t\t}\n", "\t\t}\n\t\t_ = errors.New\n")
add("c09-double-eval", ["C09"], "internal/trigger/api/iteration_worker.go",
    "\t\t\t\titerationRate := rate(start)\n", "\t\t\t\titerationRate := rate(start) + rate(start)\n")
add("c09-trigger-plus-one", ["C09"], "internal/trigger/api/iteration_worker.go",
    "pool.Trigger(workerCtx, iterationRate)", "pool.Trigger(workerCtx, iterationRate+1)")
add("c09-half-period", ["C09"], "internal/trigger/api/iteration_worker.go",
    "time.NewTicker(iterationDuration)", "time.NewTicker(iterationDuration / 2)")
add("c09-no-first-trigger", ["C09"], "internal/trigger/api/iteration_worker.go",
    "\t\tpool.Trigger(workerCtx, startRate)\n", "\t\t_ = startRate\n")
add("c09-sender-doubles", ["C09"], W + "trigger_pool.go", "\tp.sendJobsForExecution(numJobs)\n}", "\tp.sendJobsForExecution(numJobs * 2)\n}")
# ---------------- C10
S_ = "internal/trigger/staged/"
add("c10-chain-from-start", ["C10"], S_ + "calculator.go",
    "newStage.StartTarget = s.stages[len(s.stages)-1].EndTarget", "newStage.StartTarget = s.stages[len(s.stages)-1].StartTarget")
add("c10-maxduration-assign", ["C10"], S_ + "calculator.go", "\t\tmaxDuration += stage.Duration", "\t\tmaxDuration = stage.Duration")
add("c10-trigger-duration-dropped", ["C10"], S_ + "staged_rate.go",
    "\t\t\t\t\tDuration: rates.Duration,\n", "")
add("c10-after-end-last-target", ["C10"], S_ + "calculator.go",
    "\tif s.current > len(s.stages)-1 {\n\t\treturn 0\n\t}\n\t// interpolate", "\tif s.current > len(s.stages)-1 {\n\t\treturn s.stages[len(s.stages)-1].EndTarget\n\t}\n\t// interpolate")
add("c10-ramp-after-end-endrate", ["C10"], "internal/trigger/ramp/ramp_rate.go",
    "\t\tif startTime.Add(duration).Before(now) {\n\t\t\treturn 0\n\t\t}", "\t\tif startTime.Add(duration).Before(now) {\n\t\t\treturn endRate\n\t\t}")
add("c10-advance-wrong-stage", ["C10"], S_ + "calculator.go",
    "now.Sub(s.start)+1 > s.stages[s.current].Duration {", "now.Sub(s.start)+1 > s.stages[0].Duration {")
# ---------------- C11
G_ = "internal/trigger/gaussian/gaussian_rate.go"
add("c11-remainder-zero", ["C11"], G_, "\tc.remainder = rateWithRemainder - floorRate", "\tc.remainder = 0")
add("c11-remainder-uncarried", ["C11"], G_, "\tc.remainder = rateWithRemainder - floorRate", "\tc.remainder = rate - floorRate")
add("c11-round-instead-of-floor", ["C11"], G_, "\tfloorRate := math.Floor(rateWithRemainder)", "\tfloorRate := math.Round(rateWithRemainder)")
# ---------------- C12
D_ = "internal/trigger/api/iteration_distribution.go"
add("c12-eval-every-subtick", ["C12"], D_,
    "\t\tif remainingSteps == 0 {\n\t\t\tremainingRate = rateFn(time)\n\t\t\tremainingSteps = tickSteps\n\t\t}",
    "\t\tremainingRate = rateFn(time)\n\t\tif remainingSteps == 0 {\n\t\t\tremainingSteps = tickSteps\n\t\t}")
add("c12-no-last-step-arm", ["C12"], D_, "\t\tif remainingSteps == 1 || remainingRate <= 0 {", "\t\tif remainingRate <= 0 {")
add("c12-no-clamp", ["C12"], D_,
    "\t\t\tcurrentRate = randFn(remainingRate)\n\n\t\t\tif currentRate > remainingRate {\n\t\t\t\tcurrentRate = remainingRate\n\t\t\t}\n", "\t\t\tcurrentRate = randFn(remainingRate)\n")
add("c12-none-returns-100ms", ["C12"], D_,
    "\tcase NoneDistribution:\n\t\treturn iterationDuration, rateFn, nil", "\tcase NoneDistribution:\n\t\treturn 100 * time.Millisecond, rateFn, nil")
add("c12-regular-no-decrement", ["C12"], D_,
    "\t\taccRate = math.Ceil(accRate*10_000_000) / 10_000_000\n\t\tremainingSteps--\n\n\t\tif accRate < 1 {\n\t\t\treturn 0\n\t\t}",
    "\t\taccRate = math.Ceil(accRate*10_000_000) / 10_000_000\n\n\t\tif accRate < 1 {\n\t\t\tremainingSteps--\n\t\t\treturn 0\n\t\t}")
# ---------------- C13
J_ = "internal/trigger/api/iteration_jitter.go"
add("c13-no-clamp", ["C13"], J_, "\t\trounded := math.Max(0, math.Round(proposed))", "\t\trounded := math.Round(proposed)")
add("c13-balance-from-uncarried", ["C13"], J_, "\t\tbalance = requestedRate - rounded", "\t\tbalance = float64(rate(now)) - rounded")
add("c13-zero-jitter-other-fn", ["C13"], J_, "\tif multiple == 0 {\n\t\treturn rate\n\t}", "\tif multiple == 0 {\n\t\treturn func(time.Time) int { return 0 }\n\t}")
# ---------------- C14
add("c14-stage-elements-gt", ["C14"], S_ + "stage.go", "\t\tif len(stageElement) != 2 {", "\t\tif len(stageElement) > 2 {")
add("c14-distribution-guard-after-use", ["C14"], D_,
    "\tif iterationDuration <= 0 {\n\t\treturn iterationDuration, rateFn, fmt.Errorf(\"iteration duration %s must be positive\", iterationDuration)\n\t}\n\n", "")
add("c14-flag-concurrency-unchecked", ["C14"], "internal/run/run_cmd.go",
    "\t\t\tif concurrency < 1 {\n\t\t\t\treturn fmt.Errorf(\"concurrency %d can't be less than 1\", concurrency)\n\t\t\t}\n", "")
add("c14-mode-unchecked", ["C14"], "internal/trigger/file/file_parser.go",
    "\tif s.Mode == nil {\n\t\tif defaults.Mode == nil {\n\t\t\treturn nil, fmt.Errorf(\"missing stage mode at stage %d\", idx)\n\t\t}\n\t\ts.Mode = defaults.Mode\n\t}\n",
    "\tif s.Mode == nil {\n\t\ts.Mode = defaults.Mode\n\t}\n")
# ---------------- C15
F_ = "internal/trigger/file/"
add("c15-before", ["C15"], F_ + "file_parser.go", "stageStart.Add(stagesTotalDuration).After(now)", "stageStart.Add(stagesTotalDuration).Before(now)")
add("c15-endrate-from-startrate", ["C15"], F_ + "file_parser.go", "\t\ts.EndRate = defaults.EndRate", "\t\ts.EndRate = defaults.StartRate")
add("c15-swapped-ramp-args", ["C15"], F_ + "file_parser.go",
    "\t\t\t*validatedRampStage.StartRate,\n\t\t\t*validatedRampStage.EndRate,", "\t\t\t*validatedRampStage.EndRate,\n\t\t\t*validatedRampStage.StartRate,")
add("c15-maxfailures-from-rate", ["C15"], F_ + "file_rate.go", "MaxFailures:     runnableStages.maxFailures,", "MaxFailures:     uint64(runnableStages.maxFailuresRate),")
add("c15-go-runstage", ["C15"], F_ + "stages_worker.go", "\t\t\trunStage(ctx, output, workers, stage, options)", "\t\t\tgo runStage(ctx, output, workers, stage, options)")
add("c15-prepend", ["C15"], F_ + "file_parser.go", "\t\t\tstages = append(stages, *parsedStage)", "\t\t\tstages = append([]runnableStage{*parsedStage}, stages...)")
add("c15-runstage-no-join-on-cancel", ["C15"], F_ + "stages_worker.go", "\tcase <-ctx.Done():\n\t\t<-stageDone\n\t\treturn", "\tcase <-ctx.Done():\n\t\treturn")
# ---------------- C16
M_ = "internal/metrics/metrics.go"
add("c16-swapped-label-values", ["C16"], M_,
    "labels := append([]string{name, IterationStage, result.String()}, metrics.staticMetricLabelValues...)", "labels := append([]string{name, result.String(), IterationStage}, metrics.staticMetricLabelValues...)")
add("c16-values-from-map-range", ["C16"], M_,
    "\tfor _, v := range sortedKeys(staticMetrics) {\n\t\tdata = append(data, staticMetrics[v])\n\t}", "\tfor _, v := range staticMetrics {\n\t\tdata = append(data, v)\n\t}")
add("c16-reset-skips-setup", ["C16"], M_, "\tmetrics.Iteration.Reset()\n\tmetrics.Setup.Reset()\n", "\tmetrics.Iteration.Reset()\n")
add("c16-reset-after-setup", ["C16"], "internal/run/test_runner.go",
    "\tr.metrics.Reset()\n\n\tr.activeScenario.Setup()\n", "\tr.activeScenario.Setup()\n\n\tr.metrics.Reset()\n")
# ---------------- C17
add("c17-teardown-between-clocks", ["C17"], W + "active_scenario.go",
    "\tdefer state.teardown()\n\n\tstart := xtime.NanoTime()\n\tfunc() {\n\t\tdefer testing.CheckResults(state.t, nil)\n\t\ts.scenario.RunFn(state.t)\n\t}()\n\n\tfailed := state.t.Failed()\n",
    "\tstart := xtime.NanoTime()\n\tfunc() {\n\t\tdefer testing.CheckResults(state.t, nil)\n\t\ts.scenario.RunFn(state.t)\n\t}()\n\n\tfailed := state.t.Failed()\n\tstate.teardown()\n")
add("c17-count-from-sum", ["C17"], "internal/progress/average.go", "\ti.count.Add(other.count.Load())", "\ti.count.Add(other.sum.Load())")
add("c17-min-from-max", ["C17"], "internal/progress/average.go", "\t\tMin:     time.Duration(i.min.Load()),", "\t\tMin:     time.Duration(i.max.Load()),")
add("c17-drain-forgets-min", ["C17"], "internal/progress/average.go", "\tother.min.Store(i.min.Swap(0))\n", "")
add("c17-setup-clock-after", ["C17"], W + "active_scenario.go",
    "func (s *ActiveScenario) Setup() {\n\tstart := xtime.NanoTime()\n\tfunc() {\n\t\tdefer testing.CheckResults(s.t, nil)\n\n\t\ts.scenario.RunFn = s.scenario.ScenarioFn(s.t)\n\t}()\n",
    "func (s *ActiveScenario) Setup() {\n\tfunc() {\n\t\tdefer testing.CheckResults(s.t, nil)\n\n\t\ts.scenario.RunFn = s.scenario.ScenarioFn(s.t)\n\t}()\n\tstart := xtime.NanoTime()\n")
# ---------------- C18
add("c18-fn-on-restart-arm", ["C18"], "internal/raterun/runner.go",
    "\t\t\tcase <-r.restart:\n\t\t\t\tr.schedules.startFirst()\n", "\t\t\tcase <-r.restart:\n\t\t\t\tr.schedules.startFirst()\n\t\t\t\tr.runFunction(r.schedules.currentFrequency())\n")
add("c18-stop-waits-before-cancel", ["C18", "C05"], "internal/raterun/runner.go", "\tr.cancel()\n\t<-r.stopped", "\t<-r.stopped\n\tr.cancel()")
add("c18-restart-keeps-schedule", ["C18"], "internal/raterun/runner.go", "func (s *schedules) startFirst() {\n\ts.start(0)", "func (s *schedules) startFirst() {\n\ts.start(s.currentScheduleIndex)")
add("c18-next-skips-one", ["C18"], "internal/raterun/runner.go", "\ts.start(s.currentScheduleIndex + 1)", "\ts.start(s.currentScheduleIndex + 2)")
add("c18-period-from-startdelay", ["C18"], "internal/raterun/runner.go",
    "s.ticker = time.NewTicker(s.list[s.currentScheduleIndex].Frequency)", "s.ticker = time.NewTicker(s.list[s.currentScheduleIndex].StartDelay + time.Second)")
# ---------------- C19
V_ = "internal/run/views/"
add("c19-log-swapped-counts", ["C19"], V_ + "result.go",
    "\t\td.SuccessfulIterationCount,\n\t\td.FailedIterationCount,\n\t\td.DroppedIterationCount,\n\t\td.Duration,", "\t\td.FailedIterationCount,\n\t\td.SuccessfulIterationCount,\n\t\td.DroppedIterationCount,\n\t\td.Duration,")
add("c19-failed-key-bound-to-dropped", ["C19"], "internal/log/attrs.go", "slog.Uint64(\"failed\", failed),", "slog.Uint64(\"failed\", dropped),")
add("c19-summary-failed-from-success", ["C19"], "internal/run/result.go",
    "\t\tFailedIterationCount:         r.snapshot.FailedIterationDurations.Count,", "\t\tFailedIterationCount:         r.snapshot.SuccessfulIterationDurations.Count,")
add("c19-banner-on-error", ["C19"], V_ + "result.go", "{{if .Failed -}}", "{{if .Error -}}")
add("c19-tty-notty-mixed", ["C19"], V_ + "views.go", "\t\t\tnotty: notty.result,", "\t\t\tnotty: notty.progress,")
# ---------------- C20
add("c20-captured-handle", ["C20"], "pkg/f1/f1_scenarios.go",
    "\t\treturn func(t *testing.T) {\n\t\t\tfor _, r := range run {\n\t\t\t\tr(t)", "\t\treturn func(_ *testing.T) {\n\t\t\tfor _, r := range run {\n\t\t\t\tr(t)")
add("c20-reverse-loop", ["C20"], "pkg/f1/f1_scenarios.go",
    "\t\t\tfor _, r := range run {\n\t\t\t\tr(t)\n\t\t\t}", "\t\t\tfor i := len(run) - 1; i >= 0; i-- {\n\t\t\t\trun[i](t)\n\t\t\t}")
add("c20-go-component", ["C20"], "pkg/f1/f1_scenarios.go", "\t\t\t\tr(t)\n", "\t\t\t\tgo r(t)\n")
add("c20-local-recover", ["C20"], "pkg/f1/f1_scenarios.go",
    "\t\t\t\tr(t)\n", "\t\t\t\tfunc() {\n\t\t\t\t\tdefer func() { _ = recover() }()\n\t\t\t\t\tr(t)\n\t\t\t\t}()\n")
add("c20-skip-first", ["C20"], "pkg/f1/f1_scenarios.go", "\t\t\tfor _, r := range run {", "\t\t\tfor _, r := range run[1:] {")

# ---------------- reverted repairs: each `fix:` commit of /repo, undone, is a seeded defect (DESIGN §8)
add("fix-revert-c18-join-in-start-frame", ["C18", "C05"], "internal/raterun/runner.go",
    "\tgo func() {\n\t\tdefer close(r.stopped)\n\n\t\tfor {", "\tdefer close(r.stopped)\n\n\tgo func() {\n\t\tfor {")
add("fix-revert-c14-empty-unit", ["C14"], "internal/trigger/rate/rate.go",
    "\t\tif unitArg == \"\" {\n\t\t\treturn rate, unit, fmt.Errorf(\"unable to parse unit %s: missing unit\", rateArg)\n\t\t}\n", "")
add("fix-revert-c14-zero-unit", ["C14"], "internal/trigger/rate/rate.go",
    "\t\tif unit <= 0 {\n\t\t\treturn rate, unit, fmt.Errorf(\"unit of rate %s must be positive\", rateArg)\n\t\t}\n", "")
add("fix-revert-c14-zero-interval", ["C14"], "internal/trigger/api/iteration_distribution.go",
    "\tif iterationDuration <= 0 {\n\t\treturn iterationDuration, rateFn, fmt.Errorf(\"iteration duration %s must be positive\", iterationDuration)\n\t}\n\n", "")
add("fix-revert-c14-limits-concurrency", ["C14"], "internal/trigger/file/file_parser.go",
    "\tif *c.Limits.Concurrency < 1 {\n\t\treturn nil, fmt.Errorf(\"concurrency %d can't be less than 1\", *c.Limits.Concurrency)\n\t}\n", "")
add("fix-revert-c14-users-concurrency", ["C14"], "internal/trigger/file/file_parser.go",
    "\tif *s.Concurrency < 1 {\n\t\treturn nil, fmt.Errorf(\"users %d can't be less than 1 at stage %d\", *s.Concurrency, idx)\n\t}\n", "")
add("fix-revert-c14-negative-stage-target", ["C14"], "internal/trigger/staged/stage.go",
    "\t\tif target < 0 {\n\t\t\treturn nil, fmt.Errorf(\"target %s in stage %d can't be negative: %s\", stageElement[1], i, stageElements)\n\t\t}\n", "")
add("fix-revert-c14-random-bound", ["C14"], D_, "\t\tif remainingSteps == 1 || remainingRate <= 0 {", "\t\tif remainingSteps == 1 || remainingRate == 0 {")
add("fix-revert-c11-covered-region", ["C11", "C14"], "internal/trigger/gaussian/gaussian_rate.go",
    "\tif coveredRegion <= 0 {\n\t\treturn nil, fmt.Errorf(\n\t\t\t\"the distribution does not cover the repeat window %s (it must be longer than the iteration frequency %s)\",\n\t\t\trepeatWindow, frequency,\n\t\t)\n\t}\n", "")
add("fix-revert-c11-negative-volume", ["C11", "C14"], "internal/trigger/gaussian/gaussian_rate.go",
    "\tif volume < 0 {\n\t\treturn nil, fmt.Errorf(\"volume %v must not be negative\", volume)\n\t}\n\n", "")
add("fix-revert-c11-zero-weights", ["C11", "C14"], "internal/trigger/gaussian/gaussian_rate.go",
    "\t\tif averageWeight <= 0 {\n\t\t\treturn nil, errors.New(\"at least one weight must be positive\")\n\t\t}\n", "\t\t_ = errors.New\n")
add("fix-revert-c02-phantom-drops", ["C02"], W + "trigger_pool.go",
    "\tif p.manager.MaxIterationsReached() {\n\t\treturn\n\t}\n", "")
add("fix-revert-c05-users-bare-wait", ["C05"], "internal/trigger/users/users_rate.go",
    "\t\tselect {\n\t\tcase <-workers.WaitForCompletion():\n\t\tcase <-ctx.Done():\n\t\t}\n", "\t\t<-workers.WaitForCompletion()\n")

expect = {}
bad = []
for i, props, f, old, new in S:
    src = open(os.path.join(REPO, f)).read()
    if src.count(old) != 1:
        bad.append((i, f, src.count(old)))
        continue
    dst = src.replace(old, new)
    if i == "c03-manager-per-stage":
        dst = dst.replace("func runStage(", "func workersPkgNew(o options.RunOptions) *workers.PoolManager { return workers.New(o.MaxIterations, nil) }\n\nfunc runStage(")
    d = "".join(difflib.unified_diff(src.splitlines(True), dst.splitlines(True), "a/" + f, "b/" + f))
    open(os.path.join(out, i + ".diff"), "w").write(d)
    expect[i] = props
for b in bad:
    print("DOES NOT APPLY:", b)
json.dump(expect, open(os.path.join(out, "expect.json"), "w"), indent=1, sort_keys=True)
print(len(expect), "synthetic diffs written;", len(bad), "stale")

if "--check-build" in sys.argv:
    import shutil, tempfile
    env = dict(os.environ, GOFLAGS="-mod=mod", GOPROXY="off", GOSUMDB="off", GOTOOLCHAIN="local")
    wt = tempfile.mkdtemp(prefix="synbuild", dir="/tmp")
    subprocess.run(f"git -C {REPO} worktree add -q --detach {wt}/w HEAD", shell=True, check=True)
    try:
        for i in sorted(expect):
            subprocess.run(f"git checkout -q -- . && git apply {out}/{i}.diff", shell=True, cwd=wt + "/w", check=True)
            p = subprocess.run("go build ./... && go vet ./... 2>&1 | grep -v '^#' | head -3", shell=True, cwd=wt + "/w", env=env, capture_output=True, text=True)
            if p.returncode != 0 or p.stdout.strip() or p.stderr.strip():
                print("BUILD/VET PROBLEM", i, (p.stdout + p.stderr)[:300])
    finally:
        subprocess.run(f"git -C {REPO} worktree remove --force {wt}/w", shell=True)
        shutil.rmtree(wt, ignore_errors=True)
