#!/usr/bin/env python3
"""combo.py [filter] — detection under refactoring: every seeded / synthetic change combined with every control
refactoring of the same property (when the two patches apply together) must still be reported by that property.
Development tool (not registered)."""
import json, os, subprocess, sys, tempfile, concurrent.futures as cf
here = os.path.dirname(os.path.abspath(__file__)); verif = os.path.dirname(here)
flt = sys.argv[1] if len(sys.argv) > 1 else ""
exp = json.load(open(os.path.join(here, "expect.json")))
defects = [(sid, os.path.join(verif, "seeded", sid, "patch.diff"), sid.split("-")[0]) for sid in sorted(exp["seeded"])]
defects += [(sid, os.path.join(here, "synthetic", sid + ".diff"), props[0]) for sid, props in sorted(exp["synthetic"].items())]
controls = sorted(f for f in os.listdir(os.path.join(here, "controls")) if f.endswith(".diff"))
jobs = []
for sid, patch, prop in defects:
    if prop not in exp["seeded"].get(sid, exp["synthetic"].get(sid, [])):
        continue
    for c in controls:
        if c.startswith(prop + "-") and (flt in sid or flt in c):
            jobs.append((sid, patch, prop, c))

def run(j):
    sid, patch, prop, c = j
    with tempfile.TemporaryDirectory(prefix="f1combo", dir="/tmp") as td:
        # build the combined overlay: copy touched files, apply control then defect (strict)
        files = set()
        for p in (os.path.join(here, "controls", c), patch):
            out = subprocess.run(["git", "-C", "/repo", "apply", "--numstat", p], capture_output=True, text=True).stdout
            files |= {l.split("\t")[2] for l in out.splitlines() if l.strip()}
        for f in files:
            os.makedirs(os.path.join(td, os.path.dirname(f)), exist_ok=True)
            if os.path.exists(os.path.join("/repo", f)):
                subprocess.run(["cp", os.path.join("/repo", f), os.path.join(td, f)])
        for p in (os.path.join(here, "controls", c), patch):
            r = subprocess.run(f"patch -s -p1 -F0 --no-backup-if-mismatch < {p}", shell=True, cwd=td, capture_output=True, text=True)
            if r.returncode != 0:
                return j, "skip", ""
        r = subprocess.run([os.path.join(verif, "bin/f1lint"), "-prop", prop, "-repo", "/repo", "-verif", verif, "-overlay", td, "-no-evidence"], capture_output=True, text=True)
        if "load/type errors" in r.stdout:
            return j, "skip", ""
        return j, ("ok" if f"VIOLATION property={prop}" in r.stdout else "MISSED"), r.stdout

n = {"ok": 0, "skip": 0, "MISSED": 0}
with cf.ThreadPoolExecutor(max_workers=10) as ex:
    for j, st, out in ex.map(run, jobs):
        n[st] += 1
        if st == "MISSED":
            und = [l for l in out.splitlines() if l.startswith("UNDECIDED")][:2]
            print(f"[MISSED] {j[0]} + {j[3][:-5]} ({j[2]})", "; ".join(u[:160] for u in und))
print(n)
