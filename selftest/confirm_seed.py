#!/usr/bin/env python3
"""confirm_seed.py <src_dir> <Cxx> <n> [--feature]

Independently confirms a seeded change produced by a sub-agent, in a scratch worktree of /repo
(never in /repo itself): it applies, builds, vets, the existing suite still passes, the demonstration
fails with the change and passes without it. On success the change is stored as /verif/seeded/<Cxx>-<n>/.
"""
import json, os, shutil, subprocess, sys, time

src, prop, n = sys.argv[1], sys.argv[2], sys.argv[3]
# --feature: the change adds a feature and the demonstration exercises it, so the demonstration cannot compile
# without the change; "passes without the change" is then replaced by "does not build without it"
feature = "--feature" in sys.argv[4:]
name = f"{prop}-{n}"
verif = os.path.dirname(os.path.dirname(os.path.abspath(__file__)))
wt = f"/tmp/confirm/{name}"
env = dict(os.environ, GOFLAGS="-mod=mod", GOPROXY="off", GOSUMDB="off", GOTOOLCHAIN="local")
env.pop("GOWORK", None)
log = []


def run(cmd, cwd=wt, timeout=900):
    p = subprocess.run(cmd, shell=True, cwd=cwd, env=env, capture_output=True, text=True, timeout=timeout)
    log.append({"cmd": cmd, "rc": p.returncode, "tail": (p.stdout + p.stderr)[-1500:]})
    return p.returncode, p.stdout + p.stderr


def suite():
    """the existing suite; packages that fail are re-run alone (timing tests flake under load)"""
    rc, out = run("go test -vet=off -count=1 ./... 2>&1 | grep -v 'no test files'")
    failed = [l.split()[1] for l in out.splitlines() if l.startswith("FAIL\t")]
    still = []
    for pkg in failed:
        ok = False
        for _ in range(3):
            rc2, _ = run(f"go test -vet=off -count=1 {pkg}")
            if rc2 == 0:
                ok = True
                break
        if not ok:
            still.append(pkg)
    return failed, still


os.makedirs("/tmp/confirm", exist_ok=True)
subprocess.run(f"git -C /repo worktree remove --force {wt}", shell=True, capture_output=True)
shutil.rmtree(wt, ignore_errors=True)
subprocess.run(f"git -C /repo worktree add -q --detach {wt} HEAD", shell=True, check=True)
result = {"id": name, "property": prop, "confirmed": False}
try:
    patch = os.path.join(src, "patch.diff")
    where = open(os.path.join(src, "demo_where.txt")).read().strip().splitlines()[0].strip().strip("`").rstrip("/")
    demo_run = [l for l in open(os.path.join(src, "demo_run.txt")).read().strip().splitlines() if l.strip().startswith("go ")][0].strip()
    rc, out = run(f"git apply --check {patch}")
    assert rc == 0, "patch does not apply: " + out
    touched = subprocess.run(f"git apply --numstat {patch}", shell=True, cwd=wt, capture_output=True, text=True).stdout.split("\n")
    touched = [l.split("\t")[2] for l in touched if l.strip()]
    assert all(not t.endswith("_test.go") for t in touched), "patch touches test files"
    run(f"git apply {patch}")
    rc, out = run("go build ./...")
    assert rc == 0, "does not build: " + out
    pkgs = sorted({"./" + os.path.dirname(t) + "/" for t in touched if t.endswith(".go")})
    rc, out = run("go vet " + " ".join(pkgs))
    assert rc == 0, "go vet: " + out
    failed, still = suite()
    assert not still, f"existing suite fails with the change: {still}"
    result["suite_with_change"] = {"flaky_first_run": failed, "failing_after_rerun": still}
    # demonstration with the change
    demo_dst = os.path.join(wt, where, "zz_seeded_demo_test.go")
    shutil.copy(os.path.join(src, "demo_test.go"), demo_dst)
    fails = 0
    for _ in range(2):
        rc, out = run(demo_run, timeout=1200)
        if rc != 0:
            fails += 1
    assert fails == 2, "demonstration does not fail (2/2) with the change"
    result["demo_with_change"] = "FAIL 2/2"
    # without the change
    rc, out = run(f"git apply -R {patch}")
    assert rc == 0, "cannot revert the change: " + out
    rc, out = run(demo_run, timeout=1200)
    if feature and rc != 0 and ("[build failed]" in out or "undefined:" in out or "unknown field" in out or "has no field or method" in out):
        result["demo_without_change"] = "does not build (it exercises the added feature)"
    else:
        assert rc == 0, "demonstration fails on the clean tree: " + out[-800:]
        result["demo_without_change"] = "PASS"
    result["confirmed"] = True
    result["touched"] = touched
    result["demo_where"] = where
    result["demo_run"] = demo_run
except AssertionError as e:
    result["error"] = str(e)
except Exception as e:  # noqa
    result["error"] = repr(e)
finally:
    subprocess.run(f"git -C /repo worktree remove --force {wt}", shell=True, capture_output=True)
    shutil.rmtree(wt, ignore_errors=True)

out_dir = os.path.join(verif, "seeded", name)
if result["confirmed"]:
    os.makedirs(out_dir, exist_ok=True)
    for f in ["patch.diff", "demo_test.go", "demo_where.txt", "demo_run.txt", "README.md"]:
        if os.path.exists(os.path.join(src, f)):
            shutil.copy(os.path.join(src, f), os.path.join(out_dir, f))
    # go tooling must not treat the stored demo as part of any module
    os.rename(os.path.join(out_dir, "demo_test.go"), os.path.join(out_dir, "demo_test.go.txt"))
    readme = open(os.path.join(src, "README.md")).read() if os.path.exists(os.path.join(src, "README.md")) else ""
    meta = {
        "id": name, "breaks_property": prop,
        "needs_to_manifest": "see README.md (written by the sub-agent that produced the change)",
        "files_changed": result["touched"],
        "demonstration": {"copy": "demo_test.go.txt", "to": result["demo_where"] + "/zz_seeded_demo_test.go", "run": result["demo_run"]},
        "what_was_run": [l["cmd"] for l in log],
        "results": {k: result[k] for k in ["suite_with_change", "demo_with_change", "demo_without_change"]},
        "confirmed_at": time.strftime("%Y-%m-%dT%H:%M:%SZ", time.gmtime()),
        "base_commit": subprocess.run("git -C /repo rev-parse --short HEAD", shell=True, capture_output=True, text=True).stdout.strip(),
    }
    json.dump(meta, open(os.path.join(out_dir, "meta.json"), "w"), indent=1)
print(json.dumps({k: v for k, v in result.items() if k != "log"}))
json.dump({"result": result, "log": log}, open(f"/tmp/confirm/{name}.log.json", "w"), indent=1)
