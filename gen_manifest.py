#!/usr/bin/env python3
"""Regenerates MANIFEST.json. A property is claimed iff a rule set is registered for it in the tool."""
import json, re, glob, os

here = os.path.dirname(os.path.abspath(__file__))
registered = set()
for f in glob.glob(os.path.join(here, "tool/internal/rules/*.go")):
    registered |= set(re.findall(r'register\("(C\d+)"', open(f).read()))

# id -> (what the rules decide, what is assumed / not decided, technique, design ref)
P = {
 "C01": ("Structural decision over all paths and call sites: each iteration / drop is recorded exactly once in progress stats and metrics with the outcome read after the recovered body (path multiplicity + provenance); period accumulators are drained by atomic read-and-clear whose result feeds the lifetime totals (atomic discipline); collectors are reachable only under Result.mu held for writing (who-may-call + lock state); outcome routing tables agree; final totals are taken after the workers are gone. The final totals are stored unmodified and exactly once on every path where they are taken (no earlier state decides whether they are kept).",
         "Decides the code shape from which exact counting follows for every interleaving; does not execute interleavings. Prometheus client internals trusted.",
         "go/ssa path-multiplicity, atomic-discipline, lock-state and provenance rules", "§4 C01"),
 "C02": ("RMW discipline of the pending counter (single Swap / single Add whose own result decides), drop count provenance (loop bound is the Swap result), who-may-call for the counter and for RecordDroppedIteration, limit path discards silently and the drop loop is guarded by the limit predicate, condition-variable discipline (Wait in a re-checking loop under L; falsifying writes followed by Broadcast under L). The gate a tick passes (stop flag) is closed before the final supersede of the stop function.",
         "Per-operation atomicity and wake-up discipline are decided; the full interleaving semantics of set/take/none is a state-space question and is not claimed.",
         "go/ssa atomic RMW rules, who-may-call, dominance/control-dependence, sync.Cond discipline", "§4 C02"),
 "C03": ("Single atomic increment allocates ids and both the returned id and the refusal test use its result; refusal predicate has the truth table max>0 && id>max; every ActiveScenario.Run call is preceded in the same loop iteration by a successful NextIteration whose id feeds T.Reset; one PoolManager per run, not per stage. Every pool builds its own per-worker handles (handle isolation), so no two running invocations share the handle the id is stored in.",
         "'Exactly N when the trigger keeps requesting' is liveness and not decided.",
         "go/ssa who-may-write, RMW-result dataflow, dominance, provenance", "§4 C03"),
 "C04": ("Exactly numWorkers worker goroutines, each a sequential loop that runs iterations by plain call on its own iterationState; the state pool has length numWorkers with a fresh T per index; start barrier present in both pools.",
         "That all workers do overlap in time is scheduling and not decided.",
         "go/ssa goroutine-root inventory, who-may-call, provenance of the state pool, dominance", "§4 C04"),
 "C05": ("Join of the progress reporter (C18.R1), no self-deadlocking re-acquisition of Result.mu, nested read locks only outside the region where the snapshot writer may run, stop flag set by a watcher of the worker context plus wake-up discipline, every main-goroutine wait on a user-bound event has a timeout/cancel arm, every goroutine root has an exit edge, trigger context derived from the caller's and cancelled by defer.",
         "Wall-clock bounds and goroutine absence under arbitrary scheduling are not decided; rules give the structural causes of non-termination and late activity.",
         "go/ssa lock-state dataflow, goroutine-root inventory, bounded-wait rule, dominance", "§4 C05"),
 "C06": ("Setup exactly once before the failure test and run only on its false branch; teardown deferred on every path after setup, single caller; per-iteration teardown exactly once after the body; cleanup loop runs indices len-1..0 each in its own recovered frame; who-may-write for the cleanup stack and tearingDown. The tearing-down marker is on before every cleanup call and switched off only after the cleanup ran and its outcome was classified (events, defers last-registered-first).",
         "Re-registration of cleanups during teardown is unspecified and not decided.",
         "go/ssa path multiplicity + dominance, typed-AST loop shape, who-may-write", "§4 C06"),
 "C07": ("Every dynamic call of user code (ScenarioFn, RunFn, cleanup) lies in a frame with a recovering defer registered before it; every non-sentinel recovered value reaches Fail; all failure APIs store the failed flag; failed is set only by Fail/FailNow and cleared only by Reset, which precedes every Run.",
         "Panics on goroutines started by user code cannot be contained by Go and are out of scope.",
         "go/ssa containment (recovering-defer dominance), path rules, who-may-write", "§4 C07"),
 "C08": ("Complete truth table of Result.Failed over its comparison atoms equals the specification (predicate abstraction of one function's CFG, all assignments enumerated); the share comparison contains no integer division and no truncating quotient; its denominator is all iterations; runCmdExecute returns nil only after testing Error()==nil and !Failed(); options fed from the same-named flags. The snapshot the verdict reads is the unmodified result of Stats.Total, stored exactly once on every path of the function taking the totals.",
         "Values are treated only through comparisons; cobra/os.Exit wiring trusted.",
         "decision-table enumeration over SSA comparison atoms, lossy-op dataflow, dominance", "§4 C08"),
 "C09": ("The rate function is evaluated at exactly two sites in the ticking closure: once before the loop and once per ticker receive; each result is passed unchanged to Trigger and on to the pending counter; the ticker period is the interval parameter unchanged; the loop's only other arm is context-done → return.",
         "The time bound itself rests on time.Ticker semantics and is not decided.",
         "go/ssa path multiplicity under select arms, identity dataflow", "§4 C09"),
 "C10": ("Stage chaining (start target = previous end target or 0), MaxDuration sums every stage duration once and feeds Trigger.Duration, cursor only moves forward and past-the-end returns constant 0, interpolation divides in float64.",
         "Within-1 accuracy, range and monotonicity of the interpolation are numerical and not decided.",
         "go/ssa provenance and who-may-write rules", "§4 C10"),
 "C11": ("Fraction carry template in Calculator.For (x = rate + remainder; return int(floor(x)); remainder = x - floor(x) on every path) and sign analysis of the returned value under printed assumptions.",
         "Delivered volume, peak position and weight scaling are numerical and not decided.",
         "carry-conservation template on SSA, sign abstract interpretation", "§4 C11"),
 "C12": ("Cycle protocol of both distributions (underlying rate evaluated only under remainingSteps==0 which reloads the counter; exactly one decrement per call), pass-through identity for none / short intervals, integer conservation shape of the random distribution (value subtracted is value returned, clamp, last step emits the remainder).",
         "Exact sum and evenness of the regular distribution's float accumulation are numerical and not decided.",
         "go/ssa path multiplicity on captured cells, provenance, sign analysis", "§4 C12"),
 "C13": ("Carry conservation on the balance cell (requested = rate + balance; balance = requested - rounded; return int(rounded)), outputs clamped at 0, zero-jitter early return is the identity. When the carry is lock-protected, its read and its update lie in one critical section.",
         "The bound on the running difference and the per-value jitter bound are magnitude reasoning and not decided.",
         "carry-conservation template on SSA, sign analysis", "§4 C13"),
 "C14": ("Guard rules over the input-facing code: index/slice bounds, tick-interval positivity at the NewDistribution choke point and from ParseRate, non-nil facts before every dereference of YAML-populated pointer fields, worker counts >= 1 on both the flag and the config path, integer divisors non-zero, rejection before setup. A deferred function never erases the error being returned through a named result.",
         "Meaning of unit spellings (e.g. '.5s') is string semantics and not decided; yaml.v3 decoding trusted.",
         "guard/dominance rules (bounds idioms, positivity, must-non-nil dataflow with summaries)", "§4 C14"),
 "C15": ("Skip rule shape (cumulative duration incremented before and independently of the test; stageStart nil or stageStart+cumulative After now), default-field correspondence in all validators, argument↔parameter correspondence of the four Calculate*Rate calls, limits chain one-to-one, sequential stage execution with setEnvs/unsetEnvs pairing on the same map.",
         "time.Time arithmetic and environment visibility inside user code trusted.",
         "go/ssa provenance/correspondence tables, dominance, acquire/release pairing", "§4 C15"),
 "C16": ("Label names at SummaryVec construction and label values at every WithLabelValues site agree position by position, static keys and values both derive from the sorted key list, Reset covers every vector and precedes Setup, exactly one setup observation on every path.",
         "Prometheus client internals trusted.",
         "go/ssa positional provenance, path multiplicity, dominance", "§4 C16"),
 "C17": ("Both recorded durations are the difference of the same two monotonic clock reads that bracket exactly the recovered body (teardown after the second read; first read inside Run), aggregate field correspondence (sum↔sum, count↔count, min↔min, max↔max; drain touches every field; snapshot mapping), lifetime count only grows. While recording, a period's extremes only move outwards (every plain store to min/max in Add is behind the matching comparison or the unset test).",
         "min<=mean<=max, the 0 sentinel and exactness of the integer mean are value reasoning and not decided.",
         "go/ssa dominance + provenance correspondence", "§4 C17"),
 "C18": ("Join: the channel Stop blocks on is closed only by the goroutine invoking the run function, after its last possible invocation; the function is invoked only there, under the ticker arm, once per receive; the loop exits on the derived context after stopping ticker and timer and Stop cancels before waiting; restart selects schedule 0, the timer selects current+1, the period is the selected schedule's Frequency.",
         "Tick timing rests on time.Ticker/Timer and is not decided.",
         "go/ssa who-may-call/close, select-arm dominance, reachability", "§4 C18"),
 "C19": ("All templates type-check against the data types they are executed with (fields, function names, arity, argument assignability) so rendering cannot fail; helper functions are total; count keys of the view data are fed from the matching snapshot paths; every percent is over .Iterations of the field shown; slog keys bound to the same-named counts. The totals the summary states are stored unmodified and unconditionally where they are taken.",
         "Colours and layout are covered by the existing golden tests and not decided.",
         "text/template parse-tree type check against go/types, provenance tables", "§4 C19"),
 "C20": ("Each component setup is called with the setup closure's own parameter and its result appended in loop order; each stored RunFn is called with the iteration closure's own parameter; both loops are single forward passes with no go/defer/recover. Every pool builds its own per-worker handles, so a component's failure is booked on that iteration's handle.",
         "Reported-failed relies on C07's containment rules.",
         "go/ssa provenance of call arguments, loop-shape and effect rules", "§4 C20"),
}

checks, na = [], []
for i in range(1, 21):
    pid = "C%02d" % i
    text, note, tech, ref = P[pid]
    if pid in registered:
        checks.append({
            "property_id": pid,
            "quick_cmd": "./check %s quick" % pid,
            "thorough_cmd": "./check %s thorough" % pid,
            "evidence_file": "/verif/evidence/%s.json" % pid,
            "replay_cmd_template": "./check %s --replay {path}" % pid,
            "engine": "f1lint",
            "level_claimed": {"category": "other", "text": "Static analysis (necessary structural conditions, decided for all paths/call sites of the current source): " + text, "design_ref": "DESIGN.md " + ref},
            "level_note": note + " Trusted base: go/types, go/ssa (x/tools v0.29.0), Go memory model for sync/atomic, sync and channels.",
            "technique": "static analysis: " + tech,
        })
    else:
        na.append({"property_id": pid, "reason": "check not built yet in this session (design in DESIGN.md %s); no verdict is produced for it" % ref})

m = {
    "version": 1,
    "setup_cmd": "./check build",
    "hooks": {"guard": "verif", "enable": "none needed: nothing is executed, the checker reads /repo's source", "baseline_off_cmd": "cd /repo && go test -vet=off -count=1 ./...", "source_commits": [], "add_only": True},
    "engines": [{"name": "f1lint", "path": "/verif/tool", "serves_properties": [c["property_id"] for c in checks],
                 "kind_free_text": "repository-specific static analyser over go/packages + go/types + go/ssa (x/tools v0.29.0, vendored): path multiplicity, dominance, who-may-call/write, lock state, atomic discipline, provenance tables, decision tables, template type-checking"}],
    "checks": checks,
    "not_applicable": na,
    "notes": "All checks are static: they load /repo's working tree on every run (go/packages LoadAllSyntax + go/ssa), never execute f1. Exit 2 (UNDECIDED) is used when an anchor cannot be resolved; it is never a pass. Genuine defects found on the pinned tree were repaired by fix: commits listed in known_findings.json.",
}
json.dump(m, open(os.path.join(here, "MANIFEST.json"), "w"), indent=1)
print("claimed:", [c["property_id"] for c in checks])
print("not_applicable:", [n["property_id"] for n in na])
