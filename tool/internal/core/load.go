// Package core loads /repo (type-checked syntax + go/ssa) and offers anchor lookup helpers.
package core

import (
	"fmt"
	"go/ast"
	"go/token"
	"go/types"
	"os"
	"path/filepath"
	"sort"
	"strings"

	"golang.org/x/tools/go/callgraph"
	"golang.org/x/tools/go/callgraph/cha"
	"golang.org/x/tools/go/callgraph/vta"
	"golang.org/x/tools/go/packages"
	"golang.org/x/tools/go/ssa"
	"golang.org/x/tools/go/ssa/ssautil"
)

const ModPath = "github.com/form3tech-oss/f1/v2"

// Ctx is the resolved program every rule works on.
type Ctx struct {
	Repo string
	// Devirtualized counts the dynamic calls with a single possible target rewritten to static form (devirt.go).
	Devirtualized int
	// Normalized counts the comparisons mirrored so that their constant operand is on the right (devirt.go).
	Normalized int
	Tier       string
	Fset       *token.FileSet
	Pkgs       []*packages.Package          // module packages (non-test)
	ByRel      map[string]*packages.Package // "internal/workers" -> package
	Prog       *ssa.Program
	SSA        map[string]*ssa.Package // rel path -> ssa package
	AllFuncs   []*ssa.Function         // every module function, method and function literal with a body
	GOARCH     string
	vta        *callgraph.Graph
}

// VTA builds (once) the whole-program VTA call graph over a CHA graph: the most precise resolution of
// dynamic calls available with x/tools v0.29.0 (thorough tier).
func (c *Ctx) VTA() *callgraph.Graph {
	if c.vta == nil {
		c.vta = vta.CallGraph(ssautil.AllFunctions(c.Prog), cha.CallGraph(c.Prog))
	}
	return c.vta
}

// VTACallees lists the callees VTA resolves for a call instruction.
func (c *Ctx) VTACallees(call ssa.CallInstruction) []*ssa.Function {
	n := c.VTA().Nodes[call.Parent()]
	if n == nil {
		return nil
	}
	var out []*ssa.Function
	for _, e := range n.Out {
		if e.Site == call && e.Callee != nil && e.Callee.Func != nil {
			out = append(out, e.Callee.Func)
		}
	}
	return out
}

// Load type-checks the whole program rooted at repo and builds SSA for all of it.
// overlayDir, when non-empty, is a directory mirroring repo-relative paths whose files replace
// the ones on disk (used by the self-test to analyse seeded variants without touching /repo).
func Load(repo, overlayDir, goarch string) (*Ctx, error) {
	abs, err := filepath.Abs(repo)
	if err != nil {
		return nil, err
	}
	env := append(os.Environ(), "GOFLAGS=-mod=mod", "GOPROXY=off", "GOSUMDB=off", "GOWORK=off", "GOTOOLCHAIN=local")
	if goarch != "" {
		env = append(env, "GOARCH="+goarch)
	}
	cfg := &packages.Config{
		Mode:  packages.LoadAllSyntax,
		Dir:   abs,
		Env:   env,
		Tests: false,
	}
	if overlayDir != "" {
		cfg.Overlay = map[string][]byte{}
		err := filepath.Walk(overlayDir, func(p string, info os.FileInfo, err error) error {
			if err != nil || info.IsDir() || !strings.HasSuffix(p, ".go") {
				return err
			}
			rel, _ := filepath.Rel(overlayDir, p)
			b, err := os.ReadFile(p)
			if err != nil {
				return err
			}
			cfg.Overlay[filepath.Join(abs, rel)] = b
			return nil
		})
		if err != nil {
			return nil, err
		}
	}
	pkgs, err := packages.Load(cfg, "./...")
	if err != nil {
		return nil, err
	}
	var nerr int
	packages.Visit(pkgs, nil, func(p *packages.Package) {
		for _, e := range p.Errors {
			if nerr < 10 {
				fmt.Fprintf(os.Stderr, "load error: %s: %v\n", p.PkgPath, e)
			}
			nerr++
		}
	})
	if nerr > 0 {
		return nil, fmt.Errorf("%d package load/type errors", nerr)
	}
	if len(pkgs) < 25 {
		return nil, fmt.Errorf("only %d packages loaded from %s (expected >= 25)", len(pkgs), abs)
	}
	prog, _ := ssautil.AllPackages(pkgs, ssa.InstantiateGenerics)
	prog.Build()

	c := &Ctx{Repo: abs, Fset: prog.Fset, Prog: prog, ByRel: map[string]*packages.Package{}, SSA: map[string]*ssa.Package{}, GOARCH: goarch}
	for _, p := range pkgs {
		if !strings.HasPrefix(p.PkgPath, ModPath) {
			continue
		}
		rel := strings.TrimPrefix(strings.TrimPrefix(p.PkgPath, ModPath), "/")
		if rel == "" {
			rel = "."
		}
		c.Pkgs = append(c.Pkgs, p)
		c.ByRel[rel] = p
		if sp := prog.Package(p.Types); sp != nil {
			c.SSA[rel] = sp
		}
	}
	sort.Slice(c.Pkgs, func(i, j int) bool { return c.Pkgs[i].PkgPath < c.Pkgs[j].PkgPath })
	seen := map[*ssa.Function]bool{}
	var add func(f *ssa.Function)
	add = func(f *ssa.Function) {
		if f == nil || seen[f] {
			return
		}
		seen[f] = true
		if f.Blocks != nil {
			c.AllFuncs = append(c.AllFuncs, f)
		}
		for _, a := range f.AnonFuncs {
			add(a)
		}
	}
	for fn := range ssautil.AllFunctions(prog) {
		if fn.Pkg == nil && fn.Origin() == nil {
			continue
		}
		p := fn.Pkg
		if p == nil && fn.Origin() != nil {
			p = fn.Origin().Pkg
		}
		if p == nil || p.Pkg == nil || !strings.HasPrefix(p.Pkg.Path(), ModPath) {
			continue
		}
		if fn.Synthetic != "" && !strings.HasPrefix(fn.Synthetic, "instance of") {
			continue
		}
		if fn.TypeParams().Len() > 0 && len(fn.TypeArgs()) == 0 {
			// the uninstantiated body of a generic function: its instances are analysed instead
			continue
		}
		add(fn)
	}
	sort.Slice(c.AllFuncs, func(i, j int) bool {
		pi, pj := c.Fset.Position(c.AllFuncs[i].Pos()), c.Fset.Position(c.AllFuncs[j].Pos())
		if pi.Filename != pj.Filename {
			return pi.Filename < pj.Filename
		}
		if pi.Offset != pj.Offset {
			return pi.Offset < pj.Offset
		}
		return c.AllFuncs[i].String() < c.AllFuncs[j].String()
	})
	devirtualize(c)
	return c, nil
}

// AnchorError aborts the rule that asked for a missing anchor; the rule runner turns it into UNDECIDED.
type AnchorError struct{ What string }

func (e AnchorError) Error() string { return "anchor not resolved: " + e.What }

// Fn resolves "Type.method" or "func" in the package with the given module-relative path.
func (c *Ctx) Fn(rel, name string) *ssa.Function {
	sp := c.SSA[rel]
	if sp == nil {
		return nil
	}
	if i := strings.Index(name, "."); i >= 0 {
		tn, mn := name[:i], name[i+1:]
		obj, _ := sp.Pkg.Scope().Lookup(tn).(*types.TypeName)
		if obj == nil {
			return nil
		}
		for _, t := range []types.Type{obj.Type(), types.NewPointer(obj.Type())} {
			ms := types.NewMethodSet(t)
			for k := 0; k < ms.Len(); k++ {
				if ms.At(k).Obj().Name() == mn {
					if f, ok := ms.At(k).Obj().(*types.Func); ok && f.Pkg() == sp.Pkg {
						return c.Prog.FuncValue(f)
					}
				}
			}
		}
		return nil
	}
	return sp.Func(name)
}

// MustFn is Fn that aborts the calling rule when the anchor is missing.
func (c *Ctx) MustFn(rel, name string) *ssa.Function {
	f := c.Fn(rel, name)
	if f == nil || f.Blocks == nil {
		panic(AnchorError{rel + "." + name})
	}
	return f
}

// Named resolves a named type.
func (c *Ctx) Named(rel, name string) *types.Named {
	p := c.ByRel[rel]
	if p == nil {
		panic(AnchorError{rel + "." + name})
	}
	obj, _ := p.Types.Scope().Lookup(name).(*types.TypeName)
	if obj == nil {
		panic(AnchorError{rel + "." + name})
	}
	n, _ := obj.Type().(*types.Named)
	if n == nil {
		panic(AnchorError{rel + "." + name})
	}
	return n
}

// Field resolves a struct field object.
func (c *Ctx) Field(rel, typ, field string) *types.Var {
	n := c.Named(rel, typ)
	st, _ := n.Underlying().(*types.Struct)
	if st == nil {
		panic(AnchorError{rel + "." + typ + " (not a struct)"})
	}
	for i := 0; i < st.NumFields(); i++ {
		if st.Field(i).Name() == field {
			return st.Field(i)
		}
	}
	panic(AnchorError{rel + "." + typ + "." + field})
}

// Pos renders a position relative to the repository root.
func (c *Ctx) Pos(p token.Pos) string {
	if !p.IsValid() {
		return "-"
	}
	pos := c.Fset.Position(p)
	rel, err := filepath.Rel(c.Repo, pos.Filename)
	if err != nil {
		rel = pos.Filename
	}
	return fmt.Sprintf("%s:%d", rel, pos.Line)
}

// FuncName is a short, stable name: "internal/workers.(*TriggerPool).run$1".
func FuncName(f *ssa.Function) string {
	if f == nil {
		return "<nil>"
	}
	s := f.String()
	s = strings.ReplaceAll(s, ModPath+"/", "")
	s = strings.ReplaceAll(s, ModPath, "f1")
	return s
}

// InstrPos finds a useful position for an instruction (falling back to its operands / block).
func InstrPos(i ssa.Instruction) token.Pos {
	if i.Pos().IsValid() {
		return i.Pos()
	}
	if v, ok := i.(ssa.Value); ok {
		_ = v
	}
	for _, op := range i.Operands(nil) {
		if *op != nil && (*op).Pos().IsValid() {
			return (*op).Pos()
		}
	}
	for _, j := range i.Block().Instrs {
		if j.Pos().IsValid() {
			return j.Pos()
		}
	}
	return i.Parent().Pos()
}

// FileOf returns the syntax file of a module package containing pos.
func (c *Ctx) FileOf(pos token.Pos) (*packages.Package, *ast.File) {
	for _, p := range c.Pkgs {
		for _, f := range p.Syntax {
			if f.Pos() <= pos && pos <= f.End() {
				return p, f
			}
		}
	}
	return nil, nil
}

// InModule reports whether fn belongs to the module under analysis.
func InModule(fn *ssa.Function) bool {
	if fn == nil {
		return false
	}
	p := fn.Pkg
	if p == nil && fn.Origin() != nil {
		p = fn.Origin().Pkg
	}
	if p == nil && fn.Parent() != nil {
		return InModule(fn.Parent())
	}
	return p != nil && p.Pkg != nil && strings.HasPrefix(p.Pkg.Path(), ModPath)
}

// RelPkg gives the module-relative package path of fn ("" if outside).
func RelPkg(fn *ssa.Function) string {
	for fn != nil && fn.Pkg == nil && fn.Parent() != nil {
		fn = fn.Parent()
	}
	if fn == nil {
		return ""
	}
	p := fn.Pkg
	if p == nil && fn.Origin() != nil {
		p = fn.Origin().Pkg
	}
	if p == nil || p.Pkg == nil || !strings.HasPrefix(p.Pkg.Path(), ModPath) {
		return ""
	}
	r := strings.TrimPrefix(strings.TrimPrefix(p.Pkg.Path(), ModPath), "/")
	if r == "" {
		return "."
	}
	return r
}
