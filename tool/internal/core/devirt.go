package core

import (
	"go/token"
	"go/types"
	"strings"

	"golang.org/x/tools/go/ssa"
)

// Devirtualisation (a pre-pass over the SSA form of the module's functions).
//
// Two kinds of dynamic call have exactly one possible target that the program text fixes, and rules
// should read them like the static call they are equivalent to:
//
//  1. a method call on a value of an interface type declared in the module that exactly one named type of
//     the module implements (an interface introduced for one existing type);
//  2. a call of a function-typed struct field that is stored exactly once in the whole module, with a
//     function or a bound method (a field set once in the constructor).
//
// The call's CallCommon is rewritten in place to the static form: Value = the target function, Args =
// receiver first (the interface value, or for a bound method the object the field was read from when the
// receiver bound is that same object, else the loaded function value as an opaque receiver handle).
// Everything else — including func-typed parameters, variables and fields assigned more than once — stays dynamic.
// normalizeComparisons rewrites, in place, every comparison with its constant on the left (`0 < x`, `nil != err`)
// to the mirrored form with the constant on the right (`x > 0`, `err != nil`): the same predicate, one shape for
// the rules to read.
func normalizeComparisons(c *Ctx) {
	flip := map[token.Token]token.Token{token.LSS: token.GTR, token.GTR: token.LSS, token.LEQ: token.GEQ, token.GEQ: token.LEQ, token.EQL: token.EQL, token.NEQ: token.NEQ}
	for _, fn := range c.AllFuncs {
		for _, b := range fn.Blocks {
			for _, in := range b.Instrs {
				bo, ok := in.(*ssa.BinOp)
				if !ok {
					continue
				}
				nop, isCmp := flip[bo.Op]
				if !isCmp {
					continue
				}
				_, xk := bo.X.(*ssa.Const)
				_, yk := bo.Y.(*ssa.Const)
				if xk && !yk {
					bo.X, bo.Y, bo.Op = bo.Y, bo.X, nop
					c.Normalized++
				}
			}
		}
	}
}

func devirtualize(c *Ctx) {
	normalizeComparisons(c)
	// implementers of module interfaces
	var named []*types.Named
	for _, sp := range c.SSA {
		for _, m := range sp.Members {
			if t, ok := m.(*ssa.Type); ok {
				if n, ok := t.Type().(*types.Named); ok && n.TypeParams().Len() == 0 {
					named = append(named, n)
				}
			}
		}
	}
	implCache := map[*types.Named][]types.Type{}
	implementers := func(iface *types.Named) []types.Type {
		if v, ok := implCache[iface]; ok {
			return v
		}
		it, _ := iface.Underlying().(*types.Interface)
		var out []types.Type
		if it != nil && it.NumMethods() > 0 {
			for _, n := range named {
				if _, isI := n.Underlying().(*types.Interface); isI {
					continue
				}
				if types.Implements(n, it) {
					out = append(out, n)
				} else if p := types.NewPointer(n); types.Implements(p, it) {
					out = append(out, p)
				}
			}
		}
		implCache[iface] = out
		return out
	}
	// stores into function-typed fields
	stores := map[*types.Var][]ssa.Value{}
	fieldOf := func(addr ssa.Value) *types.Var {
		fa, ok := addr.(*ssa.FieldAddr)
		if !ok {
			return nil
		}
		pt, ok := fa.X.Type().Underlying().(*types.Pointer)
		if !ok {
			return nil
		}
		st, ok := pt.Elem().Underlying().(*types.Struct)
		if !ok {
			return nil
		}
		return st.Field(fa.Field)
	}
	for _, fn := range c.AllFuncs {
		for _, b := range fn.Blocks {
			for _, in := range b.Instrs {
				if st, ok := in.(*ssa.Store); ok {
					if f := fieldOf(st.Addr); f != nil {
						if _, isSig := f.Type().Underlying().(*types.Signature); isSig {
							stores[f] = append(stores[f], st.Val)
						}
						if _, isIface := f.Type().Underlying().(*types.Interface); isIface {
							stores[f] = append(stores[f], st.Val)
						}
					}
				}
			}
		}
	}
	for _, fn := range c.AllFuncs {
		for _, b := range fn.Blocks {
			for _, in := range b.Instrs {
				call, ok := in.(ssa.CallInstruction)
				if !ok {
					continue
				}
				cc := call.Common()
				if cc.IsInvoke() {
					n, ok := cc.Value.Type().(*types.Named)
					if !ok || n.Obj().Pkg() == nil || !strings.HasPrefix(n.Obj().Pkg().Path(), ModPath) {
						continue
					}
					impl := implementers(n)
					if len(impl) != 1 {
						// several types implement it: the value may still be fixed — read from a field that is stored exactly
						// once in the module, with a value of one concrete type
						impl = nil
						if ld, isLd := cc.Value.(*ssa.UnOp); isLd {
							if f := fieldOf(ld.X); f != nil && len(stores[f]) == 1 {
								if mi, isMI := stores[f][0].(*ssa.MakeInterface); isMI {
									impl = []types.Type{mi.X.Type()}
								}
							}
						}
						if len(impl) != 1 {
							continue
						}
					}
					sel := c.Prog.MethodSets.MethodSet(impl[0]).Lookup(cc.Method.Pkg(), cc.Method.Name())
					if sel == nil {
						continue
					}
					target := c.Prog.MethodValue(sel)
					if target == nil || target.Blocks == nil || target.Synthetic != "" {
						continue
					}
					cc.Args = append([]ssa.Value{cc.Value}, cc.Args...)
					cc.Value = target
					cc.Method = nil
					c.Devirtualized++
					continue
				}
				if mc, isMC := cc.Value.(*ssa.MakeClosure); isMC {
					// a method value called in the function that took it (`f := x.m; f(a)`): x.m(a)
					if w, _ := mc.Fn.(*ssa.Function); w != nil && strings.HasPrefix(w.Synthetic, "bound method wrapper") && len(mc.Bindings) == 1 {
						if target := boundTarget(w); target != nil {
							cc.Args = append([]ssa.Value{mc.Bindings[0]}, cc.Args...)
							cc.Value = target
							c.Devirtualized++
						}
					}
					continue
				}
				ld, ok := cc.Value.(*ssa.UnOp)
				if !ok {
					continue
				}
				f := fieldOf(ld.X)
				if f == nil || f.Pkg() == nil || !strings.HasPrefix(f.Pkg().Path(), ModPath) || len(stores[f]) != 1 {
					continue
				}
				switch v := stores[f][0].(type) {
				case *ssa.Function:
					if v.Signature.Recv() == nil {
						cc.Value = v
						c.Devirtualized++
					}
				case *ssa.MakeClosure:
					w, _ := v.Fn.(*ssa.Function)
					if w == nil || !strings.HasPrefix(w.Synthetic, "bound method wrapper") || len(v.Bindings) != 1 {
						continue
					}
					target := boundTarget(w)
					if target == nil {
						continue
					}
					// the receiver, as far as it can be named at the call site
					var recv ssa.Value = cc.Value
					if storeBase := storeBaseOf(v, f); storeBase != nil && storeBase == v.Bindings[0] {
						recv = ld.X.(*ssa.FieldAddr).X
					}
					cc.Args = append([]ssa.Value{recv}, cc.Args...)
					cc.Value = target
					c.Devirtualized++
				}
			}
		}
	}
}

// storeBaseOf returns the struct pointer whose field f the closure v is stored into.
func storeBaseOf(v *ssa.MakeClosure, f *types.Var) ssa.Value {
	for _, ref := range *v.Referrers() {
		if st, ok := ref.(*ssa.Store); ok && st.Val == ssa.Value(v) {
			if fa, ok := st.Addr.(*ssa.FieldAddr); ok {
				return fa.X
			}
		}
	}
	return nil
}

// boundTarget: the method a bound-method wrapper calls.
func boundTarget(w *ssa.Function) *ssa.Function {
	var target *ssa.Function
	for _, wb := range w.Blocks {
		for _, wi := range wb.Instrs {
			if wc, ok := wi.(ssa.CallInstruction); ok {
				if t := wc.Common().StaticCallee(); t != nil {
					target = t
				}
			}
		}
	}
	if target == nil || target.Signature.Recv() == nil {
		return nil
	}
	return target
}
