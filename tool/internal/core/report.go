package core

import (
	"encoding/json"
	"fmt"
	"os"
	"path/filepath"
	"regexp"
	"sort"
	"strings"
	"time"
)

type Status string

const (
	Discharged Status = "discharged"
	Violated   Status = "violated"
	Undecided  Status = "undecided"
	Info       Status = "info"
)

// Obligation is one (rule, construct) pair the checker decided.
type Obligation struct {
	Rule       string `json:"rule"`
	Key        string `json:"construct"`
	Status     Status `json:"status"`
	Pos        string `json:"pos"`
	Msg        string `json:"fact"`
	Nontrivial bool   `json:"nontrivial"`
	Known      bool   `json:"known_finding,omitempty"`
}

// Report collects what one property's rules found.
type Report struct {
	Prop        string
	Obls        []Obligation
	Analysed    map[string]int
	Assumptions []string
	Explanation string
	RuleText    map[string]string
	NotDecided  []string
	Extra       map[string]any
	curRule     string
}

func NewReport(prop string) *Report {
	return &Report{Prop: prop, Analysed: map[string]int{}, RuleText: map[string]string{}, Extra: map[string]any{}}
}

func (r *Report) Rule(id, text string) { r.curRule = id; r.RuleText[id] = text }

func (r *Report) add(st Status, nontrivial bool, key, pos, msg string) {
	for _, o := range r.Obls {
		if o.Rule == r.curRule && o.Key == key && o.Status == st && o.Msg == msg {
			return
		}
	}
	r.Obls = append(r.Obls, Obligation{Rule: r.curRule, Key: key, Status: st, Pos: pos, Msg: msg, Nontrivial: nontrivial})
}

// OK records a discharged obligation that needed a path, provenance, lock or ownership argument.
func (r *Report) OK(key, pos, format string, a ...any) {
	r.add(Discharged, true, key, pos, fmt.Sprintf(format, a...))
}

// Exists records a discharged obligation of mere existence / resolution (counted as trivial).
func (r *Report) Exists(key, pos, format string, a ...any) {
	r.add(Discharged, false, key, pos, fmt.Sprintf(format, a...))
}

func (r *Report) Violation(key, pos, format string, a ...any) {
	r.add(Violated, true, key, pos, fmt.Sprintf(format, a...))
}

func (r *Report) Undecided(key, pos, format string, a ...any) {
	r.add(Undecided, true, key, pos, fmt.Sprintf(format, a...))
}

func (r *Report) Note(key, pos, format string, a ...any) {
	r.add(Info, false, key, pos, fmt.Sprintf(format, a...))
}

// Check is OK or Violation depending on cond.
func (r *Report) Check(cond bool, key, pos, okMsg, badMsg string) bool {
	if cond {
		r.OK(key, pos, "%s", okMsg)
	} else {
		r.Violation(key, pos, "%s", badMsg)
	}
	return cond
}

func (r *Report) Count(what string, n int) { r.Analysed[what] += n }

// Floor fails the current rule as vacuous when fewer than min instances were matched.
func (r *Report) Floor(what string, got, min int) bool {
	r.Analysed[r.curRule+" "+what] = got
	if got < min {
		r.Undecided("floor:"+what, "-", "rule matched %d %s, needs at least %d to be meaningful (vacuous)", got, what, min)
		return false
	}
	return true
}

// ---- known findings ----

type Finding struct {
	Property  string `json:"property"`
	Rule      string `json:"rule"`
	Construct string `json:"construct"`
	Status    string `json:"status"`
	What      string `json:"what"`
	Since     string `json:"since,omitempty"`
}

type KnownFindings struct {
	Findings []Finding `json:"findings"`
	Fixed    []string  `json:"fixed"`
}

func LoadKnown(path string) (*KnownFindings, error) {
	k := &KnownFindings{}
	b, err := os.ReadFile(path)
	if err != nil {
		if os.IsNotExist(err) {
			return k, nil
		}
		return nil, err
	}
	if err := json.Unmarshal(b, k); err != nil {
		return nil, err
	}
	return k, nil
}

func (k *KnownFindings) match(prop string, o Obligation) *Finding {
	for i := range k.Findings {
		f := &k.Findings[i]
		if f.Status == "open" && f.Property == prop && f.Rule == o.Rule && f.Construct == o.Key {
			return f
		}
	}
	return nil
}

// ---- evidence ----

var unsafeName = regexp.MustCompile(`[^A-Za-z0-9_.-]+`)

// Finish prints the verdict lines, writes evidence and replay files and returns the exit code.
func (r *Report) Finish(c *Ctx, known *KnownFindings, verifDir, tier string, seed int, started time.Time, filter string) int {
	evDir := filepath.Join(verifDir, "evidence")
	replayDir := filepath.Join(evDir, "replay", r.Prop)
	_ = os.RemoveAll(replayDir)
	_ = os.MkdirAll(replayDir, 0o755)

	sort.SliceStable(r.Obls, func(i, j int) bool {
		if r.Obls[i].Rule != r.Obls[j].Rule {
			return ruleLess(r.Obls[i].Rule, r.Obls[j].Rule)
		}
		return r.Obls[i].Key < r.Obls[j].Key
	})

	var nViol, nUndec, nKnown, nDis, nObl, nNontriv int
	distinct := map[string]bool{}
	exit := 0
	for i := range r.Obls {
		o := &r.Obls[i]
		if filter != "" && !(o.Rule+"-"+o.Key == filter || o.Rule == filter) {
			continue
		}
		switch o.Status {
		case Info:
			continue
		case Discharged:
			nObl++
			nDis++
		case Undecided:
			nObl++
			nUndec++
			fmt.Printf("UNDECIDED property=%s rule=%s construct=%s at %s: %s\n", r.Prop, o.Rule, o.Key, o.Pos, o.Msg)
			if exit == 0 {
				exit = 2
			}
		case Violated:
			nObl++
			if f := known.match(r.Prop, *o); f != nil {
				o.Known = true
				nKnown++
				fmt.Printf("KNOWN-FINDING: property=%s %s [%s %s at %s]\n", r.Prop, f.What, o.Rule, o.Key, o.Pos)
				continue
			}
			nViol++
			name := unsafeName.ReplaceAllString(o.Rule+"-"+o.Key, "_")
			if len(name) > 150 {
				name = name[:150]
			}
			rp := filepath.Join(replayDir, name+".json")
			rec := map[string]any{
				"property": r.Prop, "rule": o.Rule, "rule_statement": r.RuleText[o.Rule], "construct": o.Key,
				"position": o.Pos, "what": o.Msg, "known_findings_lookup": "not listed",
				"replay": fmt.Sprintf("./check %s --replay %s", r.Prop, rp),
				"filter": o.Rule + "-" + o.Key,
			}
			b, _ := json.MarshalIndent(rec, "", " ")
			_ = os.WriteFile(rp, b, 0o644)
			fmt.Printf("  %s %s at %s: %s\n", o.Rule, o.Key, o.Pos, o.Msg)
			fmt.Printf("VIOLATION property=%s replay=%s\n", r.Prop, rp)
			exit = 1
		}
		if o.Nontrivial && o.Status != Info {
			if !distinct[o.Rule+"|"+o.Key] {
				distinct[o.Rule+"|"+o.Key] = true
				nNontriv++
			}
		}
	}

	// samples: a few obligations per rule, written out
	var samples []Obligation
	perRule := map[string]int{}
	for _, o := range r.Obls {
		if o.Status == Info {
			continue
		}
		if o.Status != Discharged || perRule[o.Rule] < 3 {
			samples = append(samples, o)
			perRule[o.Rule]++
		}
	}
	var infos []Obligation
	for _, o := range r.Obls {
		if o.Status == Info {
			infos = append(infos, o)
		}
	}
	ruleIDs := make([]string, 0, len(r.RuleText))
	for id := range r.RuleText {
		ruleIDs = append(ruleIDs, id)
	}
	sort.Slice(ruleIDs, func(i, j int) bool { return ruleLess(ruleIDs[i], ruleIDs[j]) })
	var ruleDoc []string
	for _, id := range ruleIDs {
		ruleDoc = append(ruleDoc, id+": "+r.RuleText[id])
	}
	r.Analysed["packages"] = len(c.Pkgs)
	r.Analysed["module_functions_with_bodies"] = len(c.AllFuncs)
	cov := map[string]any{
		"explanation":         r.Explanation,
		"obligations":         nObl,
		"discharged":          nDis,
		"undecided":           nUndec,
		"known_findings":      nKnown,
		"evaluations":         nObl,
		"distinct_nontrivial": nNontriv,
		"rule": "obligations are (rule, resolved construct) pairs enumerated from /repo's type-checked syntax and go/ssa IR on this run; " +
			"an obligation is non-trivial when discharging it needed a path, dominance, provenance, ownership, lock or table argument " +
			"(not mere existence of the construct); distinct = distinct (rule, construct) keys",
		"rules":           ruleDoc,
		"samples":         samples,
		"analysed":        r.Analysed,
		"not_decided":     r.NotDecided,
		"information":     infos,
		"exhaustive":      true,
		"checker_cmd":     fmt.Sprintf("./check %s %s", r.Prop, tier),
		"all_obligations": r.Obls,
	}
	for k, v := range r.Extra {
		cov[k] = v
	}
	ev := map[string]any{
		"property_id": r.Prop,
		"tier":        tier,
		"seed":        seed,
		"level":       "other",
		"coverage":    cov,
		"assumptions": append([]string{
			"trusted base: go/packages, go/types, go/ssa (x/tools v0.29.0); the Go memory model for sync/atomic, sync.Mutex/RWMutex/Cond, channels; time.Ticker/Timer semantics",
			"each rule is a necessary structural condition of the property, decided for all paths/call sites of the current source; clauses listed under coverage.not_decided are not claimed",
		}, r.Assumptions...),
		"wall_s":     time.Since(started).Seconds(),
		"violations": nViol,
	}
	if filter == "" {
		b, _ := json.MarshalIndent(ev, "", " ")
		_ = os.MkdirAll(evDir, 0o755)
		if err := os.WriteFile(filepath.Join(evDir, r.Prop+".json"), b, 0o644); err != nil {
			fmt.Fprintf(os.Stderr, "writing evidence: %v\n", err)
			return 2
		}
	}
	fmt.Printf("%s %s: %d obligations, %d discharged, %d violated, %d known, %d undecided (%d non-trivial distinct) in %.1fs\n",
		r.Prop, tier, nObl, nDis, nViol, nKnown, nUndec, nNontriv, time.Since(started).Seconds())
	return exit
}

func ruleLess(a, b string) bool {
	pa, pb := strings.SplitN(a, ".R", 2), strings.SplitN(b, ".R", 2)
	if pa[0] != pb[0] || len(pa) < 2 || len(pb) < 2 {
		return a < b
	}
	var x, y int
	fmt.Sscanf(pa[1], "%d", &x)
	fmt.Sscanf(pb[1], "%d", &y)
	if x != y {
		return x < y
	}
	return a < b
}
