package rules

import (
	"go/constant"
	"go/token"
	"go/types"
	"strings"

	"golang.org/x/tools/go/ssa"

	"f1verif/internal/an"
	"f1verif/internal/core"
)

// lenOf: if v is len(X) return X.
func lenOf(v ssa.Value) (ssa.Value, bool) {
	call, ok := v.(*ssa.Call)
	if !ok {
		return nil, false
	}
	if b, ok := call.Call.Value.(*ssa.Builtin); ok && b.Name() == "len" {
		return call.Call.Args[0], true
	}
	return nil, false
}

func sameSeq(a, b ssa.Value) bool {
	a, b = stripAllocs(a), stripAllocs(b)
	if a == b {
		return true
	}
	da, db := an.D().Of(a), an.D().Of(b)
	return da == db && !strings.Contains(da, "phi(") && !strings.Contains(da, "…")
}

// lenBoundOf: does `bound` denote len(X) for the sequence X (directly, or X is a slice made with that length)?
func lenBoundOf(bound, x ssa.Value) bool {
	bound = stripAllocs(bound)
	if y, ok := lenOf(bound); ok {
		if sameSeq(y, x) {
			return true
		}
		if ms, ok := stripAllocs(x).(*ssa.MakeSlice); ok {
			if y2, ok := lenOf(stripAllocs(ms.Len)); ok && sameSeq(y2, y) {
				return true
			}
		}
	}
	if ms, ok := stripAllocs(x).(*ssa.MakeSlice); ok && stripAllocs(ms.Len) == bound {
		return true
	}
	return false
}

// allGuards collects the branch conditions that must hold at block b (through dominating single-entry successors).
func allGuards(b *ssa.BasicBlock) []an.Guard { return an.GuardsOf(b) }

func constInt(v ssa.Value) (int64, bool) {
	k, ok := v.(*ssa.Const)
	if !ok || k.Value == nil || k.Value.Kind() != constant.Int {
		return 0, false
	}
	return k.Int64(), true
}

// inductionFrom: idx is a loop counter starting at start (after the first increment for range loops) advancing by one.
func isCounter(idx ssa.Value) bool {
	switch x := idx.(type) {
	case *ssa.BinOp: // range index: phi(-1 | self) + 1
		if x.Op != token.ADD {
			return false
		}
		phi, ok := x.X.(*ssa.Phi)
		one, ok2 := constInt(x.Y)
		if !ok || !ok2 || one != 1 {
			return false
		}
		okStart, okSelf := false, false
		for _, e := range phi.Edges {
			if k, ok := constInt(e); ok && k == -1 {
				okStart = true
			}
			if e == ssa.Value(x) {
				okSelf = true
			}
		}
		return okStart && okSelf
	case *ssa.Phi: // for i := 0; …; i++  /  range over int
		okStart, okSelf := false, false
		for _, e := range x.Edges {
			if k, ok := constInt(e); ok && k == 0 {
				okStart = true
			}
			if bo, ok := e.(*ssa.BinOp); ok && bo.Op == token.ADD && bo.X == ssa.Value(x) {
				if one, ok := constInt(bo.Y); ok && one == 1 {
					okSelf = true
				}
			}
		}
		return okStart && okSelf
	}
	return false
}

// upperGuard: a guard holding at block b proves idx < len(x) (idx compared by identity or by same-load).
func upperGuard(b *ssa.BasicBlock, idx, x ssa.Value, same func(a, b ssa.Value) bool) (string, bool) {
	for _, g := range allGuards(b) {
		bo, ok := g.Cond.(*ssa.BinOp)
		if !ok {
			continue
		}
		l, rr, op := bo.X, bo.Y, bo.Op
		if !same(l, idx) && same(rr, idx) {
			l, rr, op = rr, l, flipOp[op]
		}
		if !same(l, idx) {
			// the phi-based counters are tested on their incremented value
			if inc, ok := l.(*ssa.BinOp); ok && inc.Op == token.ADD && same(inc.X, idx) {
				// `i+1 < n` on the back edge proves the next i < n; the entry test `0 < n` covers the first
				if op == token.LSS && g.Polarity && lenBoundOf(rr, x) {
					return an.D().Of(bo), true
				}
			}
			continue
		}
		switch {
		case op == token.LSS && g.Polarity && lenBoundOf(rr, x):
			return an.D().Of(bo), true
		case op == token.GEQ && !g.Polarity && lenBoundOf(rr, x):
			return an.D().Of(bo), true
		case op == token.GTR && !g.Polarity: // idx > len-1 false
			if sub, ok := stripAllocs(rr).(*ssa.BinOp); ok && sub.Op == token.SUB {
				if one, ok := constInt(sub.Y); ok && one == 1 && lenBoundOf(sub.X, x) {
					return an.D().Of(bo), true
				}
			}
		case op == token.LEQ && g.Polarity:
			if sub, ok := stripAllocs(rr).(*ssa.BinOp); ok && sub.Op == token.SUB {
				if one, ok := constInt(sub.Y); ok && one == 1 && lenBoundOf(sub.X, x) {
					return an.D().Of(bo), true
				}
			}
		}
	}
	return "", false
}

// forwardBound: idx stays below the length of x — tested at the top of the loop (upperGuard) or at its bottom
// (`for i := range n`, rotatedCounterBound).
func forwardBound(b *ssa.BasicBlock, idx, x ssa.Value, same func(a, b ssa.Value) bool) (string, bool) {
	if g, ok := upperGuard(b, idx, x, same); ok {
		return g, true
	}
	return rotatedCounterBound(idx, x)
}

// rotatedCounterBound: idx is the counter of a bottom-tested loop (`for i := range n`): a phi of 0 — entered only
// under `0 < n` — and idx+1 — taken only under `idx+1 < n` — with n the length of x.
func rotatedCounterBound(idx, x ssa.Value) (string, bool) {
	phi, ok := idx.(*ssa.Phi)
	if !ok || len(phi.Edges) != 2 {
		return "", false
	}
	okInit, okBack := false, false
	desc := ""
	for i, e := range phi.Edges {
		pred := phi.Block().Preds[i]
		iff, isIf := pred.Instrs[len(pred.Instrs)-1].(*ssa.If)
		if !isIf || pred.Succs[0] != phi.Block() {
			return "", false
		}
		bo, isBin := iff.Cond.(*ssa.BinOp)
		if !isBin {
			return "", false
		}
		if k, isK := constInt(e); isK && k == 0 {
			// the entry test `0 < len(x)` (read with its constant on either side)
			if z, isZ := constInt(bo.X); isZ && z == 0 && bo.Op == token.LSS && lenBoundOf(bo.Y, x) {
				okInit = true
			}
			if z, isZ := constInt(bo.Y); isZ && z == 0 && bo.Op == token.GTR && lenBoundOf(bo.X, x) {
				okInit = true
			}
			if !okInit {
				return "", false
			}
			continue
		}
		if bo.Op != token.LSS || !lenBoundOf(bo.Y, x) {
			return "", false
		}
		inc, isInc := e.(*ssa.BinOp)
		if isInc && inc.Op == token.ADD && inc.X == ssa.Value(phi) && bo.X == ssa.Value(inc) {
			if one, isOne := constInt(inc.Y); isOne && one == 1 {
				okBack = true
				desc = an.D().Of(bo)
			}
		}
	}
	return desc, okInit && okBack
}

// lengthAtLeast: a guard at b proves len(x) >= n.
func lengthAtLeast(b *ssa.BasicBlock, x ssa.Value, n int64) (string, bool) {
	for _, g := range allGuards(b) {
		bo, ok := g.Cond.(*ssa.BinOp)
		if !ok {
			continue
		}
		y, isLen := lenOf(stripAllocs(bo.X))
		k, isK := constInt(bo.Y)
		if isLen && isK && sameSeq(y, x) {
			switch {
			case bo.Op == token.EQL && g.Polarity && k >= n,
				bo.Op == token.NEQ && !g.Polarity && k >= n,
				bo.Op == token.GTR && g.Polarity && k >= n-1,
				bo.Op == token.GEQ && g.Polarity && k >= n,
				bo.Op == token.LSS && !g.Polarity && k >= n,
				bo.Op == token.LEQ && !g.Polarity && k >= n-1:
				return an.D().Of(bo), true
			}
			if n == 1 && ((bo.Op == token.EQL && !g.Polarity && k == 0) || (bo.Op == token.NEQ && g.Polarity && k == 0)) {
				return an.D().Of(bo), true
			}
		}
		// string non-empty tests
		if n == 1 {
			if ks, ok := bo.Y.(*ssa.Const); ok && ks.Value != nil && ks.Value.Kind() == constant.String && constant.StringVal(ks.Value) == "" && sameSeq(bo.X, x) {
				if (bo.Op == token.EQL && !g.Polarity) || (bo.Op == token.NEQ && g.Polarity) {
					return an.D().Of(bo), true
				}
			}
		}
	}
	return "", false
}

// containsGuard: strings.Contains(s, sep) is known true at b.
func containsGuard(b *ssa.BasicBlock, s, sep ssa.Value) bool {
	for _, g := range allGuards(b) {
		call, ok := g.Cond.(*ssa.Call)
		if !ok || !an.IsFunc(an.Callee(call), "strings", "Contains") || !g.Polarity {
			continue
		}
		if sameSeq(call.Call.Args[0], s) && an.D().Of(call.Call.Args[1]) == an.D().Of(sep) {
			return true
		}
	}
	return false
}

func stringsIndexOf(v ssa.Value) (s, sep ssa.Value, ok bool) {
	call, isCall := stripAllocs(v).(*ssa.Call)
	if !isCall || !an.IsFunc(an.Callee(call), "strings", "Index") {
		return nil, nil, false
	}
	return call.Call.Args[0], call.Call.Args[1], true
}

func nonEmptyConstString(v ssa.Value) bool {
	k, ok := v.(*ssa.Const)
	return ok && k.Value != nil && k.Value.Kind() == constant.String && len(constant.StringVal(k.Value)) >= 1
}

// forwardCursor: every store to the cursor location (field or captured cell) is a non-negative constant or
// cursor+positive constant, except −1 in a struct literal which must be reset to 0 under `cursor < 0` before `site`.
func forwardCursor(c *core.Ctx, idx ssa.Value, site ssa.Instruction) (string, bool) {
	u, ok := idx.(*ssa.UnOp)
	if !ok || u.Op != token.MUL {
		return "index is not a load of a cursor", false
	}
	var k cell
	switch a := u.X.(type) {
	case *ssa.FieldAddr:
		k = cell{name: an.FieldOfAddr(a).Name(), fld: an.FieldOfAddr(a)}
	case *ssa.FreeVar:
		k = cell{name: a.Name(), fv: a}
	default:
		return "index is not a load of a field or captured variable", false
	}
	sawMinus := false
	check := func(fn *ssa.Function, st *ssa.Store) (string, bool) {
		if n, ok := constInt(st.Val); ok {
			if n >= 0 {
				return "", true
			}
			if n == -1 {
				sawMinus = true
				return "", true
			}
			return "cursor set to " + st.Val.String(), false
		}
		if bo, ok := st.Val.(*ssa.BinOp); ok && bo.Op == token.ADD {
			if n, ok := constInt(bo.Y); ok && n > 0 {
				if l, ok := bo.X.(*ssa.UnOp); ok && l.Op == token.MUL && k.addrIs(l.X) {
					return "", true
				}
			}
		}
		return "cursor set to " + an.D().Of(st.Val), false
	}
	if k.fv != nil {
		fn := k.fv.Parent()
		for _, st := range k.stores(fn) {
			if why, ok := check(fn, st); !ok {
				return why, false
			}
		}
		if b := an.FreeVarBinding(k.fv); b != nil {
			if al, ok := b.(*ssa.Alloc); ok {
				for _, st := range an.StoresTo(al) {
					if why, ok := check(fn.Parent(), st); !ok {
						return why, false
					}
				}
			}
		}
	} else {
		for _, fn := range c.AllFuncs {
			for _, st := range k.stores(fn) {
				if why, ok := check(fn, st); !ok {
					return why, false
				}
			}
		}
	}
	if sawMinus {
		// `if cursor < 0 { cursor = 0 }` dominating the site — in the site's own function, or in every caller of a
		// helper that holds the site, before the call
		var resetBefore func(at ssa.Instruction, depth int) bool
		resetBefore = func(at ssa.Instruction, depth int) bool {
			fn := at.Parent()
			for _, st := range k.stores(fn) {
				if n, isK := constInt(st.Val); !isK || n != 0 {
					continue
				}
				for _, g := range an.GuardsOf(st.Block()) {
					bo, isB := g.Cond.(*ssa.BinOp)
					if isB && bo.Op == token.LSS && g.Polarity {
						if l, isL := bo.X.(*ssa.UnOp); isL && l.Op == token.MUL && k.addrIs(l.X) {
							if z, isZ := constInt(bo.Y); isZ && z == 0 && g.If.Block().Dominates(at.Block()) {
								return true
							}
						}
					}
				}
			}
			if depth <= 0 || k.fv != nil {
				return false
			}
			sites := an.CallSitesOf(c, fn)
			if len(sites) == 0 {
				return false
			}
			for _, cs := range sites {
				if _, isCall := cs.(*ssa.Call); !isCall || !resetBefore(cs, depth-1) {
					return false
				}
			}
			return true
		}
		ok := resetBefore(site, 2)
		if !ok {
			// … or the use itself sits behind a test that the cursor is not negative (`if cursor < 0 || … { return }`)
			for _, g := range an.GuardsOf(site.Block()) {
				bo, isB := g.Cond.(*ssa.BinOp)
				if !isB {
					continue
				}
				l, isL := bo.X.(*ssa.UnOp)
				if !isL || l.Op != token.MUL || !k.addrIs(l.X) {
					continue
				}
				z, isZ := constInt(bo.Y)
				if !isZ {
					continue
				}
				nonNeg := (bo.Op == token.LSS && z == 0 && !g.Polarity) || (bo.Op == token.GEQ && z == 0 && g.Polarity) || (bo.Op == token.GTR && z == -1 && g.Polarity) || (bo.Op == token.LEQ && z == -1 && !g.Polarity)
				if nonNeg && noStoreBetween(k, g.If, site) {
					ok = true
				}
			}
		}
		if !ok {
			return "the cursor starts at -1 and is not reset under `cursor < 0` before this use", false
		}
	}
	return "cursor only moves forward from 0", true
}

func sameCursorLoad(a, b ssa.Value) bool {
	ua, ok1 := a.(*ssa.UnOp)
	ub, ok2 := b.(*ssa.UnOp)
	if !ok1 || !ok2 || ua.Op != token.MUL || ub.Op != token.MUL {
		return a == b
	}
	if ua.X == ub.X {
		return true
	}
	fa, ok1 := ua.X.(*ssa.FieldAddr)
	fb, ok2 := ub.X.(*ssa.FieldAddr)
	return ok1 && ok2 && an.SameField(an.FieldOfAddr(fa), an.FieldOfAddr(fb)) && an.D().Of(fa.X) == an.D().Of(fb.X)
}

func boundsRule(c *core.Ctx, r *core.Report) { boundsRuleFor(c, r, inputFacing, 20) }

// boundsRuleFor applies the bounding idioms to every index / slice expression of the selected functions.
func boundsRuleFor(c *core.Ctx, r *core.Report, selected func(*ssa.Function) bool, floor int) {
	n := 0
	ord := map[string]int{}
	for _, fn := range c.AllFuncs {
		if !selected(fn) {
			continue
		}
		an.Instrs(fn, func(in ssa.Instruction) {
			var x, idx ssa.Value
			var lo, hi ssa.Value
			kind := ""
			switch s := in.(type) {
			case *ssa.IndexAddr:
				x, idx, kind = s.X, s.Index, "index"
			case *ssa.Index:
				x, idx, kind = s.X, s.Index, "index"
			case *ssa.Lookup:
				if _, isMap := s.X.Type().Underlying().(*types.Map); isMap {
					return
				}
				x, idx, kind = s.X, s.Index, "index"
			case *ssa.Slice:
				x, lo, hi, kind = s.X, s.Low, s.High, "slice"
			default:
				return
			}
			// compiler-generated arrays (varargs, composite literals)
			if p, ok := x.Type().Underlying().(*types.Pointer); ok {
				if _, isArr := p.Elem().Underlying().(*types.Array); isArr {
					return
				}
			}
			n++
			xd := an.D().Of(x)
			k := core.FuncName(fn) + "#" + kind + ":" + shortPath(xd)
			ord[k]++
			key := k
			if ord[k] > 1 {
				key = sprintf("%s[%d]", k, ord[k])
			}
			pos := an.Pos(c, in)
			b := in.Block()
			if kind == "slice" {
				s, isStr := x.Type().Underlying().(*types.Basic)
				if !isStr || s.Info()&types.IsString == 0 {
					r.Undecided(key, pos, "slice expression on a non-string %s: no idiom", xd)
					return
				}
				// s[0:Index(s,sep)] / s[Index(s,sep)+1:] under Contains(s,sep); u[0:1] under u != ""
				okLo, okHi := lo == nil, hi == nil
				var why []string
				if lo != nil {
					if z, isK := constInt(lo); isK && z == 0 {
						okLo = true
					} else if add, isAdd := stripAllocs(lo).(*ssa.BinOp); isAdd && add.Op == token.ADD {
						if s2, sep, ok := stringsIndexOf(add.X); ok && sameSeq(s2, x) && nonEmptyConstString(sep) && containsGuard(b, x, sep) {
							if one, isK := constInt(add.Y); isK && one >= 0 && one <= int64(len(constant.StringVal(sep.(*ssa.Const).Value))) {
								okLo = true
								why = append(why, "low = Index(s,sep)+"+itoa(int(one))+" with Contains(s,sep) known true")
							}
						}
					}
				}
				if hi != nil {
					if s2, sep, ok := stringsIndexOf(hi); ok && sameSeq(s2, x) && containsGuard(b, x, sep) {
						okHi = true
						why = append(why, "high = Index(s,sep) with Contains(s,sep) known true")
					} else if kh, isK := constInt(hi); isK {
						if g, ok := lengthAtLeast(b, x, kh); ok {
							okHi = true
							why = append(why, "constant high bound under "+g)
						}
					}
				}
				if okLo && okHi {
					r.OK(key, pos, "slice bounds safe: %s", strings.Join(why, "; "))
				} else {
					r.Violation(key, pos, "slice expression %s may be out of range: no guard establishes its bounds (an empty or malformed input string panics here)", an.D().Of(in.(ssa.Value)))
				}
				return
			}
			// index expressions
			wf, wo := an.TerminalField(x)
			isWeights := wf != nil && nestedIn(c, wo, core.ModPath+"/internal/trigger/gaussian", "Calculator")
			if wf != nil {
				if _, isSl := wf.Type().Underlying().(*types.Slice); !isSl {
					isWeights = false
				}
			}
			if strings.HasSuffix(core.FuncName(fn), "Calculator).For") && (strings.HasSuffix(xd, ".weights") || isWeights) {
				r.Note(key, pos, "weights[i]: bound depends on time arithmetic (window index); reported as information, not decided")
				n--
				return
			}
			if kc, isK := constInt(idx); isK {
				if g, ok := lengthAtLeast(b, x, kc+1); ok {
					r.OK(key, pos, "constant index %d under %s", kc, g)
					return
				}
				if _, isParam := stripAllocs(x).(*ssa.Parameter); isParam && kc == 0 && strings.HasPrefix(an.Outermost(fn).Name(), "runCmdExecute") {
					// cobra enforces the argument count before RunE
					okArgs := false
					for _, g := range c.AllFuncs {
						if core.RelPkg(g) != "internal/run" {
							continue
						}
						for _, call := range an.AllCalls(g) {
							if t := an.Callee(call); t != nil && t.Name() == "ExactArgs" {
								if na, ok := constInt(call.Common().Args[0]); ok && na >= 1 {
									okArgs = true
								}
							}
						}
					}
					r.Check(okArgs, key, pos, "args[0]: the command is registered with cobra.ExactArgs(≥1)", "args[0] is used but the command does not require an argument")
					return
				}
				r.Violation(key, pos, "constant index %d into %s without a dominating length check: malformed input panics here", kc, xd)
				return
			}
			sidx := stripAllocs(idx)
			if isCounter(sidx) {
				if g, ok := upperGuard(b, sidx, x, func(a, bb ssa.Value) bool { return stripAllocs(a) == stripAllocs(bb) }); ok {
					r.OK(key, pos, "loop counter bounded by %s", g)
					return
				}
				if g, ok := rotatedCounterBound(sidx, x); ok {
					r.OK(key, pos, "loop counter of a bottom-tested loop bounded by %s", g)
					return
				}
				r.Violation(key, pos, "loop counter indexes %s but the loop is not bounded by its length", xd)
				return
			}
			if sub, isSub := sidx.(*ssa.BinOp); isSub && sub.Op == token.SUB {
				if one, ok := constInt(sub.Y); ok && one == 1 && lenBoundOf(sub.X, x) {
					if g, ok := lengthAtLeast(b, x, 1); ok {
						r.OK(key, pos, "index len-1 under %s", g)
						return
					}
					r.Violation(key, pos, "index len(%s)-1 without a non-empty check", xd)
					return
				}
			}
			// cursor
			if g, ok := upperGuard(b, idx, x, sameCursorLoad); ok {
				if why, ok := forwardCursor(c, idx, in); ok {
					r.OK(key, pos, "cursor index: upper bound %s; %s", g, why)
				} else {
					r.Violation(key, pos, "cursor index into %s: %s", xd, why)
				}
				return
			}
			r.Violation(key, pos, "index %s into %s is not covered by any bounding idiom (no dominating guard proves it in range)", an.D().Of(idx), xd)
		})
	}
	r.Floor("index/slice expressions in the code examined", n, floor)
}

// foldConst evaluates an integer expression built from constants only (arithmetic, conversions, and the unit
// accessors of time.Duration): the compiler folds `2 * time.Second`, but not `d / time.Millisecond` for a local
// d that is only ever a constant.
func foldConst(v ssa.Value) (int64, bool) {
	switch x := stripAllocs(v).(type) {
	case *ssa.Const:
		return constInt(x)
	case *ssa.Convert:
		if isIntType(x.Type()) && isIntType(x.X.Type()) {
			return foldConst(x.X)
		}
	case *ssa.ChangeType:
		return foldConst(x.X)
	case *ssa.BinOp:
		a, okA := foldConst(x.X)
		b, okB := foldConst(x.Y)
		if !okA || !okB {
			return 0, false
		}
		switch x.Op {
		case token.ADD:
			return a + b, true
		case token.SUB:
			return a - b, true
		case token.MUL:
			return a * b, true
		case token.QUO:
			if b != 0 {
				return a / b, true
			}
		case token.REM:
			if b != 0 {
				return a % b, true
			}
		}
	case *ssa.Call:
		t := an.Callee(x)
		if t == nil || t.Signature.Recv() == nil || !an.IsNamed(t.Signature.Recv().Type(), "time", "Duration") || len(x.Call.Args) != 1 {
			return 0, false
		}
		d, ok := foldConst(x.Call.Args[0])
		if !ok {
			return 0, false
		}
		switch t.Name() {
		case "Nanoseconds":
			return d, true
		case "Microseconds":
			return d / 1000, true
		case "Milliseconds":
			return d / 1000000, true
		}
	}
	return 0, false
}

// noStoreBetween: the cell is not written in the function between the test and the use (same function, the test
// dominates the use, no store of the cell anywhere in it).
func noStoreBetween(k cell, test *ssa.If, use ssa.Instruction) bool {
	if test.Parent() != use.Parent() || !test.Block().Dominates(use.Block()) {
		return false
	}
	return len(k.stores(use.Parent())) == 0
}
