package rules

import (
	"go/token"
	"go/types"
	"sort"
	"strings"

	"golang.org/x/tools/go/ssa"

	"f1verif/internal/an"
	"f1verif/internal/core"
)

func init() { register("C05", c05) }

// dynResolver resolves dynamic calls of named function types by type (quick-tier resolution).
func dynResolver(c *core.Ctx) func(call ssa.CallInstruction) []*ssa.Function {
	cache := map[string][]*ssa.Function{}
	return func(call ssa.CallInstruction) []*ssa.Function {
		n := an.DynCallType(call)
		if n == nil || n.Obj().Pkg() == nil {
			return nil
		}
		k := n.Obj().Pkg().Path() + "." + n.Obj().Name()
		if v, ok := cache[k]; ok {
			return v
		}
		v := an.FuncsOfType(c, n.Obj().Pkg().Path(), n.Obj().Name())
		cache[k] = v
		if c.Tier == "thorough" {
			// VTA may only add targets (DESIGN §9)
			seen := map[*ssa.Function]bool{}
			for _, f := range v {
				seen[f] = true
			}
			out := append([]*ssa.Function(nil), v...)
			for _, f := range c.VTACallees(call) {
				f = an.Unwrap(f)
				if !seen[f] && core.InModule(f) {
					seen[f] = true
					out = append(out, f)
				}
			}
			return out
		}
		return v
	}
}

// resultLocks summarises the locking behaviour of run.Result's methods.
type resultLocks struct {
	acquires map[*ssa.Function]map[byte]bool // modes acquired on the receiver's mutex
	nestedR  map[*ssa.Function]string        // methods re-acquiring R while holding R -> description
}

func analyseResultLocks(c *core.Ctx, r *core.Report, report bool) *resultLocks {
	rl := &resultLocks{acquires: map[*ssa.Function]map[byte]bool{}, nestedR: map[*ssa.Function]string{}}
	var methods []*ssa.Function
	for _, fn := range c.AllFuncs {
		if fn.Signature.Recv() != nil && an.IsNamed(fn.Signature.Recv().Type(), runPkg, "Result") && fn.Parent() == nil {
			methods = append(methods, fn)
		}
	}
	states := map[*ssa.Function]*an.LockState{}
	for _, m := range methods {
		ls := an.NewLockState(m)
		states[m] = ls
		recv := an.ParamDesc(m.Params[0])
		for _, op := range ls.Acquires() {
			if op.Base != recv {
				continue
			}
			if rl.acquires[m] == nil {
				rl.acquires[m] = map[byte]bool{}
			}
			if op.Op == "Lock" {
				rl.acquires[m]['W'] = true
			} else {
				rl.acquires[m]['R'] = true
			}
		}
	}
	for _, m := range methods {
		recv := an.ParamDesc(m.Params[0])
		for _, call := range an.AllCalls(m) {
			t := an.Callee(call)
			if t == nil || rl.acquires[t] == nil || len(call.Common().Args) == 0 {
				continue
			}
			if an.D().Of(call.Common().Args[0]) != recv {
				continue
			}
			for _, h := range states[m].At(call) {
				if h.Base != recv {
					continue
				}
				key := core.FuncName(m) + "→" + t.Name()
				switch {
				case h.Mode == 'W':
					if report {
						r.Violation(key, an.Pos(c, call), "%s calls %s while holding the result mutex for writing: %s re-acquires it and deadlocks unconditionally", m.Name(), t.Name(), t.Name())
					}
				case rl.acquires[t]['W']:
					if report {
						r.Violation(key, an.Pos(c, call), "%s holds the result mutex for reading and calls %s, which locks it for writing: unconditional self-deadlock", m.Name(), t.Name())
					}
				default:
					rl.nestedR[m] = m.Name() + " holds RLock and calls " + t.Name() + " (RLock again)"
					if report {
						r.Note(key, an.Pos(c, call), "nested read lock (hazardous only while a writer can be waiting; decided by R3)")
					}
				}
			}
		}
	}
	if report {
		n := 0
		for _, a := range rl.acquires {
			n += len(a)
		}
		r.Floor("lock-acquiring methods of Result", len(rl.acquires), 5)
		r.OK("Result#reacquire", "-", "%d methods of Result acquire its mutex; no call path re-acquires it while held for writing, or for writing while held for reading", len(rl.acquires))
	}
	return rl
}

func c05(c *core.Ctx, r *core.Report) {
	r.Explanation = "Decides the structural causes of non-termination, late triggering and late activity named by the property's anchors: (R1) the progress reporter's Stop joins its goroutine; (R2) no self-deadlocking re-acquisition of the result mutex; " +
		"(R3) methods that nest read locks are not reachable from another goroutine nor from Run.Do while the snapshot writer may run, and Stop is called on every path after Start; (R4) the stop flag is set by a goroutine watching the worker context and idle workers are woken (no lost wake-up); " +
		"(R5) every wait on the completion of user code is a select with a timeout arm fed from the completion timeout or with a cancellation arm that has not already fired; (R6) every goroutine root has an exit edge; " +
		"(R7) triggering runs under a context derived from the caller's with the run's deadline (min of max-duration and the trigger's duration, less the guard) whose cancel is deferred; (R8) Trigger refuses work once its context is done and the ticking loops leave on Done; " +
		"(R9) the completion signal is computed per call from the worker WaitGroup. Wall-clock bounds and scheduling are not decided."
	r.NotDecided = []string{"wall-clock bounds (10 ms guard as a duration, completion timeout as elapsed time)", "absence of goroutines at return under arbitrary scheduling (R6 shows each can exit)", "liveness of user code"}
	dyn := dynResolver(c)
	f := findRunner(c)
	joinOK := false

	rule(r, "C05.R1", joinRuleText, func() {
		before := countViolations(r)
		joinRule(c, r, f)
		if f.stop != nil && f.stopCall != nil && f.stopRecv != nil {
			r.Check(an.Dominates(f.stopCall, f.stopRecv), core.FuncName(f.stop)+"#cancel-before-wait", an.Pos(c, f.stopCall),
				"Stop cancels the runner's context before it waits for the goroutine", "Stop waits for the runner goroutine before cancelling it: the run never returns")
		}
		joinOK = countViolations(r) == before
	})

	var rl *resultLocks
	rule(r, "C05.R2", "no method of Result re-acquires the result mutex on the same receiver while holding it for writing, or for writing while holding it for reading (unconditional self-deadlock)", func() {
		rl = analyseResultLocks(c, r, true)
	})

	do, _ := runDo(c)
	rule(r, "C05.R3", "methods of Result that nest read locks (a waiting writer between the two RLocks deadlocks both) are reachable neither from a goroutine other than main nor from Run.Do inside the region where the progress goroutine may call the snapshot writer; Stop is called on every path after Start", func() {
		if rl == nil {
			rl = analyseResultLocks(c, r, false)
		}
		var nested []*ssa.Function
		for m := range rl.nestedR {
			nested = append(nested, m)
		}
		sort.Slice(nested, func(i, j int) bool { return nested[i].Name() < nested[j].Name() })
		var names []string
		for _, m := range nested {
			names = append(names, m.Name())
		}
		r.Note("nested-read-methods", "-", "methods nesting read locks: %v", names)
		// (a) other goroutines
		roots := 0
		for _, fn := range c.AllFuncs {
			for _, g := range an.GoSites(fn) {
				t := an.Callee(g)
				if t == nil {
					continue
				}
				roots++
				rs := an.ReachSet(t, dyn)
				for _, m := range nested {
					if rs[m] {
						r.Violation("goroutine:"+core.FuncName(t)+"→"+m.Name(), an.Pos(c, g), "goroutine %s reaches %s, which nests read locks on the result mutex: with the main goroutine writing (AddError, GetTotals, RecordTestFinished) both can block forever", core.FuncName(t), m.Name())
					}
				}
			}
		}
		r.Count("goroutine roots", roots)
		// (b) region in Do between Start and Stop of the progress runner
		var startCall, stopCall ssa.CallInstruction
		// the function that holds the call starting the progress runner: Do, or a helper the tail of Do was moved to
		// (what Do defers runs after that helper returned, i.e. after Stop)
		if f.loop != nil {
			for _, g := range an.GoTargetOf(c.AllFuncs, f.loop) {
				starter := g.Parent()
				for _, e := range an.FlatCalls(do, flatDepth, func(_ ssa.CallInstruction, t *ssa.Function) bool { return t == starter }) {
					do = e.Instr.Parent()
				}
			}
		}
		for _, call := range an.AllCalls(do) {
			t := an.Callee(call)
			if t == nil {
				continue
			}
			if an.ReachesCall(t, 0, func(*ssa.Function) bool { return false }) {
			}
			if f.stop != nil && t == f.stop {
				stopCall = call
			}
			if f.loop != nil {
				for _, g := range an.GoTargetOf(c.AllFuncs, f.loop) {
					// the exported Start, or a locked wrapper around the function holding the `go`
					if g.Parent() == t || len(an.FlatCalls(t, 2, func(_ ssa.CallInstruction, h *ssa.Function) bool { return h == g.Parent() })) > 0 {
						startCall = call
					}
				}
			}
		}
		if startCall == nil {
			r.Undecided("Do#progress-start", c.Pos(do.Pos()), "call starting the progress runner not found in %s", core.FuncName(do))
			return
		}
		key := core.FuncName(do) + "#progress-region"
		if stopCall == nil {
			r.Violation(key, an.Pos(c, startCall), "the progress runner is started but never stopped in %s: progress keeps being reported after the run returned", core.FuncName(do))
			return
		}
		if _, isDefer := stopCall.(*ssa.Defer); !isDefer {
			if esc := an.EscapesWithout(startCall, func(in ssa.Instruction) bool { return in == ssa.Instruction(stopCall) }); esc != nil {
				r.Violation(key, an.Pos(c, esc), "a path from starting the progress runner reaches this return without stopping it")
				return
			}
		}
		// instructions possibly executing while the progress goroutine runs
		region := []ssa.Instruction{}
		if !joinOK {
			// Stop does not join: the writer may run until the process ends, including during deferred calls
			an.Instrs(do, func(in ssa.Instruction) {
				if an.ReachableFrom(startCall, in) {
					region = append(region, in)
				}
			})
			for _, call := range an.AllCalls(do) {
				if _, isDefer := call.(*ssa.Defer); isDefer {
					region = append(region, call)
				}
			}
		} else {
			an.Instrs(do, func(in ssa.Instruction) {
				if _, isDefer := in.(*ssa.Defer); isDefer {
					return // runs at exit, after Stop (every path passes Stop)
				}
				if an.ReachableFrom(startCall, in) && !an.Dominates(stopCall, in) {
					region = append(region, in)
				}
			})
			// deferred calls registered before Start run at exit: after Stop only if Stop is not itself deferred later... Stop is a plain call here
			if _, isDefer := stopCall.(*ssa.Defer); isDefer {
				for _, call := range an.AllCalls(do) {
					if _, d := call.(*ssa.Defer); d && call != stopCall && an.Dominates(call, stopCall) {
						// registered earlier ⇒ runs later than the deferred Stop: fine
						continue
					} else if d && call != stopCall {
						region = append(region, call)
					}
				}
			}
		}
		bad := 0
		for _, in := range region {
			call, ok := in.(ssa.CallInstruction)
			if !ok {
				continue
			}
			var targets []*ssa.Function
			if t := an.Callee(call); t != nil {
				targets = append(targets, t)
			} else {
				targets = dyn(call)
			}
			for _, t := range targets {
				rs := an.ReachSet(t, dyn)
				for _, m := range nested {
					if rs[m] {
						bad++
						why := "between Start and Stop of the progress runner"
						if !joinOK {
							why = "while the progress goroutine may still run (Stop does not join it)"
						}
						r.Violation(core.FuncName(do)+"→"+m.Name()+"@"+t.Name(), an.Pos(c, in), "%s (via %s) nests read locks on the result mutex and executes %s: the snapshot writer waiting between the two RLocks deadlocks the run", m.Name(), core.FuncName(t), why)
					}
				}
			}
		}
		if bad == 0 {
			r.OK(key, an.Pos(c, startCall), "Stop joins and is passed on every path after Start; %d calls in the concurrent region, none reaches a nested-read method (%v run only before Start or after Stop)", len(region), names)
		}
	})

	rule(r, "C05.R4", "each pool's stop flag is set by a goroutine that first waits on the worker context's Done; idle workers are woken afterwards (condition-variable discipline)", func() {
		// pools: types of internal/workers with an atomic.Bool stop flag loaded in a worker (go target reaching the
		// runner) — the flag itself, or a small wrapper type around it whose methods forward to the atomic
		runner, _, _ := iterationRunner(c)
		flags := map[*types.Var]bool{}
		for _, fn := range c.AllFuncs {
			if core.RelPkg(fn) != "internal/workers" || len(an.GoTargetOf(c.AllFuncs, fn)) == 0 || !reachesRunner(fn, runner) {
				continue
			}
			for g := range an.ReachSet(fn, nil) {
				if isFlagWrapper(g) != "" {
					continue // seen at its call sites
				}
				for _, call := range an.AllCalls(g) {
					if fld, op, _ := flagAccess(call); fld != nil && op == "Load" {
						flags[fld] = true
					}
				}
			}
		}
		if !r.Floor("stop flags read by worker loops", len(flags), 2) {
			return
		}
		// does running fn (a function, or a bound method with receiver recv) store true into fld?
		var sets func(fn *ssa.Function, recv ssa.Value, fld *types.Var, depth int) bool
		sets = func(fn *ssa.Function, recv ssa.Value, fld *types.Var, depth int) bool {
			if fn == nil || depth < 0 {
				return false
			}
			if op := isFlagWrapper(fn); op == "Store" && recv != nil {
				return an.SameField(an.FieldOfAddr(recv), fld) && flagWrapperStoresTrue(fn)
			}
			for g := range an.ReachSet(fn, nil) {
				if isFlagWrapper(g) != "" {
					continue
				}
				for _, call := range an.AllCalls(g) {
					if f, op, val := flagAccess(call); f != nil && op == "Store" && an.SameField(f, fld) {
						if k, ok := val.(*ssa.Const); ok && k.Value != nil && k.Value.String() == "true" {
							return true
						}
					}
				}
			}
			return false
		}
		for fld := range flags {
			key := "stop-flag:" + fld.Name() + "@" + ownerOfFieldType(c, fld)
			found := false
			for _, fn := range c.AllFuncs {
				if len(an.GoTargetOf(c.AllFuncs, fn)) == 0 {
					continue
				}
				// receive from Done() of a WithCancel-derived context; the context may reach the goroutine through the
				// function that starts it (a helper handed the context and what to do)
				starter := fn.Parent()
				var recv ssa.Instruction
				an.Instrs(fn, func(in ssa.Instruction) {
					u, ok := in.(*ssa.UnOp)
					if !ok || u.Op != token.ARROW {
						return
					}
					call, ok := an.Strip(u.X).(*ssa.Call)
					if !ok || !call.Common().IsInvoke() || call.Common().Method.Name() != "Done" {
						return
					}
					fromCancel := func(v ssa.Value) bool {
						ex, isEx := an.Strip(v).(*ssa.Extract)
						if !isEx {
							return false
						}
						wc, isCall := ex.Tuple.(*ssa.Call)
						return isCall && an.IsFunc(an.Callee(wc), "context", "WithCancel")
					}
					src := an.OutOfGoroutine(c.AllFuncs, call.Common().Value)
					if fromCancel(src) {
						recv = in
						return
					}
					if p, isP := an.Strip(src).(*ssa.Parameter); isP && starter != nil && p.Parent() == starter {
						all := true
						sites := an.CallSitesOf(c, starter)
						for _, site := range sites {
							if i := an.ParamIndex(p); i >= len(site.Common().Args) || !fromCancel(site.Common().Args[i]) {
								all = false
							}
						}
						if all && len(sites) > 0 {
							recv = in
						}
					}
				})
				if recv == nil {
					continue
				}
				// a Store(true) on the flag after it, directly, through callees, or through the function value the starter
				// was handed
				setsAfter := false
				an.Instrs(fn, func(in ssa.Instruction) {
					call, ok := in.(ssa.CallInstruction)
					if !ok || !an.Dominates(recv, in) {
						return
					}
					if f, op, val := flagAccess(call); f != nil && op == "Store" && an.SameField(f, fld) {
						if k, ok := val.(*ssa.Const); ok && k.Value != nil && k.Value.String() == "true" {
							setsAfter = true
						}
						return
					}
					if t := an.Callee(call); t != nil {
						if core.InModule(t) && sets(t, nil, fld, 3) {
							setsAfter = true
						}
						return
					}
					// dynamic: a captured function-typed parameter of the starter
					fv, isFV := an.Strip(call.Common().Value).(*ssa.FreeVar)
					if !isFV || starter == nil {
						return
					}
					var p *ssa.Parameter
					switch b := an.FreeVarBinding(fv).(type) {
					case *ssa.Alloc:
						if sts := an.StoresTo(b); len(sts) == 1 {
							p, _ = an.Strip(sts[0].Val).(*ssa.Parameter)
						}
					case *ssa.Parameter:
						p = b
					}
					if p == nil || p.Parent() != starter {
						return
					}
					for _, site := range an.CallSitesOf(c, starter) {
						i := an.ParamIndex(p)
						if i >= len(site.Common().Args) {
							continue
						}
						switch a := an.Strip(site.Common().Args[i]).(type) {
						case *ssa.MakeClosure:
							f, _ := a.Fn.(*ssa.Function)
							var rv ssa.Value
							if f != nil && strings.HasPrefix(f.Synthetic, "bound method wrapper") && len(a.Bindings) == 1 {
								rv = a.Bindings[0]
							}
							if sets(an.Unwrap(f), rv, fld, 3) {
								setsAfter = true
							}
						case *ssa.Function:
							if sets(a, nil, fld, 3) {
								setsAfter = true
							}
						}
					}
				})
				if setsAfter {
					found = true
					r.OK(key, an.Pos(c, recv), "goroutine %s waits on the worker context and then sets %s", core.FuncName(fn), fld.Name())
				}
			}
			if !found {
				r.Violation(key, c.Pos(fld.Pos()), "no goroutine waits on the worker context's Done and then sets stop flag %s: workers never observe cancellation and the run does not terminate", fld.Name())
			}
		}
		condDiscipline(c, r)
	})

	var completion *ssa.Function // WaitForCompletion
	rule(r, "C05.R9", "the completion signal is computed per call: a channel made in the call, closed by a goroutine spawned unconditionally in the same call after waiting on the worker WaitGroup", func() {
		for _, fn := range c.AllFuncs {
			if core.RelPkg(fn) != "internal/workers" || fn.Parent() != nil || fn.Signature.Results().Len() != 1 {
				continue
			}
			if _, ok := fn.Signature.Results().At(0).Type().Underlying().(*types.Chan); !ok {
				continue
			}
			completion = fn
		}
		if completion == nil {
			r.Undecided("anchor:completion", "-", "no function of internal/workers returns a completion channel")
			return
		}
		key := core.FuncName(completion)
		for _, ret := range an.Returns(completion) {
			mk, ok := an.Strip(ret.Results[0]).(*ssa.MakeChan)
			if !ok {
				r.Violation(key+"#fresh", an.Pos(c, ret), "the completion channel returned is %s, not a channel made in this call: once closed it reports completion for ever, also for workers started later (next stage, second wait)", an.D().Of(ret.Results[0]))
				continue
			}
			// a go statement dominating the return whose target closes mk after WaitGroup.Wait on the worker group
			ok2 := false
			for _, g := range an.GoSites(completion) {
				if !an.Dominates(g, ret) {
					continue
				}
				t := an.Callee(g)
				if t == nil {
					continue
				}
				var wait, cl ssa.CallInstruction
				for _, call := range an.AllCalls(t) {
					if isWG(an.Callee(call), "Wait") {
						if fld, owner := an.TerminalField(call.Common().Args[0]); fld != nil && an.IsNamed(owner, workersPkg, "PoolManager") {
							wait = call
						}
					}
					if an.IsBuiltinCall(call, "close") {
						v := an.Strip(call.Common().Args[0])
						if fv, isFV := v.(*ssa.FreeVar); isFV {
							if b := an.FreeVarBinding(fv); b != nil {
								v = an.Strip(b)
								if al, isAl := v.(*ssa.Alloc); isAl {
									if sts := an.StoresTo(al); len(sts) == 1 {
										v = an.Strip(sts[0].Val)
									}
								}
							}
						}
						if v == ssa.Value(mk) {
							cl = call
						}
					}
				}
				if wait != nil && cl != nil {
					_, deferred := cl.(*ssa.Defer)
					if deferred || an.Dominates(wait, cl) {
						ok2 = true
					}
				}
			}
			r.Check(ok2, key+"#closer", an.Pos(c, ret), "fresh channel closed by a goroutine of this call after runningWorkers.Wait()", "no goroutine spawned on every path of this call closes the returned channel after waiting for the workers")
		}
	})

	rule(r, "C05.R5", "every wait for the completion of user code is bounded: receives from the completion channel occur only as select arms next to a time.After arm fed from the completion timeout, or next to a cancellation arm that has not already fired; the worker WaitGroup is waited on only inside the completion goroutine", func() {
		if completion == nil {
			r.Undecided("anchor", "-", "completion function not resolved (R9)")
			return
		}
		n := 0
		for _, fn := range c.AllFuncs {
			// direct WaitGroup.Wait on the worker group
			for _, call := range an.AllCalls(fn) {
				if isWG(an.Callee(call), "Wait") {
					if fld, owner := an.TerminalField(call.Common().Args[0]); fld != nil && an.IsNamed(owner, workersPkg, "PoolManager") {
						okk := fn.Parent() == completion && len(an.GoTargetOf(c.AllFuncs, fn)) > 0
						r.Check(okk, core.FuncName(fn)+"#wg-wait", an.Pos(c, call), "worker WaitGroup waited on inside the completion goroutine only", "unbounded wait on the worker WaitGroup in "+core.FuncName(fn)+": a blocked iteration blocks the run for ever")
					}
				}
			}
			isCompletionChan := func(v ssa.Value) bool {
				call, ok := an.Strip(v).(*ssa.Call)
				return ok && an.Callee(call) == completion
			}
			// bare receives
			an.Instrs(fn, func(in ssa.Instruction) {
				if u, ok := in.(*ssa.UnOp); ok && u.Op == token.ARROW && isCompletionChan(u.X) {
					n++
					r.Violation(core.FuncName(fn)+"#bare-wait", an.Pos(c, in), "bare receive from the completion channel: the completion timeout (and cancellation) cannot end this wait")
				}
			})
			ord := 0
			for _, sel := range an.Selects(fn) {
				hasCompletion := false
				for _, st := range sel.States {
					if isCompletionChan(st.Chan) {
						hasCompletion = true
					}
				}
				if !hasCompletion {
					continue
				}
				n++
				ord++
				key := core.FuncName(fn) + "#completion-select" + itoa(ord)
				// enclosing arm (already fired channels)
				fired := map[string]bool{}
				for cur := ssa.Instruction(sel); ; {
					outer, idx := an.ArmOf(cur)
					if outer == nil || outer == sel || idx < 0 {
						break
					}
					fired[stripCaret(an.D().Of(outer.States[idx].Chan))] = true
					cur = outer
				}
				bounded, why := false, "no timeout or live cancellation arm"
				for _, st := range sel.States {
					if isCompletionChan(st.Chan) {
						continue
					}
					d := stripCaret(an.D().Of(st.Chan))
					if dur := timerChanDuration(st.Chan); dur != nil {
						arg := stripCaret(an.D().Of(dur))
						if strings.HasSuffix(arg, "waitForCompletionTimeout") || strings.HasSuffix(strings.ToLower(arg), "timeout") {
							bounded = true
						} else {
							why = "the time.After arm waits for " + arg + ", not the completion timeout"
						}
						continue
					}
					if call, ok := an.Strip(st.Chan).(*ssa.Call); ok && call.Common().IsInvoke() && call.Common().Method.Name() == "Done" {
						if fired[d] {
							why = "the only other arm is " + d + ", which has already fired in the enclosing arm"
							continue
						}
						bounded = true
					}
				}
				r.Check(bounded, key, an.Pos(c, sel), "completion wait bounded by a timeout / live cancellation arm", "wait for completion is not bounded: "+why)
			}
		}
		r.Floor("waits on the completion channel", n, 2)
	})

	rule(r, "C05.R6", "every goroutine root can exit: each loop in it has an exit edge (not counting panics), so that it ends once its context is done / channel closed / flag set", func() {
		n := 0
		for _, fn := range c.AllFuncs {
			for _, g := range an.GoSites(fn) {
				t := an.Callee(g)
				if t == nil || !core.InModule(t) || t.Blocks == nil {
					continue
				}
				n++
				key := "goroutine:" + core.FuncName(t)
				// loops of t
				seenHead := map[*ssa.BasicBlock]bool{}
				okAll := true
				for _, b := range t.Blocks {
					loop, head := an.NaturalLoopOf(b)
					if loop == nil || seenHead[head] {
						continue
					}
					seenHead[head] = true
					exit := false
					for lb := range loop {
						for _, s := range lb.Succs {
							if loop[s] {
								continue
							}
							if !leadsOnlyToPanic(s) {
								exit = true
							}
						}
						if _, isRet := lb.Instrs[len(lb.Instrs)-1].(*ssa.Return); isRet {
							exit = true
						}
					}
					if !exit {
						okAll = false
						r.Violation(key+"#loop", c.Pos(head.Instrs[0].Pos()), "goroutine %s (started at %s) has a loop without an exit edge: it never terminates, also after cancellation", core.FuncName(t), an.Pos(c, g))
					}
				}
				if okAll {
					r.OK(key, an.Pos(c, g), "every loop has an exit edge (%d loops)", len(seenHead))
				}
			}
		}
		r.Floor("goroutine roots", n, 8)
	})

	rule(r, "C05.R7", "triggering runs under a context derived from the caller's with timeout = (min of max-duration and a positive shorter trigger duration) minus a positive guard; its cancel is deferred; the trigger receives that context", func() {
		loop, _ := runLoop(c)
		var wt *ssa.Call
		for _, call := range an.AllCalls(loop) {
			if an.IsFunc(an.Callee(call), "context", "WithTimeout") || an.IsFunc(an.Callee(call), "context", "WithDeadline") {
				wt, _ = call.(*ssa.Call)
			}
		}
		key := core.FuncName(loop)
		if wt == nil {
			r.Violation(key+"#deadline", c.Pos(loop.Pos()), "the run loop does not derive a deadline-bound context for triggering: the run does not stop at max-duration")
			return
		}
		parent := an.D().Of(wt.Call.Args[0])
		r.Check(parent == "$ctx" || strings.HasPrefix(parent, "$"), key+"#parent", an.Pos(c, wt), "trigger context derived from the caller's context "+parent, "trigger context derived from "+parent+", not from the caller's context: cancellation does not stop triggering")
		// the timeout: WithTimeout's duration, or the duration added to time.Now() for WithDeadline
		var durArg ssa.Value = wt.Call.Args[1]
		if an.IsFunc(an.Callee(wt), "context", "WithDeadline") {
			if add, ok := an.Strip(durArg).(*ssa.Call); ok && an.Callee(add) != nil && an.Callee(add).Name() == "Add" && an.Callee(add).Signature.Recv() != nil && an.IsNamed(an.Callee(add).Signature.Recv().Type(), "time", "Time") {
				if now, isNow := an.Strip(add.Call.Args[0]).(*ssa.Call); isNow && an.IsFunc(an.Callee(now), "time", "Now") {
					durArg = add.Call.Args[1]
				}
			}
		}
		dl := an.DI().Of(durArg)
		bo, isSub := an.Strip(durArg).(*ssa.BinOp)
		okDl := isSub && bo.Op == token.SUB && isConst(bo.Y) && strings.Contains(dl, "options.MaxDuration") && strings.Contains(dl, "trigger.Duration")
		if okDl {
			k := bo.Y.(*ssa.Const)
			okDl = k.Int64() > 0
		}
		r.Check(okDl, key+"#timeout", an.Pos(c, wt), "timeout = "+dl, "trigger timeout is "+dl+": expected min(max-duration, trigger duration) minus a positive guard")
		// the shorter-duration choice
		choice := false
		an.Flatten(loop, 2, nil, func(e an.Event) {
			in := e.Instr
			if b, ok := in.(*ssa.BinOp); ok && (b.Op == token.LSS || b.Op == token.GTR) {
				d := an.D().Of(b)
				if strings.Contains(d, "trigger.Duration") && strings.Contains(d, "options.MaxDuration") {
					small, big := b.X, b.Y
					if b.Op == token.GTR {
						small, big = b.Y, b.X
					}
					if strings.Contains(an.D().Of(small), "trigger.Duration") && strings.Contains(an.D().Of(big), "options.MaxDuration") {
						choice = true
					}
				}
			}
		})
		r.Check(choice, key+"#min", an.Pos(c, wt), "the trigger's duration replaces max-duration only when it is smaller", "no test `trigger.Duration < options.MaxDuration` selects the earlier deadline")
		// cancel deferred
		deferred := false
		for _, call := range an.AllCalls(loop) {
			if d, ok := call.(*ssa.Defer); ok {
				if ex, ok := an.Strip(d.Call.Value).(*ssa.Extract); ok && ex.Tuple == ssa.Value(wt) && ex.Index == 1 && dominatesAllReturns(d, loop) {
					deferred = true
				}
			}
		}
		r.Check(deferred, key+"#cancel", an.Pos(c, wt), "the trigger context's cancel is deferred (releases the pool watchers on every ending)", "the trigger context's cancel function is not deferred on every path: watcher goroutines and workers outlive the run")
		// trigger gets the derived context
		got := false
		for _, call := range an.AllCalls(loop) {
			if n := an.DynCallType(call); n != nil && an.IsNamed(n, apiPkg, "WorkTriggerer") {
				ex, ok := an.Strip(call.Common().Args[0]).(*ssa.Extract)
				got = ok && ex.Tuple == ssa.Value(wt) && ex.Index == 0
				r.Check(got, key+"#trigger-ctx", an.Pos(c, call), "the trigger runs under the deadline-bound context", "the trigger is given "+an.D().Of(call.Common().Args[0])+" instead of the deadline-bound context")
			}
		}
		if !got {
			r.Undecided(key+"#trigger-call", c.Pos(loop.Pos()), "call of the WorkTriggerer not found")
		}
	})

	rule(r, "C05.R8", "requests stop on cancellation: the pool's Trigger forwards work only after testing its context's Err() == nil; ticking and stage loops return on Done / test Err before continuing", func() {
		pf := findPending(c)
		n := 0
		for _, fn := range c.AllFuncs {
			if core.RelPkg(fn) != "internal/workers" || fn.Parent() != nil {
				continue
			}
			var ctxParam *ssa.Parameter
			for _, p := range fn.Params {
				if an.IsNamed(p.Type(), "context", "Context") {
					ctxParam = p
				}
			}
			hasInt := false
			for _, p := range fn.Params {
				if b, ok := p.Type().Underlying().(*types.Basic); ok && b.Kind() == types.Int {
					hasInt = true
				}
			}
			if !hasInt || fn.Signature.Recv() == nil {
				continue
			}
			// calls (transitively 1) a set function with its int parameter: the Trigger entry
			var fwd ssa.CallInstruction
			for _, call := range an.AllCalls(fn) {
				t := an.Callee(call)
				if t == nil || !core.InModule(t) {
					continue
				}
				if an.ReachesCall(t, 1, func(g *ssa.Function) bool { return pf.setFns[g] }) && len(call.Common().Args) > 1 {
					if _, isP := an.Strip(call.Common().Args[1]).(*ssa.Parameter); isP {
						fwd = call
					}
				}
			}
			if fwd == nil || !fn.Object().Exported() {
				continue
			}
			n++
			key := core.FuncName(fn) + "#ctx-guard"
			// the context looked at: the parameter, or a context kept in a field of the pool (the worker context Start made)
			isCtx := func(v ssa.Value) bool {
				v = an.Strip(v)
				if ctxParam != nil && v == ssa.Value(ctxParam) {
					return true
				}
				if f, _ := an.TerminalField(v); f != nil && f.Pkg() != nil && f.Pkg().Path() == workersPkg && an.IsNamed(f.Type(), "context", "Context") {
					return true
				}
				return false
			}
			ok := false
			for _, g := range an.GuardsOf(fwd.Block()) {
				bo, isB := an.Strip(g.Cond).(*ssa.BinOp)
				if !isB {
					continue
				}
				call, isC := an.Strip(bo.X).(*ssa.Call)
				if !isC || !call.Common().IsInvoke() || call.Common().Method.Name() != "Err" || !isCtx(call.Common().Value) {
					continue
				}
				if k, isK := bo.Y.(*ssa.Const); isK && k.IsNil() {
					if (bo.Op == token.NEQ && !g.Polarity) || (bo.Op == token.EQL && g.Polarity) {
						ok = true
					}
				}
			}
			r.Check(ok, key, an.Pos(c, fwd), "work is forwarded only when ctx.Err() == nil", "Trigger forwards work without testing its context's Err(): iterations are requested (and started) after cancellation / the deadline")
		}
		r.Floor("Trigger entry points", n, 1)
		// ticking loop of the iteration worker and the stages loop
		m := 0
		for _, fn := range c.AllFuncs {
			rel := core.RelPkg(fn)
			if !(rel == "internal/trigger/api" || rel == "internal/trigger/file") {
				continue
			}
			for _, sel := range an.Selects(fn) {
				arms := an.SelectArms(sel)
				for idx, st := range sel.States {
					call, ok := an.Strip(st.Chan).(*ssa.Call)
					if !ok || !call.Common().IsInvoke() || call.Common().Method.Name() != "Done" {
						continue
					}
					loop, _ := an.NaturalLoopOf(sel.Block())
					if loop == nil {
						continue
					}
					m++
					arm := arms[idx]
					back := arm != nil && an.ReachableFrom(arm.Instrs[0], sel)
					r.Check(!back, core.FuncName(fn)+"#done-arm", c.Pos(st.Pos), "the Done arm leaves the ticking loop", "the Done arm of the ticking loop loops back: triggering continues after the context ended")
				}
			}
		}
		r.Floor("ticking loops with a Done arm", m, 1)
	})
}

func countViolations(r *core.Report) int {
	n := 0
	for _, o := range r.Obls {
		if o.Status == core.Violated {
			n++
		}
	}
	return n
}

func leadsOnlyToPanic(b *ssa.BasicBlock) bool {
	seen := map[*ssa.BasicBlock]bool{}
	var walk func(x *ssa.BasicBlock) bool
	walk = func(x *ssa.BasicBlock) bool {
		if seen[x] {
			return true
		}
		seen[x] = true
		if len(x.Instrs) == 0 {
			return false
		}
		switch x.Instrs[len(x.Instrs)-1].(type) {
		case *ssa.Panic:
			return true
		case *ssa.Return:
			return false
		}
		if len(x.Succs) == 0 {
			return false
		}
		for _, s := range x.Succs {
			if !walk(s) {
				return false
			}
		}
		return true
	}
	return walk(b)
}

func ownerOfFieldType(c *core.Ctx, fld *types.Var) string {
	for _, p := range c.Pkgs {
		sc := p.Types.Scope()
		for _, name := range sc.Names() {
			tn, ok := sc.Lookup(name).(*types.TypeName)
			if !ok {
				continue
			}
			st, ok := tn.Type().Underlying().(*types.Struct)
			if !ok {
				continue
			}
			for i := 0; i < st.NumFields(); i++ {
				if st.Field(i) == fld {
					return name
				}
			}
		}
	}
	return "?"
}

// isFlagWrapper: fn is a one-block method of a module type that performs a single atomic.Bool operation on a field of
// its own receiver; returns that operation ("Load", "Store", …) or "".
func isFlagWrapper(fn *ssa.Function) string {
	if fn == nil || !core.InModule(fn) || fn.Signature.Recv() == nil || len(fn.Blocks) != 1 || len(fn.Params) == 0 {
		return ""
	}
	// a wrapper type is one that other structs of its package hold by value (the pools themselves are not)
	rt := fn.Signature.Recv().Type()
	if p, ok := rt.Underlying().(*types.Pointer); ok {
		rt = p.Elem()
	}
	held := false
	if n, ok := rt.(*types.Named); ok && n.Obj().Pkg() != nil {
		sc := n.Obj().Pkg().Scope()
		for _, name := range sc.Names() {
			tn, isT := sc.Lookup(name).(*types.TypeName)
			if !isT {
				continue
			}
			if st, isSt := tn.Type().Underlying().(*types.Struct); isSt {
				for i := 0; i < st.NumFields(); i++ {
					if types.Identical(st.Field(i).Type(), n) {
						held = true
					}
				}
			}
		}
	}
	if !held {
		return ""
	}
	op := ""
	n := 0
	for _, call := range an.AllCalls(fn) {
		n++
		t := an.Callee(call)
		if t == nil || t.Pkg == nil || t.Pkg.Pkg.Path() != "sync/atomic" || t.Signature.Recv() == nil || !an.IsNamed(t.Signature.Recv().Type(), "sync/atomic", "Bool") {
			continue
		}
		if fa, ok := call.Common().Args[0].(*ssa.FieldAddr); ok && an.Strip(fa.X) == ssa.Value(fn.Params[0]) {
			op = t.Name()
		}
	}
	if n != 1 {
		return ""
	}
	return op
}

func flagWrapperStoresTrue(fn *ssa.Function) bool {
	for _, call := range an.AllCalls(fn) {
		if len(call.Common().Args) > 1 {
			if k, ok := call.Common().Args[1].(*ssa.Const); ok && k.Value != nil && k.Value.String() == "true" {
				return true
			}
		}
	}
	return false
}

// flagAccess reads a call as an operation on a stop flag: a method of sync/atomic.Bool on a struct field (the field is
// the flag), or a call of a wrapper method (isFlagWrapper) on a struct field holding the wrapper (that field is the flag).
func flagAccess(call ssa.CallInstruction) (*types.Var, string, ssa.Value) {
	t := an.Callee(call)
	if t == nil || len(call.Common().Args) == 0 {
		return nil, "", nil
	}
	fld := an.FieldOfAddr(call.Common().Args[0])
	if fld == nil || fld.Pkg() == nil || fld.Pkg().Path() != workersPkg {
		return nil, "", nil
	}
	if t.Pkg != nil && t.Pkg.Pkg.Path() == "sync/atomic" && t.Signature.Recv() != nil && an.IsNamed(t.Signature.Recv().Type(), "sync/atomic", "Bool") {
		var val ssa.Value
		if len(call.Common().Args) > 1 {
			val = call.Common().Args[1]
		}
		return fld, t.Name(), val
	}
	if op := isFlagWrapper(t); op != "" {
		var val ssa.Value
		for _, inner := range an.AllCalls(t) {
			if len(inner.Common().Args) > 1 {
				val = inner.Common().Args[1]
			}
		}
		return fld, op, val
	}
	return nil, "", nil
}

// timerChanDuration: ch is a channel that delivers once after a duration — time.After(d) or time.NewTimer(d).C;
// returns d.
func timerChanDuration(ch ssa.Value) ssa.Value {
	v := an.Strip(ch)
	if call, ok := v.(*ssa.Call); ok && an.IsFunc(an.Callee(call), "time", "After") {
		return call.Call.Args[0]
	}
	// (*Timer).C of a timer made here
	var base ssa.Value
	switch x := v.(type) {
	case *ssa.FieldAddr:
		base = x.X
	case *ssa.UnOp:
		if fa, ok := x.X.(*ssa.FieldAddr); ok {
			base = fa.X
		}
	}
	if base == nil {
		if ld, ok := ch.(*ssa.UnOp); ok {
			if fa, isFA := ld.X.(*ssa.FieldAddr); isFA {
				base = fa.X
			}
		}
	}
	if base != nil {
		if fld, owner := an.TerminalField(ch); fld != nil && fld.Name() == "C" && an.IsNamed(owner, "time", "Timer") {
			if call, ok := stripAllocs(base).(*ssa.Call); ok && an.IsFunc(an.Callee(call), "time", "NewTimer") {
				return call.Call.Args[0]
			}
		}
	}
	return nil
}

