package rules

import (
	"go/constant"
	"go/token"
	"go/types"
	"sort"
	"strings"
	"unicode"

	"golang.org/x/tools/go/ssa"

	"f1verif/internal/an"
	"f1verif/internal/core"
)

func init() { register("C08", c08) }

// verdictState is one abstract state of the verdict's inputs: only orderings, never values.
type verdictState struct {
	E, I, D bool // error present, ignore-dropped, dropped>0
	MFz     bool // max-failures == 0 (unsigned: otherwise > 0)
	MR      int  // sign of max-failures-rate: -1, 0, +1
	Fpos    bool // failed > 0
	FgtM    bool // failed > max-failures
	S       bool // failed share strictly greater than the rate
}

func (s verdictState) consistent() bool {
	if s.FgtM && !s.Fpos {
		return false
	}
	if s.MFz && s.Fpos != s.FgtM {
		return false
	}
	if s.S && !s.Fpos && s.MR >= 0 {
		return false
	}
	return true
}

func (s verdictState) spec() bool {
	return s.E || (!s.I && s.D) || (s.MFz && s.MR == 0 && s.Fpos) || (!s.MFz && s.FgtM) || (s.MR > 0 && s.S)
}

func (s verdictState) String() string {
	return sprintf("err=%v ignoreDropped=%v dropped>0=%v maxFailures%s maxFailuresRate%s failed>0=%v failed>maxFailures=%v share>rate=%v",
		s.E, s.I, s.D, map[bool]string{true: "=0", false: ">0"}[s.MFz], map[int]string{-1: "<0", 0: "=0", 1: ">0"}[s.MR], s.Fpos, s.FgtM, s.S)
}

// operand kinds of the verdict's comparisons
// verdictOperand names what a comparison operand is. tr maps values of an expanded helper's frame to the frame of
// Result.Failed (nil for operands of Result.Failed itself): the access path is described with the helper's
// parameter replaced by the argument it was called with.
func verdictOperand(v ssa.Value, recv string, tr func(ssa.Value) ssa.Value) string {
	v = an.Strip(v)
	if k, ok := v.(*ssa.Const); ok {
		if k.IsNil() {
			return "NIL"
		}
		if k.Value != nil && k.Value.String() == "0" {
			return "ZERO"
		}
		if k.Value != nil && k.Value.String() == "1" {
			return "ONE"
		}
		return "CONST"
	}
	d := an.D().Of(v)
	if tr != nil {
		// base of the access path
		base := v
		for i := 0; i < 10; i++ {
			switch x := base.(type) {
			case *ssa.FieldAddr:
				base = an.Strip(x.X)
				continue
			case *ssa.Field:
				base = an.Strip(x.X)
				continue
			case *ssa.UnOp:
				base = an.Strip(x.X)
				continue
			}
			break
		}
		if p, ok := base.(*ssa.Parameter); ok {
			if a := tr(p); a != ssa.Value(p) {
				ad := strings.TrimPrefix(an.D().Of(a), "&")
				d = strings.Replace(d, an.ParamDesc(p), ad, 1)
			}
		}
	}
	// an option copied once into a field of the result's own (`tolerance.maxFailures ← runOptions.MaxFailures`)
	if fld, owner := an.TerminalField(v); fld != nil && !an.IsNamed(owner, optionsPkg, "RunOptions") && curCtx != nil {
		if sf, so := an.TerminalField(singleSource(curCtx, an.Terminal(v))); sf != nil && an.IsNamed(so, optionsPkg, "RunOptions") {
			d = "." + sf.Name()
		}
	}
	switch {
	case strings.HasSuffix(d, ".Error("+recv+")"):
		return "ERR"
	case strings.HasSuffix(d, ".IgnoreDropped"):
		return "IGN"
	case strings.HasSuffix(d, ".snapshot.DroppedIterationCount"):
		return "DROPPED"
	case strings.HasSuffix(d, ".MaxFailures"):
		return "MF"
	case strings.HasSuffix(d, ".MaxFailuresRate"):
		return "MFR"
	case strings.HasSuffix(d, ".snapshot.FailedIterationDurations.Count"):
		return "FAILED"
	}
	return "?" + d
}

var flipOp = map[token.Token]token.Token{token.GTR: token.LSS, token.LSS: token.GTR, token.GEQ: token.LEQ, token.LEQ: token.GEQ, token.EQL: token.EQL, token.NEQ: token.NEQ}

// classifyVerdictAtom maps a branch condition to a predicate over verdictState.
func classifyVerdictAtom(cond ssa.Value, recv string, shareFn func(*ssa.Call) bool, tr func(ssa.Value) ssa.Value) (func(verdictState) bool, string) {
	cond = an.Strip(cond)
	if call, ok := cond.(*ssa.Call); ok {
		if shareFn(call) {
			return func(s verdictState) bool { return s.S }, ""
		}
		return nil, "condition calls " + an.D().Of(call) + ", which is not the failed-share predicate"
	}
	bo, ok := cond.(*ssa.BinOp)
	if !ok {
		if verdictOperand(cond, recv, tr) == "IGN" {
			return func(s verdictState) bool { return s.I }, ""
		}
		return nil, "condition " + an.D().Of(cond) + " is not a comparison"
	}
	a, b, op := verdictOperand(bo.X, recv, tr), verdictOperand(bo.Y, recv, tr), bo.Op
	if a == "ZERO" || a == "NIL" || a == "ONE" || (a == "MF" && b == "FAILED") {
		a, b, op = b, a, flipOp[op]
	}
	pos := func(get func(verdictState) bool) (func(verdictState) bool, string) { // X vs ZERO for unsigned X
		switch op {
		case token.GTR, token.NEQ:
			return get, ""
		case token.EQL, token.LEQ:
			return func(s verdictState) bool { return !get(s) }, ""
		}
		return nil, "comparison " + an.D().Of(bo) + " of an unsigned count with 0 using " + op.String() + " is constant"
	}
	switch {
	case a == "ERR" && b == "NIL":
		if op == token.NEQ {
			return func(s verdictState) bool { return s.E }, ""
		}
		if op == token.EQL {
			return func(s verdictState) bool { return !s.E }, ""
		}
	case a == "DROPPED" && b == "ZERO":
		return pos(func(s verdictState) bool { return s.D })
	case a == "DROPPED" && b == "ONE" && op == token.GEQ:
		return func(s verdictState) bool { return s.D }, ""
	case a == "FAILED" && b == "ZERO":
		return pos(func(s verdictState) bool { return s.Fpos })
	case a == "FAILED" && b == "ONE" && op == token.GEQ:
		return func(s verdictState) bool { return s.Fpos }, ""
	case a == "MF" && b == "ZERO":
		return pos(func(s verdictState) bool { return !s.MFz })
	case a == "MFR" && b == "ZERO":
		switch op {
		case token.EQL:
			return func(s verdictState) bool { return s.MR == 0 }, ""
		case token.NEQ:
			return func(s verdictState) bool { return s.MR != 0 }, ""
		case token.GTR:
			return func(s verdictState) bool { return s.MR > 0 }, ""
		case token.GEQ:
			return func(s verdictState) bool { return s.MR >= 0 }, ""
		case token.LSS:
			return func(s verdictState) bool { return s.MR < 0 }, ""
		case token.LEQ:
			return func(s verdictState) bool { return s.MR <= 0 }, ""
		}
	case a == "FAILED" && b == "MF":
		switch op {
		case token.GTR:
			return func(s verdictState) bool { return s.FgtM }, ""
		case token.LEQ:
			return func(s verdictState) bool { return !s.FgtM }, ""
		default:
			return nil, "failed count compared with max-failures using " + op.String() + ": the tolerance is 'more than max-failures' (strictly greater)"
		}
	}
	return nil, "unrecognised verdict comparison " + an.D().Of(bo) + " (" + a + " " + op.String() + " " + b + ")"
}

func kebab(s string) string {
	var out []rune
	for i, r := range s {
		if unicode.IsUpper(r) {
			if i > 0 {
				out = append(out, '-')
			}
			out = append(out, unicode.ToLower(r))
		} else {
			out = append(out, r)
		}
	}
	return string(out)
}

func c08(c *core.Ctx, r *core.Report) {
	r.Explanation = "Decides the verdict predicate for every combination of counts and options by enumerating the complete truth table of Result.Failed over its comparison atoms (predicate abstraction of one function's CFG: atoms are classified by the access paths and operator they compare, abstract states are orderings, no program value is computed) and comparing it with the documented specification; " +
		"plus: (R2/R3) the failed-share predicate is a strict comparison of failed·100 against rate·(all iterations) without integer division, truncation or an undefined case; (R4) the CLI returns nil only after testing Error()==nil and Failed()==false; (R5) tolerance options come from the same-named flags/config options; (R6) setup/teardown failures reach the error set through the handle's own flags."
	r.NotDecided = []string{"cobra / os.Exit wiring beyond 'the command returns an error'", "rows with a negative max-failures-rate (outside 'sane ranges'; printed as information)"}
	failedFn := c.MustFn("internal/run", "Result.Failed")
	recv := an.ParamDesc(failedFn.Params[0])

	var shareFn *ssa.Function
	var shareCall *ssa.Call
	isShare := func(call *ssa.Call) bool {
		t := an.Callee(call)
		if t == nil || core.RelPkg(t) != "internal/progress" || t.Signature.Results().Len() != 1 {
			return false
		}
		if b, ok := t.Signature.Results().At(0).Type().Underlying().(*types.Basic); !ok || b.Kind() != types.Bool {
			return false
		}
		shareFn, shareCall = t, call
		return true
	}

	rule(r, "C08.R1", "truth table of Result.Failed() = err ∨ (¬ignoreDropped ∧ dropped>0) ∨ (maxFailures=0 ∧ maxFailuresRate=0 ∧ failed>0) ∨ (maxFailures>0 ∧ failed>maxFailures) ∨ (maxFailuresRate>0 ∧ share>rate), over all consistent orderings", func() {
		// bool helpers of the run package are expanded into their own comparisons (the share predicate of the progress
		// package and Result.Error stay atoms)
		expandable := func(t *ssa.Function) bool {
			if t == nil || t.Blocks == nil || core.RelPkg(t) != "internal/run" || isMethod(t, runPkg, "Result", "Error") || t.Signature.Results().Len() != 1 {
				return false
			}
			b, ok := t.Signature.Results().At(0).Type().Underlying().(*types.Basic)
			return ok && b.Kind() == types.Bool
		}
		stopExpand := func(t *ssa.Function) bool { return !expandable(t) }
		paths, err := an.DecisionPathsInl(failedFn, 4096, 2, stopExpand)
		if err != nil {
			r.Undecided("Result.Failed#paths", c.Pos(failedFn.Pos()), "%v", err)
			return
		}
		// only pure instructions allowed
		pure := true
		an.Instrs(failedFn, func(in ssa.Instruction) {
			switch x := in.(type) {
			case ssa.CallInstruction:
				if an.LockOpOf(x) != nil {
					return
				}
				if call, ok := x.(*ssa.Call); ok {
					if t := an.Callee(call); t != nil && (isMethod(t, runPkg, "Result", "Error") || isShare(call) || expandable(t)) {
						return
					}
				}
				pure = false
				r.Undecided("Result.Failed#impure", an.Pos(c, in), "Result.Failed contains a call the decision table does not model: %s", an.D().Of(x.Common().Value))
			case *ssa.Store:
				if _, isAlloc := x.Addr.(*ssa.Alloc); !isAlloc {
					pure = false
					r.Undecided("Result.Failed#impure", an.Pos(c, in), "Result.Failed writes to %s", an.D().Of(x.Addr))
				}
			}
		})
		if !pure {
			return
		}
		type atomT struct {
			f   func(verdictState) bool
			why string
		}
		cache := map[ssa.Value]atomT{}
		classify := func(l an.Lit) atomT {
			v := an.Strip(l.Cond)
			if a, ok := cache[v]; ok {
				return a
			}
			f, why := classifyVerdictAtom(v, recv, isShare, l.Tr)
			cache[v] = atomT{f, why}
			return cache[v]
		}
		rows, bad, negRows := 0, 0, 0
		for _, e := range []bool{false, true} {
			for _, i := range []bool{false, true} {
				for _, d := range []bool{false, true} {
					for _, mfz := range []bool{false, true} {
						for _, mr := range []int{-1, 0, 1} {
							for _, fp := range []bool{false, true} {
								for _, fg := range []bool{false, true} {
									for _, sh := range []bool{false, true} {
										st := verdictState{e, i, d, mfz, mr, fp, fg, sh}
										if !st.consistent() {
											continue
										}
										// find the path
										var got *bool
										for _, p := range paths {
											if p.Ret == nil {
												continue
											}
											ok := true
											for _, l := range p.Lits {
												a := classify(l)
												if a.f == nil {
													r.Violation("Result.Failed#atom", an.Pos(c, l.If), "%s", a.why)
													return
												}
												if a.f(st) != l.Val {
													ok = false
													break
												}
											}
											if !ok {
												continue
											}
											res := an.Strip(p.OnPath(an.Strip(p.Ret.Results[0])))
											for k := 0; k < 4; k++ {
												res = an.Strip(p.OnPath(res))
											}
											var val bool
											if k, isK := res.(*ssa.Const); isK && k.Value != nil {
												val = k.Value.String() == "true"
											} else {
												// the result is a condition (or a bool helper's result): true iff one of its
												// alternatives holds in this state
												for _, alt := range an.ExpandLit(an.Lit{Cond: res, Val: true}, 2, stopExpand) {
													all := true
													for _, al := range alt {
														a := classify(al)
														if a.f == nil {
															r.Undecided("Result.Failed#result", an.Pos(c, p.Ret), "result %s on a path is not a constant or a known atom: %s", an.D().Of(res), a.why)
															return
														}
														if a.f(st) != al.Val {
															all = false
															break
														}
													}
													if all {
														val = true
														break
													}
												}
											}
											got = &val
											break
										}
										if got == nil {
											r.Undecided("Result.Failed#row", c.Pos(failedFn.Pos()), "no path for %s", st)
											return
										}
										if mr < 0 {
											negRows++
											if *got != st.spec() {
												r.Note("Result.Failed#negative-rate", c.Pos(failedFn.Pos()), "with a negative rate: %s → %v", st, *got)
											}
											continue
										}
										rows++
										if *got != st.spec() {
											bad++
											if bad <= 6 {
												r.Violation(sprintf("Result.Failed#row%d", bad), c.Pos(failedFn.Pos()), "verdict is %v but the documented tolerances give %v for: %s", *got, st.spec(), st)
											}
										}
									}
								}
							}
						}
					}
				}
			}
		}
		r.Count("truth-table rows (consistent, rate>=0)", rows)
		r.Count("truth-table rows with negative rate (information)", negRows)
		r.Count("decision paths of Result.Failed", len(paths))
		if bad == 0 && rows > 0 {
			r.OK("Result.Failed#truth-table", c.Pos(failedFn.Pos()), "%d consistent rows over 8 atoms agree with the specification (%d paths, %d distinct atoms)", rows, len(paths), len(cache))
		}
		r.Floor("truth-table rows", rows, 100)
	})

	rule(r, "C08.R2", "the failed-share predicate is total: no integer division or remainder whose divisor is not a non-zero constant (defined for zero iterations)", func() {
		if shareFn == nil {
			r.Violation("share-predicate", c.Pos(failedFn.Pos()), "Result.Failed does not consult a failed-share predicate: max-failures-rate has no effect")
			return
		}
		n := 0
		for g := range an.ReachSet(shareFn, nil) {
			an.Instrs(g, func(in ssa.Instruction) {
				bo, ok := in.(*ssa.BinOp)
				if !ok || !(bo.Op == token.QUO || bo.Op == token.REM) {
					return
				}
				b, isBasic := bo.X.Type().Underlying().(*types.Basic)
				if !isBasic || b.Info()&types.IsInteger == 0 {
					return
				}
				n++
				if k, isK := bo.Y.(*ssa.Const); isK && k.Value != nil && k.Value.String() != "0" {
					r.OK(core.FuncName(g)+"#div", an.Pos(c, in), "constant non-zero divisor")
					return
				}
				r.Violation(core.FuncName(g)+"#div", an.Pos(c, in), "integer %s by %s in the failed-share computation: it panics when there are no iterations, so the verdict is undefined for an empty run", bo.Op, an.D().Of(bo.Y))
			})
		}
		if n == 0 {
			r.OK(core.FuncName(shareFn)+"#total", c.Pos(shareFn.Pos()), "no integer division in the failed-share predicate")
		}
	})

	rule(r, "C08.R3", "the share is compared exactly: a strict `>` between failed·100 and rate·all (or a floating quotient), all = failed+successful+dropped, rate = the max-failures-rate option, no truncating operation feeds the comparison", func() {
		if shareFn == nil || shareCall == nil {
			r.Undecided("anchor", "-", "share predicate not resolved (R1)")
			return
		}
		key := core.FuncName(shareFn)
		// arguments at the call site
		recvD := an.D().Of(shareCall.Call.Args[0])
		for _, e := range an.FlatCalls(failedFn, 2, func(call ssa.CallInstruction, _ *ssa.Function) bool { return call == ssa.CallInstruction(shareCall) }) {
			// the call sits in a helper of Result.Failed: its receiver seen from Result.Failed
			recvD = strings.TrimPrefix(an.D().Of(an.EventFV(e, shareCall.Call.Args[0]).Resolve(nil).V), "&")
		}
		r.Check(strings.HasSuffix(recvD, ".snapshot"), key+"#receiver", an.Pos(c, shareCall), "evaluated on the result's snapshot", "share evaluated on "+recvD)
		rateD := an.D().Of(shareCall.Call.Args[len(shareCall.Call.Args)-1])
		rateOK := strings.HasSuffix(rateD, ".MaxFailuresRate")
		if !rateOK {
			// the option copied once into a field of the result's own
			rv := shareCall.Call.Args[len(shareCall.Call.Args)-1]
			if sf, so := an.TerminalField(singleSource(c, an.Terminal(rv))); sf != nil && sf.Name() == "MaxFailuresRate" && an.IsNamed(so, optionsPkg, "RunOptions") {
				rateOK = true
			}
		}
		r.Check(rateOK, key+"#rate-arg", an.Pos(c, shareCall), "rate argument is "+rateD, "the rate handed to the share predicate is "+rateD+", not the max-failures-rate option")
		rets := an.Returns(shareFn)
		var cmp *ssa.BinOp
		ok := false
		if len(rets) == 1 {
			cmp, ok = an.Strip(rets[0].Results[0]).(*ssa.BinOp)
		}
		if !ok {
			// the comparison is branched on (`if a > b { return true }; return false`), possibly behind a shortcut: read
			// the function path by path — its result must be the value of ONE comparison on every path that evaluates
			// it, and false on paths that leave early because nothing failed
			paths, err := an.DecisionPaths(shareFn, 64)
			if err != nil {
				r.Undecided(key+"#shape", c.Pos(shareFn.Pos()), "share predicate: %v", err)
				return
			}
			isProductCmp := func(v ssa.Value) *ssa.BinOp {
				bo, isB := an.Strip(v).(*ssa.BinOp)
				if !isB {
					return nil
				}
				switch bo.Op {
				case token.GTR, token.LSS, token.GEQ, token.LEQ:
				default:
					return nil
				}
				for _, side := range []ssa.Value{bo.X, bo.Y} {
					if m, isM := an.Strip(side).(*ssa.BinOp); isM && (m.Op == token.MUL || m.Op == token.QUO) {
						return bo
					}
				}
				return nil
			}
			for _, p := range paths {
				for _, l := range p.Lits {
					if m := isProductCmp(l.Cond); m != nil {
						if cmp != nil && cmp != m {
							r.Undecided(key+"#shape", c.Pos(shareFn.Pos()), "share predicate evaluates more than one comparison of products")
							return
						}
						cmp = m
					}
				}
				if p.Ret != nil {
					if m := isProductCmp(p.OnPath(p.Ret.Results[0])); m != nil {
						if cmp != nil && cmp != m {
							r.Undecided(key+"#shape", c.Pos(shareFn.Pos()), "share predicate evaluates more than one comparison of products")
							return
						}
						cmp = m
					}
				}
			}
			if cmp == nil {
				r.Undecided(key+"#shape", c.Pos(shareFn.Pos()), "no comparison of products found in the share predicate")
				return
			}
			for _, p := range paths {
				if p.Ret == nil {
					continue
				}
				res := an.Strip(p.OnPath(p.Ret.Results[0]))
				decided, mval := false, false
				for _, l := range p.Lits {
					if an.Strip(l.Cond) == ssa.Value(cmp) {
						decided, mval = true, l.Val
					}
				}
				if res == ssa.Value(cmp) {
					continue
				}
				k, isK := res.(*ssa.Const)
				if !isK || k.Value == nil {
					r.Violation(key+"#shape", an.Pos(c, p.Ret), "the share predicate returns %s on one path, not the value of its comparison", an.D().Of(res))
					return
				}
				rv := k.Value.String() == "true"
				if decided {
					if rv != mval {
						r.Violation(key+"#shape", an.Pos(c, p.Ret), "the share predicate returns %v where its comparison is %v", rv, mval)
						return
					}
					continue
				}
				// a shortcut taken before the comparison: only "nothing failed → false"
				shortcutOK := false
				for _, l := range p.Lits {
					bo, isB := an.Strip(l.Cond).(*ssa.BinOp)
					if !isB {
						continue
					}
					kk, isKK := bo.Y.(*ssa.Const)
					if !isKK || kk.Value == nil || kk.Value.String() != "0" {
						continue
					}
					if f, _ := an.TerminalField(bo.X); f != nil && f.Name() == "Count" && strings.Contains(an.D().Of(bo.X), "Failed") {
						if (bo.Op == token.EQL && l.Val) || (bo.Op == token.NEQ && !l.Val) || (bo.Op == token.LEQ && l.Val) || (bo.Op == token.GTR && !l.Val) {
							shortcutOK = true
						}
					}
				}
				if rv || !shortcutOK {
					r.Violation(key+"#shape", an.Pos(c, p.Ret), "the share predicate answers %v on a path that never compares the share (only `no failures → false` may be decided early)", rv)
					return
				}
			}
			ok = true
		}
		if !ok || !(cmp.Op == token.GTR || cmp.Op == token.LSS) {
			r.Violation(key+"#strict", c.Pos(cmp.Pos()), "the share predicate is %s, not a strict comparison: 'strictly greater than max-failures-rate percent' is not what is decided", an.D().Of(cmp))
			return
		}
		big, small := cmp.X, cmp.Y
		if cmp.Op == token.LSS {
			big, small = cmp.Y, cmp.X
		}
		// leaves and operators
		type tree struct {
			leaves []string
			ops    map[token.Token]bool
			lossy  []string
		}
		var collect func(v ssa.Value, t *tree, depth int)
		collect = func(v ssa.Value, t *tree, depth int) {
			v = an.Strip(v)
			if depth > 8 {
				t.leaves = append(t.leaves, "…")
				return
			}
			switch x := v.(type) {
			case *ssa.BinOp:
				t.ops[x.Op] = true
				if b, ok := x.Type().Underlying().(*types.Basic); ok && b.Info()&types.IsInteger != 0 && (x.Op == token.QUO || x.Op == token.REM || x.Op == token.SHR) {
					t.lossy = append(t.lossy, x.Op.String())
				}
				collect(x.X, t, depth+1)
				collect(x.Y, t, depth+1)
			case *ssa.Call:
				if g := an.Callee(x); g != nil && core.InModule(g) && len(an.Returns(g)) == 1 {
					d := an.D().Of(an.Returns(g)[0].Results[0])
					t.leaves = append(t.leaves, "call:"+g.Name()+"="+d)
					return
				}
				t.leaves = append(t.leaves, an.D().Of(x))
			default:
				t.leaves = append(t.leaves, an.D().Of(v))
			}
		}
		bt, st := &tree{ops: map[token.Token]bool{}}, &tree{ops: map[token.Token]bool{}}
		collect(big, bt, 0)
		collect(small, st, 0)
		if len(bt.lossy)+len(st.lossy) > 0 {
			r.Violation(key+"#lossy", an.Pos(c, cmp), "a truncating integer operation (%v) feeds the comparison against the tolerance: a share between two whole percents passes a tolerance it exceeds", append(bt.lossy, st.lossy...))
		}
		hasLeaf := func(t *tree, pred func(string) bool) bool {
			for _, l := range t.leaves {
				if pred(l) {
					return true
				}
			}
			return false
		}
		failedLeaf := func(l string) bool { return strings.HasSuffix(l, "FailedIterationDurations.Count") }
		rateLeaf := func(l string) bool { return strings.HasPrefix(l, "$") && !strings.Contains(l, ".") }
		allLeaf := func(l string) bool {
			return strings.HasPrefix(l, "call:") && strings.Contains(l, "FailedIterationDurations.Count") && strings.Contains(l, "SuccessfulIterationDurations.Count") && strings.Contains(l, "DroppedIterationCount") && !strings.ContainsAny(strings.SplitN(l, "=", 2)[1], "*/-")
		}
		startedLeaf := func(l string) bool {
			return strings.HasPrefix(l, "call:") && !strings.Contains(l, "DroppedIterationCount")
		}
		r.Check(hasLeaf(bt, failedLeaf) && !hasLeaf(st, failedLeaf), key+"#numerator", an.Pos(c, cmp), "the failed count is on the greater side of the strict comparison", "the failed count is not the quantity tested to be greater")
		r.Check(hasLeaf(st, rateLeaf) || hasLeaf(bt, rateLeaf), key+"#rate", an.Pos(c, cmp), "the tolerance parameter takes part in the comparison", "the tolerance parameter is not compared")
		if hasLeaf(st, allLeaf) || hasLeaf(bt, allLeaf) {
			r.OK(key+"#denominator", an.Pos(c, cmp), "denominator is all iterations (failed + successful + dropped)")
		} else if hasLeaf(st, startedLeaf) || hasLeaf(bt, startedLeaf) {
			r.Violation(key+"#denominator", an.Pos(c, cmp), "the share is taken over %v, which is not failed+successful+dropped (documented: share of all iterations)", append(bt.leaves, st.leaves...))
		} else {
			r.Violation(key+"#denominator", an.Pos(c, cmp), "no 'all iterations' term in the share comparison (leaves: %v)", append(bt.leaves, st.leaves...))
		}
		hundred := func(l string) bool { return l == "100" }
		r.Check(hasLeaf(bt, hundred) != hasLeaf(st, hundred) || (!hasLeaf(bt, hundred) && !hasLeaf(st, hundred) && false), key+"#percent", an.Pos(c, cmp), "the factor 100 appears on exactly one side", "the percent scaling (100) is missing or applied to both sides")
	})

	rule(r, "C08.R4", "runCmdExecute returns nil only on a path where result.Error() == nil and result.Failed() == false were both tested after Do", func() {
		do, _ := runDo(c)
		var cmdFn *ssa.Function
		var doCall ssa.CallInstruction
		for _, fn := range c.AllFuncs {
			if core.RelPkg(fn) != "internal/run" {
				continue
			}
			for _, call := range an.AllCalls(fn) {
				if an.Callee(call) == do {
					cmdFn, doCall = fn, call
				}
			}
		}
		if cmdFn == nil {
			panic(core.AnchorError{What: "caller of Run.Do in internal/run"})
		}
		paths, err := an.DecisionPaths(cmdFn, 200000)
		if err != nil {
			r.Undecided(core.FuncName(cmdFn)+"#paths", c.Pos(cmdFn.Pos()), "%v", err)
			return
		}
		n, bad := 0, 0
		for _, p := range paths {
			if p.Ret == nil {
				continue
			}
			through := false
			for _, b := range p.Blocks {
				if b == doCall.Block() {
					through = true
				}
			}
			if !through {
				continue
			}
			res := p.OnPath(an.Strip(p.Ret.Results[len(p.Ret.Results)-1]))
			k, isK := res.(*ssa.Const)
			if !isK || !k.IsNil() {
				continue
			}
			n++
			errNil, notFailed := false, false
			for _, l := range p.Lits {
				d := an.D().Of(l.Cond)
				if strings.Contains(d, ".Error(") && strings.Contains(d, "Do(") {
					if bo, ok := an.Strip(l.Cond).(*ssa.BinOp); ok {
						if (bo.Op == token.NEQ && !l.Val) || (bo.Op == token.EQL && l.Val) {
							errNil = true
						}
					}
				}
				if call, ok := an.Strip(l.Cond).(*ssa.Call); ok && an.Callee(call) == failedFn && !l.Val {
					notFailed = true
				}
				// a helper mapping the result to the command's error: "helper(result) returned nil"
				if bo, ok := an.Strip(l.Cond).(*ssa.BinOp); ok && isNilConst(bo.Y) && ((bo.Op == token.NEQ && !l.Val) || (bo.Op == token.EQL && l.Val)) {
					if hc, ok := an.Strip(bo.X).(*ssa.Call); ok && an.Callee(hc) != nil && core.InModule(an.Callee(hc)) && strings.Contains(an.D().Of(hc), "Do(") {
						e, f := nilImplies(an.Callee(hc), failedFn)
						errNil = errNil || e
						notFailed = notFailed || f
					}
				}
			}
			if !(errNil && notFailed) {
				bad++
				r.Violation(core.FuncName(cmdFn)+"#nil-return", an.Pos(c, p.Ret), "the command returns nil after Do without having tested %s: a failed run exits with status 0", map[bool]string{true: "Failed()==false", false: "Error()==nil"}[errNil])
			}
		}
		if bad == 0 {
			r.OK(core.FuncName(cmdFn)+"#nil-return", an.Pos(c, doCall), "%d paths return nil after Do; all tested Error()==nil and Failed()==false", n)
		}
		r.Floor("nil-returning paths after Do", n, 1)
	})

	rule(r, "C08.R5", "the tolerance options of RunOptions come from the same-named command-line flag and from the same-named config option", func() {
		runOptionSources(c, r, []string{"MaxFailures", "MaxFailuresRate", "IgnoreDropped"})
	})

	rule(r, "C08.R6", "setup and teardown failures reach the error set: shared with C06.R1/R2 (setup-failed branch records an error; teardown failure is read from the handle's own teardownFailed flag and recorded)", func() {
		sub := core.NewReport("C06")
		c06(c, sub)
		n := 0
		for _, o := range sub.Obls {
			if !(o.Rule == "C06.R1" || o.Rule == "C06.R2") {
				continue
			}
			n++
			switch o.Status {
			case core.Discharged:
				r.OK(o.Rule+":"+o.Key, o.Pos, "%s", o.Msg)
			case core.Violated:
				r.Violation(o.Rule+":"+o.Key, o.Pos, "%s", o.Msg)
			case core.Undecided:
				r.Undecided(o.Rule+":"+o.Key, o.Pos, "%s", o.Msg)
			}
		}
		r.Floor("setup/teardown error obligations", n, 6)
		// Result.Error reports the recorded errors
		errFn := c.MustFn("internal/run", "Result.Error")
		okNil := false
		for _, p := range mustPaths(errFn) {
			if p.Ret == nil {
				continue
			}
			if k, ok := p.OnPath(an.Strip(p.Ret.Results[0])).(*ssa.Const); ok && k.IsNil() {
				for _, l := range p.Lits {
					// "the set of recorded errors is nil / empty", the set being the []error field of Result
					bo, isBin := an.Strip(l.Cond).(*ssa.BinOp)
					if !isBin || bo.Op != token.EQL || !l.Val {
						continue
					}
					x := an.Strip(bo.X)
					if call, isCall := x.(*ssa.Call); isCall && an.IsBuiltinCall(call, "len") {
						x = an.Strip(call.Call.Args[0])
					}
					if fld, owner := an.TerminalField(x); fld != nil && an.IsNamed(owner, runPkg, "Result") {
						if sl, isSl := fld.Type().Underlying().(*types.Slice); isSl && types.Identical(sl.Elem(), types.Universe.Lookup("error").Type()) {
							okNil = true
						}
					}
				}
				if len(p.Lits) == 0 {
					okNil = false
				}
			}
		}
		r.Check(okNil, "Result.Error#nil-iff-empty", c.Pos(errFn.Pos()), "Error() returns nil only when no error was recorded", "Result.Error can return nil although errors were recorded")
	})
}

func mustPaths(fn *ssa.Function) []an.DPath {
	// loops are cut by DecisionPaths' cycle error; fall back to return-only scan
	p, err := an.DecisionPaths(fn, 4096)
	if err == nil {
		return p
	}
	var out []an.DPath
	for _, ret := range an.Returns(fn) {
		var lits []an.Lit
		for _, g := range an.GuardsOf(ret.Block()) {
			lits = append(lits, an.Lit{Cond: g.Cond, Val: g.Polarity, If: g.If})
		}
		out = append(out, an.DPath{Blocks: []*ssa.BasicBlock{ret.Block()}, Lits: lits, Ret: ret})
	}
	return out
}

// nilImplies: on every path where helper h returns a nil error it has tested Error() == nil and Failed() == false.
func nilImplies(h, failedFn *ssa.Function) (errNil, notFailed bool) {
	paths, err := an.DecisionPaths(h, 4096)
	if err != nil {
		return false, false
	}
	errNil, notFailed = true, true
	n := 0
	for _, p := range paths {
		if p.Ret == nil || len(p.Ret.Results) == 0 {
			continue
		}
		res := p.OnPath(an.Strip(p.Ret.Results[len(p.Ret.Results)-1]))
		if !isNilConst(res) {
			continue
		}
		n++
		e, f := false, false
		for _, l := range p.Lits {
			d := an.D().Of(l.Cond)
			if bo, ok := an.Strip(l.Cond).(*ssa.BinOp); ok && strings.Contains(d, ".Error(") && isNilConst(bo.Y) {
				if (bo.Op == token.NEQ && !l.Val) || (bo.Op == token.EQL && l.Val) {
					e = true
				}
			}
			if call, ok := an.Strip(l.Cond).(*ssa.Call); ok && an.Callee(call) == failedFn && !l.Val {
				f = true
			}
		}
		errNil = errNil && e
		notFailed = notFailed && f
	}
	if n == 0 {
		return false, false
	}
	return
}

// runOptionSources: the named fields of the RunOptions literal handed to NewRun come from the same-named
// command-line flag and the same-named config-file option.
func runOptionSources(c *core.Ctx, r *core.Report, names []string) {
	var arg ssa.Value
	var where *ssa.Function
	var site ssa.CallInstruction
	for _, fn := range c.AllFuncs {
		if core.RelPkg(fn) != "internal/run" {
			continue
		}
		for _, call := range an.AllCalls(fn) {
			if t := an.Callee(call); t != nil && t.Name() == "NewRun" && core.RelPkg(t) == "internal/run" {
				arg, where, site = call.Common().Args[0], fn, call
			}
		}
	}
	if arg == nil {
		panic(core.AnchorError{What: "the call of NewRun in internal/run"})
	}
	isFlagGet := func(l srcLeaf) (ssa.Instruction, string) {
		v := l.V
		if ex, ok := v.(*ssa.Extract); ok {
			v = ex.Tuple
		}
		call, ok := v.(*ssa.Call)
		if !ok {
			return nil, ""
		}
		t, args := an.Callee(call), call.Call.Args
		var at ssa.Instruction = call
		if l.Callee != nil {
			// a getter handed to a helper: judged at the helper's call site
			t, args, at = l.Callee, l.Args, l.Site
		}
		if t == nil || !strings.HasPrefix(t.Name(), "Get") || t.Signature.Recv() == nil || !strings.HasSuffix(t.Signature.Recv().Type().String(), "pflag.FlagSet") {
			return nil, ""
		}
		for _, a := range args {
			if k, isK := a.(*ssa.Const); isK && k.Value != nil && k.Value.Kind() == constant.String {
				return at, constant.StringVal(k.Value)
			}
		}
		return at, "?"
	}
	for _, f := range names {
		// where the field of the options handed to NewRun can come from, through whatever helpers assemble them
		leaves := fieldSourcesOf(c, arg, f, where)
		var ds []string
		okCfg, okFlag, stray := false, false, ""
		var flagReads []ssa.Instruction
		set := false
		for _, l := range leaves {
			if _, isAlloc := l.V.(*ssa.Alloc); isAlloc {
				continue // the zero value of a literal that does not mention the field
			}
			set = true
			ds = append(ds, an.D().Of(l.V))
			if fld, owner := an.TerminalField(l.V); fld != nil && an.IsNamed(owner, apiPkg, "Options") {
				if fld.Name() == f {
					okCfg = true
				} else {
					stray = "the config option Options." + fld.Name()
				}
				continue
			}
			if call, name := isFlagGet(l); call != nil {
				if name == kebab(f) {
					okFlag = true
					flagReads = append(flagReads, call)
				} else {
					stray = "the flag --" + name
				}
			}
		}
		sort.Strings(ds)
		d := strings.Join(ds, " | ")
		key := core.FuncName(where) + "#" + f
		if !set {
			r.Violation(key, an.Pos(c, site), "RunOptions.%s is never set", f)
			continue
		}
		if stray != "" {
			r.Violation(key, an.Pos(c, site), "RunOptions.%s is fed from %s (sources: %s): expected the config option Options.%s and the flag --%s", f, stray, d, f, kebab(f))
			continue
		}
		r.Check(okCfg && okFlag, key, an.Pos(c, site), f+" ← "+d, "RunOptions."+f+" is fed from "+d+": expected the config option Options."+f+" and the flag --"+kebab(f))
		// the flag is consulted only when the trigger does not bring its own options (config-file mode keeps the file's)
		for _, fr := range flagReads {
			guarded := guardedUp(c, fr, func(g an.Guard) bool {
				fld, _ := an.TerminalField(g.Cond)
				return fld != nil && fld.Name() == "IgnoreCommonFlags" && !g.Polarity
			}, 3)
			r.Check(guarded, key+"-flag-only-without-own-options", an.Pos(c, fr), "the --"+kebab(f)+" flag is read only when the trigger does not ignore the common flags", "the --"+kebab(f)+" flag is read also when the trigger brings its own options (config-file mode): the flag's default silently replaces the value from the file")
		}
	}
}
