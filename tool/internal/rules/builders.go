package rules

import (
	"go/constant"
	"go/types"
	"sort"
	"strings"

	"golang.org/x/tools/go/ssa"

	"f1verif/internal/an"
	"f1verif/internal/core"
)

// Command-line builders of the rate triggers (api.Builder{Flags, New}). The profile a user configures on
// the command line is the one the trigger runs only if every option the builder registers is read, and
// every input is read before the rates are computed from it.

type builderSite struct {
	ctor    *ssa.Function // the function building the api.Builder
	newFn   *ssa.Function // its New closure
	compute []ssa.CallInstruction
}

func isFlagSetMethod(t *ssa.Function) bool {
	if t == nil || t.Signature.Recv() == nil {
		return false
	}
	return an.IsNamed(t.Signature.Recv().Type(), "github.com/spf13/pflag", "FlagSet")
}

func firstConstString(args []ssa.Value) (string, bool) {
	for _, a := range args {
		if k, ok := a.(*ssa.Const); ok && k.Value != nil && k.Value.Kind() == constant.String {
			return constant.StringVal(k.Value), true
		}
	}
	return "", false
}

func returnsRates(t *ssa.Function) bool {
	if t == nil {
		return false
	}
	res := t.Signature.Results()
	for i := 0; i < res.Len(); i++ {
		if an.IsNamed(res.At(i).Type(), apiPkg, "Rates") {
			return true
		}
	}
	return false
}

func triggerBuilders(c *core.Ctx) []builderSite {
	var out []builderSite
	for _, fn := range an.FuncsOfType(c, apiPkg, "Constructor") {
		if !strings.HasPrefix(core.RelPkg(fn), "internal/trigger/") {
			continue
		}
		ctor := fn.Parent()
		if ctor == nil {
			// a named function used as the constructor: the builder is made where the function is taken as a value
			for _, g := range c.AllFuncs {
				if core.RelPkg(g) != core.RelPkg(fn) || g == fn {
					continue
				}
				an.Instrs(g, func(in ssa.Instruction) {
					for _, op := range in.Operands(nil) {
						if *op == ssa.Value(fn) {
							if _, isCall := in.(ssa.CallInstruction); !isCall || in.(ssa.CallInstruction).Common().Value != ssa.Value(fn) {
								ctor = g
							}
						}
					}
				})
			}
		}
		if ctor == nil {
			continue
		}
		b := builderSite{ctor: an.Outermost(ctor), newFn: fn}
		for _, call := range an.AllCalls(fn) {
			if t := an.Callee(call); t != nil && core.InModule(t) && returnsRates(t) {
				b.compute = append(b.compute, call)
			}
		}
		out = append(out, b)
	}
	sort.Slice(out, func(i, j int) bool { return core.FuncName(out[i].newFn) < core.FuncName(out[j].newFn) })
	return out
}

// flagNames collects the names used in calls of *pflag.FlagSet methods selected by sel, in fn and in the
// module helpers it hands a flag set to (one level).
func flagNames(fn *ssa.Function, sel func(method string, t *ssa.Function) bool) map[string]ssa.Instruction {
	out := map[string]ssa.Instruction{}
	var walk func(f *ssa.Function, depth int)
	walk = func(f *ssa.Function, depth int) {
		for _, call := range an.AllCalls(f) {
			t := an.Callee(call)
			if t == nil {
				continue
			}
			if isFlagSetMethod(t) {
				if sel(t.Name(), t) {
					if name, ok := firstConstString(call.Common().Args[1:]); ok {
						if _, dup := out[name]; !dup {
							out[name] = call
						}
					}
				}
				continue
			}
			if depth > 0 && core.InModule(t) && t.Blocks != nil {
				takes := false
				for i := 0; i < t.Signature.Params().Len(); i++ {
					if p, ok := t.Signature.Params().At(i).Type().(*types.Pointer); ok && an.IsNamed(p, "github.com/spf13/pflag", "FlagSet") {
						takes = true
					}
				}
				if takes {
					walk(t, depth-1)
				}
			}
		}
	}
	walk(fn, 1)
	return out
}

func builderWiring(c *core.Ctx, r *core.Report, pkgs []string, minFlags, minCompute int) {
	var bs []builderSite
	for _, b := range triggerBuilders(c) {
		for _, p := range pkgs {
			if core.RelPkg(b.newFn) == "internal/trigger/"+p {
				bs = append(bs, b)
			}
		}
	}
	r.Floor("trigger builders", len(bs), len(pkgs))
	nFlags, nCompute := 0, 0
	for _, b := range bs {
		name := core.FuncName(b.newFn)
		registered := flagNames(b.ctor, func(m string, t *ssa.Function) bool {
			// registration methods hand back a pointer to the value (String, Duration, Float64P, …) or take the
			// variable to fill (StringVar…)
			if strings.HasPrefix(m, "Get") || strings.HasPrefix(m, "Mark") || m == "Lookup" || m == "Changed" || m == "Set" {
				return false
			}
			res := t.Signature.Results()
			if res.Len() == 1 {
				_, isPtr := res.At(0).Type().(*types.Pointer)
				return isPtr && !an.IsNamed(res.At(0).Type(), "github.com/spf13/pflag", "Flag")
			}
			return strings.Contains(m, "Var")
		})
		read := flagNames(b.newFn, func(m string, t *ssa.Function) bool {
			return strings.HasPrefix(m, "Get") || m == "Lookup" || m == "Changed"
		})
		var names []string
		for n := range registered {
			names = append(names, n)
		}
		sort.Strings(names)
		for _, n := range names {
			nFlags++
			_, ok := read[n]
			r.Check(ok, name+"#flag:"+n, an.Pos(c, registered[n]), "the builder reads --"+n, "the builder registers --"+n+" but never reads it: whatever the user passes for it is ignored and the trigger runs a profile other than the configured one")
		}
		for _, call := range b.compute {
			nCompute++
			t := an.Callee(call)
			// every input is read before the rates are computed
			late := ""
			for _, other := range an.AllCalls(b.newFn) {
				ot := an.Callee(other)
				if ot == nil || other == call || !an.ReachableFrom(call, other) {
					continue
				}
				if isFlagSetMethod(ot) && strings.HasPrefix(ot.Name(), "Get") {
					nm, _ := firstConstString(other.Common().Args[1:])
					late = "--" + nm + " is read at " + an.Pos(c, other)
				}
			}
			r.Check(late == "", name+"#inputs-before:"+t.Name(), an.Pos(c, call), "no option is read after the rates were computed", late+", after "+t.Name()+" already computed the rates: the value read cannot reach the profile")
			// no argument of the computation is re-assigned afterwards (the value merged later never reaches it)
			reassigned := ""
			for i, a := range call.Common().Args {
				av := an.Strip(a)
				if _, k := av.(*ssa.Const); k {
					continue
				}
				for _, ref := range an.Referrers(av) {
					phi, ok := ref.(*ssa.Phi)
					if !ok || len(phi.Block().Instrs) == 0 {
						continue
					}
					if phi.Block() != call.Block() && an.ReachableFrom(call, phi.Block().Instrs[len(phi.Block().Instrs)-1]) {
						pn := "argument " + itoa(i)
						if i < t.Signature.Params().Len() {
							pn = t.Signature.Params().At(i).Name()
						}
						reassigned = pn + " (" + phi.Comment + ") is assigned again at " + c.Pos(phi.Pos())
					}
				}
			}
			r.Check(reassigned == "", name+"#inputs-final:"+t.Name(), an.Pos(c, call), "the computation's arguments are final when it runs", "the variable passed as "+reassigned+", after "+t.Name()+" already used its earlier value: the later value (a fallback or a derived setting) never reaches the rates")
		}
	}
	r.Floor("registered flags", nFlags, minFlags)
	r.Floor("rate computations in builders", nCompute, minCompute)
}

// parseReferenceTime: the time against which a config file's stages are judged past or future is the time
// the file is parsed.
func parseReferenceTime(c *core.Ctx, r *core.Report) {
	n := 0
	for _, fn := range c.AllFuncs {
		if !core.InModule(fn) {
			continue
		}
		for _, call := range an.AllCalls(fn) {
			t := an.Callee(call)
			// by role: the functions of the file package that turn file content and a reference time into the plan
			if t == nil || core.RelPkg(t) != "internal/trigger/file" || t.Signature.Results().Len() == 0 || !strings.Contains(t.Signature.Results().At(0).Type().String(), "RunnableStages") {
				continue
			}
			for i, a := range call.Common().Args {
				if i >= t.Signature.Params().Len() || !an.IsNamed(t.Signature.Params().At(i).Type(), "time", "Time") {
					continue
				}
				n++
				v := an.Strip(a)
				if ld, ok := v.(*ssa.UnOp); ok {
					v = an.Strip(ld.X)
				}
				switch x := v.(type) {
				case *ssa.FreeVar, *ssa.Global:
					r.Violation(core.FuncName(fn)+"#parse-time", an.Pos(c, call), "%s", "the reference time handed to ParseConfigFile is "+an.D().Of(a)+", captured before this function ran (when the builder was constructed), not the time the file is parsed: stages that ended in between are still scheduled")
				case *ssa.Call:
					ct := an.Callee(x)
					r.Check(ct != nil && ct.Pkg != nil && ct.Pkg.Pkg.Path() == "time" && ct.Name() == "Now", core.FuncName(fn)+"#parse-time", an.Pos(c, call), "the reference time is time.Now() taken at the call", "the reference time handed to ParseConfigFile is "+an.D().Of(a)+", not the current time")
				default:
					r.Note(core.FuncName(fn)+"#parse-time", an.Pos(c, call), "reference time supplied by the caller: %s", an.D().Of(a))
				}
			}
		}
	}
	r.Floor("ParseConfigFile calls with a reference time", n, 1)
}

// flagsBehind: the command-line flags whose values can reach v (whole-program sources ending at FlagSet.Get*
// calls with a constant name).
func flagsBehind(c *core.Ctx, v ssa.Value, fn *ssa.Function) map[string]bool {
	out := map[string]bool{}
	for _, l := range sourcesOf(c, v, fn) {
		var call *ssa.Call
		switch x := l.V.(type) {
		case *ssa.Extract:
			call, _ = x.Tuple.(*ssa.Call)
		case *ssa.Call:
			call = x
		}
		if call == nil || !isFlagSetMethod(an.Callee(call)) || !strings.HasPrefix(an.Callee(call).Name(), "Get") {
			continue
		}
		if nm, ok := firstConstString(call.Call.Args[1:]); ok {
			out[nm] = true
		}
	}
	return out
}

// paramDescByFlag renders the parameter of fn that carries the value of the given flag ("$name"); when no
// parameter (or more than one) does, the fallback name is used.
func paramDescByFlag(c *core.Ctx, fn *ssa.Function, flag, fallback string) string {
	var found []*ssa.Parameter
	for _, p := range fn.Params {
		if flagsBehind(c, p, fn)[flag] {
			found = append(found, p)
		}
	}
	if len(found) == 1 {
		return an.ParamDesc(found[0])
	}
	return "$" + fallback
}

// delegateTarget follows a function that only hands its parameters on to a variant of itself
// (`func New(a, b) (…) { return NewWithOptions(a, b, nil) }`): the variant is what decides. Anything else is
// returned unchanged.
func delegateTarget(fn *ssa.Function) *ssa.Function {
	for hop := 0; hop < 3; hop++ {
		if fn == nil || len(fn.Blocks) != 1 {
			return fn
		}
		var call *ssa.Call
		ok := true
		for _, in := range fn.Blocks[0].Instrs {
			switch x := in.(type) {
			case *ssa.Call:
				if call != nil {
					ok = false
				}
				call = x
			case *ssa.Go, *ssa.Defer, *ssa.Send, *ssa.Panic:
				ok = false
			default:
				// building the extra arguments (a zero options struct, a nil hook) is part of handing on
			}
		}
		if !ok || call == nil {
			return fn
		}
		g := an.Callee(call)
		if g == nil || g.Blocks == nil || g.Pkg != fn.Pkg || len(call.Call.Args) < len(fn.Params) {
			return fn
		}
		// every parameter is handed on (extra arguments — an options value, a nil hook — may come before or after), and
		// those handed on directly keep their relative order: two parameters of one type swapped on the way are not a
		// delegation but a change
		last := -1
		for _, p := range fn.Params {
			passed := false
			for ai, a := range call.Call.Args {
				if a == ssa.Value(p) {
					passed = true
					if ai <= last {
						return fn
					}
					last = ai
				}
			}
			// … or put into the options value that is handed on (`Options{RandomFn: randomFnArg}`)
			if !passed {
				for _, ref := range an.Referrers(p) {
					if st, isSt := ref.(*ssa.Store); isSt && st.Val == ssa.Value(p) {
						if _, isFA := st.Addr.(*ssa.FieldAddr); isFA {
							passed = true
						}
					}
				}
			}
			if !passed {
				return fn
			}
		}
		// the results are the variant's results, in order
		rets := an.Returns(fn)
		if len(rets) != 1 {
			return fn
		}
		for i, res := range rets[0].Results {
			if ex, isEx := res.(*ssa.Extract); isEx {
				if ex.Tuple != ssa.Value(call) || ex.Index != i {
					return fn
				}
			} else if res != ssa.Value(call) {
				return fn
			}
		}
		fn = g
	}
	return fn
}
