package rules

import (
	"go/constant"
	"go/token"
	"go/types"
	"sort"
	"strings"

	"golang.org/x/tools/go/ssa"

	"f1verif/internal/an"
	"f1verif/internal/core"
)

func init() {
	register("C10", c10)
	register("C11", c11)
	register("C12", c12)
	register("C13", c13)
}

func isIntType(t types.Type) bool {
	b, ok := t.Underlying().(*types.Basic)
	return ok && b.Info()&types.IsInteger != 0
}

func isDuration(t types.Type) bool { return an.IsNamed(t, "time", "Duration") }

// interpolationArithmetic: integer multiplication/division on durations (or of a duration-scaled product)
// feeding the returned rate loses precision or overflows; the interpolation must be done in float64.
func interpolationArithmetic(c *core.Ctx, r *core.Report, fn *ssa.Function) {
	key := core.FuncName(fn) + "#interpolation"
	bad, floatDiv := 0, 0
	// fn and the same-package helpers whose result feeds fn's result
	fns := []*ssa.Function{fn}
	seen := map[*ssa.Function]bool{fn: true}
	for i := 0; i < len(fns) && i < 6; i++ {
		g := fns[i]
		for _, call := range an.AllCalls(g) {
			cv, ok := call.(*ssa.Call)
			t := an.Callee(call)
			if !ok || t == nil || t.Blocks == nil || seen[t] || core.RelPkg(t) != core.RelPkg(fn) || !feedsReturn(g, cv) {
				continue
			}
			seen[t] = true
			fns = append(fns, t)
		}
	}
	for _, g := range fns {
		g := g
		an.Instrs(g, func(in ssa.Instruction) {
			bo, ok := in.(*ssa.BinOp)
			if !ok || !(bo.Op == token.MUL || bo.Op == token.QUO || bo.Op == token.REM) {
				return
			}
			if !feedsReturn(g, bo) {
				return
			}
			if isIntType(bo.Type()) {
				_, kx := bo.X.(*ssa.Const)
				_, ky := bo.Y.(*ssa.Const)
				if kx && ky {
					return
				}
				bad++
				r.Violation(key, an.Pos(c, in), "integer %s (%s) feeds the interpolated rate: products of nanosecond offsets and rate deltas overflow int64 on long profiles, and integer quotients truncate", bo.Op, an.D().Of(bo))
				return
			}
			if bo.Op == token.QUO {
				floatDiv++
			}
		})
	}
	if bad == 0 {
		r.Check(floatDiv >= 1, key, c.Pos(fn.Pos()), "position is a float64 quotient; no integer multiplication/division feeds the rate", "no floating-point position quotient found in the interpolation")
	}
}

func c10(c *core.Ctx, r *core.Report) {
	r.Explanation = "The numerical clauses (within 1 of the exact value, inside the stage's targets, monotone) are bounds on floating-point interpolation and are NOT decided. Decided structurally: (R1) stage chaining: each stored stage starts at the previous stage's end target, the first at 0; " +
		"(R2) the total duration adds every stage's duration once, unconditionally, and is what the staged trigger reports; (R3) the stage cursor only moves forward and every query past the last stage (and past the ramp's end) returns the constant 0; " +
		"(R4) the interpolation position is a float64 quotient and no integer multiplication/division of durations feeds the rate; (R5) a stage is left only when the elapsed time reaches its duration (slack of at most 1 ns in the advance test)."
	r.NotDecided = []string{"within-1 accuracy of the interpolated value", "values never outside the stage's two targets", "monotonicity within a stage", "exact end instant of the ramp"}
	spkg := "internal/trigger/staged"
	// roles in the staged calculator: the cursor is its int field, the stage list its slice field, the stage start its
	// time.Time field; the receiver and the time parameter may have any name
	calcT, _ := c.Named(spkg, "RateCalculator").Underlying().(*types.Struct)
	var curFld, stagesFld *types.Var
	nInt := 0
	for i := 0; calcT != nil && i < calcT.NumFields(); i++ {
		f := calcT.Field(i)
		if isIntType(f.Type()) {
			curFld = f
			nInt++
		}
		if _, ok := f.Type().Underlying().(*types.Slice); ok {
			stagesFld = f
		}
	}
	if nInt > 1 {
		// several int fields: the cursor is the one the stage list is indexed with
		curFld = nil
		for _, fn := range c.AllFuncs {
			if core.RelPkg(fn) != spkg {
				continue
			}
			an.Instrs(fn, func(in ssa.Instruction) {
				ia, ok := in.(*ssa.IndexAddr)
				if !ok {
					return
				}
				if bf, _ := an.TerminalField(ia.X); !an.SameField(bf, stagesFld) {
					return
				}
				if fa, isFA := an.Strip(ia.Index).(*ssa.FieldAddr); isFA && isIntType(an.FieldOfAddr(fa).Type()) {
					curFld = an.FieldOfAddr(fa)
				}
			})
		}
	}
	isLoadOf := func(v ssa.Value, fld *types.Var) bool {
		fa, ok := an.Strip(v).(*ssa.FieldAddr)
		return ok && an.SameField(an.FieldOfAddr(fa), fld)
	}
	// lenStagesPlus(v) = k when v is len(stages)+k
	lenStagesPlus := func(v ssa.Value) (int64, bool) {
		v = an.Strip(v)
		off := int64(0)
		if bo, ok := v.(*ssa.BinOp); ok && (bo.Op == token.SUB || bo.Op == token.ADD) {
			if k, isK := constInt(bo.Y); isK {
				if bo.Op == token.SUB {
					k = -k
				}
				off, v = k, an.Strip(bo.X)
			}
		}
		call, ok := v.(*ssa.Call)
		if !ok || !an.IsBuiltinCall(call, "len") || !isLoadOf(call.Call.Args[0], stagesFld) {
			return 0, false
		}
		return off, true
	}

	rule(r, "C10.R1", "stage chaining: when a stage is appended its StartTarget is the previous stored stage's EndTarget, or the constant 0 when no stage is stored yet; every parsed stage is chained exactly once, in order", func() {
		calc, _ := c.Named(spkg, "RateCalculator").Underlying().(*types.Struct)
		var list *types.Var
		for i := 0; calc != nil && i < calc.NumFields(); i++ {
			if _, ok := calc.Field(i).Type().Underlying().(*types.Slice); ok {
				list = calc.Field(i)
			}
		}
		if list == nil {
			panic(core.AnchorError{What: "the stage list (slice field) of staged.RateCalculator"})
		}
		isList := func(v ssa.Value) bool {
			fa, ok := an.Strip(v).(*ssa.FieldAddr)
			return ok && an.SameField(an.FieldOfAddr(fa), list)
		}
		isLenList := func(v ssa.Value) bool {
			call, ok := an.Strip(v).(*ssa.Call)
			return ok && an.IsBuiltinCall(call, "len") && isList(call.Call.Args[0])
		}
		// each StartTarget store is judged from the lowest function of the package from which the whole chaining pass
		// is visible (the element stored resolves to an element of the list being walked)
		n, sawFirst, sawChain := 0, false, false
		isStartStore := func(in ssa.Instruction) (*ssa.Store, *ssa.FieldAddr) {
			st, ok := in.(*ssa.Store)
			if !ok {
				return nil, nil
			}
			fa, isFA := st.Addr.(*ssa.FieldAddr)
			if !isFA || an.FieldOfAddr(fa).Name() != "StartTarget" || !an.IsNamed(fa.X.Type(), core.ModPath+"/"+spkg, "Stage") {
				return nil, nil
			}
			// the zero value spelled out in a composite literal (`Stage{StartTarget: 0, EndTarget: …}`) is the same as
			// leaving the field out: not a chaining decision
			if k, isK := st.Val.(*ssa.Const); isK && k.Value != nil && k.Int64() == 0 {
				if al, isAl := fa.X.(*ssa.Alloc); isAl && len(an.StoresTo(al)) == 0 && len(an.LiteralFieldStores(al)) >= 2 {
					whole := false
					for _, ref := range an.Referrers(al) {
						if _, isSt := ref.(*ssa.Store); isSt {
							whole = true
						}
					}
					if !whole {
						return nil, nil
					}
				}
			}
			return st, fa
		}
		complete := func(e an.Event, fa *ssa.FieldAddr) bool {
			al, isAl := fa.X.(*ssa.Alloc)
			if !isAl {
				return false
			}
			for _, init := range an.StoresTo(al) {
				if _, ok := (an.FV{V: init.Val, F: e.Frame}).Resolve(nil).V.(*ssa.IndexAddr); ok {
					return true
				}
			}
			return false
		}
		chosen := map[ssa.Instruction]*ssa.Function{}
		depthOfRoot := map[ssa.Instruction]int{}
		for _, root := range c.AllFuncs {
			if core.RelPkg(root) != spkg || root.Parent() != nil {
				continue
			}
			an.Flatten(root, flatDepth, nil, func(e an.Event) {
				if _, fa := isStartStore(e.Instr); fa != nil && complete(e, fa) {
					d := depthOf(e)
					if cur, ok := chosen[e.Instr]; !ok || d < depthOfRoot[e.Instr] || (d == depthOfRoot[e.Instr] && root.String() < cur.String()) {
						chosen[e.Instr], depthOfRoot[e.Instr] = root, d
					}
				}
			})
		}
		for _, root := range c.AllFuncs {
			if core.RelPkg(root) != spkg || root.Parent() != nil {
				continue
			}
			var appends []an.Event
			an.Flatten(root, flatDepth, nil, func(e an.Event) {
				if call, ok := e.Instr.(*ssa.Call); ok && an.IsBuiltinCall(call, "append") && isList(call.Call.Args[0]) {
					appends = append(appends, e)
				}
			})
			an.Flatten(root, flatDepth, nil, func(e an.Event) {
				st, fa := isStartStore(e.Instr)
				if st == nil {
					return
				}
				if r0, ok := chosen[e.Instr]; ok && r0 != root {
					return
				}
				if _, ok := chosen[e.Instr]; !ok && e.Frame.Parent != nil {
					return // no function sees the whole pass: judged once, in its own function
				}
				n++
				key := core.FuncName(e.Instr.Parent())
				// which case is this store made in? (a value merged from several assignments is judged edge by edge, each
				// under the conditions of its own edge)
				var suffixes []string
				judge := func(val ssa.Value, guards []an.Guard) bool {
					empty, known := false, false
					for _, g := range guards {
						bo, isBin := g.Cond.(*ssa.BinOp)
						if !isBin || !isLenList(g.T(bo.X)) {
							continue
						}
						k, isK := constInt(bo.Y)
						if !isK {
							continue
						}
						known = true
						switch {
						case bo.Op == token.EQL && k == 0, bo.Op == token.LSS && k == 1, bo.Op == token.LEQ && k == 0:
							empty = g.Polarity
						case bo.Op == token.NEQ && k == 0, bo.Op == token.GTR && k == 0, bo.Op == token.GEQ && k == 1:
							empty = !g.Polarity
						default:
							known = false
						}
					}
					d := an.D().Of(val)
					if !known {
						// a default of 0 set first and overwritten under "a stage is already stored": every way from here to
						// the append passes that test
						if k, isK := val.(*ssa.Const); isK && k.Value != nil && k.Int64() == 0 {
							covered := false
							for _, b := range st.Parent().Blocks {
								iff, isIf := b.Instrs[len(b.Instrs)-1].(*ssa.If)
								if !isIf {
									continue
								}
								bo, isBin := iff.Cond.(*ssa.BinOp)
								if !isBin || !isLenList(bo.X) {
									continue
								}
								for _, ap := range appends {
									if ap.Instr.Parent() == st.Parent() && !reachesAvoiding(st.Block(), ap.Instr, iff) {
										covered = true
									}
								}
							}
							if covered {
								sawFirst = true
								r.OK(key+"#first", an.Pos(c, st), "start target defaults to 0 and is overwritten only when a stage is already stored")
								return false
							}
						}
						r.Undecided(key+"#emptiness", an.Pos(c, st), "a StartTarget is set without a test whether a stage is already stored")
						return false
					}
					if empty {
						sawFirst = true
						k, isK := val.(*ssa.Const)
						if !isK {
							// a field or parameter whose only source in the module is a constant
							k, isK = singleSource(c, val).(*ssa.Const)
						}
						r.Check(isK && k.Value != nil && k.Int64() == 0, key+"#first", an.Pos(c, st), "first stage starts at 0", "the first stage starts at "+d+" instead of 0")
					} else {
						sawChain = true
						okChain := false
						if efa, isE := val.(*ssa.FieldAddr); isE && an.FieldOfAddr(efa).Name() == "EndTarget" {
							if ia, isIA := an.Strip(efa.X).(*ssa.IndexAddr); isIA && isList(ia.X) {
								if bo, isBin := an.Strip(ia.Index).(*ssa.BinOp); isBin && bo.Op == token.SUB && isLenList(bo.X) {
									if k, isK := constInt(bo.Y); isK && k == 1 {
										okChain = true
									}
								}
							}
						}
						r.Check(okChain, key+"#chain", an.Pos(c, st), "StartTarget ← "+d, "a stage's start target is "+d+", not the previous stage's end target: the profile jumps at the stage boundary")
					}
					suffixes = append(suffixes, map[bool]string{true: "-first", false: "-chain"}[empty])
					return true
				}
				var evGuards []an.Guard
				for _, fg := range an.GuardsOfEvent(e) {
					evGuards = append(evGuards, fg.Guard)
				}
				val0 := an.EventFV(e, st.Val).Resolve(nil).V
				goOn := true
				if phi, isPhi := val0.(*ssa.Phi); isPhi && phi.Parent() == st.Parent() {
					for i, edge := range phi.Edges {
						pred := phi.Block().Preds[i]
						guards := append([]an.Guard(nil), an.GuardsOf(pred)...)
						if iff, isIf := pred.Instrs[len(pred.Instrs)-1].(*ssa.If); isIf {
							guards = append(guards, an.Guard{If: iff, Cond: stripNot(iff.Cond), Polarity: (pred.Succs[0] == phi.Block()) != isNegated(iff.Cond)})
						}
						if !judge(an.FV{V: edge, F: e.Frame}.Resolve(nil).V, guards) {
							goOn = false
						}
					}
				} else {
					goOn = judge(val0, evGuards)
				}
				if !goOn {
					return
				}
				// the stage whose start was set is the one appended, afterwards
				appended := false
				for _, ap := range appends {
					for _, el := range varargElems(ap.Instr.(*ssa.Call).Call.Args[1]) {
						if ld, isLd := el.(*ssa.UnOp); isLd && ld.Op == token.MUL && ld.X == fa.X {
							apIn := ap.Instr
							if apIn.Parent() == st.Parent() {
								// no way from the store to an exit that misses the append
								appended = an.EscapesWithout(st, func(in ssa.Instruction) bool { return in == apIn }) == nil
							} else {
								appended = an.Before(e, ap)
							}
						}
					}
				}
				for _, sfx := range suffixes {
					r.Check(appended, key+"#appended"+sfx, an.Pos(c, st), "the stage is appended to the list after its start target was set", "the stage whose start target is set here is not the one appended to the list afterwards")
				}
				// it is the loop's element of the list given: every stage once, in order
				if al, isAl := fa.X.(*ssa.Alloc); isAl {
					for _, init := range an.StoresTo(al) {
						src := an.FV{V: init.Val, F: e.Frame}.Resolve(nil)
						ia, isIA := src.V.(*ssa.IndexAddr)
						okAll := isIA && isCounter(ia.Index)
						if okAll {
							_, okAll = forwardBound(ia.Block(), ia.Index, ia.X, func(a, b ssa.Value) bool { return a == b })
						}
						for _, sfx := range suffixes {
							r.Check(okAll, key+"#all-stages"+sfx, an.Pos(c, init), "every stage of the list is chained exactly once, in list order", "the stage being chained is "+an.D().Of(src.V)+", not the element of a single forward pass over the stages given")
						}
					}
				}
			})
		}
		// every element is appended exactly once: in the function holding the append, every way through one pass
		// (the whole function, or one iteration of the loop around the append) executes it once
		for _, fn := range c.AllFuncs {
			if core.RelPkg(fn) != spkg {
				continue
			}
			for _, call := range an.AllCalls(fn) {
				cv, ok := call.(*ssa.Call)
				if !ok || !an.IsBuiltinCall(cv, "append") || !isList(cv.Call.Args[0]) {
					continue
				}
				w := func(in ssa.Instruction) an.Interval {
					if in == ssa.Instruction(cv) {
						return an.Interval{Lo: 1, Hi: 1}
					}
					return an.Interval{}
				}
				key := core.FuncName(fn) + "#append-once"
				good := true
				if an.InLoop(cv) {
					head := loopHeaderOf(cv)
					for _, succ := range head.Succs {
						if loop, _ := an.NaturalLoopOf(cv.Block()); loop == nil || !loop[succ] {
							continue
						}
						for _, ex := range an.PathCountUntil(succ.Instrs[0], w, map[*ssa.BasicBlock]bool{head: true}) {
							if ex.Count.Lo != 1 || ex.Count.Hi != 1 {
								good = false
								r.Violation(key, an.Pos(c, ex.Instr), "in one pass of the chaining loop a stage is appended %s times (expected exactly once): a stage of the profile is left out or duplicated", ex.Count)
							}
						}
					}
				} else {
					for _, ex := range an.PathCount(fn, w) {
						if _, isRet := ex.Instr.(*ssa.Return); isRet && (ex.Count.Lo != 1 || ex.Count.Hi != 1) {
							good = false
							r.Violation(key, an.Pos(c, ex.Instr), "on a path to this return the stage is appended %s times (expected exactly once): a stage of the profile is left out or duplicated", ex.Count)
						}
					}
				}
				if good {
					r.OK(key, an.Pos(c, cv), "every way through one chaining pass appends the stage exactly once")
				}
			}
		}
		if n == 0 {
			r.Violation("chaining", "-", "no function sets a stage's StartTarget: stages are not chained")
			return
		}
		r.Check(sawFirst && sawChain, "chaining#both", "-", "both the first-stage and the chained case are handled", "chaining does not distinguish the first stage from later ones")
	})

	rule(r, "C10.R2", "MaxDuration accumulates every stage's Duration exactly once (an unconditional += in a loop over all stages); CalculateStagedRate reports it as Rates.Duration and the staged trigger's Duration is that field", func() {
		md := c.MustFn(spkg, "RateCalculator.MaxDuration")
		okAcc := false
		// the function holding the accumulation: MaxDuration, or a helper it hands the stage list to
		accFn := md
		isStages := func(v ssa.Value) bool { return isLoadOf(v, stagesFld) }
		for hop := 0; hop < 2; hop++ {
			rets := an.Returns(accFn)
			if len(rets) != 1 {
				break
			}
			call, isCall := an.Strip(rets[0].Results[0]).(*ssa.Call)
			if !isCall {
				break
			}
			h := an.Callee(call)
			if h == nil || core.RelPkg(h) != spkg || h.Blocks == nil {
				break
			}
			idx := -1
			for i, a := range call.Call.Args {
				if isStages(a) {
					idx = i
				}
			}
			if idx < 0 || idx >= len(h.Params) {
				break
			}
			hp := h.Params[idx]
			accFn = h
			isStages = func(v ssa.Value) bool { return an.Strip(v) == ssa.Value(hp) }
		}
		for _, ret := range an.Returns(accFn) {
			phi, ok := ret.Results[0].(*ssa.Phi)
			if k, isK := ret.Results[0].(*ssa.Const); isK && k.Value != nil && k.Int64() == 0 {
				// the sum over no stages, returned early when the list is empty
				onlyEmpty := false
				for _, g := range an.GuardsOf(ret.Block()) {
					bo, isBin := g.Cond.(*ssa.BinOp)
					if !isBin {
						continue
					}
					ln, isLen := an.Strip(g.T(bo.X)).(*ssa.Call)
					if !isLen || !an.IsBuiltinCall(ln, "len") || !isStages(ln.Call.Args[0]) {
						continue
					}
					kk, isKK := constInt(bo.Y)
					if !isKK {
						continue
					}
					switch {
					case bo.Op == token.EQL && kk == 0, bo.Op == token.LSS && kk == 1, bo.Op == token.LEQ && kk == 0:
						onlyEmpty = onlyEmpty || g.Polarity
					case bo.Op == token.NEQ && kk == 0, bo.Op == token.GTR && kk == 0, bo.Op == token.GEQ && kk == 1:
						onlyEmpty = onlyEmpty || !g.Polarity
					}
				}
				if onlyEmpty {
					r.OK("MaxDuration#empty", an.Pos(c, ret), "0 returned early only when there are no stages")
					continue
				}
			}
			if !ok {
				r.Violation("MaxDuration#sum", an.Pos(c, ret), "MaxDuration returns %s, not an accumulator over the stages", an.D().Of(ret.Results[0]))
				continue
			}
			for _, e := range phi.Edges {
				if bo, ok := e.(*ssa.BinOp); ok && bo.Op == token.ADD {
					var other ssa.Value
					if p2, isPhi := bo.X.(*ssa.Phi); isPhi && phiCycle(p2, bo) {
						other = bo.Y
					} else if p2, isPhi := bo.Y.(*ssa.Phi); isPhi && phiCycle(p2, bo) {
						other = bo.X
					}
					if other == nil {
						continue
					}
					d := an.D().Of(other)
					loop, _ := an.NaturalLoopOf(bo.Block())
					uncond := loop != nil
					for _, g := range an.GuardsOf(bo.Block()) {
						if loop != nil && !loop[g.If.Block()] {
							continue
						}
						if !strings.Contains(an.D().Of(g.Cond), "len(") {
							uncond = false
						}
					}
					// the term is stages[i].Duration and i sweeps the whole list: 0 … len-1 or len-1 … 0
					covers := false
					if fa, isFA := an.Strip(other).(*ssa.FieldAddr); isFA && an.FieldOfAddr(fa).Name() == "Duration" {
						base := an.Strip(fa.X)
						if al, isAl := base.(*ssa.Alloc); isAl {
							// the range statement's own copy of the element
							if sts := an.StoresTo(al); len(sts) == 1 {
								base = an.Strip(sts[0].Val)
							}
						}
						if ia, isIA := base.(*ssa.IndexAddr); isIA && isStages(ia.X) {
							sw, okSw := indexSweep(accFn, ia.Index, bo, isStages)
							if okSw && sw.guardOK && sw.entryOK {
								up := sw.first.eq(aff{0, 0, 0, true}) && sw.perIter == 1 && sw.guardNorm.eq(aff{1, 0, -1, true}.sub(sw.idx))
								down := sw.first.eq(aff{1, 0, -1, true}) && sw.perIter == -1 && sw.guardNorm.eq(sw.idx)
								covers = up || down
							} else if isCounter(an.Strip(ia.Index)) {
								_, covers = forwardBound(bo.Block(), an.Strip(ia.Index), ia.X, func(a, b ssa.Value) bool { return an.Strip(a) == an.Strip(b) })
							}
						}
					}
					if covers && uncond {
						okAcc = true
					} else {
						r.Violation("MaxDuration#sum", an.Pos(c, bo), "the total adds %s (conditional=%v, sweeps the whole list=%v) instead of every stage's Duration", d, !uncond, covers)
					}
				}
			}
		}
		r.Check(okAcc, "MaxDuration#sum", c.Pos(md.Pos()), "Σ stages[i].Duration, unconditionally", "MaxDuration is not the sum of all stage durations (e.g. `=` instead of `+=`, or a filtered sum)")
		// the functions of the package that build the rates (by role: they return an api.Rates literal; variants that
		// delegate to another one are judged there)
		ratesFns := map[string]bool{}
		nRates := 0
		for _, csr := range c.AllFuncs {
			if core.RelPkg(csr) != spkg || !returnsRates(csr) {
				continue
			}
			ratesFns[csr.Name()] = true
			for _, ret := range an.Returns(csr) {
				lit := an.StructLiteralOf(ret.Results[0])
				if lit == nil || !an.IsNamed(lit.Type(), apiPkg, "Rates") {
					continue
				}
				nRates++
				v := an.LiteralFields(lit)["Duration"]
				d := "<unset>"
				if v != nil {
					d = an.D().Of(v)
				}
				r.Check(strings.Contains(d, "MaxDuration("), csr.Name()+"#Duration", an.Pos(c, ret), "Rates.Duration ← "+d, "Rates.Duration is "+d+", not the calculator's MaxDuration()")
			}
		}
		r.Floor("staged rates literals", nRates, 1)
		// the staged trigger literal
		found := false
		for _, fn := range c.AllFuncs {
			if core.RelPkg(fn) != spkg {
				continue
			}
			for _, ret := range an.Returns(fn) {
				if len(ret.Results) == 0 {
					continue
				}
				lit := an.StructLiteralOf(ret.Results[0])
				var litF *an.Frame
				if lit == nil && an.IsNamed(ret.Results[0].Type(), apiPkg, "Trigger") {
					// built by a helper (a shared trigger constructor): the literal in the helper's frame
					rv := an.RootFV(fn, ret.Results[0]).Resolve(nil)
					if al, isAl := rv.V.(*ssa.Alloc); isAl && rv.F != nil && rv.F.Parent != nil {
						lit, litF = al, rv.F
					}
				}
				if lit == nil || !an.IsNamed(lit.Type(), apiPkg, "Trigger") {
					continue
				}
				found = true
				v := an.LiteralFields(lit)["Duration"]
				if v != nil && litF != nil {
					v = an.FV{V: v, F: litF}.Resolve(nil).V
				}
				if v == nil {
					// … or set on the value the helper handed back, before it is returned
					for _, ref := range an.Referrers(an.Strip(ret.Results[0])) {
						if fa, isFA := ref.(*ssa.FieldAddr); isFA && an.FieldOfAddr(fa).Name() == "Duration" {
							for _, st := range an.StoresTo(fa) {
								if an.Dominates(st, ret) {
									v = st.Val
								}
							}
						}
					}
				}
				d := "<unset>"
				if v != nil {
					d = an.D().Of(v)
				}
				fromRates := false
				for nm := range ratesFns {
					if strings.Contains(d, "."+nm+"(") {
						fromRates = true
					}
				}
				r.Check(strings.HasSuffix(d, ".Duration") && fromRates, core.FuncName(fn)+"#Trigger.Duration", an.Pos(c, ret), "Trigger.Duration ← "+d, "the staged trigger reports total duration "+d+" instead of the sum of the stage durations")
			}
		}
		if !found {
			r.Undecided("staged#trigger-literal", "-", "staged api.Trigger literal not found")
		}
	})

	rate := c.MustFn(spkg, "RateCalculator.Rate")
	var rampFn *ssa.Function
	for _, fn := range an.FuncsOfType(c, apiPkg, "RateFunction") {
		if core.RelPkg(fn) == "internal/trigger/ramp" {
			rampFn = fn
		}
	}
	// pastEnd: the guard states cursor >= len(stages)
	pastEnd := func(g an.Guard) bool {
		bo, ok := g.Cond.(*ssa.BinOp)
		if !ok {
			return false
		}
		// the cursor may stand on either side of the comparison
		x, y, op := bo.X, bo.Y, bo.Op
		if !isLoadOf(g.T(x), curFld) && isLoadOf(g.T(y), curFld) {
			x, y, op = y, x, mirrorCmp(op)
		}
		if !isLoadOf(g.T(x), curFld) {
			return false
		}
		k, ok := lenStagesPlus(g.T(y))
		if !ok {
			return false
		}
		switch {
		case op == token.GTR && k == -1, op == token.GEQ && k == 0:
			return g.Polarity
		case op == token.LEQ && k == -1, op == token.LSS && k == 0:
			return !g.Polarity
		}
		return false
	}

	rule(r, "C10.R3", "the stage cursor only moves forward (stores: 0 when unset, and current+1); every return taken with the cursor past the last stage returns the constant 0; the ramp's after-end branch returns the constant 0", func() {
		if curFld == nil || stagesFld == nil {
			panic(core.AnchorError{What: "cursor (int) and stage list (slice) fields of staged.RateCalculator"})
		}
		n := 0
		for _, fn := range c.AllFuncs {
			if !core.InModule(fn) {
				continue
			}
			an.Instrs(fn, func(in ssa.Instruction) {
				st, ok := in.(*ssa.Store)
				if !ok || !an.SameField(an.FieldOfAddr(st.Addr), curFld) {
					return
				}
				n++
				d := an.D().Of(st.Val)
				okk := false
				switch v := an.Strip(st.Val).(type) {
				case *ssa.Const:
					okk = v.Value != nil && (v.Int64() == 0 || (v.Int64() == -1 && an.StructLiteralOf(st.Addr.(*ssa.FieldAddr).X) != nil))
				case *ssa.BinOp:
					k, isK := constInt(v.Y)
					okk = v.Op == token.ADD && isK && k == 1 && isLoadOf(v.X, curFld)
				}
				r.Check(okk, core.FuncName(fn)+"#cursor="+d, an.Pos(c, in), "cursor store "+d, "the stage cursor is set to "+d+": it can move backwards or skip stages")
			})
		}
		r.Floor("stores to the stage cursor", n, 1)
		past := 0
		for _, ret := range an.Returns(rate) {
			for _, g := range an.GuardsOf(ret.Block()) {
				if pastEnd(g) {
					past++
					d := an.D().Of(ret.Results[0])
					r.Check(d == "0", sprintf("RateCalculator.Rate#past-end%d", past), an.Pos(c, ret), "returns 0 once all stages elapsed", "after all stages have elapsed the staged profile returns "+d+" instead of 0")
					break
				}
			}
		}
		r.Floor("past-the-end returns", past, 1)
		// … and the stage list is only indexed with the cursor where the cursor is known to be inside it
		for _, e := range flatIndexings(rate, stagesFld) {
			ia := e.Instr.(*ssa.IndexAddr)
			if !isLoadOf(an.EventFV(e, ia.Index).Resolve(nil).V, curFld) {
				continue
			}
			inside := false
			for _, g := range an.GuardsOfEvent(e) {
				ng := g.Guard
				ng.Polarity = !ng.Polarity
				if pastEnd(ng) {
					inside = true
				}
			}
			r.Check(inside, "RateCalculator.Rate#cursor-inside@"+core.FuncName(e.Instr.Parent()), an.Pos(c, e.Instr), "indexed with the cursor only under cursor < len(stages)", "the stage list is indexed with the cursor where it may be past the last stage")
		}
		if rampFn == nil {
			r.Undecided("ramp#closure", "-", "ramp rate closure not found")
			return
		}
		after := 0
		for _, ret := range an.Returns(rampFn) {
			for _, g := range an.GuardsOf(ret.Block()) {
				call, isCall := an.Strip(g.Cond).(*ssa.Call)
				if !isCall || !g.Polarity {
					continue
				}
				// end.Before(now), or the same test written now.After(end)
				var endV, nowV ssa.Value
				switch {
				case isTimeMethod(an.Callee(call), "Time", "Before"):
					endV, nowV = call.Call.Args[0], call.Call.Args[1]
				case isTimeMethod(an.Callee(call), "Time", "After"):
					endV, nowV = call.Call.Args[1], call.Call.Args[0]
				default:
					continue
				}
				after++
				d := an.D().Of(ret.Results[0])
				r.Check(d == "0", "ramp#after-end", an.Pos(c, ret), "the ramp returns 0 after its duration", "after the ramp duration the ramp returns "+d+" instead of 0")
				// start.Add(duration).Before(now): the end is an Add of a duration onto the start, the other operand the time parameter
				addCall, isAdd := an.Strip(endV).(*ssa.Call)
				np, argIsParam := an.Strip(nowV).(*ssa.Parameter)
				okEnd := isAdd && isTimeMethod(an.Callee(addCall), "Time", "Add") && isDuration(addCall.Call.Args[1].Type()) && argIsParam && np.Parent() == rampFn
				r.Check(okEnd, "ramp#end-test", an.Pos(c, g.If), "end test is start+duration Before now", "the ramp's end test is "+an.D().Of(g.Cond)+", not startTime.Add(duration).Before(now)")
			}
		}
		r.Floor("ramp after-end returns", after, 1)
	})

	rule(r, "C10.R4", "the interpolation position is computed in float64; no integer multiplication or division feeds the returned rate", func() {
		interpolationArithmetic(c, r, rate)
		if rampFn != nil {
			interpolationArithmetic(c, r, rampFn)
		} else {
			r.Undecided("ramp#closure", "-", "ramp rate closure not found")
		}
	})

	rule(r, "C10.R5", "a stage is left only when the elapsed time since its start reaches its Duration: the cursor is advanced under (now − start) + c > Duration with c ≤ 1 ns, or (now − start) ≥ Duration", func() {
		n := 0
		var incs []an.Event
		an.Flatten(rate, flatDepth, nil, func(e an.Event) {
			if st, ok := e.Instr.(*ssa.Store); ok && an.SameField(an.FieldOfAddr(st.Addr), curFld) {
				if bo, isAdd := an.Strip(st.Val).(*ssa.BinOp); isAdd && bo.Op == token.ADD {
					incs = append(incs, e)
				}
			}
		})
		for _, e := range incs {
			// the comparison of elapsed time with the stage's duration among the guards of the increment
			for _, fg := range an.GuardsOfEvent(e) {
				g := fg.Guard
				cmp, ok := g.Cond.(*ssa.BinOp)
				if !ok {
					continue
				}
				isDur := func(v ssa.Value) bool {
					fld, _ := an.TerminalField(g.T(v))
					return fld != nil && fld.Name() == "Duration" && isDuration(fld.Type())
				}
				hasSub := func(v ssa.Value) (ssa.Value, int64, bool) {
					// (now − start) + k
					v = an.Strip(g.T(v))
					slack := int64(0)
					if add, isAdd := v.(*ssa.BinOp); isAdd && add.Op == token.ADD {
						if k, isK := constInt(add.Y); isK {
							slack, v = k, an.Strip(add.X)
						} else if k, isK := constInt(add.X); isK {
							slack, v = k, an.Strip(add.Y)
						} else {
							return nil, 0, false
						}
					}
					call, isCall := v.(*ssa.Call)
					if !isCall || !isTimeMethod(an.Callee(call), "Time", "Sub") {
						return nil, 0, false
					}
					return call, slack, true
				}
				lhs, rhs, op := cmp.X, cmp.Y, cmp.Op
				if isDur(lhs) && !isDur(rhs) {
					lhs, rhs, op = rhs, lhs, flipOp[op]
				}
				subV, slack, okSub := hasSub(lhs)
				if !isDur(rhs) || !okSub {
					continue
				}
				n++
				d := an.D().Of(cmp)
				if !g.Polarity {
					op = map[token.Token]token.Token{token.GTR: token.LEQ, token.GEQ: token.LSS, token.LSS: token.GEQ, token.LEQ: token.GTR}[op]
				}
				// elapsed = <time parameter>.Sub(<stage start field>); duration = stages[cursor].Duration
				sub := subV.(*ssa.Call)
				_, nowIsParam := an.Strip(g.T(sub.Call.Args[0])).(*ssa.Parameter)
				startFld, owner := an.TerminalField(g.T(sub.Call.Args[1]))
				okShape := nowIsParam && startFld != nil && an.IsNamed(owner, core.ModPath+"/"+spkg, "RateCalculator") && an.IsNamed(startFld.Type(), "time", "Time")
				if fa, isFA := an.Strip(g.T(rhs)).(*ssa.FieldAddr); isFA {
					ia, isIA := an.Strip(fa.X).(*ssa.IndexAddr)
					okShape = okShape && isIA && isLoadOf(ia.X, stagesFld) && isLoadOf(ia.Index, curFld)
				} else {
					okShape = false
				}
				switch op {
				case token.GTR:
					okShape = okShape && slack <= 1 && slack >= 0
				case token.GEQ:
					okShape = okShape && slack <= 0
				default:
					okShape = false
				}
				r.Check(okShape, "RateCalculator.Rate#advance", an.Pos(c, g.If), sprintf("cursor advances when %s is %v", d, g.Polarity), sprintf("the cursor is advanced when %s is %v: a stage is abandoned before its duration has elapsed (or compared against the wrong stage), so queries near the boundary are extrapolated from the next stage", d, g.Polarity))
			}
		}
		r.Floor("stage-advance tests", n, 1)
	})
}

// flatIndexings lists the IndexAddr instructions on the given slice field reached from root (through helpers).
func flatIndexings(root *ssa.Function, fld *types.Var) []an.Event {
	var out []an.Event
	an.Flatten(root, flatDepth, nil, func(e an.Event) {
		ia, ok := e.Instr.(*ssa.IndexAddr)
		if !ok {
			return
		}
		if fa, isFA := an.Strip(ia.X).(*ssa.FieldAddr); isFA && an.SameField(an.FieldOfAddr(fa), fld) {
			out = append(out, e)
		}
	})
	return out
}

func phiCycle(p *ssa.Phi, v ssa.Value) bool {
	// v flows back into p, directly or through the merges of the loop body
	seen := map[*ssa.Phi]bool{}
	var walk func(q *ssa.Phi) bool
	walk = func(q *ssa.Phi) bool {
		if seen[q] {
			return false
		}
		seen[q] = true
		for _, e := range q.Edges {
			if e == v {
				return true
			}
			if qq, ok := e.(*ssa.Phi); ok && walk(qq) {
				return true
			}
		}
		return false
	}
	return walk(p)
}

// ---------------------------------------------------------------- C11

func c11(c *core.Ctx, r *core.Report) {
	r.Explanation = "The numerical clauses (delivered volume within discretisation error, peak position, weight scaling) are properties of numerical integration and are NOT decided. Decided structurally: (R1) the rate method of the gaussian calculator carries the fraction — due = rate + remainder, returns int(floor(due)), stores remainder = due − floor(due), exactly once on every path; " +
		"(R2) the returned request is int(floor(x)) of a sum of terms that are non-negative under the printed assumptions; (R3) the density multiplier is volume × frequency divided, unconditionally, by the probability mass inside the window (CDF at window−frequency minus CDF at 0)."
	r.NotDecided = []string{"delivered volume per window", "no tick above the peak tick + 1", "weight scaling by window index (arithmetic on time)"}
	gpkg := "internal/trigger/gaussian"
	// roles: the rate method of Calculator (func(time.Time) int), its carry cell (the float field it both reads and
	// writes) and the scale field (the factor of the density)
	var forFn *ssa.Function
	for _, fn := range c.AllFuncs {
		if core.RelPkg(fn) == gpkg && fn.Parent() == nil && fn.Signature.Recv() != nil && an.IsNamed(fn.Signature.Recv().Type(), core.ModPath+"/"+gpkg, "Calculator") &&
			fn.Signature.Params().Len() == 1 && an.IsNamed(fn.Signature.Params().At(0).Type(), "time", "Time") && fn.Signature.Results().Len() == 1 && isIntType(fn.Signature.Results().At(0).Type()) {
			forFn = fn
		}
	}
	if forFn == nil {
		r.Rule("C11.R1", "anchor")
		r.Undecided("anchor", "-", "rate method of gaussian.Calculator not found")
		return
	}
	var carry cell
	var scaleFld *types.Var
	st := c.Named(gpkg, "Calculator").Underlying().(*types.Struct)
	for i := 0; i < st.NumFields(); i++ {
		f := st.Field(i)
		k := cell{name: f.Name(), fld: f}
		if len(k.stores(forFn)) > 0 && len(k.loads(forFn)) > 0 {
			carry = k
		}
	}
	// the carry arithmetic may live in a helper of the package that is handed the cell's address (a wrapper type
	// around the remainder with a method): the template is then decided on the helper, and the rate method has to
	// return what the helper returns
	carryFn := forFn
	var carryCall *ssa.Call
	if carry.fld == nil {
		for _, call := range an.AllCalls(forFn) {
			cv, ok := call.(*ssa.Call)
			t := an.Callee(call)
			if !ok || t == nil || t.Blocks == nil || core.RelPkg(t) != gpkg || len(cv.Call.Args) == 0 || len(t.Params) == 0 {
				continue
			}
			fa, ok := cv.Call.Args[0].(*ssa.FieldAddr)
			if !ok {
				continue
			}
			f, owner := an.TerminalField(fa)
			if f == nil || !nestedIn(c, owner, core.ModPath+"/"+gpkg, "Calculator") {
				continue
			}
			k := cell{name: f.Name(), fld: f, param: t.Params[0]}
			if len(k.stores(t)) > 0 && len(k.loads(t)) > 0 {
				carry, carryFn, carryCall = k, t, cv
			}
		}
	}
	an.Instrs(forFn, func(in ssa.Instruction) {
		bo, ok := in.(*ssa.BinOp)
		if !ok || bo.Op != token.MUL {
			return
		}
		for _, pair := range [][2]ssa.Value{{bo.X, bo.Y}, {bo.Y, bo.X}} {
			if call, ok := noConv(pair[0]).(*ssa.Call); ok && an.Callee(call) != nil && an.Callee(call).Name() == "PDF" {
				if f, owner := an.TerminalField(pair[1]); f != nil && nestedIn(c, owner, core.ModPath+"/"+gpkg, "Calculator") {
					scaleFld = f
				}
			}
		}
	})

	rule(r, "C11.R1", "fraction carry in the calculator's rate method (analysis H): due = rate + remainder; return int(floor(due)); remainder' = due − floor(due); exactly once on every path", func() {
		if carry.fld == nil {
			r.Violation(core.FuncName(forFn)+"#carry", c.Pos(forFn.Pos()), "the rate method keeps no fractional remainder between ticks: fractions of the rate are lost on every tick")
			return
		}
		if carryCall != nil {
			// every return of the rate method hands back the helper's result, and the helper runs exactly once before it
			exits := an.PathCount(forFn, func(in ssa.Instruction) an.Interval {
				if in == ssa.Instruction(carryCall) {
					return an.Interval{Lo: 1, Hi: 1}
				}
				return an.Interval{}
			})
			for _, e := range exits {
				ret, isRet := e.Instr.(*ssa.Return)
				if !isRet {
					continue
				}
				okRet := e.Count.Lo == 1 && e.Count.Hi == 1 && len(ret.Results) == 1 && noConv(ret.Results[0]) == ssa.Value(carryCall)
				r.Check(okRet, core.FuncName(forFn)+"#carry-helper", an.Pos(c, ret), "the rate method returns what "+carryFn.Name()+" emits, once", "this return does not hand back the result of "+carryFn.Name()+" (run "+e.Count.String()+" times on the way): what is emitted differs from what the remainder accounts for")
			}
		}
		if carryTemplate(c, r, carryFn, carry, "fraction") {
			for _, st := range carry.stores(carryFn) {
				q := an.RootFV(carryFn, st.Val).Resolve(nil)
				sub, isSub := q.V.(*ssa.BinOp)
				if !isSub {
					continue
				}
				out := an.FV{V: sub.Y, F: q.F}.Resolve(nil)
				call, ok := out.V.(*ssa.Call)
				okFloor := ok && an.IsFunc(an.Callee(call), "math", "Floor") && (an.FV{V: call.Call.Args[0], F: out.F}).Resolve(nil).V == (an.FV{V: sub.X, F: q.F}).Resolve(nil).V
				r.Check(okFloor, core.FuncName(carryFn)+"#floor", an.Pos(c, st), "emitted = floor(due)", "the emitted part is "+an.D().Of(sub.Y)+", not floor(due): the stored remainder can be negative or exceed 1")
			}
		}
		// any other state the rate method keeps between ticks (a remembered window, a cached index) is brought up to date
		// on every return alike: a return that skips the update — an early `return 0` for an idle window, say — leaves
		// the next tick with stale state
		for _, k := range cellsOf(forFn) {
			if carry.fld != nil && k.fld != nil && an.SameField(k.fld, carry.fld) {
				continue
			}
			exits := an.PathCount(forFn, func(in ssa.Instruction) an.Interval {
				if st, ok := in.(*ssa.Store); ok && k.addrIs(st.Addr) {
					return an.Interval{Lo: 1, Hi: 1}
				}
				return an.Interval{}
			})
			var first *an.Interval
			same := true
			var odd ssa.Instruction
			for _, e := range exits {
				if _, isRet := e.Instr.(*ssa.Return); !isRet {
					continue
				}
				cnt := e.Count
				if first == nil {
					first = &cnt
					continue
				}
				if cnt != *first || cnt.Lo != cnt.Hi {
					same = false
					odd = e.Instr
				}
			}
			pos := c.Pos(forFn.Pos())
			if odd != nil {
				pos = an.Pos(c, odd)
			}
			r.Check(same, core.FuncName(forFn)+"#state("+k.name+")-on-every-return", pos, "state field "+k.name+" is updated alike on every return", "the rate method updates its state field "+k.name+" on some returns only: a tick that leaves through the other return (an idle window, an early exit) leaves stale state behind, and later ticks are computed from it")
		}
		n := 0
		for _, fn := range c.AllFuncs {
			if fn == forFn || fn == carryFn {
				continue
			}
			n += len(carry.stores(fn))
		}
		r.Check(n == 0, "Calculator."+carry.name+"#writers", c.Pos(forFn.Pos()), "the remainder is written only by the rate method", "the remainder is also written outside the rate method")
	})

	rule(r, "C11.R2", "requests are never negative: the value returned is int(floor(rate + remainder)) where rate is a product/quotient of non-negative factors (assumptions printed) and remainder is a fractional part", func() {
		r.Assumptions = append(r.Assumptions,
			"C11.R2 assumes: volume ≥ 0, frequency > 0, weights ≥ 0 with a positive mean, PDF ≥ 0 (σ > 0 is enforced by gaussian.NewDistribution), covered probability mass > 0")
		var nn func(v ssa.Value) (bool, string)
		paramSub := map[*ssa.Parameter]ssa.Value{}
		nn = func(v ssa.Value) (bool, string) {
			v = noConv(v)
			switch x := v.(type) {
			case *ssa.Parameter:
				if a, ok := paramSub[x]; ok {
					return nn(a)
				}
			case *ssa.Const:
				if x.Value != nil && x.Float64() >= 0 {
					return true, "const"
				}
			case *ssa.Phi:
				for _, e := range x.Edges {
					if ok, why := nn(e); !ok {
						return false, why
					}
				}
				return true, "phi of non-negatives"
			case *ssa.BinOp:
				switch x.Op {
				case token.ADD, token.MUL, token.QUO:
					if ok, why := nn(x.X); !ok {
						return false, why
					}
					return nn(x.Y)
				case token.SUB:
					if call, ok := noConv(x.Y).(*ssa.Call); ok && an.IsFunc(an.Callee(call), "math", "Floor") && noConv(call.Call.Args[0]) == noConv(x.X) {
						return true, "fractional part"
					}
					return false, "difference " + an.D().Of(x) + " may be negative"
				}
			case *ssa.Call:
				t := an.Callee(x)
				if t != nil && t.Name() == "PDF" {
					return true, "density (assumed ≥ 0)"
				}
				if carryCall != nil && x == carryCall {
					// the helper holding the carry arithmetic: each of its returns, with its parameters standing for
					// the arguments of this call
					for i, p := range carryFn.Params {
						if i < len(x.Call.Args) {
							paramSub[p] = x.Call.Args[i]
						}
					}
					for _, hr := range an.Returns(carryFn) {
						if len(hr.Results) != 1 {
							return false, "helper " + carryFn.Name() + " has no single result"
						}
						if ok, why := returnNonNeg(hr, hr.Results[0], nn); !ok {
							return false, "helper " + carryFn.Name() + ": " + why
						}
					}
					return true, "every return of " + carryFn.Name() + " is non-negative for the arguments of this call"
				}
			case *ssa.UnOp:
				if x.Op == token.MUL {
					if carry.fld != nil && carry.loadOf(x) {
						return true, "remainder (inductively a fractional part; zero value initially)"
					}
					// configuration-derived float fields / elements of the calculator
					if f, owner := an.TerminalField(x); f != nil && nestedIn(c, owner, core.ModPath+"/"+gpkg, "Calculator") {
						return true, "assumed ≥ 0: " + an.D().Of(x)
					}
					if ia, ok := x.X.(*ssa.IndexAddr); ok {
						if f, owner := an.TerminalField(ia.X); f != nil && nestedIn(c, owner, core.ModPath+"/"+gpkg, "Calculator") {
							return true, "assumed ≥ 0: " + an.D().Of(x)
						}
					}
				}
			case *ssa.Convert:
				return nn(x.X)
			case *ssa.ChangeType:
				// a named float type around the same value (`float64(*r)` with `type carry float64`)
				return nn(x.X)
			}
			return false, "cannot show " + an.D().Of(v) + " ≥ 0"
		}
		nonNegReturns(c, r, forFn, nn)
	})

	rule(r, "C11.R3", "the calculator's scale factor is volume × float64(frequency), divided on every path by CDF(window − frequency) − CDF(0) (renormalisation by the probability mass inside the window)", func() {
		if scaleFld == nil {
			r.Violation(core.FuncName(forFn)+"#scale", c.Pos(forFn.Pos()), "the rate method does not scale the density by a field of the calculator")
			return
		}
		n := 0
		for _, fn := range c.AllFuncs {
			if core.RelPkg(fn) != gpkg {
				continue
			}
			for _, ret := range an.Returns(fn) {
				if len(ret.Results) == 0 {
					continue
				}
				lit := an.StructLiteralOf(ret.Results[0])
				if lit == nil || !an.IsNamed(lit.Type(), core.ModPath+"/"+gpkg, "Calculator") {
					continue
				}
				if len(ret.Results) == 2 && !isNilConst(ret.Results[1]) {
					continue
				}
				n++
				key := core.FuncName(fn) + "#" + scaleFld.Name()
				// the value of the field when the function returns: the store reaching the return
				var v ssa.Value
				for _, ref := range an.Referrers(lit) {
					if fa, ok := ref.(*ssa.FieldAddr); ok && an.SameField(an.FieldOfAddr(fa), scaleFld) {
						for _, st := range an.StoresTo(fa) {
							if an.Dominates(st, ret) {
								v = st.Val
							}
						}
					}
				}
				if v == nil {
					r.Violation(key, an.Pos(c, ret), "the scale factor is not set on every path")
					continue
				}
				d := an.D().Of(v)
				q, isQ := noConv(v).(*ssa.BinOp)
				if _, isPhi := noConv(v).(*ssa.Phi); isPhi || strings.HasPrefix(d, "phi(") || strings.HasPrefix(d, "var:") {
					r.Violation(key, an.Pos(c, ret), "the scale factor is renormalised only on some paths (%s): windows that do not take the correction deliver only the in-window fraction of the volume", d)
					continue
				}
				ok := isQ && q.Op == token.QUO
				if ok {
					num, den := an.D().Of(q.X), an.D().Of(q.Y)
					// the constructor's parameters by what is handed to them (the flag behind each), not by their names
					pv, pf, pw := paramDescByFlag(c, fn, "volume", "volume"), paramDescByFlag(c, fn, "iteration-frequency", "frequency"), paramDescByFlag(c, fn, "repeat", "repeatWindow")
					ok = strings.Contains(num, pv) && strings.Contains(num, pf) && strings.Count(den, ".CDF(") == 2 && strings.Contains(den, "("+pw+" - "+pf+")") && strings.Contains(den, ", 0)") && strings.Contains(den, " - ")
				}
				r.Check(ok, key, an.Pos(c, ret), "scale ← "+d, "the scale factor is "+d+", not volume·frequency / (CDF(window−frequency) − CDF(0))")
			}
		}
		r.Floor("Calculator constructions", n, 1)
	})
}

// ---------------------------------------------------------------- C12

// distCells finds, by role, the captured variables of a distributing closure: the step counter (the int cell
// compared with 0 to guard the evaluation of the wrapped rate), the per-cycle count cell (stored from the
// evaluation), and the cell holding the number of steps per cycle (what the counter is reloaded from).
type distCells struct {
	eval     *ssa.Call
	steps    cell
	rate     cell
	perCycle cell
	ok       bool
	why      string
}

func findDistCells(fn *ssa.Function) distCells {
	var d distCells
	var evals []*ssa.Call
	for _, call := range an.AllCalls(fn) {
		if n := an.DynCallType(call); n != nil && an.IsNamed(n, apiPkg, "RateFunction") {
			if cv, ok := call.(*ssa.Call); ok {
				evals = append(evals, cv)
			}
		}
	}
	if len(evals) != 1 {
		d.why = sprintf("%d evaluation sites of the wrapped rate (expected one)", len(evals))
		return d
	}
	d.eval = evals[0]
	for _, g := range an.GuardsOf(d.eval.Block()) {
		bo, ok := g.Cond.(*ssa.BinOp)
		if !ok || bo.Op != token.EQL || !g.Polarity {
			continue
		}
		if z, isZ := constInt(bo.Y); !isZ || z != 0 {
			continue
		}
		if u, ok := bo.X.(*ssa.UnOp); ok && u.Op == token.MUL {
			if k, ok := cellAt(fn, u.X); ok && isIntType(k.elem()) {
				d.steps = k
			}
		}
	}
	if !d.steps.valid() {
		d.why = "the wrapped rate is evaluated outside a `stepCounter == 0` guard: more (or fewer) than one evaluation per cycle"
		return d
	}
	for _, in := range d.eval.Block().Instrs {
		st, ok := in.(*ssa.Store)
		if !ok {
			continue
		}
		k, isCell := cellAt(fn, st.Addr)
		if !isCell {
			continue
		}
		if an.Strip(st.Val) == ssa.Value(d.eval) {
			d.rate = k
		}
		if d.steps.addrIs(st.Addr) {
			if u, ok := st.Val.(*ssa.UnOp); ok && u.Op == token.MUL {
				if pc, ok := cellAt(fn, u.X); ok {
					d.perCycle = pc
				}
			}
		}
	}
	d.ok = true
	return d
}

func c12(c *core.Ctx, r *core.Report) {
	r.Explanation = "Decided structurally: (R1) cycle protocol of both distributions — the wrapped rate is evaluated only under the guard remainingSteps == 0, which also reloads remainingSteps from tickSteps (and clears the regular distribution's accumulator); every path through the closure decrements remainingSteps exactly once; " +
		"(R2) pass-through — distribution none and intervals ≤ 100 ms return the parameters themselves; otherwise the sub-tick is the constant 100 ms and tickSteps = interval_ms / 100 with a constant non-zero divisor; " +
		"(R3) random distribution: the value subtracted from the remaining budget is the value returned, it is clamped to the budget, and the last step / an exhausted budget emit the remainder itself; (R4) returned values are 0 or guarded ≥ 1. " +
		"NOT decided: that the regular distribution's floating accumulation with the 1e-7 ceiling sums exactly and is even within 1."
	r.NotDecided = []string{"exact sum and evenness (±1) of the regular distribution's float accumulation"}
	apkg := "internal/trigger/api"

	// the distributing closures, by role: function literals of the package that evaluate a wrapped RateFunction
	// under a step-counter guard; the random one also calls a captured func(int) int
	closures := map[string]*ssa.Function{}
	makers := map[string]*ssa.Function{} // the function that creates (and returns) the distributing function value
	type distClosure struct {
		fn, maker *ssa.Function
		kind      string
	}
	var found []distClosure
	siblingOf := map[string]string{} // further closures of a kind → the kind
	_ = siblingOf
	for _, fn := range an.FuncsOfType(c, apiPkg, "RateFunction") {
		if core.RelPkg(fn) != apkg {
			continue
		}
		// made by a function that returns it together with a sub-tick duration
		var maker *ssa.Function
		for _, g := range c.AllFuncs {
			if core.RelPkg(g) != apkg || g.Signature.Results().Len() < 2 || !isDuration(g.Signature.Results().At(0).Type()) || !an.IsNamed(g.Signature.Results().At(1).Type(), apiPkg, "RateFunction") {
				continue
			}
			an.Instrs(g, func(in ssa.Instruction) {
				if mc, ok := in.(*ssa.MakeClosure); ok {
					if f, isF := mc.Fn.(*ssa.Function); isF && an.Unwrap(f) == fn {
						maker = g
					}
				}
			})
		}
		if maker == nil {
			continue
		}
		kind := "withRegularDistribution"
		for _, call := range an.AllCalls(fn) {
			if an.Callee(call) == nil && !call.Common().IsInvoke() {
				if sig, ok := call.Common().Value.Type().Underlying().(*types.Signature); ok && an.DynCallType(call) == nil && sig.Params().Len() == 1 && isIntType(sig.Params().At(0).Type()) {
					kind = "withRandomDistribution"
				}
			}
		}
		// … or the draw is made in a helper the closure hands its captured random source to
		for _, fv := range fn.FreeVars {
			ft := fv.Type()
			if p, isPtr := ft.Underlying().(*types.Pointer); isPtr {
				ft = p.Elem()
			}
			if sig, ok := ft.Underlying().(*types.Signature); ok && sig.Params().Len() == 1 && sig.Results().Len() == 1 && isIntType(sig.Params().At(0).Type()) && isIntType(sig.Results().At(0).Type()) {
				kind = "withRandomDistribution"
			}
		}
		found = append(found, distClosure{fn, maker, kind})
	}
	// one closure per kind carries the kind's name (the one whose maker is called like it, else the first); a
	// further distribution of the same kind (a sibling added next to them) is judged under its maker's name
	sort.Slice(found, func(i, j int) bool { return found[i].maker.Name() < found[j].maker.Name() })
	for _, kind := range []string{"withRegularDistribution", "withRandomDistribution"} {
		for _, f := range found {
			if f.kind == kind && f.maker.Name() == kind {
				closures[kind], makers[kind] = f.fn, f.maker
			}
		}
		for _, f := range found {
			if f.kind != kind || closures[kind] == f.fn {
				continue
			}
			key := f.maker.Name()
			if closures[kind] == nil {
				key = kind
			}
			closures[key], makers[key] = f.fn, f.maker
			if key != kind {
				siblingOf[key] = kind
			}
		}
	}
	durParam := func(fn *ssa.Function) *ssa.Parameter {
		for _, p := range fn.Params {
			if isDuration(p.Type()) {
				return p
			}
		}
		return nil
	}
	rateParam := func(fn *ssa.Function) *ssa.Parameter {
		for _, p := range fn.Params {
			if an.IsNamed(p.Type(), apiPkg, "RateFunction") {
				return p
			}
		}
		return nil
	}
	is100ms := func(v ssa.Value) bool {
		k, ok := an.Strip(v).(*ssa.Const)
		if !ok {
			// a parameter or field whose only source in the module is that constant
			k, ok = singleSource(c, v).(*ssa.Const)
		}
		return ok && k.Value != nil && isDuration(k.Type()) && k.Int64() == 100000000
	}

	rule(r, "C12.R1", "cycle protocol: the wrapped rate is evaluated only when remainingSteps == 0, in the block that reloads remainingSteps = tickSteps and the per-cycle state; remainingSteps is decremented by one exactly once on every path; no other writes", func() {
		if !r.Floor("distribution closures", len(closures), 2) {
			return
		}
		for name, fn := range closures {
			dc := findDistCells(fn)
			if !dc.ok {
				r.Violation(name+"#eval-guard", c.Pos(fn.Pos()), "%s", dc.why)
				continue
			}
			steps := dc.steps
			ev := ssa.CallInstruction(dc.eval)
			r.OK(name+"#eval-guard", an.Pos(c, ev), "wrapped rate evaluated only when the step counter %s == 0", steps.name)
			r.Check(dc.perCycle.valid(), name+"#reload", an.Pos(c, ev), "step counter reloaded from the steps-per-cycle value together with the evaluation", "the cycle start does not reload the step counter from the steps-per-cycle value")
			r.Check(dc.rate.valid(), name+"#rate-kept", an.Pos(c, ev), "the evaluation's result is kept for the cycle", "the evaluation's result is not stored for the cycle")
			accReset := false
			for _, in := range ev.Block().Instrs {
				if st, ok := in.(*ssa.Store); ok {
					if k, ok := cellAt(fn, st.Addr); ok {
						if b, isB := k.elem().Underlying().(*types.Basic); isB && b.Info()&types.IsFloat != 0 && an.D().Of(st.Val) == "0" {
							accReset = true
						}
					}
				}
			}
			// … or at the end of every cycle: a store of 0 whose only guard is "the step counter has reached 0", tested on
			// every path to a return after the counter was decremented (behind an early return it would be skipped)
			if !accReset {
				an.Instrs(fn, func(in ssa.Instruction) {
					st, ok := in.(*ssa.Store)
					if !ok || an.D().Of(st.Val) != "0" {
						return
					}
					k, isCell := cellAt(fn, st.Addr)
					if !isCell {
						return
					}
					if b, isB := k.elem().Underlying().(*types.Basic); !isB || b.Info()&types.IsFloat == 0 {
						return
					}
					gs := an.GuardsOf(st.Block())
					if len(gs) != 1 || !gs[0].Polarity {
						return
					}
					bo, isBin := an.Strip(gs[0].Cond).(*ssa.BinOp)
					if !isBin || bo.Op != token.EQL {
						return
					}
					kz, isK := bo.Y.(*ssa.Const)
					if !isK || kz.Value == nil || kz.Int64() != 0 || !(steps.loadOf(an.Strip(bo.X)) || steps.loadOf(bo.X)) {
						return
					}
					onEveryPath := true
					for _, ret := range an.Returns(fn) {
						if !an.Dominates(gs[0].If, ret) {
							onEveryPath = false
						}
					}
					afterDecrement := false
					for _, ds := range steps.stores(fn) {
						if ds.Block() != ev.Block() && an.Dominates(ds, gs[0].If) {
							afterDecrement = true
						}
					}
					if onEveryPath && afterDecrement {
						accReset = true
					}
				})
			}
			// float accumulators must be cleared at cycle start
			for _, k := range cellsOf(fn) {
				if b, isB := k.elem().Underlying().(*types.Basic); isB && b.Info()&types.IsFloat != 0 {
					r.Check(accReset, name+"#acc-reset("+k.name+")", an.Pos(c, ev), "fractional accumulator "+k.name+" cleared at cycle start", "the fractional accumulator "+k.name+" is not cleared when a new cycle starts: rounding residue leaks from cycle to cycle until a cycle emits rate+1")
				}
			}
			// decrement exactly once
			isDec := func(in ssa.Instruction) bool {
				st, ok := in.(*ssa.Store)
				if !ok || !steps.addrIs(st.Addr) {
					return false
				}
				bo, ok := st.Val.(*ssa.BinOp)
				return ok && bo.Op == token.SUB && steps.loadOf(bo.X) && an.D().Of(bo.Y) == "1"
			}
			okDec := true
			for _, e := range an.PathCount(fn, func(in ssa.Instruction) an.Interval {
				if isDec(in) {
					return an.Interval{Lo: 1, Hi: 1}
				}
				return an.Interval{}
			}) {
				if _, isRet := e.Instr.(*ssa.Return); isRet && (e.Count.Lo != 1 || e.Count.Hi != 1) {
					okDec = false
					r.Violation(name+"#decrement", an.Pos(c, e.Instr), "on paths to this return remainingSteps is decremented %s times (expected once): the cycle never ends or ends early, so the underlying rate is not evaluated once per cycle", e.Count)
				}
			}
			if okDec {
				r.OK(name+"#decrement", c.Pos(fn.Pos()), "remainingSteps-- exactly once on every path")
			}
			for _, st := range steps.stores(fn) {
				if !isDec(st) && st.Block() != ev.Block() {
					r.Violation(name+"#other-write", an.Pos(c, st), "remainingSteps is also written with %s", an.D().Of(st.Val))
				}
			}
		}
	})

	rule(r, "C12.R2", "pass-through: NewDistribution(none) and intervals ≤ 100 ms return the interval and rate parameters themselves; otherwise the sub-tick is the constant 100 ms and tickSteps = interval.Milliseconds() / (100 ms).Milliseconds()", func() {
		nd := delegateTarget(c.MustFn(apkg, "NewDistribution"))
		sawNone := false
		isNoneLit := func(cond ssa.Value, val bool) bool {
			bo, ok := cond.(*ssa.BinOp)
			if !ok || !((bo.Op == token.EQL && val) || (bo.Op == token.NEQ && !val)) {
				return false
			}
			for _, side := range []ssa.Value{bo.X, bo.Y} {
				if k, isK := an.Strip(side).(*ssa.Const); isK && k.Value != nil && k.Value.Kind() == constant.String && constant.StringVal(k.Value) == "none" {
					return true
				}
			}
			return false
		}
		if paths, err := an.DecisionPaths(nd, 256); err == nil {
			// along every path taken for distribution none, the results are the parameters (read along the path: the
			// results may be merged before a common return)
			for _, p := range paths {
				if p.Ret == nil || len(p.Ret.Results) < 2 {
					continue
				}
				none := false
				for _, l := range p.Lits {
					if isNoneLit(l.Cond, l.Val) {
						none = true
					}
				}
				if !none {
					continue
				}
				sawNone = true
				r0, r1 := p.OnPath(p.Ret.Results[0]), p.OnPath(p.Ret.Results[1])
				ok0 := an.Strip(r0) == ssa.Value(durParam(nd)) && durParam(nd) != nil
				ok1 := an.Strip(r1) == ssa.Value(rateParam(nd)) && rateParam(nd) != nil
				r.Check(ok0 && ok1, "NewDistribution#none", an.Pos(c, p.Ret), "none returns the parameters unchanged", "distribution none returns ("+an.D().Of(r0)+", "+an.D().Of(r1)+") instead of its parameters")
			}
		} else {
			for _, ret := range an.Returns(nd) {
				for _, g := range an.GuardsOf(ret.Block()) {
					if isNoneLit(g.Cond, g.Polarity) {
						sawNone = true
						ok0 := an.Strip(ret.Results[0]) == ssa.Value(durParam(nd)) && durParam(nd) != nil
						ok1 := an.Strip(ret.Results[1]) == ssa.Value(rateParam(nd)) && rateParam(nd) != nil
						r.Check(ok0 && ok1, "NewDistribution#none", an.Pos(c, ret), "none returns the parameters unchanged", "distribution none returns ("+an.D().Of(ret.Results[0])+", "+an.D().Of(ret.Results[1])+") instead of its parameters")
					}
				}
			}
		}
		r.Check(sawNone, "NewDistribution#none-case", c.Pos(nd.Pos()), "case none present", "NewDistribution has no pass-through case for distribution none")
		for _, name := range []string{"withRegularDistribution", "withRandomDistribution"} {
			if closures[name] == nil || makers[name] == nil {
				r.Undecided(name, "-", "distributing closure not found")
				continue
			}
			fn := makers[name]
			dp, rp := durParam(fn), rateParam(fn)
			// the returns that hand out this distributing function, and the pass-through returns that precede them
			long := 0
			if paths, err := an.DecisionPathsInl(fn, 256, 2, nil); err == nil {
				// path by path (conditions computed by helpers expanded): every path handing out the distributing function
				// has interval > 100 ms, and every path with interval ≤ 100 ms returns the parameters
				sawShort := false
				for _, p := range paths {
					if p.Ret == nil || len(p.Ret.Results) < 2 {
						continue
					}
					r0, r1 := p.OnPath(p.Ret.Results[0]), p.OnPath(p.Ret.Results[1])
					isLong, isShort := false, false
					for _, l := range p.Lits {
						bo, isBin := l.Cond.(*ssa.BinOp)
						if !isBin || dp == nil || an.Strip(l.T(bo.X)) != ssa.Value(dp) || !is100ms(l.T(bo.Y)) {
							continue
						}
						switch {
						case (bo.Op == token.LEQ && !l.Val) || (bo.Op == token.GTR && l.Val):
							isLong = true
						case (bo.Op == token.LEQ && l.Val) || (bo.Op == token.GTR && !l.Val):
							isShort = true
						}
					}
					distributing := false
					if mc, isMC := an.Strip(r1).(*ssa.MakeClosure); isMC {
						if f, isF := mc.Fn.(*ssa.Function); isF && an.Unwrap(f) == closures[name] {
							distributing = true
						}
					}
					if distributing {
						long++
						r.Check(is100ms(r0), name+"#long", an.Pos(c, p.Ret), "sub-tick is the constant 100 ms", "for longer intervals "+name+" returns sub-tick "+an.D().Of(r0))
						r.Check(isLong, name+"#cases", an.Pos(c, p.Ret), "the distributing return is reached only for intervals above 100 ms; shorter ones pass through", name+" hands out the distributed rate without a pass-through for intervals ≤ 100 ms")
					}
					if isShort {
						sawShort = true
						ok0 := an.Strip(r0) == ssa.Value(dp)
						ok1 := rp != nil && an.Strip(r1) == ssa.Value(rp)
						r.Check(ok0 && ok1, name+"#short", an.Pos(c, p.Ret), "intervals ≤ 100 ms pass through", "for intervals ≤ 100 ms "+name+" returns ("+an.D().Of(r0)+", "+an.D().Of(r1)+")")
					}
				}
				if long >= 1 {
					r.Check(sawShort, name+"#cases", c.Pos(fn.Pos()), "intervals ≤ 100 ms have their own pass-through path", name+" hands out the distributed rate without a pass-through for intervals ≤ 100 ms")
				}
			} else {
				r.Undecided(name+"#cases", c.Pos(fn.Pos()), "the paths of %s cannot be enumerated: %v", core.FuncName(fn), err)
			}
			r.Check(long >= 1, name+"#made", c.Pos(fn.Pos()), "the distributing function is returned with its sub-tick", "no return of "+core.FuncName(fn)+" hands out the distributing function")
			// steps per cycle = interval.Milliseconds() / (100 ms).Milliseconds()
			if dc := findDistCells(closures[name]); dc.ok && dc.perCycle.valid() {
				for _, v := range dc.perCycle.initial(c, closures[name]) {
					okSteps := false
					qv := an.RootFV(fn, v).Resolve(nil)
					if ex, isEx := qv.V.(*ssa.Extract); isEx {
						// a helper with several returns (`return 0, false` / `return n, true`): the one non-zero count
						if hc, isCall := ex.Tuple.(*ssa.Call); isCall {
							if h := an.Callee(hc); h != nil && core.RelPkg(h) == apkg && h.Blocks != nil {
								var nz []ssa.Value
								for _, hr := range an.Returns(h) {
									if k, isK := hr.Results[ex.Index].(*ssa.Const); isK && k.Value != nil && k.Int64() == 0 {
										continue
									}
									nz = append(nz, hr.Results[ex.Index])
								}
								if len(nz) == 1 {
									qv = an.FV{V: an.Strip(nz[0]), F: &an.Frame{Fn: h, Site: hc, Parent: qv.F}}.Resolve(nil)
								}
							}
						}
					}
					if phi, isPhi := qv.V.(*ssa.Phi); isPhi {
						// computed by a helper that also reports "no distribution needed" with a zero count: the count on
						// the other path
						var nz []ssa.Value
						for _, e := range phi.Edges {
							if k, isK := e.(*ssa.Const); isK && k.Value != nil && k.Int64() == 0 {
								continue
							}
							nz = append(nz, e)
						}
						if len(nz) == 1 {
							qv = an.FV{V: an.Strip(nz[0]), F: qv.F}.Resolve(nil)
						}
					}
					if q, isQ := qv.V.(*ssa.BinOp); isQ && q.Op == token.QUO {
						ms := func(x ssa.Value) ssa.Value {
							xv := an.FV{V: x, F: qv.F}.Resolve(nil)
							if call, ok := xv.V.(*ssa.Call); ok && isTimeMethod(an.Callee(call), "Duration", "Milliseconds") {
								return an.FV{V: call.Call.Args[0], F: xv.F}.Resolve(nil).V
							}
							// `int64(d / time.Millisecond)`: the same number
							inner := xv.V
							for {
								if cv, isCv := inner.(*ssa.Convert); isCv && isIntType(cv.X.Type()) {
									inner = an.FV{V: cv.X, F: xv.F}.Resolve(nil).V
									continue
								}
								break
							}
							if dq, isQ := inner.(*ssa.BinOp); isQ && dq.Op == token.QUO && isDuration(dq.X.Type()) {
								if k, isK := foldConst(dq.Y); isK && k == 1000000 {
									return an.FV{V: dq.X, F: xv.F}.Resolve(nil).V
								}
							}
							return nil
						}
						num, den := ms(q.X), ms(q.Y)
						okSteps = num != nil && den != nil && dp != nil && num == ssa.Value(dp) && is100ms(den)
					}
					r.Check(okSteps, name+"#tickSteps", c.Pos(fn.Pos()), "steps per cycle ← interval_ms / 100", "steps per cycle is "+an.DI().Of(v)+", not interval_ms / 100")
				}
			} else {
				r.Undecided(name+"#tickSteps", c.Pos(fn.Pos()), "steps-per-cycle value not found")
			}
		}
	})

	rule(r, "C12.R3", "random distribution: the amount subtracted from the remaining budget is the amount returned; a random draw is clamped to the budget; the last step and an exhausted budget emit the budget itself", func() {
		fn := closures["withRandomDistribution"]
		if fn == nil {
			panic(core.AnchorError{What: "withRandomDistribution closure"})
		}
		dc := findDistCells(fn)
		if !dc.ok || !dc.rate.valid() {
			r.Undecided("random#cells", c.Pos(fn.Pos()), "captured variables not found: %s", dc.why)
			return
		}
		rem, steps := dc.rate, dc.steps
		// the subtracting store
		var cur ssa.Value
		for _, st := range rem.stores(fn) {
			bo, isB := st.Val.(*ssa.BinOp)
			if isB && bo.Op == token.SUB && rem.loadOf(bo.X) {
				if cur != nil {
					r.Violation("random#subtract", an.Pos(c, st), "the budget is reduced at more than one place")
				}
				cur = bo.Y
			}
		}
		if cur == nil {
			r.Violation("random#subtract", c.Pos(fn.Pos()), "the remaining budget is never reduced by what is handed out")
			return
		}
		nz := 0
		for _, ret := range an.Returns(fn) {
			if k, isK := ret.Results[0].(*ssa.Const); isK {
				// the zero return: reached only with cur < 1
				okZ := k.Int64() == 0
				guard := false
				for _, g := range an.GuardsOf(ret.Block()) {
					bo, isB := g.Cond.(*ssa.BinOp)
					if isB && bo.X == cur && an.D().Of(bo.Y) == "1" && ((bo.Op == token.LSS && g.Polarity) || (bo.Op == token.GEQ && !g.Polarity)) {
						guard = true
					}
					if isB && bo.X == cur && an.D().Of(bo.Y) == "0" && ((bo.Op == token.LEQ && g.Polarity) || (bo.Op == token.GTR && !g.Polarity)) {
						guard = true
					}
				}
				r.Check(okZ && guard, "random#zero-return", an.Pos(c, ret), "0 is returned only when the amount handed out is < 1", "a constant is returned on a path where the amount subtracted from the budget may be positive: iterations are lost")
				continue
			}
			nz++
			r.Check(ret.Results[0] == cur, "random#returned", an.Pos(c, ret), "the amount returned is the amount subtracted from the budget", "the closure returns "+an.D().Of(ret.Results[0])+" but subtracts "+an.D().Of(cur)+" from the budget: iterations are created or lost")
		}
		r.Floor("non-constant returns", nz, 1)
		// sources of cur — computed in place, or by a helper that is handed the step counter and the budget
		isRem, isSteps := rem.loadOf, steps.loadOf
		var curFn *ssa.Function
		if hc, isCall := cur.(*ssa.Call); isCall {
			if h := an.Callee(hc); h != nil && core.RelPkg(h) == apkg && h.Blocks != nil {
				ri, si := -1, -1
				for i, a := range hc.Call.Args {
					if rem.loadOf(a) {
						ri = i
					}
					if steps.loadOf(a) {
						si = i
					}
				}
				if ri >= 0 && si >= 0 && ri < len(h.Params) && si < len(h.Params) {
					rp, sp := h.Params[ri], h.Params[si]
					isRem = func(v ssa.Value) bool { return an.Strip(v) == ssa.Value(rp) }
					isSteps = func(v ssa.Value) bool { return an.Strip(v) == ssa.Value(sp) }
					curFn = h
				}
			}
		}
		// the values that can flow into the amount, each with the block it flows from and the block where it joins
		type source struct {
			v          ssa.Value
			pred, join *ssa.BasicBlock
		}
		var sources []source
		var collect func(v ssa.Value, from, join *ssa.BasicBlock, depth int)
		collect = func(v ssa.Value, from, join *ssa.BasicBlock, depth int) {
			if phi, isPhi := v.(*ssa.Phi); isPhi && depth < 4 {
				for i, e := range phi.Edges {
					collect(e, phi.Block().Preds[i], phi.Block(), depth+1)
				}
				return
			}
			sources = append(sources, source{v, from, join})
		}
		if curFn != nil {
			for _, ret := range an.Returns(curFn) {
				collect(ret.Results[0], ret.Block(), ret.Block(), 0)
			}
		} else if phi, isPhi := cur.(*ssa.Phi); isPhi {
			collect(phi, nil, nil, 0)
		}
		if len(sources) < 2 {
			r.Undecided("random#sources", c.Pos(fn.Pos()), "the amount handed out is %s, expected a merge of budget/draw", an.D().Of(cur))
			return
		}
		sawLast, sawClamp := false, false
		for _, src := range sources {
			e, pred := src.v, src.pred
			if isRem(e) {
				// budget itself: on the last-step/exhausted branch or the clamp branch
				for _, g := range an.GuardsOf(pred) {
					bo, isB := g.Cond.(*ssa.BinOp)
					if !isB {
						continue
					}
					if bo.Op == token.EQL && isSteps(bo.X) && an.D().Of(bo.Y) == "1" && g.Polarity {
						sawLast = true
					}
					if bo.Op == token.GTR && isRem(bo.Y) && g.Polarity {
						sawClamp = true
					}
				}
				// `remainingSteps == 1 || remainingRate == 0` lowers to two predecessors of the same block
				if len(pred.Preds) == 2 {
					for _, pp := range pred.Preds {
						if iff, ok := pp.Instrs[len(pp.Instrs)-1].(*ssa.If); ok {
							if bo, isB := iff.Cond.(*ssa.BinOp); isB && bo.Op == token.EQL && isSteps(bo.X) && an.D().Of(bo.Y) == "1" && pp.Succs[0] == pred {
								sawLast = true
							}
						}
					}
				}
				continue
			}
			// a draw: must be on the not-greater-than-budget edge
			call, isCall := e.(*ssa.Call)
			if !isCall {
				r.Violation("random#source", c.Pos(pred.Instrs[0].Pos()), "the amount handed out can be %s", an.D().Of(e))
				continue
			}
			okEdge := false
			if iff, ok := pred.Instrs[len(pred.Instrs)-1].(*ssa.If); ok {
				if bo, isB := iff.Cond.(*ssa.BinOp); isB && bo.Op == token.GTR && bo.X == ssa.Value(call) && isRem(bo.Y) && pred.Succs[1] == src.join {
					okEdge = true
					sawClamp = true
				}
			}
			r.Check(okEdge, "random#clamp", an.Pos(c, call), "a draw is used only when it does not exceed the budget", "a random draw is handed out without being clamped to the remaining budget: the cycle can emit more than the underlying rate")
		}
		r.Check(sawLast, "random#last-step", c.Pos(fn.Pos()), "when remainingSteps == 1 the budget itself is emitted", "the last sub-tick of a cycle does not emit the whole remaining budget: the remainder of the cycle is lost")
		r.Check(sawClamp, "random#clamp-present", c.Pos(fn.Pos()), "clamp to the budget present", "no clamp of the draw to the remaining budget")
	})

	rule(r, "C12.R4", "values returned by the distributing closures are the constant 0 or guarded by a lower bound ≥ 1 on the returning path", func() {
		for _, fn := range closures {
			nonNegReturns(c, r, fn, nil)
		}
	})
}

// ---------------------------------------------------------------- C13

// jitterFnOf: the function value a jitter constructor hands back that is not its own parameter — a function literal,
// a bound method, or what a helper it delegates to hands back (`WithJitter` → `withJitterSource(…, rand.Float64)`).
func jitterFnOf(fn *ssa.Function, depth int) (*ssa.Function, ssa.Value) {
	if fn == nil || fn.Blocks == nil || depth <= 0 {
		return nil, nil
	}
	var cl *ssa.Function
	var clVal ssa.Value
	for _, ret := range an.Returns(fn) {
		if len(ret.Results) == 0 || len(ret.Results) > 2 || !an.IsNamed(ret.Results[0].Type(), apiPkg, "RateFunction") {
			continue
		}
		v := an.Strip(ret.Results[0])
		switch x := v.(type) {
		case *ssa.MakeClosure:
			if f, ok := x.Fn.(*ssa.Function); ok {
				cl, clVal = an.Unwrap(f), x
			}
		case *ssa.Function:
			cl, clVal = x, x
		case *ssa.Call:
			if g := an.Callee(x); g != nil && g != fn && core.InModule(g) && an.IsNamed(g.Signature.Results().At(0).Type(), apiPkg, "RateFunction") {
				if f, v2 := jitterFnOf(g, depth-1); f != nil {
					cl, clVal = f, v2
				}
			}
		}
	}
	return cl, clVal
}

// isJitterMaker: a function of the api package that wraps a rate into the jitter function (WithJitter and its
// variants: all of them hand back the same jitter function).
func isJitterMaker(c *core.Ctx, f *ssa.Function) bool {
	if f == nil || core.RelPkg(f) != "internal/trigger/api" {
		return false
	}
	if f.Name() == "WithJitter" {
		return true
	}
	if n := f.Signature.Results().Len(); n == 0 || n > 2 || !an.IsNamed(f.Signature.Results().At(0).Type(), apiPkg, "RateFunction") {
		return false
	}
	base, _ := jitterFnOf(c.MustFn("internal/trigger/api", "WithJitter"), 3)
	own, _ := jitterFnOf(f, 3)
	return base != nil && own == base
}

func c13(c *core.Ctx, r *core.Report) {
	r.Explanation = "Decided structurally: (R1) carry conservation on the jitter closure's balance (analysis H): requested = rate + balance; returns int(rounded); balance' = requested − rounded, exactly once on every path — the shape from which Σ out = Σ rate − balance_final follows; " +
		"(R2) the value converted and returned is math.Max(0, ·): outputs are non-negative; (R3) the zero-jitter early return, when present, returns the rate parameter itself. NOT decided: the fixed bound on the running difference and the per-value ±jitter% bound (magnitude reasoning over the random factor)."
	r.NotDecided = []string{"bound on |Σ jittered − Σ rate|", "each value within jitter % of rate + carried remainder"}
	wj := c.MustFn("internal/trigger/api", "WithJitter")
	// by role: the jitter function is the RateFunction value WithJitter returns that is not its own parameter
	// (a function literal today; a bound method after a refactor)
	cl, clVal := jitterFnOf(wj, 3)
	rule(r, "C13.R1", "carry conservation on `balance` (analysis H)", func() {
		if cl == nil {
			panic(core.AnchorError{What: "WithJitter's jitter function (a function value returned by WithJitter)"})
		}
		// the carry is the fractional cell; an integer cell that is only ever increased by a constant (a tick count kept
		// for an accessor) carries nothing
		var cells []cell
		for _, k := range cellsOf(cl) {
			if isIntType(k.elem()) {
				counter := true
				for _, st := range k.stores(cl) {
					bo, isBin := st.Val.(*ssa.BinOp)
					if !isBin || bo.Op != token.ADD {
						counter = false
						continue
					}
					if _, isK := bo.Y.(*ssa.Const); !isK || !k.loadOf(bo.X) {
						counter = false
					}
				}
				if counter {
					continue
				}
			}
			cells = append(cells, k)
		}
		if len(cells) != 1 {
			r.Violation("WithJitter#cells", c.Pos(cl.Pos()), "the jitter function writes %d persistent variables (expected exactly one carry cell)", len(cells))
			return
		}
		k := cells[0]
		if carryTemplate(c, r, cl, k, "balance") {
			// the rate term is the wrapped rate's value of this tick, evaluated once
			// on every way through one tick (the evaluation may sit on either side of a zero-jitter test)
			evals := 0
			exits := an.PathCount(cl, func(in ssa.Instruction) an.Interval {
				if call, isCall := in.(ssa.CallInstruction); isCall {
					if n := an.DynCallType(call); n != nil && an.IsNamed(n, apiPkg, "RateFunction") {
						return an.Interval{Lo: 1, Hi: 1}
					}
				}
				return an.Interval{}
			})
			for _, call := range an.AllCalls(cl) {
				if n := an.DynCallType(call); n != nil && an.IsNamed(n, apiPkg, "RateFunction") {
					evals++
				}
			}
			tot, okTot := an.Total(exits, false)
			r.Check(okTot && tot.Lo == 1 && tot.Hi == 1, "WithJitter#rate-eval", c.Pos(cl.Pos()), "wrapped rate evaluated exactly once on every path of a tick", "the wrapped rate is evaluated "+tot.String()+" times per tick (expected exactly once on every path)")
			r.Check(evals >= 1, "WithJitter#rate-eval-sites", c.Pos(cl.Pos()), "the wrapped rate is evaluated", "the wrapped rate is never evaluated")
			for _, st := range k.stores(cl) {
				term := carryTerms[st]
				isRate := false
				if call, ok := term.V.(*ssa.Call); ok && isRootFrame(term.F) {
					if n := an.DynCallType(call); n != nil && an.IsNamed(n, apiPkg, "RateFunction") {
						isRate = true
					}
				}
				r.Check(isRate, "WithJitter#due-term", an.Pos(c, st), "due = rate(now) + balance", "the amount due adds "+an.D().Of(term.V)+" to the balance, not this tick's un-jittered rate")
			}
		}
		// initial balance is 0 (or the zero value)
		for _, init := range k.initialStores(c, cl, clVal) {
			r.Check(an.D().Of(init.Val) == "0", "WithJitter#initial-balance", an.Pos(c, init), "balance starts at 0", "balance starts at "+an.D().Of(init.Val))
		}
	})
	rule(r, "C13.R2", "outputs are non-negative: every return is int(math.Max(0, ·)) (or a guarded / constant non-negative value)", func() {
		if cl == nil {
			panic(core.AnchorError{What: "WithJitter's jitter function"})
		}
		// with zero jitter the wrapped rate's own value is passed on (C13.R3: the identity); that return is the
		// profile's request, not a jittered one
		nonNegReturns(c, r, cl, func(v ssa.Value) (bool, string) {
			call, ok := noConv(v).(*ssa.Call)
			if !ok || an.Callee(call) != nil || call.Call.IsInvoke() || !an.IsNamed(call.Call.Value.Type(), apiPkg, "RateFunction") {
				return false, ""
			}
			for _, g := range an.GuardsOf(call.Block()) {
				bo, isBin := g.Cond.(*ssa.BinOp)
				if !isBin || bo.Op != token.EQL || !g.Polarity {
					continue
				}
				if k, isK := bo.Y.(*ssa.Const); isK && k.Value != nil && an.D().Of(k) == "0" {
					if b, isB := bo.X.Type().Underlying().(*types.Basic); isB && b.Info()&types.IsFloat != 0 {
						return true, "zero jitter: the wrapped rate's own request is passed on unchanged"
					}
				}
			}
			return false, ""
		})
	})
	rule(r, "C13.R6", "the random term of the variation factor stays within [−1, 1]: in `1 + u·jitter/100` the source of u is a bounded draw (cos of anything, a uniform draw mapped into [−1, 1]) — a draw without a finite bound (normal, exponential) puts single values outside jitter % of what is due", func() {
		if cl == nil {
			panic(core.AnchorError{What: "WithJitter's jitter function"})
		}
		// the jitter percentage as the jitter function sees it: a captured float parameter of a maker, or a float
		// field of the receiver set from one
		isPercent := func(v ssa.Value) bool {
			v = an.Strip(v)
			if ld, ok := v.(*ssa.UnOp); ok && ld.Op == token.MUL {
				v = ld.X
			}
			switch x := v.(type) {
			case *ssa.FreeVar:
				b := an.FreeVarBinding(x)
				if al, isAl := b.(*ssa.Alloc); isAl {
					if sts := an.StoresTo(al); len(sts) == 1 {
						b = an.Strip(sts[0].Val)
					}
				}
				p, isP := b.(*ssa.Parameter)
				if !isP {
					return false
				}
				bt, isB := p.Type().Underlying().(*types.Basic)
				return isB && bt.Info()&types.IsFloat != 0
			case *ssa.FieldAddr:
				f := an.FieldOfAddr(x)
				bt, isB := f.Type().Underlying().(*types.Basic)
				if !isB || bt.Info()&types.IsFloat == 0 {
					return false
				}
				// not the carry itself
				for _, k := range cellsOf(cl) {
					if k.fld != nil && an.SameField(k.fld, f) {
						return false
					}
				}
				return true
			}
			return false
		}
		n := 0
		an.Instrs(cl, func(in ssa.Instruction) {
			bo, ok := in.(*ssa.BinOp)
			if !ok || bo.Op != token.MUL {
				return
			}
			var u ssa.Value
			switch {
			case isPercent(bo.Y):
				u = bo.X
			case isPercent(bo.X):
				u = bo.Y
			default:
				return
			}
			n++
			iv := floatInterval(c, u, 8)
			key := core.FuncName(cl) + "#variation-range"
			switch {
			case !iv.known:
				r.Note(key, an.Pos(c, bo), "the range of the random term %s is not evaluated (%s)", an.D().Of(u), iv.why)
			case iv.unbounded || iv.lo < -1 || iv.hi > 1:
				r.Violation(key, an.Pos(c, bo), "the random term of the variation factor ranges over [%v, %v] (%s), not within [−1, 1]: single values leave jitter %% of the rate plus the carried remainder, and the running total leaves its fixed bound", iv.lo, iv.hi, iv.why)
			default:
				r.OK(key, an.Pos(c, bo), "random term within [%v, %v]", iv.lo, iv.hi)
			}
		})
		if n == 0 {
			r.Note(core.FuncName(cl)+"#variation-range", c.Pos(cl.Pos()), "no product of a random term and the jitter percentage found in the jitter function itself: the range of the random term is not decided")
		}
	})
	rule(r, "C13.R3", "zero jitter is the identity: a return guarded by multiple == 0 returns the rate parameter itself (absence of the early return is not an alarm)", func() {
		n := 0
		var rateParam *ssa.Parameter
		for _, p := range wj.Params {
			if an.IsNamed(p.Type(), apiPkg, "RateFunction") {
				rateParam = p
			}
		}
		for _, ret := range an.Returns(wj) {
			for _, g := range an.GuardsOf(ret.Block()) {
				bo, ok := g.Cond.(*ssa.BinOp)
				if !ok || bo.Op != token.EQL || !g.Polarity {
					continue
				}
				x, y := an.Strip(g.T(bo.X)), an.Strip(g.T(bo.Y))
				if _, isK := x.(*ssa.Const); isK {
					x, y = y, x
				}
				p, isP := x.(*ssa.Parameter)
				k, isK := y.(*ssa.Const)
				if !isP || !isK || p.Parent() != wj || k.Value == nil || an.D().Of(k) != "0" {
					continue
				}
				n++
				d := an.D().Of(ret.Results[0])
				r.Check(rateParam != nil && an.Strip(ret.Results[0]) == ssa.Value(rateParam), "WithJitter#zero-identity", an.Pos(c, ret), "zero jitter returns the rate itself", "with zero jitter WithJitter returns "+d+" instead of the rate function it was given")
			}
		}
		if n == 0 {
			r.Note("WithJitter#zero-identity", c.Pos(wj.Pos()), "no early return for multiple == 0: identity then follows from round((rate+0)·1), which needs arithmetic and is not decided here")
			r.Exists("WithJitter#zero-identity-absent", c.Pos(wj.Pos()), "no zero-jitter early return (information only)")
		}
	})
}

// mirrorCmp: the operator of the same comparison with its operands exchanged.
func mirrorCmp(op token.Token) token.Token {
	switch op {
	case token.LSS:
		return token.GTR
	case token.GTR:
		return token.LSS
	case token.LEQ:
		return token.GEQ
	case token.GEQ:
		return token.LEQ
	}
	return op
}

func stripNot(v ssa.Value) ssa.Value {
	for {
		u, ok := v.(*ssa.UnOp)
		if !ok || u.Op != token.NOT {
			return v
		}
		v = u.X
	}
}

func isNegated(v ssa.Value) bool {
	neg := false
	for {
		u, ok := v.(*ssa.UnOp)
		if !ok || u.Op != token.NOT {
			return neg
		}
		v, neg = u.X, !neg
	}
}
