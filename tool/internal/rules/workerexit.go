package rules

import (
	"go/token"
	"go/types"

	"golang.org/x/tools/go/ssa"

	"f1verif/internal/an"
	"f1verif/internal/core"
)

// A worker leaves its loop only when the pool was stopped or the limit path was taken (C04.R7): a worker that
// returns for any other reason — it lost the race for a tick's last job, a helper reported "nothing to do" — is
// gone for the rest of the run, and fewer than `concurrency` iterations can be in flight afterwards.

// derivesFromStopFlag: the condition is computed only from a Load of an atomic.Bool (directly, through a wrapper
// type or through a bool getter of the module).
func derivesFromStopFlag(v ssa.Value, depth int) bool {
	v = an.Strip(v)
	if depth > 5 {
		return false
	}
	switch x := v.(type) {
	case *ssa.UnOp:
		if x.Op == token.NOT {
			return derivesFromStopFlag(x.X, depth+1)
		}
	case *ssa.Call:
		t := an.Callee(x)
		if t == nil {
			return false
		}
		if t.Pkg != nil && t.Pkg.Pkg.Path() == "sync/atomic" && t.Name() == "Load" && t.Signature.Recv() != nil && an.IsNamed(t.Signature.Recv().Type(), "sync/atomic", "Bool") {
			return true
		}
		if core.InModule(t) && t.Blocks != nil {
			rets := an.Returns(t)
			if len(rets) == 1 && len(rets[0].Results) == 1 {
				return derivesFromStopFlag(rets[0].Results[0], depth+1)
			}
		}
	}
	return false
}

// limitCallIn: the block (and the straight-line blocks that follow it) calls the limit path.
func limitCallIn(b *ssa.BasicBlock) bool {
	for hop := 0; hop < 4 && b != nil; hop++ {
		for _, in := range b.Instrs {
			call, ok := in.(ssa.CallInstruction)
			if !ok {
				continue
			}
			if isCancelFieldCall(call) {
				return true
			}
			if t := an.Callee(call); t != nil && core.RelPkg(t) == "internal/workers" && (callsCancelField(t) || an.ReachesCall(t, 2, callsCancelField)) {
				return true
			}
			// a function-typed parameter or field standing for the limit path cannot be told apart from any other
			// callback: not accepted
		}
		if len(b.Succs) != 1 {
			break
		}
		b = b.Succs[0]
	}
	return false
}

func workerExitRule(c *core.Ctx, r *core.Report) {
	runner, _, _ := iterationRunner(c)
	n := 0
	seen := map[*ssa.BasicBlock]bool{}
	runs, _ := workerRuns(c, runner)
	for _, wr := range runs {
		// the loop around the run, in the worker itself or in a helper the worker delegates its loop to
		var at ssa.Instruction
		chain := an.Chain(wr.Run)
		for i := len(chain) - 1; i >= 0; i-- {
			if an.InLoop(chain[i]) {
				at = chain[i]
				break
			}
		}
		if at == nil {
			continue
		}
		{
			fn := at.Parent()
			loop, head := an.NaturalLoopOf(at.Block())
			if loop == nil || seen[head] {
				continue
			}
			seen[head] = true
			n++
			var order []*ssa.BasicBlock
			for _, blk := range fn.Blocks {
				if loop[blk] {
					order = append(order, blk)
				}
			}
			exitNo := 0
			for _, b := range order {

				iff, ok := b.Instrs[len(b.Instrs)-1].(*ssa.If)
				if !ok {
					continue
				}
				for si, succ := range b.Succs {
					if loop[succ] {
						continue
					}
					exitNo++
					key := core.FuncName(fn) + "#leaves-loop" + itoa(exitNo)
					switch {
					case limitCallIn(succ):
						r.OK(key, an.Pos(c, iff), "leaves after taking the limit path")
					case derivesFromStopFlag(iff.Cond, 0):
						r.OK(key, an.Pos(c, iff), "leaves when the stop flag is set")
					default:
						// a bool helper of the module: the value on which the worker leaves is returned only after the
						// limit path, or is the stop flag
						okHelper := false
						cond := iff.Cond
						val := si == 0
						if u, isU := cond.(*ssa.UnOp); isU && u.Op == token.NOT {
							cond, val = u.X, !val
						}
						if hc, isCall := an.Strip(cond).(*ssa.Call); isCall {
							if h := an.Callee(hc); h != nil && core.RelPkg(h) == "internal/workers" && h.Blocks != nil {
								okHelper = true
								for _, hr := range an.Returns(h) {
									if len(hr.Results) != 1 {
										okHelper = false
										continue
									}
									// (results of a function with defers are read back from a spilled local)
									res := stripAllocs(hr.Results[0])
									k, isK := res.(*ssa.Const)
									if isK && k.Value != nil && (k.Value.String() == "true") != val {
										continue // the other value: the worker stays
									}
									if isK {
										// the leaving value as a constant: only after the limit path or under the stop flag
										viaLimit := false
										for _, hcall := range an.AllCalls(h) {
											if an.Dominates(hcall, hr) && (isCancelFieldCall(hcall) || (an.Callee(hcall) != nil && core.RelPkg(an.Callee(hcall)) == "internal/workers" && callsCancelField(an.Callee(hcall)))) {
												viaLimit = true
											}
										}
										viaStop := false
										for _, g := range an.GuardsOf(hr.Block()) {
											if derivesFromStopFlag(g.Cond, 0) {
												viaStop = true
											}
										}
										// … or on the arm of a select that fired because the pool's worker context ended (the limit
										// path cancels it, and so does the end of the run)
										viaCtx := false
										if sel, idx := an.ArmOf(hr); sel != nil && idx >= 0 && (isPoolCtxMethod(sel.States[idx].Chan, "Done") || isPoolStopChan(sel.States[idx].Chan)) {
											viaCtx = true
										}
										if !viaLimit && !viaStop && !viaCtx {
											okHelper = false
										}
									} else if !derivesFromStopFlag(res, 0) && !poolCtxAlive(res, val) {
										okHelper = false
									}
								}
							}
						}
						r.Check(okHelper, key, an.Pos(c, iff), "leaves on a helper result that stands for stop / limit", "a worker leaves its loop under "+an.D().Of(iff.Cond)+", which is neither the pool's stop flag nor the limit path: a worker that returns here (for instance after losing the race for the last job of a tick) is gone for the rest of the run, and fewer than `concurrency` iterations can be in flight")
					}
				}
			}
		}
	}
	r.Floor("worker loops around the iteration runner", n, 1)
}

// ownGoroutineRule is C04.R9: the user's iteration function runs on the goroutine of the pool worker that took the
// request. Between the `go` that starts a worker and the call of the user function there is no second `go`: were the
// body handed to a goroutine of its own, the worker could move on (a timeout, an early exit) while the body still
// runs, and more than `concurrency` bodies would execute at once.
func ownGoroutineRule(c *core.Ctx, r *core.Report) {
	n := 0
	for _, uc := range userCalls(c) {
		if uc.Kind != "RunFn" || core.RelPkg(uc.Fn) != "internal/workers" {
			continue
		}
		n++
		// the largest number of `go` statements on a call chain ending at the user call
		memo := map[*ssa.Function]int{}
		onStack := map[*ssa.Function]bool{}
		var where ssa.Instruction
		var maxGo func(f *ssa.Function, depth int) int
		maxGo = func(f *ssa.Function, depth int) int {
			if v, ok := memo[f]; ok {
				return v
			}
			if onStack[f] || depth <= 0 {
				return 0
			}
			onStack[f] = true
			defer delete(onStack, f)
			best := 0
			consider := func(in ssa.Instruction, caller *ssa.Function) {
				if core.RelPkg(caller) != "internal/workers" {
					// who starts the pools (the trigger's own goroutine, the run) is not part of the chain
					return
				}
				g := maxGo(caller, depth-1)
				if goIn, isGo := in.(*ssa.Go); isGo && !joinedGo(goIn) {
					g++
					if where == nil || g > 1 {
						if g > 1 || where == nil {
							where = in
						}
					}
				}
				if g > best {
					best = g
				}
			}
			for _, cs := range an.CallSitesOf(c, f) {
				consider(cs, cs.Parent())
			}
			if f.Parent() != nil {
				// a function literal: how the value made from it is used where it was made
				an.Instrs(f.Parent(), func(in ssa.Instruction) {
					mc, ok := in.(*ssa.MakeClosure)
					if !ok || mc.Fn != ssa.Value(f) {
						return
					}
					used := false
					for _, ref := range an.Referrers(mc) {
						if ci, isCall := ref.(ssa.CallInstruction); isCall && ci.Common().Value == ssa.Value(mc) {
							used = true
							consider(ci, f.Parent())
						}
					}
					if !used {
						consider(mc, f.Parent())
					}
				})
			}
			memo[f] = best
			return best
		}
		g := maxGo(uc.Call.Parent(), 10)
		key := core.FuncName(uc.Call.Parent()) + "#own-goroutine"
		pos := an.Pos(c, uc.Call)
		if where != nil && g > 1 {
			pos = an.Pos(c, where)
		}
		r.Check(g <= 1, key, pos, "the iteration function is called on the worker's own goroutine (one `go`, the worker's, on every call chain)", sprintf("the iteration function is handed to a goroutine of its own (%d `go` statements on a call chain from the pool to the user call): the worker can move on while the body still runs, and more than `concurrency` iteration functions execute at once", g))
	}
	r.Floor("calls of the user's iteration function in internal/workers", n, 1)
}

// joinedGo: the goroutine started here is waited for before the function that starts it returns — the function
// literal closes a channel made in that function (a deferred close, or a close on every path) and every return of
// the function is reached only after a receive from that channel. Such a goroutine does not outlive the call: seen
// from the worker, the body still runs "inside" the iteration.
func joinedGo(g *ssa.Go) bool {
	mc, ok := g.Call.Value.(*ssa.MakeClosure)
	if !ok {
		return false
	}
	cl, ok := mc.Fn.(*ssa.Function)
	if !ok {
		return false
	}
	fn := g.Parent()
	for i, fv := range cl.FreeVars {
		if i >= len(mc.Bindings) {
			break
		}
		// the captured channel variable, made in the starting function
		cell, isCell := mc.Bindings[i].(*ssa.Alloc)
		if !isCell {
			continue
		}
		sts := an.StoresTo(cell)
		if len(sts) != 1 {
			continue
		}
		if _, isMake := an.Strip(sts[0].Val).(*ssa.MakeChan); !isMake {
			continue
		}
		// closed by the goroutine on every path (a deferred close registered first, or a close dominating its returns)
		closes := false
		an.Instrs(cl, func(in ssa.Instruction) {
			ci, isCall := in.(ssa.CallInstruction)
			if !isCall || !an.IsBuiltinCall(ci, "close") || len(ci.Common().Args) != 1 {
				return
			}
			ld, isLd := ci.Common().Args[0].(*ssa.UnOp)
			if !isLd || ld.X != ssa.Value(fv) {
				return
			}
			if _, isDefer := in.(*ssa.Defer); isDefer {
				closes = closes || dominatesAllReturns(in, cl)
			} else {
				closes = closes || dominatesAllReturns(in, cl)
			}
		})
		if !closes {
			continue
		}
		isDone := func(v ssa.Value) bool {
			if ld, isLd := v.(*ssa.UnOp); isLd && ld.Op == token.MUL {
				return ld.X == ssa.Value(cell)
			}
			return false
		}
		all := len(an.Returns(fn)) > 0
		for _, ret := range an.Returns(fn) {
			if !returnAfterRecv(fn, ret, isDone, 2) {
				all = false
			}
		}
		if all {
			return true
		}
	}
	return false
}

// isPoolCtxMethod: v is `ctx.<name>()` on a context kept in a field of a pool type of internal/workers.
func isPoolCtxMethod(v ssa.Value, name string) bool {
	call, ok := an.Strip(v).(*ssa.Call)
	if !ok || !call.Common().IsInvoke() || call.Common().Method.Name() != name {
		return false
	}
	fld, _ := an.TerminalField(call.Common().Value)
	return fld != nil && fld.Pkg() != nil && fld.Pkg().Path() == workersPkg && an.IsNamed(fld.Type(), "context", "Context")
}

// poolCtxAlive: the value is `ctx.Err() == nil` (or its negation) on the pool's worker context, and the leaving value
// is the one it takes when the context has ended.
func poolCtxAlive(v ssa.Value, leaving bool) bool {
	bo, ok := an.Strip(v).(*ssa.BinOp)
	if !ok || !isNilConst(bo.Y) || !isPoolCtxMethod(bo.X, "Err") {
		return false
	}
	switch bo.Op {
	case token.EQL: // true while alive: leaving on false
		return !leaving
	case token.NEQ:
		return leaving
	}
	return false
}

// isPoolStopChan: a channel kept in a field of a pool type of internal/workers (closed when the pool stops).
func isPoolStopChan(v ssa.Value) bool {
	fld, _ := an.TerminalField(v)
	if fld == nil || fld.Pkg() == nil || fld.Pkg().Path() != workersPkg {
		return false
	}
	_, isChan := fld.Type().Underlying().(*types.Chan)
	return isChan
}
