package rules

import (
	"go/constant"
	"go/types"

	"golang.org/x/tools/go/ssa"

	"f1verif/internal/an"
	"f1verif/internal/core"
)

const (
	testingPkg  = core.ModPath + "/pkg/f1/testing"
	metricsPkg  = core.ModPath + "/internal/metrics"
	progressPkg = core.ModPath + "/internal/progress"
	workersPkg  = core.ModPath + "/internal/workers"
	runPkg      = core.ModPath + "/internal/run"
	apiPkg      = core.ModPath + "/internal/trigger/api"
	optionsPkg  = core.ModPath + "/internal/options"
	filePkg     = core.ModPath + "/internal/trigger/file"
)

// userCall is a dynamic call of a user-supplied function value.
type userCall struct {
	Call ssa.CallInstruction
	Kind string // RunFn, ScenarioFn, cleanup
	Fn   *ssa.Function
}

// userCalls finds every dynamic call in module code of a value typed testing.RunFn / testing.ScenarioFn
// and of elements of a []func() field of testing.T (the cleanup stack).
func userCalls(c *core.Ctx) []userCall {
	var out []userCall
	for _, fn := range c.AllFuncs {
		for _, call := range an.AllCalls(fn) {
			if an.Callee(call) != nil || call.Common().IsInvoke() {
				continue
			}
			if _, ok := call.Common().Value.(*ssa.Builtin); ok {
				continue
			}
			t := call.Common().Value.Type()
			switch {
			case an.IsNamed(t, testingPkg, "RunFn"):
				out = append(out, userCall{call, "RunFn", fn})
			case an.IsNamed(t, testingPkg, "ScenarioFn"):
				out = append(out, userCall{call, "ScenarioFn", fn})
			default:
				// element of a []func() field of testing.T
				if ia, ok := an.Terminal(call.Common().Value).(*ssa.IndexAddr); ok {
					if fld, owner := an.TerminalField(ia.X); fld != nil && an.IsNamed(owner, testingPkg, "T") {
						out = append(out, userCall{call, "cleanup", fn})
					}
				}
			}
		}
	}
	return out
}

// iterationRunner returns the declared function of internal/workers that (possibly through a function
// literal) invokes the scenario's RunFn, the dynamic call, and the call in the runner's own frame
// that leads to it.
func iterationRunner(c *core.Ctx) (runner *ssa.Function, body ssa.CallInstruction, frameCall ssa.CallInstruction) {
	for _, u := range userCalls(c) {
		if u.Kind != "RunFn" || core.RelPkg(u.Fn) != "internal/workers" {
			continue
		}
		if runner != nil {
			panic(core.AnchorError{What: "iteration runner is ambiguous (more than one RunFn call in internal/workers)"})
		}
		runner = an.Outermost(u.Fn)
		body = u.Call
		frameCall = u.Call
		for f := u.Fn; f != runner; f = f.Parent() {
			// the call of the literal in its parent
			var found ssa.CallInstruction
			for _, call := range an.AllCalls(f.Parent()) {
				if an.Callee(call) == f {
					found = call
				}
			}
			if found == nil {
				panic(core.AnchorError{What: "function literal around the RunFn call is not invoked in place"})
			}
			frameCall = found
		}
	}
	if runner == nil {
		panic(core.AnchorError{What: "iteration runner (function of internal/workers calling a testing.RunFn)"})
	}
	return
}

func setupRunner(c *core.Ctx) (runner *ssa.Function, body ssa.CallInstruction, frameCall ssa.CallInstruction) {
	for _, u := range userCalls(c) {
		if u.Kind != "ScenarioFn" || core.RelPkg(u.Fn) != "internal/workers" {
			continue
		}
		runner = an.Outermost(u.Fn)
		body = u.Call
		frameCall = u.Call
		for f := u.Fn; f != runner; f = f.Parent() {
			for _, call := range an.AllCalls(f.Parent()) {
				if an.Callee(call) == f {
					frameCall = call
				}
			}
		}
	}
	if runner == nil {
		panic(core.AnchorError{What: "setup runner (function of internal/workers calling a testing.ScenarioFn)"})
	}
	return
}

// resultConst returns the string value of a metrics.ResultType constant.
func resultConst(c *core.Ctx, name string) string {
	p := c.ByRel["internal/metrics"]
	if p == nil {
		panic(core.AnchorError{What: "internal/metrics"})
	}
	k, _ := p.Types.Scope().Lookup(name).(*types.Const)
	if k == nil {
		panic(core.AnchorError{What: "metrics." + name})
	}
	return constant.StringVal(k.Val())
}

func isMethod(f *ssa.Function, pkg, typ, name string) bool {
	if f == nil || f.Signature.Recv() == nil || f.Name() != name {
		return false
	}
	if o := f.Origin(); o != nil {
		f = o
	}
	return an.IsNamed(f.Signature.Recv().Type(), pkg, typ)
}

// runDo finds Run.Do: the function of internal/run that calls the setup runner.
func runDo(c *core.Ctx) (*ssa.Function, ssa.CallInstruction) {
	setup, _, _ := setupRunner(c)
	for _, fn := range c.AllFuncs {
		if core.RelPkg(fn) != "internal/run" {
			continue
		}
		for _, call := range an.AllCalls(fn) {
			if an.Callee(call) == setup {
				return fn, call
			}
		}
	}
	panic(core.AnchorError{What: "Run.Do (caller of the setup runner in internal/run)"})
}

// runLoop finds Run.run: the function of internal/run that creates the PoolManager.
func runLoop(c *core.Ctx) (*ssa.Function, ssa.CallInstruction) {
	for _, fn := range c.AllFuncs {
		if core.RelPkg(fn) != "internal/run" {
			continue
		}
		for _, call := range an.AllCalls(fn) {
			if t := an.Callee(call); t != nil && core.RelPkg(t) == "internal/workers" && t.Signature.Recv() == nil &&
				t.Signature.Results().Len() == 1 && an.IsNamed(t.Signature.Results().At(0).Type(), workersPkg, "PoolManager") {
				return fn, call
			}
		}
	}
	panic(core.AnchorError{What: "Run.run (creator of the PoolManager in internal/run)"})
}

func stripCaret(s string) string {
	out := make([]rune, 0, len(s))
	for _, r := range s {
		if r != '^' {
			out = append(out, r)
		}
	}
	return string(out)
}
