package rules

import (
	"go/token"
	"go/constant"
	"go/types"
	"strings"

	"golang.org/x/tools/go/ssa"

	"f1verif/internal/an"
	"f1verif/internal/core"
)

const (
	testingPkg  = core.ModPath + "/pkg/f1/testing"
	metricsPkg  = core.ModPath + "/internal/metrics"
	progressPkg = core.ModPath + "/internal/progress"
	workersPkg  = core.ModPath + "/internal/workers"
	runPkg      = core.ModPath + "/internal/run"
	apiPkg      = core.ModPath + "/internal/trigger/api"
	optionsPkg  = core.ModPath + "/internal/options"
	filePkg     = core.ModPath + "/internal/trigger/file"
)

// userCall is a dynamic call of a user-supplied function value.
type userCall struct {
	Call ssa.CallInstruction
	Kind string // RunFn, ScenarioFn, cleanup
	Fn   *ssa.Function
	// Host is set when the user function is not called here but handed to a guarding helper (hostHelpers) that
	// calls it behind its own recovering defer; Call is then the call of that helper.
	Host *ssa.Defer
}

// hostHelpers: module functions that defer a recovering function and then call one of their function-typed
// parameters (`func guard(t *T, fn func()) { defer CheckResults(t, nil); fn() }`). The map gives the parameter
// index and the recovering defer.
type hostHelper struct {
	param int
	rec   *ssa.Defer
	call  ssa.CallInstruction
}

func hostHelpers(c *core.Ctx) map[*ssa.Function]hostHelper {
	out := map[*ssa.Function]hostHelper{}
	for _, h := range c.AllFuncs {
		if !core.InModule(h) || h.Parent() != nil {
			continue
		}
		for i, p := range h.Params {
			sig, ok := p.Type().Underlying().(*types.Signature)
			if !ok || sig.Params().Len() != 0 || sig.Results().Len() != 0 {
				continue
			}
			for _, hc := range an.AllCalls(h) {
				if an.Callee(hc) != nil || an.Strip(hc.Common().Value) != ssa.Value(p) {
					continue
				}
				if _, plain := hc.(*ssa.Call); !plain {
					continue
				}
				for _, d := range an.AllCalls(h) {
					df, isDefer := d.(*ssa.Defer)
					if !isDefer || !an.Dominates(df, hc) {
						continue
					}
					if _, rok := recovering(an.Callee(df)); rok {
						out[h] = hostHelper{param: i, rec: df, call: hc}
					}
				}
			}
		}
	}
	return out
}

// userCalls finds every dynamic call in module code of a value typed testing.RunFn / testing.ScenarioFn
// and of elements of a []func() field of testing.T (the cleanup stack).
func userCalls(c *core.Ctx) []userCall {
	var out []userCall
	hosts := hostHelpers(c)
	for _, fn := range c.AllFuncs {
		for _, call := range an.AllCalls(fn) {
			// a cleanup handed to a guarding helper instead of being called in place
			if h, ok := hosts[an.Callee(call)]; ok && h.param < len(call.Common().Args) {
				if ia, isIA := an.Terminal(call.Common().Args[h.param]).(*ssa.IndexAddr); isIA {
					if fld, owner := an.TerminalField(ia.X); fld != nil && an.IsNamed(owner, testingPkg, "T") {
						out = append(out, userCall{Call: call, Kind: "cleanup", Fn: fn, Host: h.rec})
						continue
					}
				}
			}
			if an.Callee(call) != nil || call.Common().IsInvoke() {
				continue
			}
			if _, ok := call.Common().Value.(*ssa.Builtin); ok {
				continue
			}
			t := call.Common().Value.Type()
			switch {
			case an.IsNamed(t, testingPkg, "RunFn"):
				out = append(out, userCall{Call: call, Kind: "RunFn", Fn: fn})
			case an.IsNamed(t, testingPkg, "ScenarioFn"):
				out = append(out, userCall{Call: call, Kind: "ScenarioFn", Fn: fn})
			default:
				// element of a []func() field of testing.T
				direct := false
				if ia, ok := an.Terminal(call.Common().Value).(*ssa.IndexAddr); ok {
					if fld, owner := an.TerminalField(ia.X); fld != nil && an.IsNamed(owner, testingPkg, "T") {
						out = append(out, userCall{Call: call, Kind: "cleanup", Fn: fn})
						direct = true
					} else if p, isP := an.Strip(ia.X).(*ssa.Parameter); isP && p.Parent() == fn {
						// … of a list handed to this function: the cleanup stack at some call site
						for _, site := range an.CallSitesOf(c, fn) {
							if i := an.ParamIndex(p); i < len(site.Common().Args) {
								if fld, owner := an.TerminalField(site.Common().Args[i]); fld != nil && an.IsNamed(owner, testingPkg, "T") && !direct {
									out = append(out, userCall{Call: call, Kind: "cleanup", Fn: fn})
									direct = true
								}
							}
						}
					}
				}
				if _, viaAccessor := call.Common().Value.(*ssa.Call); viaAccessor && !direct {
					// … handed out by an accessor of a wrapper type around that field (`t.stack.at(i)()`)
					rv := an.RootFV(fn, call.Common().Value).Resolve(nil)
					v := rv.V
					if ld, isLd := v.(*ssa.UnOp); isLd && ld.Op == token.MUL {
						v = ld.X
					}
					if ia, isIA := an.Strip(v).(*ssa.IndexAddr); isIA && rv.F != nil && rv.F.Parent != nil {
						base := (an.FV{V: ia.X, F: rv.F}).Resolve(nil).V
						if fld, owner := an.TerminalField(base); fld != nil && an.IsNamed(owner, testingPkg, "T") {
							out = append(out, userCall{Call: call, Kind: "cleanup", Fn: fn})
						}
					}
				}
			}
		}
	}
	return out
}

// flatDepth is how many helper levels the rules look through (virtual inlining, analysis P1).
const flatDepth = 3

// userRunner finds, by role, the function of internal/workers that both (through helpers / function literals)
// invokes a user function of the given kind and records its outcome with one of the recorders, and is minimal
// with that property. It returns the function, the user-call event and the call in its own frame leading to it.
func userRunner(c *core.Ctx, kind string, recorder func(*ssa.Function) bool) (runner *ssa.Function, body an.Event, frameCall ssa.CallInstruction) {
	isUser := func(call ssa.CallInstruction, t *ssa.Function) bool {
		if t != nil {
			return false
		}
		n := an.DynCallType(call)
		return n != nil && an.IsNamed(n, testingPkg, kind)
	}
	type cand struct {
		fn   *ssa.Function
		body an.Event
	}
	var cands []cand
	for _, fn := range c.AllFuncs {
		if core.RelPkg(fn) != "internal/workers" || fn.Parent() != nil {
			continue
		}
		bodies := an.FlatCalls(fn, flatDepth, isUser)
		if len(bodies) == 0 {
			continue
		}
		recs := an.FlatCalls(fn, flatDepth, func(_ ssa.CallInstruction, t *ssa.Function) bool { return t != nil && recorder(t) })
		if len(recs) == 0 {
			continue
		}
		if len(bodies) > 1 {
			panic(core.AnchorError{What: kind + " is invoked at more than one place under " + core.FuncName(fn)})
		}
		cands = append(cands, cand{fn, bodies[0]})
	}
	// minimal: drop candidates that (flat-)call another candidate
	var best *cand
	for i := range cands {
		callsOther := false
		for j := range cands {
			if i == j {
				continue
			}
			other := cands[j].fn
			if len(an.FlatCalls(cands[i].fn, flatDepth, func(_ ssa.CallInstruction, t *ssa.Function) bool { return t == other })) > 0 {
				callsOther = true
			}
		}
		if !callsOther {
			if best != nil {
				panic(core.AnchorError{What: "more than one function runs a " + kind + " and records its outcome"})
			}
			best = &cands[i]
		}
	}
	if best == nil {
		panic(core.AnchorError{What: "function of internal/workers that runs a testing." + kind + " and records its outcome"})
	}
	root, _ := best.body.Root().(ssa.CallInstruction)
	return best.fn, best.body, root
}

// iterationRunner: the function that runs one iteration body and records it (ActiveScenario.Run today).
func iterationRunner(c *core.Ctx) (runner *ssa.Function, body ssa.CallInstruction, frameCall ssa.CallInstruction) {
	fn, ev, fc := userRunner(c, "RunFn", func(t *ssa.Function) bool { return isStatsRecord(t) || isMetricsIter(t) })
	return fn, ev.Call(), fc
}

// iterationBodyT is the test handle the iteration body runs with, as a value of the runner's frame.
func iterationBodyT(c *core.Ctx) ssa.Value {
	_, ev, _ := userRunner(c, "RunFn", func(t *ssa.Function) bool { return isStatsRecord(t) || isMetricsIter(t) })
	return ev.Translate(ev.Call().Common().Args[0])
}

func setupRunner(c *core.Ctx) (runner *ssa.Function, body ssa.CallInstruction, frameCall ssa.CallInstruction) {
	fn, ev, fc := userRunner(c, "ScenarioFn", func(t *ssa.Function) bool { return isMethod(t, metricsPkg, "Metrics", "RecordSetupResult") })
	return fn, ev.Call(), fc
}

// recEvent is one outcome-recording call seen from a root function, with its arguments in the root's frame.
type recEvent struct {
	Kind   string // "stats" | "metrics" | "setup"
	Ev     an.Event
	Result ssa.Value
	Dur    ssa.Value
}

func recordEvents(root *ssa.Function) []recEvent {
	var out []recEvent
	for _, e := range an.FlatCalls(root, flatDepth, func(_ ssa.CallInstruction, t *ssa.Function) bool {
		return t != nil && (isStatsRecord(t) || isMetricsIter(t) || isMethod(t, metricsPkg, "Metrics", "RecordSetupResult"))
	}) {
		call := e.Call()
		kind := "stats"
		if isMetricsIter(an.Callee(call)) {
			kind = "metrics"
		} else if !isStatsRecord(an.Callee(call)) {
			kind = "setup"
		}
		args := call.Common().Args
		out = append(out, recEvent{Kind: kind, Ev: e, Result: e.Translate(resultArg(call)), Dur: e.Translate(args[len(args)-1])})
	}
	return out
}

// resultConst returns the string value of a metrics.ResultType constant.
func resultConst(c *core.Ctx, name string) string {
	p := c.ByRel["internal/metrics"]
	if p == nil {
		panic(core.AnchorError{What: "internal/metrics"})
	}
	k, _ := p.Types.Scope().Lookup(name).(*types.Const)
	if k == nil {
		panic(core.AnchorError{What: "metrics." + name})
	}
	return constant.StringVal(k.Val())
}

func isMethod(f *ssa.Function, pkg, typ, name string) bool {
	if f == nil || f.Signature.Recv() == nil || f.Name() != name {
		return false
	}
	if o := f.Origin(); o != nil {
		f = o
	}
	return an.IsNamed(f.Signature.Recv().Type(), pkg, typ)
}

// runDo finds Run.Do by role: the minimal function of internal/run that (through helpers) both calls the setup
// runner and the run loop. The call returned is the instruction of Do's own frame at which setup happens.
func runDo(c *core.Ctx) (*ssa.Function, ssa.CallInstruction) {
	setup, _, _ := setupRunner(c)
	loop, _ := runLoop(c)
	var best *ssa.Function
	var bestCall ssa.CallInstruction
	for _, fn := range c.AllFuncs {
		if core.RelPkg(fn) != "internal/run" || fn.Parent() != nil {
			continue
		}
		// the setup runner itself, or a method of internal/workers around it (a retry loop, a timing wrapper)
		reachesSetup := func(t *ssa.Function) bool {
			if t == setup {
				return true
			}
			if t == nil || core.RelPkg(t) != "internal/workers" || t.Blocks == nil {
				return false
			}
			return len(an.FlatCalls(t, flatDepth, func(_ ssa.CallInstruction, g *ssa.Function) bool { return g == setup })) > 0
		}
		sev := an.FlatCalls(fn, flatDepth, func(_ ssa.CallInstruction, t *ssa.Function) bool { return reachesSetup(t) })
		lev := an.FlatCalls(fn, flatDepth, func(_ ssa.CallInstruction, t *ssa.Function) bool { return t == loop })
		if len(sev) == 0 || len(lev) == 0 {
			continue
		}
		if best != nil {
			// keep the one that does not call the other
			if len(an.FlatCalls(fn, flatDepth, func(_ ssa.CallInstruction, t *ssa.Function) bool { return t == best })) > 0 {
				continue
			}
		}
		best = fn
		bestCall, _ = sev[0].Root().(ssa.CallInstruction)
	}
	if best == nil {
		panic(core.AnchorError{What: "Run.Do (function of internal/run that runs setup and the run loop)"})
	}
	return best, bestCall
}

// runLoop finds Run.run: the function of internal/run that creates the PoolManager.
func runLoop(c *core.Ctx) (*ssa.Function, ssa.CallInstruction) {
	for _, fn := range c.AllFuncs {
		if core.RelPkg(fn) != "internal/run" {
			continue
		}
		for _, call := range an.AllCalls(fn) {
			if t := an.Callee(call); t != nil && core.RelPkg(t) == "internal/workers" && t.Signature.Recv() == nil &&
				t.Signature.Results().Len() == 1 && an.IsNamed(t.Signature.Results().At(0).Type(), workersPkg, "PoolManager") {
				return fn, call
			}
		}
	}
	panic(core.AnchorError{What: "Run.run (creator of the PoolManager in internal/run)"})
}

func stripCaret(s string) string {
	out := make([]rune, 0, len(s))
	for _, r := range s {
		if r != '^' {
			out = append(out, r)
		}
	}
	return string(out)
}

// workerRun is one place where a pool worker goroutine (the root) runs an iteration, possibly through helpers.
type workerRun struct {
	Worker *ssa.Function // the function started with `go`
	Run    an.Event      // the call of the iteration runner
}

// workerRuns lists the runner calls seen from every goroutine root of the module; stray lists static call
// sites of the runner that no worker root covers.
func workerRuns(c *core.Ctx, runner *ssa.Function) (runs []workerRun, stray []ssa.CallInstruction) {
	covered := map[ssa.Instruction]bool{}
	seenRoot := map[*ssa.Function]bool{}
	for _, fn := range c.AllFuncs {
		for _, g := range an.GoSites(fn) {
			t := an.Callee(g)
			if t == nil || seenRoot[t] || !core.InModule(t) {
				continue
			}
			seenRoot[t] = true
			for _, e := range an.FlatCalls(t, flatDepth, func(_ ssa.CallInstruction, callee *ssa.Function) bool { return callee == runner }) {
				runs = append(runs, workerRun{t, e})
				covered[e.Instr] = true
			}
		}
	}
	for _, s := range an.CallSitesOf(c, runner) {
		if !covered[s] {
			stray = append(stray, s)
		}
	}
	return
}

// eventsBefore finds the events of the worker satisfying pred that precede ev on every path.
func eventsBefore(worker *ssa.Function, ev an.Event, pred func(ssa.CallInstruction, *ssa.Function) bool) []an.Event {
	var out []an.Event
	for _, e := range an.FlatCalls(worker, flatDepth, pred) {
		if an.Before(e, ev) {
			out = append(out, e)
		}
	}
	return out
}

// Fields of testing.T by role (unexported names may change):
//
//	stack    — the []func() field (cleanups registered on the handle)
//	failed   — the atomic.Bool the exported Failed() loads
//	tdFailed — the atomic.Bool the exported TeardownFailed() loads
//	tearing  — the plain bool field (routes failures while cleanups run)
type tFields struct {
	stack, failed, tdFailed, tearing *types.Var
	// the tearing-down phase marker may be a bool or a small enum: the constant Reset stores (not tearing down) and
	// the constant the teardown stores (tearing down)
	tearingOff, tearingOn string
}

// tearingTest reads a branch condition on the phase marker: (tearing down on the side with this polarity, ok).
func (f tFields) tearingTest(cond ssa.Value, polarity bool) (bool, bool) {
	if fld, _ := an.TerminalField(cond); an.SameField(fld, f.tearing) {
		if _, isBin := an.Strip(cond).(*ssa.BinOp); !isBin {
			return polarity, true
		}
	}
	bo, ok := an.Strip(cond).(*ssa.BinOp)
	if !ok || (bo.Op != token.EQL && bo.Op != token.NEQ) {
		return false, false
	}
	x, y := bo.X, bo.Y
	if _, isK := x.(*ssa.Const); isK {
		x, y = y, x
	}
	k, isK := y.(*ssa.Const)
	if fld, _ := an.TerminalField(x); !isK || k.Value == nil || !an.SameField(fld, f.tearing) {
		return false, false
	}
	eq := (bo.Op == token.EQL) == polarity // on this side the marker equals k
	switch k.Value.String() {
	case f.tearingOn:
		return eq, true
	case f.tearingOff:
		return !eq, true
	}
	return false, false
}

func allSameVar(l []*types.Var) bool {
	for _, v := range l {
		if !an.SameField(v, l[0]) {
			return false
		}
	}
	return true
}

func handleFields(c *core.Ctx) tFields {
	var f tFields
	var tearingCands []*types.Var
	st, _ := c.Named("pkg/f1/testing", "T").Underlying().(*types.Struct)
	if st == nil {
		panic(core.AnchorError{What: "pkg/f1/testing.T"})
	}
	for i := 0; i < st.NumFields(); i++ {
		v := st.Field(i)
		switch t := v.Type().Underlying().(type) {
		case *types.Slice:
			if sig, ok := t.Elem().Underlying().(*types.Signature); ok && sig.Params().Len() == 0 && sig.Results().Len() == 0 {
				if f.stack != nil {
					panic(core.AnchorError{What: "testing.T has more than one []func() field: which is the cleanup stack?"})
				}
				f.stack = v
			}
		case *types.Basic:
			if t.Kind() == types.Bool || (t.Info()&types.IsInteger != 0 && v.Type() != t) {
				// a plain bool, or a small enum type of the package (a phase marker)
				tearingCands = append(tearingCands, v)
			}
		}
	}
	switch len(tearingCands) {
	case 0:
	case 1:
		f.tearing = tearingCands[0]
	default:
		// several such fields: the marker is the one that decides, in the method storing the failure flags, which
		// of the two flags a failure goes to
		var routed []*types.Var
		for _, fn := range c.AllFuncs {
			if core.RelPkg(fn) != "pkg/f1/testing" || fn.Signature.Recv() == nil {
				continue
			}
			flags := map[*types.Var]bool{}
			for _, op := range an.AtomicOps([]*ssa.Function{fn}) {
				if op.Op == "Store" {
					flags[op.Field] = true
				}
			}
			if len(flags) < 2 {
				continue
			}
			for _, b := range fn.Blocks {
				iff, ok := b.Instrs[len(b.Instrs)-1].(*ssa.If)
				if !ok {
					continue
				}
				cond := an.Strip(iff.Cond)
				if bo, isBin := cond.(*ssa.BinOp); isBin {
					cond = an.Strip(bo.X)
				}
				if fld, _ := an.TerminalField(cond); fld != nil {
					for _, cand := range tearingCands {
						if an.SameField(fld, cand) {
							routed = append(routed, cand)
						}
					}
				}
			}
		}
		if len(routed) == 0 || !allSameVar(routed) {
			panic(core.AnchorError{What: "testing.T has more than one plain bool / enum field and the failure-routing method does not single one out: which routes failures during teardown?"})
		}
		f.tearing = routed[0]
	}
	if f.tearing != nil {
		reset := c.MustFn("pkg/f1/testing", "T.Reset")
		var ons []string
		for _, fn := range c.AllFuncs {
			if core.RelPkg(fn) != "pkg/f1/testing" {
				continue
			}
			an.Instrs(fn, func(in ssa.Instruction) {
				st, ok := in.(*ssa.Store)
				if !ok || !an.SameField(an.FieldOfAddr(st.Addr), f.tearing) {
					return
				}
				k, isK := st.Val.(*ssa.Const)
				if !isK || k.Value == nil {
					return
				}
				if fn == reset {
					f.tearingOff = k.Value.String()
				} else if an.Outermost(fn).Signature.Recv() != nil {
					ons = append(ons, k.Value.String())
				}
			})
		}
		if f.tearingOff == "" {
			// Reset does not store the marker (C07.R4 reports that): "off" is what a fresh handle starts with, the zero
			// value of the marker's type
			if b, ok := f.tearing.Type().Underlying().(*types.Basic); ok && b.Kind() == types.Bool {
				f.tearingOff = "false"
			} else {
				f.tearingOff = "0"
			}
		}
		// "on" is the value stored outside Reset that differs from Reset's; a store of Reset's own value elsewhere
		// (the marker switched off again after a cleanup) is not a second meaning of the marker — C06.R5 judges it
		for _, v := range ons {
			if v == f.tearingOff {
				continue
			}
			if f.tearingOn != "" && f.tearingOn != v {
				panic(core.AnchorError{What: "testing.T's tearing-down marker takes more than two values"})
			}
			f.tearingOn = v
		}
		if f.tearingOff == "" || f.tearingOn == "" || f.tearingOff == f.tearingOn {
			panic(core.AnchorError{What: "the two values of testing.T's tearing-down marker (stored by Reset and by the teardown)"})
		}
	}
	loaded := func(method string) *types.Var {
		fn := c.MustFn("pkg/f1/testing", "T."+method)
		for _, op := range an.AtomicOps([]*ssa.Function{fn}) {
			if op.Op == "Load" {
				return op.Field
			}
		}
		panic(core.AnchorError{What: "the atomic flag loaded by testing.T." + method})
	}
	f.failed, f.tdFailed = loaded("Failed"), loaded("TeardownFailed")
	if f.stack == nil || f.tearing == nil {
		panic(core.AnchorError{What: "cleanup stack / tearing-down flag of testing.T"})
	}
	return f
}

// sameHandle: the two values resolve to the same value, or to loads of the same field of the same base.
func sameHandle(a, b an.FV) bool {
	a, b = a.Resolve(nil), b.Resolve(nil)
	if a.V == b.V {
		return true
	}
	fa, ok1 := a.V.(*ssa.FieldAddr)
	fb, ok2 := b.V.(*ssa.FieldAddr)
	if !ok1 || !ok2 || !an.SameField(an.FieldOfAddr(fa), an.FieldOfAddr(fb)) {
		return false
	}
	if (an.FV{V: fa.X, F: a.F}).Resolve(nil).V == (an.FV{V: fb.X, F: b.F}).Resolve(nil).V {
		return true
	}
	// the same field of the same nested struct of the same base (x.group.f)
	if _, nested := fa.X.(*ssa.FieldAddr); nested {
		if _, nestedB := fb.X.(*ssa.FieldAddr); nestedB && sameHandle(an.FV{V: fa.X, F: a.F}, an.FV{V: fb.X, F: b.F}) {
			return true
		}
	}
	// the bases as addresses: a captured variable is the cell it was bound to
	addr := func(v ssa.Value) ssa.Value {
		if fv, ok := v.(*ssa.FreeVar); ok {
			if b := an.FreeVarBinding(fv); b != nil {
				return b
			}
		}
		return v
	}
	return addr(fa.X) == addr(fb.X)
}

// descIn describes a value of a helper frame in the root function's terms: the helper's parameter names are
// replaced by the descriptions of the arguments the helper was called with (outwards, frame by frame).
func descIn(x an.FV) string {
	d := an.D().Of(x.V)
	for f := x.F; f != nil && f.Parent != nil; f = f.Parent {
		args := f.Site.Common().Args
		for i, p := range f.Fn.Params {
			if i >= len(args) {
				break
			}
			d = replaceToken(d, an.ParamDesc(p), an.D().Of(args[i]))
		}
	}
	return d
}

// replaceToken replaces whole occurrences of the token (not followed by an identifier character).
func replaceToken(s, tok, with string) string {
	out := ""
	for {
		i := strings.Index(s, tok)
		if i < 0 {
			return out + s
		}
		end := i + len(tok)
		if end < len(s) {
			ch := s[end]
			if ch == '_' || (ch >= '0' && ch <= '9') || (ch >= 'a' && ch <= 'z') || (ch >= 'A' && ch <= 'Z') {
				out += s[:end]
				s = s[end:]
				continue
			}
		}
		out += s[:i] + with
		s = s[end:]
	}
}

// nestedIn: t (or what it points to) is the named struct type pkg.name, or a named struct type of the same package
// that pkg.name holds by value (fields grouped into a small struct, embedded or not), up to two levels.
func nestedIn(c *core.Ctx, t types.Type, pkgPath, name string) bool {
	if an.IsNamed(t, pkgPath, name) {
		return true
	}
	if p, ok := t.Underlying().(*types.Pointer); ok {
		t = p.Elem()
	}
	n, ok := t.(*types.Named)
	if !ok || n.Obj().Pkg() == nil || n.Obj().Pkg().Path() != pkgPath {
		return false
	}
	rel := strings.TrimPrefix(strings.TrimPrefix(pkgPath, core.ModPath), "/")
	outer := c.Named(rel, name)
	if outer == nil {
		return false
	}
	var holds func(st *types.Struct, depth int) bool
	holds = func(st *types.Struct, depth int) bool {
		for i := 0; st != nil && i < st.NumFields(); i++ {
			ft := st.Field(i).Type()
			if types.Identical(ft, n) {
				return true
			}
			if inner, isStruct := ft.Underlying().(*types.Struct); isStruct && depth < 2 {
				if fn, isNamed := ft.(*types.Named); isNamed && fn.Obj().Pkg() != nil && fn.Obj().Pkg().Path() == pkgPath && holds(inner, depth+1) {
					return true
				}
			}
		}
		return false
	}
	st, _ := outer.Underlying().(*types.Struct)
	return holds(st, 0)
}

// leafFields lists the fields of pkg.name including those of structs it holds by value (two levels).
func leafFields(c *core.Ctx, rel, name string) []*types.Var {
	var out []*types.Var
	outer := c.Named(rel, name)
	if outer == nil {
		return nil
	}
	var walk func(st *types.Struct, depth int)
	walk = func(st *types.Struct, depth int) {
		for i := 0; st != nil && i < st.NumFields(); i++ {
			f := st.Field(i)
			if fn, isNamed := f.Type().(*types.Named); isNamed && fn.Obj().Pkg() != nil && fn.Obj().Pkg() == outer.Obj().Pkg() && depth < 2 {
				if inner, isStruct := fn.Underlying().(*types.Struct); isStruct {
					walk(inner, depth+1)
					continue
				}
			}
			out = append(out, f)
		}
	}
	st, _ := outer.Underlying().(*types.Struct)
	walk(st, 0)
	return out
}
