package rules

import (
	"go/ast"
	"go/constant"
	"go/token"
	"go/types"
	"sort"
	"strings"
	"text/template/parse"

	"golang.org/x/tools/go/ssa"

	"f1verif/internal/an"
	"f1verif/internal/core"
)

func init() { register("C19", c19) }

const viewsRel = "internal/run/views"

type viewTemplate struct {
	field string     // field of struct `templates`
	text  string     // raw template constant
	data  types.Type // type of the data it is executed with
	view  string     // Views field
}

// collectTemplates recovers, by provenance, template constant → templates field → Views field → data type.
func collectTemplates(c *core.Ctx, r *core.Report) []viewTemplate {
	pt := c.MustFn(viewsRel, "parseTemplates")
	byField := map[string]string{}
	for _, ret := range an.Returns(pt) {
		lit := an.StructLiteralOf(ret.Results[0])
		if lit == nil {
			continue
		}
		for f, v := range an.LiteralFields(lit) {
			// template.Must(T.Parse(replace(CONST, table))), possibly built by a helper that is given the text
			isReplacer := func(f *ssa.Function) bool {
				sig := f.Signature
				if core.RelPkg(f) != viewsRel || sig.Params().Len() != 2 || sig.Results().Len() != 1 {
					return false
				}
				_, isMap := sig.Params().At(1).Type().Underlying().(*types.Map)
				return isMap && types.Identical(sig.Params().At(0).Type(), types.Typ[types.String]) && types.Identical(sig.Results().At(0).Type(), types.Typ[types.String])
			}
			cur := an.RootFV(pt, v)
			var text *ssa.Const
			for i := 0; i < 10; i++ {
				cur = cur.Resolve(isReplacer)
				if ex, isEx := cur.V.(*ssa.Extract); isEx {
					cur = an.FV{V: ex.Tuple, F: cur.F}
				}
				call, ok := cur.V.(*ssa.Call)
				if !ok {
					break
				}
				t := an.Callee(call)
				if t == nil {
					break
				}
				switch {
				case t.Name() == "Must":
					cur = an.FV{V: call.Call.Args[0], F: cur.F}
					continue
				case t.Name() == "Parse":
					cur = an.FV{V: call.Call.Args[1], F: cur.F}
					continue
				case isReplacer(t):
					text, _ = (an.FV{V: call.Call.Args[0], F: cur.F}).Resolve(nil).V.(*ssa.Const)
				}
				break
			}
			if text == nil || text.Value == nil {
				r.Undecided("parseTemplates#"+f, an.Pos(c, ret), "cannot recover the text of template %s", f)
				continue
			}
			byField[f] = constant.StringVal(text.Value)
		}
	}
	// Views field -> templates field (views.New)
	viewOf := map[string]string{}
	nw := delegateTarget(c.MustFn(viewsRel, "New"))
	for _, ret := range an.Returns(nw) {
		lit := an.StructLiteralOf(ret.Results[0])
		if lit == nil {
			continue
		}
		for vf, v := range an.LiteralFields(lit) {
			// the templates of this view, whatever the View keeps them in: the template-typed fields of its literal,
			// or the template-typed arguments of the constructor that builds it
			isTemplate := func(t types.Type) bool {
				p, ok := t.(*types.Pointer)
				return ok && an.IsNamed(p.Elem(), "text/template", "Template")
			}
			var tmpls []ssa.Value
			if call, isCall := an.Strip(v).(*ssa.Call); isCall && an.Callee(call) != nil && core.InModule(an.Callee(call)) {
				for _, a := range call.Call.Args {
					if isTemplate(a.Type()) {
						tmpls = append(tmpls, a)
					}
				}
			} else {
				inner := an.StructLiteralOf(v)
				if inner == nil {
					if a, ok := v.(*ssa.Alloc); ok {
						inner = a
					}
				}
				if inner == nil {
					continue
				}
				lf := an.LiteralFields(inner)
				var names []string
				for n := range lf {
					names = append(names, n)
				}
				sort.Strings(names)
				for _, n := range names {
					if isTemplate(lf[n].Type()) {
						tmpls = append(tmpls, lf[n])
					}
				}
			}
			if len(tmpls) < 2 {
				r.Violation("views.New#"+vf, an.Pos(c, ret), "view %s does not have both a tty and a notty template", vf)
				continue
			}
			ft, _ := an.TerminalField(tmpls[0])
			same := ft != nil
			parsed := true
			for _, t := range tmpls {
				f2, _ := an.TerminalField(t)
				if f2 == nil || ft == nil || f2.Name() != ft.Name() {
					same = false
				}
				// taken from a parsed template set (which rendering goes where — colours on a terminal, or never — is not
				// part of what the views state)
				if !strings.Contains(an.D().Of(t), "parseTemplates(") {
					parsed = false
				}
			}
			if !same {
				r.Violation("views.New#"+vf, an.Pos(c, ret), "view %s pairs template %s with a different template: the two output forms state different things", vf, an.D().Of(tmpls[0]))
				continue
			}
			r.Check(parsed, "views.New#"+vf+"-colours", an.Pos(c, ret), "every rendering of the view is taken from a parsed template set", "a template of "+vf+" does not come from parseTemplates")
			viewOf[vf] = ft.Name()
		}
	}
	// Views methods: data type per Views field
	var out []viewTemplate
	for _, fn := range c.AllFuncs {
		if core.RelPkg(fn) != viewsRel || fn.Signature.Recv() == nil || !an.IsNamed(fn.Signature.Recv().Type(), core.ModPath+"/"+viewsRel, "Views") || fn.Parent() != nil {
			continue
		}
		for _, ret := range an.Returns(fn) {
			lit := an.StructLiteralOf(ret.Results[0])
			var litF *an.Frame
			if lit == nil {
				// the context is built by a (generic) helper that is handed the view and the data
				rv := an.RootFV(fn, ret.Results[0]).Resolve(nil)
				if al, isAl := rv.V.(*ssa.Alloc); isAl && rv.F != nil && rv.F.Parent != nil {
					lit, litF = al, rv.F
				}
			}
			if lit == nil {
				continue
			}
			lf := an.LiteralFields(lit)
			vw, dt := lf["view"], lf["data"]
			if vw == nil || dt == nil {
				continue
			}
			if litF != nil {
				vw = an.FV{V: vw, F: litF}.Resolve(nil).V
				dt = an.FV{V: dt, F: litF}.Resolve(nil).V
			}
			vf, _ := an.TerminalField(vw)
			if vf == nil {
				continue
			}
			if _, isParam := an.Strip(dt).(*ssa.Parameter); !isParam {
				r.Violation("Views."+fn.Name()+"#data", an.Pos(c, ret), "the view context's data is %s, not the data handed to %s", an.D().Of(dt), fn.Name())
			}
			tf := viewOf[vf.Name()]
			text, ok := byField[tf]
			if !ok {
				r.Undecided("Views."+fn.Name(), an.Pos(c, ret), "no template text for view field %s", vf.Name())
				continue
			}
			out = append(out, viewTemplate{field: tf, text: text, data: dt.Type(), view: vf.Name()})
		}
	}
	sort.Slice(out, func(i, j int) bool { return out[i].field < out[j].field })
	return out
}

// viewsSyntax pulls the FuncMap signatures and the two replacement tables from the views package syntax.
func viewsSyntax(c *core.Ctx) (funcs map[string]*types.Signature, funcLits map[string]*ast.FuncLit, repl []map[string]string) {
	p := c.ByRel[viewsRel]
	if p == nil {
		panic(core.AnchorError{What: viewsRel})
	}
	funcs = map[string]*types.Signature{}
	funcLits = map[string]*ast.FuncLit{}
	for _, f := range p.Syntax {
		ast.Inspect(f, func(n ast.Node) bool {
			cl, ok := n.(*ast.CompositeLit)
			if !ok {
				return true
			}
			t := p.TypesInfo.TypeOf(cl)
			if t == nil {
				return true
			}
			if an.IsNamed(t, "text/template", "FuncMap") {
				for _, e := range cl.Elts {
					kv, ok := e.(*ast.KeyValueExpr)
					if !ok {
						continue
					}
					k := p.TypesInfo.Types[kv.Key].Value
					if k == nil {
						continue
					}
					if sig, ok := p.TypesInfo.TypeOf(kv.Value).(*types.Signature); ok {
						funcs[constant.StringVal(k)] = sig
						if fl, ok := kv.Value.(*ast.FuncLit); ok {
							funcLits[constant.StringVal(k)] = fl
						}
						// a named function of the package: its declaration is checked like a literal
						if id, ok := kv.Value.(*ast.Ident); ok {
							if fobj, isFn := p.TypesInfo.Uses[id].(*types.Func); isFn {
								for _, sf := range p.Syntax {
									for _, d := range sf.Decls {
										if fd, isFD := d.(*ast.FuncDecl); isFD && p.TypesInfo.Defs[fd.Name] == types.Object(fobj) && fd.Body != nil {
											funcLits[constant.StringVal(k)] = &ast.FuncLit{Type: fd.Type, Body: fd.Body}
										}
									}
								}
							}
						}
					}
				}
				return true
			}
			if m, ok := t.Underlying().(*types.Map); ok && types.Identical(m.Key(), types.Typ[types.String]) && types.Identical(m.Elem(), types.Typ[types.String]) {
				tbl := map[string]string{}
				for _, e := range cl.Elts {
					kv, ok := e.(*ast.KeyValueExpr)
					if !ok {
						continue
					}
					k, v := p.TypesInfo.Types[kv.Key].Value, p.TypesInfo.Types[kv.Value].Value
					if k != nil && v != nil {
						tbl[constant.StringVal(k)] = constant.StringVal(v)
					}
				}
				if len(tbl) > 0 {
					repl = append(repl, tbl)
				}
			}
			return true
		})
	}
	return
}

func applyRepl(text string, tbl map[string]string) string {
	for k, v := range tbl {
		text = strings.ReplaceAll(text, k, v)
	}
	return text
}

func c19(c *core.Ctx, r *core.Report) {
	r.Explanation = "Decides 'rendering never fails' and 'the output states the result's numbers' structurally: (R1) every template, in both the coloured and the plain variant, is parsed and type-checked against the Go type of the data it is executed with — every field/method reference resolves, every function is in the FuncMap with matching arity and assignable argument types, no FuncMap function can return an error or divide integers; text/template execution errors are type- or function-driven, so this covers every value of the data; " +
		"(R2) the count keys of the summary and progress view data are fed from the matching paths of the result's stored snapshot; (R3) in the result template every percentage is `percent X .Iterations` of the count X shown on that line, rates use the same X, and the banner tests .Failed; " +
		"(R4) structured logs: each slog key of iteration_stats is bound to the same-named parameter (started falls back to the sum only when 0), and the Log methods pass the fields those parameters mean."
	r.NotDecided = []string{"colour codes and exact layout (golden tests)", "correctness of time.Duration/float formatting"}

	var tmpls []viewTemplate
	var funcs map[string]*types.Signature
	var trees = map[string]*parse.Tree{}
	rule(r, "C19.R1", "all templates × {tty, notty} parse and type-check against their data types; FuncMap functions are total", func() {
		tmpls = collectTemplates(c, r)
		var lits map[string]*ast.FuncLit
		var repl []map[string]string
		funcs, lits, repl = viewsSyntax(c)
		if !r.Floor("templates", len(tmpls), 8) || !r.Floor("FuncMap functions", len(funcs), 4) || !r.Floor("replacement tables", len(repl), 2) {
			return
		}
		for _, t := range tmpls {
			for vi, tbl := range repl {
				text := applyRepl(t.text, tbl)
				key := sprintf("template:%s/%d", t.field, vi)
				tree, err := an.ParseTemplate(t.field, text, funcs)
				if err != nil {
					r.Violation(key, "-", "template %s does not parse: %v (views.New panics at start-up)", t.field, err)
					continue
				}
				if vi == 0 {
					trees[t.field] = tree
				}
				tc := &an.TemplateChecker{Funcs: funcs}
				tc.Check(tree, t.data)
				if len(tc.Issues) == 0 {
					r.OK(key, "-", "%d field references and %d calls type-check against %s", tc.Fields, tc.Calls, types.TypeString(t.data, func(p *types.Package) string { return p.Name() }))
					continue
				}
				for i, is := range tc.Issues {
					r.Violation(sprintf("%s#%d", key, i+1), "-", "template %s, %s: %s", t.field, is.Node, is.Msg)
				}
			}
		}
		// totality of the helper functions
		p := c.ByRel[viewsRel]
		for name, fl := range lits {
			sig := funcs[name]
			if sig.Results().Len() != 1 {
				r.Violation("funcmap:"+name, c.Pos(fl.Pos()), "template function %s returns %d values: a second (error) result makes rendering fail", name, sig.Results().Len())
				continue
			}
			bad := false
			ast.Inspect(fl.Body, func(n ast.Node) bool {
				switch x := n.(type) {
				case *ast.BinaryExpr:
					if x.Op == token.QUO || x.Op == token.REM {
						if t := p.TypesInfo.TypeOf(x); t != nil && isIntType(t) {
							if v := p.TypesInfo.Types[x.Y].Value; v == nil || constant.Sign(v) == 0 {
								bad = true
								r.Violation("funcmap:"+name, c.Pos(x.Pos()), "template function %s divides integers by a non-constant: with zero iterations or zero elapsed time rendering panics", name)
							}
						}
					}
				case *ast.CallExpr:
					if id, ok := x.Fun.(*ast.Ident); ok && id.Name == "panic" {
						bad = true
						r.Violation("funcmap:"+name, c.Pos(x.Pos()), "template function %s can panic", name)
					}
					// library calls that panic on a negative count / length
					nonNeg := func(e ast.Expr) bool {
						if v := p.TypesInfo.Types[e].Value; v != nil {
							return constant.Sign(v) >= 0
						}
						if call, ok := e.(*ast.CallExpr); ok {
							if id, ok := call.Fun.(*ast.Ident); ok && (id.Name == "len" || id.Name == "cap") {
								return true
							}
							if id, ok := call.Fun.(*ast.Ident); ok && id.Name == "max" {
								for _, a := range call.Args {
									if v := p.TypesInfo.Types[a].Value; v != nil && constant.Sign(v) >= 0 {
										return true
									}
								}
							}
						}
						if t := p.TypesInfo.TypeOf(e); t != nil {
							if b, ok := t.Underlying().(*types.Basic); ok && b.Info()&types.IsUnsigned != 0 {
								return true
							}
						}
						return false
					}
					if sel, ok := x.Fun.(*ast.SelectorExpr); ok && sel.Sel.Name == "Repeat" && len(x.Args) == 2 {
						if obj, ok := p.TypesInfo.Uses[sel.Sel].(*types.Func); ok && obj.Pkg() != nil && (obj.Pkg().Path() == "strings" || obj.Pkg().Path() == "bytes") && !nonNeg(x.Args[1]) {
							bad = true
							r.Violation("funcmap:"+name, c.Pos(x.Pos()), "template function %s calls %s.Repeat with a count that is not shown non-negative (%s): for large enough values the count is negative and rendering panics", name, obj.Pkg().Name(), types.ExprString(x.Args[1]))
						}
					}
					if id, ok := x.Fun.(*ast.Ident); ok && id.Name == "make" && len(x.Args) >= 2 {
						for _, a := range x.Args[1:] {
							if !nonNeg(a) {
								bad = true
								r.Violation("funcmap:"+name, c.Pos(x.Pos()), "template function %s makes a slice whose length %s is not shown non-negative: rendering can panic", name, types.ExprString(a))
							}
						}
					}
				case *ast.IndexExpr, *ast.SliceExpr:
					bad = true
					r.Violation("funcmap:"+name, c.Pos(x.Pos()), "template function %s indexes a value: it can panic", name)
				}
				return true
			})
			if !bad {
				r.OK("funcmap:"+name, c.Pos(fl.Pos()), "single result, no integer division, indexing or panic")
			}
		}
	})

	rule(r, "C19.R2", "view data provenance: every count/statistic key of Result.Summary and Result.Progress is fed from the matching path of the result's stored snapshot; Failed/Error from the same receiver", func() {
		want := map[string]string{
			"SuccessfulIterationCount":              "$recv.snapshot.SuccessfulIterationDurations.Count",
			"FailedIterationCount":                  "$recv.snapshot.FailedIterationDurations.Count",
			"DroppedIterationCount":                 "$recv.snapshot.DroppedIterationCount",
			"SuccessfulIterationDurations":          "$recv.snapshot.SuccessfulIterationDurations",
			"FailedIterationDurations":              "$recv.snapshot.FailedIterationDurations",
			"SuccessfulIterationDurationsForPeriod": "$recv.snapshot.SuccessfulIterationDurationsForPeriod",
			"Period":                                "$recv.snapshot.Period",
			"Iterations":                            "(*internal/progress.Snapshot).Iterations($recv.snapshot)",
			"IterationsStarted":                     "(*internal/progress.Snapshot).IterationsStarted($recv.snapshot)",
			"Failed":                                "(*internal/run.Result).Failed($recv)",
			"Error":                                 "(*internal/run.Result).Error($recv)",
			"Duration":                              "(*internal/run.Result).duration($recv)",
			"LogFilePath":                           "$recv.LogFilePath",
		}
		n := 0
		for _, name := range []string{"Result.Summary", "Result.Progress"} {
			fn := c.MustFn("internal/run", name)
			for _, call := range an.AllCalls(fn) {
				t := an.Callee(call)
				if t == nil || t.Signature.Recv() == nil || !an.IsNamed(t.Signature.Recv().Type(), core.ModPath+"/"+viewsRel, "Views") {
					continue
				}
				// the view data: a literal here, or one built by a helper from this function's values
				dataFV := an.RootFV(fn, call.Common().Args[1]).Resolve(nil)
				lit, _ := dataFV.V.(*ssa.Alloc)
				if lit == nil {
					lit = an.StructLiteralOf(call.Common().Args[1])
					dataFV = an.RootFV(fn, lit)
				}
				if lit == nil {
					r.Undecided(name+"#literal", an.Pos(c, call), "view data is not a literal")
					continue
				}
				lf := an.LiteralFields(lit)
				// fields set afterwards, in this function, on the local the helper's result was put in
				// (`data := newData(…); data.Error = r.Error()`)
				later := map[string]ssa.Value{}
				if ld, isLd := call.Common().Args[1].(*ssa.UnOp); isLd {
					if local, isAl := ld.X.(*ssa.Alloc); isAl && local != lit {
						for name2, vals := range an.LiteralFieldStores(local) {
							if len(vals) == 1 {
								later[name2] = vals[0]
							}
						}
					}
				}
				st := lit.Type().(*types.Pointer).Elem().Underlying().(*types.Struct)
				for i := 0; i < st.NumFields(); i++ {
					k := st.Field(i).Name()
					v, set := lf[k]
					vF := dataFV.F
					if lv, isLater := later[k]; isLater {
						v, set, vF = lv, true, nil
					}
					key := name + "#" + k
					if !set {
						r.Violation(key, an.Pos(c, call), "%s leaves %s unset: the output states 0 regardless of the result", name, k)
						continue
					}
					n++
					d := descIn(an.FV{V: v, F: vF})
					w, known := want[k]
					if !known {
						r.Note(key, an.Pos(c, call), "new key %s ← %s (no table entry; information)", k, d)
						continue
					}
					r.Check(d == w, key, an.Pos(c, call), k+" ← "+d, k+" is fed from "+d+", expected "+w+": the rendered number is not the result's")
				}
			}
		}
		r.Floor("view data keys", n, 15)
		// Snapshot.Iterations / IterationsStarted
		it := c.MustFn("internal/progress", "Snapshot.Iterations")
		for _, ret := range an.Returns(it) {
			d := an.D().Of(ret.Results[0])
			okk := strings.Contains(d, "FailedIterationDurations.Count") && strings.Contains(d, "SuccessfulIterationDurations.Count") && strings.Contains(d, "DroppedIterationCount") && !strings.ContainsAny(d, "*/-")
			r.Check(okk, "Snapshot.Iterations", an.Pos(c, ret), "all iterations = failed + successful + dropped", "Snapshot.Iterations is "+d)
		}
		is := c.MustFn("internal/progress", "Snapshot.IterationsStarted")
		for _, ret := range an.Returns(is) {
			d := an.D().Of(ret.Results[0])
			okk := strings.Contains(d, "FailedIterationDurations.Count") && strings.Contains(d, "SuccessfulIterationDurations.Count") && !strings.Contains(d, "Dropped") && !strings.ContainsAny(d, "*/-")
			r.Check(okk, "Snapshot.IterationsStarted", an.Pos(c, ret), "started = successful + failed", "Snapshot.IterationsStarted is "+d)
		}
	})

	rule(r, "C19.R3", "result template: inside each `if .XCount` block every percent is `percent .XCount .Iterations` and every rate is `rate .Duration .XCount`; the banner is chosen by `.Failed`", func() {
		tree := trees["result"]
		if tree == nil {
			r.Undecided("template:result", "-", "result template not parsed (R1)")
			return
		}
		nPct, banner := 0, false
		var walk func(l *parse.ListNode, guard string)
		walk = func(l *parse.ListNode, guard string) {
			if l == nil {
				return
			}
			for _, n := range l.Nodes {
				switch x := n.(type) {
				case *parse.IfNode:
					g := ""
					if len(x.Pipe.Cmds) == 1 && len(x.Pipe.Cmds[0].Args) == 1 {
						if f, ok := x.Pipe.Cmds[0].Args[0].(*parse.FieldNode); ok {
							g = strings.Join(f.Ident, ".")
						}
					}
					txt := x.List.String()
					if strings.Contains(txt, "Load Test Failed") || (x.ElseList != nil && strings.Contains(x.ElseList.String(), "Load Test Failed")) {
						banner = true
						okB := g == "Failed" && strings.Contains(txt, "Load Test Failed") && x.ElseList != nil && strings.Contains(x.ElseList.String(), "Load Test Passed")
						r.Check(okB, "template:result#banner", "-", "`if .Failed` → Failed banner, else Passed banner", "the pass/fail banner is chosen by `."+g+"` (or its branches are swapped): it can contradict the verdict")
					}
					walk(x.List, g)
					walk(x.ElseList, guard)
				case *parse.ActionNode:
					for _, cmd := range x.Pipe.Cmds {
						id, ok := cmd.Args[0].(*parse.IdentifierNode)
						if !ok {
							continue
						}
						argName := func(i int) string {
							if i < len(cmd.Args) {
								if f, ok := cmd.Args[i].(*parse.FieldNode); ok {
									return strings.Join(f.Ident, ".")
								}
							}
							return "?"
						}
						switch id.Ident {
						case "percent":
							nPct++
							a, b := argName(1), argName(2)
							key := sprintf("template:result#percent%d", nPct)
							okP := b == "Iterations" && guard != "" && a == guard
							r.Check(okP, key, "-", "percent ."+a+" .Iterations inside `if ."+guard+"`", "percentage computed as percent ."+a+" ."+b+" inside `if ."+guard+"`: it is not that count's share of all iterations")
						case "rate":
							a, b := argName(1), argName(2)
							if guard != "" && strings.HasSuffix(guard, "Count") {
								r.Check(a == "Duration" && b == guard, "template:result#rate-"+guard, "-", "rate .Duration ."+b, "rate printed for ."+guard+" is computed from ."+a+" and ."+b)
							}
						}
					}
					// the count printed on the line
				}
			}
		}
		walk(tree.Root, "")
		r.Check(banner, "template:result#banner-present", "-", "banner present", "the result template has no pass/fail banner")
		r.Floor("percent calls in the result template", nPct, 3)
		// each guarded block prints its own count
		for _, cnt := range []string{"SuccessfulIterationCount", "FailedIterationCount", "DroppedIterationCount"} {
			found := false
			var find func(l *parse.ListNode)
			find = func(l *parse.ListNode) {
				if l == nil {
					return
				}
				for _, n := range l.Nodes {
					if x, ok := n.(*parse.IfNode); ok {
						if strings.TrimSpace(x.Pipe.String()) == "."+cnt {
							for _, m := range x.List.Nodes {
								if a, ok := m.(*parse.ActionNode); ok && strings.TrimSpace(a.Pipe.String()) == "."+cnt {
									found = true
								}
							}
						}
						find(x.List)
						find(x.ElseList)
					}
				}
			}
			find(tree.Root)
			r.Check(found, "template:result#shows-"+cnt, "-", "the `if ."+cnt+"` block prints ."+cnt, "the block guarded by ."+cnt+" does not print that count")
		}
	})

	rule(r, "C19.R4", "structured logs: slog key k of iteration_stats is bound to parameter k; `started` falls back to successful+failed+dropped only when it is 0; ResultData.Log / ProgressData.Log pass the fields those parameters mean", func() {
		g := c.MustFn("internal/log", "IterationStatsGroup")
		n := 0
		// the meaning of each parameter is the slog key it is logged under, whatever the parameter is called
		roleOf := map[*ssa.Parameter]string{}
		var startedCall ssa.CallInstruction
		for _, call := range an.AllCalls(g) {
			t := an.Callee(call)
			if t == nil || t.Pkg == nil || t.Pkg.Pkg.Path() != "log/slog" || len(call.Common().Args) != 2 {
				continue
			}
			k, ok := call.Common().Args[0].(*ssa.Const)
			if !ok || k.Value == nil || k.Value.Kind() != constant.String {
				continue
			}
			key := constant.StringVal(k.Value)
			if key == "iteration_stats" {
				continue
			}
			n++
			if key == "started" {
				startedCall = call
				continue
			}
			v := call.Common().Args[1]
			prm, isParam := v.(*ssa.Parameter)
			if isParam && prm.Parent() == g && roleOf[prm] == "" {
				roleOf[prm] = key
				r.OK("IterationStatsGroup#"+key, an.Pos(c, call), "%s ← parameter #%d", key, an.ParamIndex(prm))
			} else {
				r.Violation("IterationStatsGroup#"+key, an.Pos(c, call), "slog key %s is bound to %s, not to a parameter of its own", key, an.D().Of(v))
			}
		}
		if startedCall != nil {
			call := startedCall
			v := call.Common().Args[1]
			d := an.D().Of(v)
			// phi(started | sum) with the sum edge guarded by started == 0
			var sp *ssa.Parameter
			okS := false
			if phi, isPhi := v.(*ssa.Phi); isPhi {
				okS = true
				for _, e := range phi.Edges {
					if prm, isParam := e.(*ssa.Parameter); isParam && roleOf[prm] == "" {
						sp = prm
					}
				}
				for i, e := range phi.Edges {
					if e == ssa.Value(sp) && sp != nil {
						continue
					}
					// the sum of the three outcome counts, each once
					leaves := map[string]int{}
					pure := true
					var walk func(x ssa.Value)
					walk = func(x ssa.Value) {
						if bo, isBin := x.(*ssa.BinOp); isBin && bo.Op == token.ADD {
							walk(bo.X)
							walk(bo.Y)
							return
						}
						if prm, isParam := x.(*ssa.Parameter); isParam && roleOf[prm] != "" {
							leaves[roleOf[prm]]++
							return
						}
						pure = false
					}
					walk(e)
					sum := pure && len(leaves) == 3 && leaves["successful"] == 1 && leaves["failed"] == 1 && leaves["dropped"] == 1
					guard := false
					pred := phi.Block().Preds[i]
					for _, gg := range an.GuardsOf(pred) {
						if bo, isBin := gg.Cond.(*ssa.BinOp); isBin && bo.Op == token.EQL && sp != nil && bo.X == ssa.Value(sp) && gg.Polarity {
							if k, isK := constInt(bo.Y); isK && k == 0 {
								guard = true
							}
						}
					}
					if !sum || !guard {
						okS = false
					}
				}
			} else if prm, isParam := v.(*ssa.Parameter); isParam && prm.Parent() == g && roleOf[prm] == "" {
				okS, sp = true, prm
			}
			if okS && sp != nil {
				roleOf[sp] = "started"
			}
			r.Check(okS && sp != nil, "IterationStatsGroup#started", an.Pos(c, call), "started ← parameter, or the sum of outcomes only when 0", "the logged `started` is "+d+": it is replaced by something other than `sum when started == 0`, so the structured summary can state a different number than the result")
		}
		r.Floor("slog attributes of iteration_stats", n, 5)
		for _, name := range []string{"ResultData.Log", "ProgressData.Log"} {
			fn := c.MustFn(viewsRel, name)
			for _, call := range an.AllCalls(fn) {
				if an.Callee(call) != g {
					continue
				}
				for i, p := range g.Params {
					d := an.D().Of(call.Common().Args[i])
					role := roleOf[p]
					if role == "" {
						role = p.Name()
					}
					key := name + "#" + role
					switch {
					case role == "period":
						r.Check(d == "$recv.Duration" || d == "$recv.Period", key, an.Pos(c, call), "period ← "+d, "period is fed from "+d)
					case role == "started" && name == "ProgressData.Log":
						r.Check(d == "0", key, an.Pos(c, call), "progress lines let started default to the sum", "progress started is "+d)
					default:
						r.Check(strings.HasPrefix(d, "$recv.") && strings.Contains(strings.ToLower(d), role), key, an.Pos(c, call), role+" ← "+d, "the `"+role+"` parameter of the iteration_stats group receives "+d+": the structured log swaps counts")
					}
				}
			}
		}
	})
}
