package rules

import (
	"go/token"
	"go/types"
	"strings"

	"golang.org/x/tools/go/ssa"

	"f1verif/internal/an"
	"f1verif/internal/core"
)

func init() { register("C04", c04) }

func isWG(f *ssa.Function, name string) bool {
	if f != nil && f.Pkg != nil && f.Pkg.Pkg.Path() == "sync" && f.Signature.Recv() != nil &&
		an.IsNamed(f.Signature.Recv().Type(), "sync", "WaitGroup") && f.Name() == name {
		return true
	}
	// a method of a wrapper type of the module forwarding, in one block, to that WaitGroup method on a field of its
	// own receiver (`func (b *startBarrier) arrive() { b.wg.Done() }`)
	if f == nil || !core.InModule(f) || f.Signature.Recv() == nil || len(f.Blocks) != 1 || len(f.Params) == 0 {
		return false
	}
	n, hit := 0, false
	for _, call := range an.AllCalls(f) {
		n++
		t := an.Callee(call)
		if t == nil || t.Pkg == nil || t.Pkg.Pkg.Path() != "sync" || t.Name() != name || t.Signature.Recv() == nil || !an.IsNamed(t.Signature.Recv().Type(), "sync", "WaitGroup") {
			continue
		}
		if fa, ok := call.Common().Args[0].(*ssa.FieldAddr); ok && an.Strip(fa.X) == ssa.Value(f.Params[0]) {
			hit = true
		}
	}
	return hit && n == 1
}

// isBarrierType: a sync.WaitGroup, or a struct of the module holding one by value.
func isBarrierType(t types.Type) bool {
	if an.IsNamed(t, "sync", "WaitGroup") {
		return true
	}
	if p, ok := t.Underlying().(*types.Pointer); ok {
		t = p.Elem()
	}
	st, ok := t.Underlying().(*types.Struct)
	if !ok {
		return false
	}
	for i := 0; i < st.NumFields(); i++ {
		if an.IsNamed(st.Field(i).Type(), "sync", "WaitGroup") {
			return true
		}
	}
	return false
}

// reachesRunner: does fn (transitively, without crossing go statements) call the iteration runner?
func reachesRunner(fn, runner *ssa.Function) bool {
	if fn == runner {
		return true
	}
	return an.ReachesCall(fn, 6, func(g *ssa.Function) bool { return g == runner })
}

func c04(c *core.Ctx, r *core.Report) {
	r.Explanation = "Decides the structure that bounds concurrency and separates handles: (R1) iterations run only inside worker goroutines started once per element of a pool's state slice; each worker calls the runner synchronously with the very state it was started with; " +
		"(R2) a pool's state slice is freshly made with length numWorkers, every element a new state with a new T, and numWorkers is the configured concurrency at every creation site; " +
		"(R3) start barrier: all workers have signalled before work is offered (rate pools) / before any worker starts (users pool); (R4) wake-up discipline so that idle workers are usable when work is pending. " +
		"Together R1+R2 bound in-flight iterations by numWorkers and make handles pairwise distinct for every schedule; that all workers actually overlap is scheduling and is not decided."
	r.NotDecided = []string{"that all workers do overlap in time (scheduling)", "file-trigger stage boundaries (outside the property's listed triggers)"}
	runner, _, _ := iterationRunner(c)

	workers := map[*ssa.Function]bool{}
	workerState := map[*ssa.Function]*ssa.Parameter{}
	rule(r, "C04.R1", "the iteration runner is called only synchronously inside worker functions, with the worker's own state parameter; workers are started only by `go` statements inside a loop over the pool's state slice, one per element; no other go statement reaches the runner", func() {
		runs, stray := workerRuns(c, runner)
		for _, st := range stray {
			if _, isGo := st.(*ssa.Go); isGo {
				r.Violation(core.FuncName(st.Parent())+"#run-call", an.Pos(c, st), "the iteration runner is started with `go`: more iterations than workers can be in flight")
				continue
			}
			if _, isDefer := st.(*ssa.Defer); isDefer {
				r.Violation(core.FuncName(st.Parent())+"#run-call", an.Pos(c, st), "the iteration runner is deferred")
				continue
			}
			r.Violation(core.FuncName(st.Parent())+"#run-call", an.Pos(c, st), "the iteration runner is called from %s, outside the pool worker goroutines", core.FuncName(st.Parent()))
		}
		if !r.Floor("runner calls in worker goroutines", len(runs), 2) {
			return
		}
		for _, wr := range runs {
			fn := wr.Worker
			key := core.FuncName(fn) + "#run-call"
			state := an.Strip(wr.Run.Translate(wr.Run.Call().Common().Args[1]))
			p, isParam := state.(*ssa.Parameter)
			if !isParam || p.Parent() != fn {
				r.Violation(key, an.Pos(c, wr.Run.Instr), "the state handed to the runner is %s, not the state parameter the worker goroutine was started with: two workers can run with the same test handle", an.D().Of(state))
				continue
			}
			workers[fn] = true
			workerState[fn] = p
			r.OK(key, an.Pos(c, wr.Run.Instr), "synchronous call (through %d helper levels) with the worker's own parameter %s", depthOf(wr.Run), p.Name())
		}
		// go statements
		nGo := 0
		for _, fn := range c.AllFuncs {
			for _, g := range an.GoSites(fn) {
				t := an.Callee(g)
				if t == nil {
					if core.RelPkg(fn) != "" {
						// dynamic go: must not be a RunFn/worker
						if n := an.DynCallType(g); n != nil && an.IsNamed(n, testingPkg, "RunFn") {
							r.Violation(core.FuncName(fn)+"#go-runfn", an.Pos(c, g), "scenario function started with go")
						}
					}
					continue
				}
				if !reachesRunner(t, runner) {
					continue
				}
				nGo++
				key := core.FuncName(fn) + "#go→" + core.FuncName(t)
				if !workers[t] {
					r.Violation(key, an.Pos(c, g), "goroutine %s reaches the iteration runner but is not a pool worker (it does not call the runner with its own state parameter)", core.FuncName(t))
					continue
				}
				// which argument is the state? the one bound to the parameter the worker passes to the runner
				stateParam := workerState[t]
				idx := -1
				for i, p := range t.Params {
					if p == stateParam {
						idx = i
					}
				}
				if idx < 0 || idx >= len(g.Common().Args) {
					r.Undecided(key, an.Pos(c, g), "cannot bind the worker's state parameter at the go statement")
					continue
				}
				arg := an.Strip(g.Common().Args[idx])
				ia, ok := arg.(*ssa.IndexAddr)
				loop, _ := an.NaturalLoopOf(g.Block())
				if !ok || loop == nil {
					r.Violation(key, an.Pos(c, g), "worker is not started from a loop over the pool's state slice (state argument %s)", an.D().Of(arg))
					continue
				}
				fld, owner := an.TerminalField(ia.X)
				if fld == nil || !strings.Contains(types.TypeString(fld.Type(), nil), "iterationState") {
					r.Violation(key, an.Pos(c, g), "worker state comes from %s, not from the pool's state slice", an.D().Of(ia.X))
					continue
				}
				// induction variable: phi incremented by one per iteration
				okInd := false
				if bo, isBin := ia.Index.(*ssa.BinOp); isBin && bo.Op == token.ADD {
					if phi, isPhi := bo.X.(*ssa.Phi); isPhi {
						if k, isK := bo.Y.(*ssa.Const); isK && k.Int64() == 1 {
							for _, e := range phi.Edges {
								if e == ssa.Value(bo) {
									okInd = true
								}
							}
						}
					}
				}
				if phi, isPhi := ia.Index.(*ssa.Phi); isPhi {
					for _, e := range phi.Edges {
						if bo, isBin := e.(*ssa.BinOp); isBin && bo.Op == token.ADD && bo.X == ssa.Value(phi) {
							if k, isK := bo.Y.(*ssa.Const); isK && k.Int64() == 1 {
								okInd = true
							}
						}
					}
				}
				if !okInd {
					r.Violation(key, an.Pos(c, g), "the index selecting the worker's state (%s) is not a loop counter advancing by one: two workers can be given the same state", an.D().Of(ia.Index))
					continue
				}
				if an.OnCycleAvoiding(g, loopHeaderOf(g)) {
					r.Violation(key, an.Pos(c, g), "more than one worker is started per element of the state slice")
					continue
				}
				r.OK(key, an.Pos(c, g), "one worker per element of %s.%s (index advances by one)", ownerNameOf(owner), fld.Name())
			}
		}
		r.Floor("go statements starting workers", nGo, 2)
	})

	rule(r, "C04.R2", freshStateText, func() { freshStateRule(c, r, true) })

	rule(r, "C04.R3", "start barrier: the start WaitGroup is Added numWorkers before the workers are spawned, each worker calls Done exactly once before its loop, and either Start waits for it before returning or every worker waits for it before its loop", func() {
		n := 0
		for w := range workers {
			for _, g := range an.GoTargetOf(c.AllFuncs, w) {
				n++
				start := g.Parent()
				key := core.FuncName(start) + "#barrier"
				// the WaitGroup argument that is a local of Start
				var wg ssa.Value
				wgIdx := -1
				for i, a := range g.Common().Args {
					if isBarrierType(a.Type()) {
						if _, isAlloc := an.Strip(a).(*ssa.Alloc); isAlloc {
							wg, wgIdx = an.Strip(a), i
						}
					}
				}
				if wg == nil {
					r.Violation(key, an.Pos(c, g), "workers are started without a start barrier (no local WaitGroup handed to them): work can be offered before all workers exist")
					continue
				}
				var add, wait ssa.CallInstruction
				for _, call := range an.AllCalls(start) {
					t := an.Callee(call)
					if len(call.Common().Args) == 0 || an.Strip(call.Common().Args[0]) != wg {
						continue
					}
					if isWG(t, "Add") {
						add = call
					}
					if isWG(t, "Wait") {
						wait = call
					}
				}
				if add == nil || !an.Dominates(add, g) {
					r.Violation(key+"-add", an.Pos(c, g), "the start WaitGroup is not Added before the workers are spawned")
					continue
				}
				cnt := an.D().Of(add.Common().Args[1])
				if !strings.HasSuffix(cnt, ".numWorkers") && !strings.Contains(cnt, "len(") {
					r.Violation(key+"-add", an.Pos(c, add), "start barrier counts %s, not the number of workers", cnt)
					continue
				}
				// worker side
				wp := w.Params[wgIdx]
				var done, wwait ssa.CallInstruction
				for _, call := range an.AllCalls(w) {
					t := an.Callee(call)
					if len(call.Common().Args) == 0 || an.Strip(call.Common().Args[0]) != ssa.Value(wp) {
						continue
					}
					if isWG(t, "Done") {
						done = call
					}
					if isWG(t, "Wait") {
						wwait = call
					}
				}
				var firstRun ssa.Instruction
				runs, _ := workerRuns(c, runner)
				for _, wr := range runs {
					if wr.Worker == w {
						firstRun = wr.Run.Root()
					}
				}
				if done == nil || an.InLoop(done) || !an.Dominates(done, firstRun) {
					r.Violation(key+"-done", c.Pos(w.Pos()), "worker %s does not signal the start barrier exactly once before its loop", core.FuncName(w))
					continue
				}
				if _, isDefer := done.(*ssa.Defer); isDefer {
					r.Violation(key+"-done", an.Pos(c, done), "worker signals the start barrier only when it exits")
					continue
				}
				switch {
				case wait != nil && dominatesAllReturns(wait, start) && !an.Dominates(wait, g):
					r.OK(key, an.Pos(c, wait), "Add(%s) → spawn → Wait in %s before it returns; workers Done before their loop", cnt, core.FuncName(start))
				case wwait != nil && an.Dominates(done, wwait) && an.Dominates(wwait, firstRun) && !an.InLoop(wwait):
					r.OK(key, an.Pos(c, wwait), "Add(%s) → spawn; each worker Done then Wait before its loop", cnt)
				default:
					r.Violation(key+"-wait", an.Pos(c, g), "nobody waits on the start barrier: neither %s before returning nor the workers before their loop", core.FuncName(start))
				}
			}
		}
		r.Floor("worker spawn sites", n, 2)
	})

	rule(r, "C04.R4", "idle workers are woken when work is pending: condition-variable discipline of the rate pool (shared with C02.R7)", func() {
		condDiscipline(c, r)
	})
}

func loopHeaderOf(in ssa.Instruction) *ssa.BasicBlock {
	_, h := an.NaturalLoopOf(in.Block())
	return h
}

func dominatesAllReturns(in ssa.Instruction, fn *ssa.Function) bool {
	for _, ret := range an.Returns(fn) {
		if !an.Dominates(in, ret) {
			return false
		}
	}
	return true
}

// checkStateMaker: the function building the state slice makes a slice of the requested length and fills
// every index with a fresh state whose T is freshly allocated.
func checkStateMaker(c *core.Ctx, r *core.Report, maker *ssa.Function) {
	key := core.FuncName(maker)
	if maker.Blocks == nil {
		r.Undecided(key, "-", "state slice builder has no body")
		return
	}
	var n *ssa.Parameter
	for _, p := range maker.Params {
		if b, ok := p.Type().Underlying().(*types.Basic); ok && b.Kind() == types.Int {
			n = p
		}
	}
	for _, ret := range an.Returns(maker) {
		ms, ok := an.Strip(ret.Results[0]).(*ssa.MakeSlice)
		if !ok {
			r.Violation(key+"#fresh", an.Pos(c, ret), "the state slice returned is %s, not a slice made in this call: pools (and their concurrently running workers) share test handles", an.D().Of(ret.Results[0]))
			continue
		}
		if n == nil || an.Strip(ms.Len) != ssa.Value(n) {
			r.Violation(key+"#len", an.Pos(c, ms), "state slice has length %s, not the requested number of workers", an.D().Of(ms.Len))
			continue
		}
		// element stores
		stores := 0
		for _, ref := range an.Referrers(ms) {
			ia, ok := ref.(*ssa.IndexAddr)
			if !ok {
				continue
			}
			for _, st := range an.StoresTo(ia) {
				stores++
				call, ok := an.Strip(st.Val).(*ssa.Call)
				loop, _ := an.NaturalLoopOf(st.Block())
				if !ok || an.Callee(call) == nil || loop == nil || !loop[call.Block()] {
					r.Violation(key+"#elements", an.Pos(c, st), "elements are assigned %s: not a state created inside the filling loop, so workers share a test handle", an.D().Of(st.Val))
					continue
				}
				// loop bound is n (or the length of the slice made with length n)
				okBound := false
				for b := range loop {
					if iff, ok := b.Instrs[len(b.Instrs)-1].(*ssa.If); ok {
						if bo, ok := iff.Cond.(*ssa.BinOp); ok && bo.Op == token.LSS && (an.Strip(bo.Y) == ssa.Value(n) || lenBoundOf(bo.Y, ms)) {
							okBound = true
						}
					}
				}
				if !okBound {
					r.Violation(key+"#bound", an.Pos(c, st), "the filling loop is not bounded by the number of workers: some workers get a nil state")
					continue
				}
				checkFreshState(c, r, an.Callee(call))
				r.OK(key+"#elements", an.Pos(c, st), "every index < %s receives %s created inside the loop", n.Name(), core.FuncName(an.Callee(call)))
			}
		}
		if stores == 0 {
			r.Violation(key+"#elements", an.Pos(c, ms), "the state slice is never filled")
		}
	}
}

func checkFreshState(c *core.Ctx, r *core.Report, mk *ssa.Function) {
	key := core.FuncName(mk) + "#fresh-T"
	for _, ret := range an.Returns(mk) {
		al, ok := an.Strip(ret.Results[0]).(*ssa.Alloc)
		if _, byValue := ret.Results[0].Type().Underlying().(*types.Struct); byValue {
			// a state handed out by value is a new value by construction: the literal built here
			al = an.StructLiteralOf(ret.Results[0])
			ok = al != nil
		} else if ok && !al.Heap {
			ok = false
		}
		if !ok {
			r.Violation(key, an.Pos(c, ret), "the state returned is %s, not a new allocation", an.D().Of(ret.Results[0]))
			continue
		}
		tv := an.LiteralFields(al)["t"]
		if tv == nil {
			for name, v := range an.LiteralFields(al) {
				if an.IsNamed(v.Type(), testingPkg, "T") {
					tv = v
					_ = name
				}
			}
		}
		if tv == nil {
			r.Undecided(key, an.Pos(c, ret), "state literal has no T field")
			continue
		}
		ex, ok := an.Strip(tv).(*ssa.Extract)
		var src *ssa.Call
		if ok {
			src, _ = ex.Tuple.(*ssa.Call)
		} else {
			src, _ = an.Strip(tv).(*ssa.Call)
		}
		if src == nil || an.Callee(src) == nil {
			r.Violation(key, an.Pos(c, ret), "the state's T is %s, not the result of a constructor call made here", an.D().Of(tv))
			continue
		}
		ctor := an.Callee(src)
		fresh := false
		for _, cr := range an.Returns(ctor) {
			if a, ok := an.Strip(cr.Results[0]).(*ssa.Alloc); ok && a.Heap {
				fresh = true
			} else if inner, ok := an.Strip(cr.Results[0]).(*ssa.Extract); ok {
				if ic, ok := inner.Tuple.(*ssa.Call); ok && an.Callee(ic) != nil {
					for _, ir := range an.Returns(an.Callee(ic)) {
						if a, ok := an.Strip(ir.Results[0]).(*ssa.Alloc); ok && a.Heap {
							fresh = true
						}
					}
				}
			}
		}
		r.Check(fresh, key, an.Pos(c, ret), "T comes from "+core.FuncName(ctor)+", which allocates a new T per call", "T constructor "+core.FuncName(ctor)+" does not return a fresh allocation")
	}
}

// concurrencyParamSources: the function takes `concurrency` as a parameter; every call site passes a
// Concurrency field.
func concurrencyParamSources(c *core.Ctx, fn *ssa.Function, prm *ssa.Parameter, r *core.Report) bool {
	sites := an.CallSitesOf(c, fn)
	if len(sites) == 0 || prm == nil || prm.Parent() != fn {
		return false
	}
	idx := an.ParamIndex(prm)
	if idx < 0 {
		return false
	}
	ok := true
	for _, s := range sites {
		d := stripCaret(an.D().Of(s.Common().Args[idx]))
		// handed on from a constructor variant's own parameter: that one's call sites decide
		if up, isParam := an.Strip(s.Common().Args[idx]).(*ssa.Parameter); isParam && up.Parent() != fn && up.Parent().Parent() == nil {
			if concurrencyParamSources(c, up.Parent(), up, r) {
				continue
			}
		}
		if !strings.HasSuffix(d, "Concurrency") {
			ok = false
			r.Violation(core.FuncName(s.Parent())+"#users-count", an.Pos(c, s), "users worker created with %s, not a configured concurrency", d)
		}
	}
	return ok
}

const freshStateText = "each pool's state slice is made fresh with length numWorkers; every element is a newly created state holding a newly created T; the pool's numWorkers is the same value; creation sites pass the configured concurrency"

// freshStateRule is C04.R2 (= C07.R5): test handles are owned by exactly one worker of one pool.
func freshStateRule(c *core.Ctx, r *core.Report, withCounts bool) {
	// constructors: functions of internal/workers storing into a field of type []*iterationState
	n := 0
	for _, fn := range c.AllFuncs {
		if core.RelPkg(fn) != "internal/workers" {
			continue
		}
		an.Instrs(fn, func(in ssa.Instruction) {
			st, ok := in.(*ssa.Store)
			if !ok {
				return
			}
			fld := an.FieldOfAddr(st.Addr)
			if fld == nil {
				return
			}
			// a slice of per-worker states (held by pointer or by value)
			sl, isSl := fld.Type().Underlying().(*types.Slice)
			if !isSl || !an.IsNamed(sl.Elem(), workersPkg, "iterationState") {
				return
			}
			n++
			owner := ownerNameOf(st.Addr.(*ssa.FieldAddr).X.Type())
			key := core.FuncName(fn) + "#" + owner + "." + fld.Name()
			mk, ok := an.Strip(st.Val).(*ssa.Call)
			if !ok || an.Callee(mk) == nil {
				r.Violation(key, an.Pos(c, in), "the pool's state slice is %s, not a freshly built slice", an.D().Of(st.Val))
				return
			}
			maker := an.Callee(mk)
			nArg := mk.Call.Args[len(mk.Call.Args)-1]
			// the same value must be stored in the pool's int field (numWorkers)
			var lit *ssa.Alloc
			if fa, ok := st.Addr.(*ssa.FieldAddr); ok {
				lit, _ = fa.X.(*ssa.Alloc)
			}
			if lit != nil {
				same := false
				for name, v := range an.LiteralFields(lit) {
					if b, ok := v.Type().Underlying().(*types.Basic); ok && b.Kind() == types.Int {
						if an.Strip(v) == an.Strip(nArg) {
							same = true
						} else {
							r.Violation(key+"#"+name, an.Pos(c, in), "pool field %s is %s but the state slice is built for %s workers", name, an.D().Of(v), an.D().Of(nArg))
						}
					}
				}
				hasIntField := false
				if pst, isSt := lit.Type().(*types.Pointer).Elem().Underlying().(*types.Struct); isSt {
					for i := 0; i < pst.NumFields(); i++ {
						if b, isB := pst.Field(i).Type().Underlying().(*types.Basic); isB && b.Kind() == types.Int {
							hasIntField = true
						}
					}
				}
				if !same && hasIntField {
					r.Undecided(key+"#numWorkers", an.Pos(c, in), "no int field of the pool literal holds the worker count")
				} else if !same {
					r.Exists(key+"#numWorkers", an.Pos(c, in), "the pool keeps no separate worker count: the number of workers is the length of the state slice")
				}
			}
			if _, isParam := an.Strip(nArg).(*ssa.Parameter); !isParam {
				r.Violation(key+"#count", an.Pos(c, in), "state slice built for %s workers instead of the constructor's worker-count parameter", an.D().Of(nArg))
			}
			checkStateMaker(c, r, maker)
			r.OK(key, an.Pos(c, in), "state slice = %s", an.D().Of(st.Val))
		})
	}
	r.Floor("pool constructors", n, 2)
	if !withCounts {
		return // how many workers a pool gets is C04's clause, not part of handle isolation
	}
	// creation sites outside the package pass the configured concurrency
	m := 0
	for _, fn := range c.AllFuncs {
		if core.RelPkg(fn) == "internal/workers" {
			continue
		}
		for _, call := range an.AllCalls(fn) {
			t := an.Callee(call)
			if t == nil || t.Signature.Recv() == nil || !an.IsNamed(t.Signature.Recv().Type(), workersPkg, "PoolManager") || !strings.HasPrefix(t.Name(), "New") {
				continue
			}
			m++
			d := stripCaret(an.D().Of(call.Common().Args[1]))
			okSrc := strings.HasSuffix(d, ".Concurrency")
			// a parameter of the enclosing function (whatever it is called): its call sites must pass a Concurrency field
			av := an.Strip(call.Common().Args[1])
			for hop := 0; hop < 4; hop++ {
				switch x := av.(type) {
				case *ssa.UnOp:
					if x.Op == token.MUL {
						av = x.X
						continue
					}
				case *ssa.FreeVar:
					if b := an.FreeVarBinding(x); b != nil {
						av = b
						continue
					}
				case *ssa.Alloc:
					// a captured parameter lives in a cell holding it
					if sts := an.StoresTo(x); len(sts) == 1 {
						av = an.Strip(sts[0].Val)
						continue
					}
				}
				break
			}
			if prm, isParam := av.(*ssa.Parameter); isParam && !okSrc {
				okSrc = concurrencyParamSources(c, prm.Parent(), prm, r)
			}
			r.Check(okSrc, core.FuncName(fn)+"#"+t.Name()+"-count", an.Pos(c, call), "worker count is "+d, "pool created with "+d+" workers, not the configured concurrency")
		}
	}
	r.Floor("pool creation sites", m, 2)
}

func depthOf(e an.Event) int {
	n := 0
	for f := e.Frame; f.Parent != nil; f = f.Parent {
		n++
	}
	return n
}
