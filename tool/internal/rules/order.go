package rules

import (
	"go/token"
	"go/types"

	"golang.org/x/tools/go/ssa"

	"f1verif/internal/an"
	"f1verif/internal/core"
)

// aff is an affine form cL·L + cK·k + c0 over the length L of the cleanup stack and the loop counter k.
type aff struct {
	cL, cK, c0 int64
	ok         bool
}

func (a aff) add(b aff) aff { return aff{a.cL + b.cL, a.cK + b.cK, a.c0 + b.c0, a.ok && b.ok} }
func (a aff) sub(b aff) aff { return aff{a.cL - b.cL, a.cK - b.cK, a.c0 - b.c0, a.ok && b.ok} }
func (a aff) neg() aff      { return aff{-a.cL, -a.cK, -a.c0, a.ok} }
func (a aff) eq(b aff) bool { return a.ok && b.ok && a.cL == b.cL && a.cK == b.cK && a.c0 == b.c0 }
func (a aff) String() string {
	if !a.ok {
		return "?"
	}
	return sprintf("%d·len %+d·k %+d", a.cL, a.cK, a.c0)
}

// cleanupOrderRule decides, on the SSA form, that the cleanups of a handle are called for the indices
// len-1, len-2, …, 0 of the cleanup stack, one call per index. The loop may have any syntactic form (descending
// counter, ascending counter with a mirrored index, countdown, range over an int) and the call may sit in a helper:
// the index expression, the counter's start and step and the loop guard are read as affine forms in (len, k) and
// compared with "first index = len-1, step -1, guard ⇔ index >= 0".
func cleanupOrderRule(c *core.Ctx, r *core.Report) {
	stack := handleFields(c).stack
	// the element of the cleanup stack a dynamic call invokes: indexed in place, or handed out by an accessor of a
	// wrapper type around the stack (`stack.at(i)()`); returns the indexing with the frame it sits in
	cleanupElem := func(e an.Event) (*ssa.IndexAddr, *an.Frame) {
		call := e.Call()
		if call == nil || call.Common().IsInvoke() {
			return nil, nil
		}
		val := call.Common().Value
		if h, ok := hostHelpers(curCtx)[an.Callee(call)]; ok && h.param < len(call.Common().Args) {
			// the cleanup is handed to a guarding helper that calls it
			val = call.Common().Args[h.param]
		} else if an.Callee(call) != nil {
			return nil, nil
		}
		rv := an.EventFV(e, val)
		if _, isAcc := val.(*ssa.Call); isAcc {
			rv = rv.Resolve(nil)
		}
		v := rv.V
		if ld, ok := v.(*ssa.UnOp); ok && ld.Op == token.MUL {
			v = ld.X
		}
		ia, ok := an.Strip(v).(*ssa.IndexAddr)
		if !ok {
			return nil, nil
		}
		base := (an.FV{V: ia.X, F: rv.F}).Resolve(nil).V
		if fld, _ := an.TerminalField(base); !an.SameField(fld, stack) {
			if fld2, _ := an.TerminalField(ia.X); !an.SameField(fld2, stack) {
				return nil, nil
			}
		}
		return ia, rv.F
	}
	found := 0
	for _, root := range c.AllFuncs {
		if core.RelPkg(root) != "pkg/f1/testing" || root.Parent() != nil {
			continue
		}
		var evs []an.Event
		an.Flatten(root, flatDepth, nil, func(e an.Event) {
			if ia, _ := cleanupElem(e); ia != nil {
				evs = append(evs, e)
			}
		})
		for _, e := range evs {
			// the root is the function whose own frame holds the loop
			rootIn := e.Root()
			if !an.InLoop(rootIn) {
				continue
			}
			found++
			key := "T.teardown#order"
			pos := an.Pos(c, e.Instr)
			ia, iaF := cleanupElem(e)
			idxV := (an.FV{V: ia.Index, F: iaF}).Resolve(nil)
			if idxV.F != nil && idxV.F.Parent != nil {
				r.Violation(key, pos, "the index of the cleanup called (%s) is computed inside a helper, not from the loop of %s", an.D().Of(idxV.V), core.FuncName(root))
				continue
			}
			sw, okSw := indexSweep(root, idxV.V, rootIn, func(v ssa.Value) bool {
				fld, _ := an.TerminalField(v)
				return an.SameField(fld, stack)
			})
			if !okSw {
				r.Violation(key, pos, "the cleanup loop cannot be read: %s (index %s): the indices len-1 … 0 cannot be shown", sw.why, an.D().Of(idxV.V))
				continue
			}
			k, idx, start, step := sw.k, sw.idx, sw.start, aff{0, 0, sw.step, true}
			first, perIter, guardNorm, guardOK, entryOK := sw.first, sw.perIter, sw.guardNorm, sw.guardOK, sw.entryOK
			want := aff{1, 0, -1, true}
			switch {
			case !first.eq(want):
				r.Violation(key, pos, "the first cleanup called has index %s, not len-1: the cleanups do not start with the one registered last", first)
			case perIter != -1:
				r.Violation(key, pos, "the index moves by %+d per pass, not by -1: cleanups run in registration order or some are skipped", perIter)
			case !guardOK:
				r.Violation(key, pos, "no loop guard comparing the counter found for the cleanup loop")
			case !entryOK:
				r.Violation(key, pos, "the loop body runs before any test that the first index (%s) is >= 0: with no cleanups registered the stack is indexed out of range", first)
			case !guardNorm.eq(idx):
				r.Violation(key, pos, "the loop runs while %s >= 0 but the index is %s: it does not stop exactly after index 0 (a cleanup is skipped or the stack is indexed out of range)", guardNorm, idx)
			case an.OnCycleAvoiding(rootIn, k.Block()):
				r.Violation(key, pos, "the cleanup call sits on an inner loop: a cleanup can run more than once")
			default:
				r.OK(key, pos, "indices start at len-1, move by -1 per pass and the loop runs exactly while the index is >= 0 (counter from %s step %+d, index %s)", start, step.c0, idx)
			}
		}
	}
	r.Floor("cleanup call sites inside a loop", found, 1)
}

// sweep describes how an index expression moves over a sequence inside a counting loop of root.
type sweep struct {
	k         *ssa.Phi
	idx       aff // the index as an affine form in (len, k)
	start     aff
	step      int64
	first     aff   // index on the first pass
	perIter   int64 // change of the index per pass
	guardNorm aff   // the loop runs exactly while guardNorm >= 0
	guardOK   bool
	entryOK   bool
	why       string
}

// indexSweep reads the loop around `at` (an instruction of root) that drives the index value idxV; isSeq recognises
// the sequence whose length bounds the loop.
func indexSweep(root *ssa.Function, idxV ssa.Value, rootIn ssa.Instruction, isSeq func(ssa.Value) bool) (sw sweep, ok bool) {
	var k *ssa.Phi
	var findPhi func(v ssa.Value, depth int)
	findPhi = func(v ssa.Value, depth int) {
		if k != nil || depth > 8 {
			return
		}
		switch x := an.Strip(v).(type) {
		case *ssa.Phi:
			if x.Parent() == root {
				k = x
			}
		case *ssa.BinOp:
			findPhi(x.X, depth+1)
			findPhi(x.Y, depth+1)
		}
	}
	findPhi(idxV, 0)
	if k == nil {
		sw.why = "not indexed by a loop counter"
		return sw, false
	}
	var eval func(v ssa.Value, depth int) aff
	eval = func(v ssa.Value, depth int) aff {
		if depth > 10 {
			return aff{}
		}
		v = an.Strip(v)
		switch x := v.(type) {
		case *ssa.Const:
			if x.Value != nil {
				if b, ok := x.Type().Underlying().(*types.Basic); ok && b.Info()&types.IsInteger != 0 {
					return aff{0, 0, x.Int64(), true}
				}
			}
		case *ssa.Phi:
			if x == k {
				return aff{0, 1, 0, true}
			}
		case *ssa.Call:
			if an.IsBuiltinCall(x, "len") && isSeq(x.Call.Args[0]) {
				return aff{1, 0, 0, true}
			}
			// a size accessor of a wrapper type around the sequence (`stack.size()` = len(stack))
			if t := an.Callee(x); t != nil && core.InModule(t) && t.Blocks != nil {
				rv := an.RootFV(root, x).Resolve(nil)
				if lc, ok := rv.V.(*ssa.Call); ok && an.IsBuiltinCall(lc, "len") && rv.F != nil && rv.F.Parent != nil {
					if isSeq((an.FV{V: lc.Call.Args[0], F: rv.F}).Resolve(nil).V) {
						return aff{1, 0, 0, true}
					}
				}
			}
		case *ssa.BinOp:
			a, b := eval(x.X, depth+1), eval(x.Y, depth+1)
			switch x.Op {
			case token.ADD:
				return a.add(b)
			case token.SUB:
				return a.sub(b)
			}
		}
		return aff{}
	}
	idx := eval(idxV, 0)
	var start, step aff
	nInit, nBack := 0, 0
	for i, edge := range k.Edges {
		pred := k.Block().Preds[i]
		if al, isAl := edge.(*ssa.Alloc); isAl {
			var last ssa.Value
			for _, st := range an.StoresTo(al) {
				if last == nil || st.Block() == pred {
					last = st.Val
				}
			}
			if last != nil {
				edge = last
			}
		}
		ev := eval(edge, 0)
		if k.Block().Dominates(pred) {
			nBack++
			step = ev.sub(aff{0, 1, 0, true})
		} else {
			nInit++
			start = ev
		}
	}
	if nInit != 1 || nBack != 1 || !start.ok || !step.ok || step.cL != 0 || step.cK != 0 || (step.c0 != 1 && step.c0 != -1) || start.cK != 0 || !idx.ok {
		sw.why = sprintf("not a unit-step counting loop whose index is affine in the counter (start %s, step %s, index %s)", start, step, idx)
		return sw, false
	}
	first := aff{idx.cL + idx.cK*start.cL, 0, idx.c0 + idx.cK*start.c0, true}
	perIter := idx.cK * step.c0
	var guardNorm aff
	guardOK := false
	entryOK, bottomTested := true, false
	flipOp := map[token.Token]token.Token{token.LSS: token.GEQ, token.LEQ: token.GTR, token.GTR: token.LEQ, token.GEQ: token.LSS}
	// normalise "d op 0" to "e >= 0"
	norm := func(d aff, op token.Token) (aff, bool) {
		switch op {
		case token.GEQ:
			return d, true
		case token.GTR:
			return d.sub(aff{0, 0, 1, true}), true
		case token.LEQ:
			return d.neg(), true
		case token.LSS:
			return d.neg().sub(aff{0, 0, 1, true}), true
		}
		return aff{}, false
	}
	callBlock := rootIn.Block()
	for _, b := range root.Blocks {
		iff, ok := b.Instrs[len(b.Instrs)-1].(*ssa.If)
		if !ok {
			continue
		}
		bo, ok := iff.Cond.(*ssa.BinOp)
		if !ok {
			continue
		}
		l, rr := eval(bo.X, 0), eval(bo.Y, 0)
		if !l.ok || !rr.ok {
			continue
		}
		d := l.sub(rr)
		switch {
		case d.cK != 0 && b != callBlock && b.Dominates(callBlock) && (b == k.Block() || k.Block().Dominates(b)):
			// tested before the body: the call runs on the branch that leads to it
			op := bo.Op
			if !(b.Succs[0] == callBlock || b.Succs[0].Dominates(callBlock)) {
				op = flipOp[op]
			}
			guardNorm, guardOK = norm(d, op)
		case d.cK != 0 && callBlock.Dominates(b) && (b.Succs[0] == k.Block() || b.Succs[1] == k.Block()):
			// tested after the body (rotated loop): the branch back to the loop head decides the *next* pass,
			// whose counter is k+step
			op := bo.Op
			if b.Succs[0] != k.Block() {
				op = flipOp[op]
			}
			shifted := d
			shifted.c0 -= d.cK * step.c0
			guardNorm, guardOK = norm(shifted, op)
			bottomTested = true
		}
	}
	if bottomTested {
		// a rotated loop needs a test before the first pass that admits exactly "first index >= 0"
		entryOK = false
		for _, b := range root.Blocks {
			iff, ok := b.Instrs[len(b.Instrs)-1].(*ssa.If)
			if !ok || b == k.Block() || !b.Dominates(k.Block()) || k.Block().Dominates(b) {
				continue
			}
			bo, ok := iff.Cond.(*ssa.BinOp)
			if !ok {
				continue
			}
			l, rr := eval(bo.X, 0), eval(bo.Y, 0)
			if !l.ok || !rr.ok || l.cK != 0 || rr.cK != 0 {
				continue
			}
			op := bo.Op
			if !(b.Succs[0] == k.Block() || b.Succs[0].Dominates(k.Block())) {
				op = flipOp[op]
			}
			if e, ok := norm(l.sub(rr), op); ok && e.eq(first) {
				entryOK = true
			}
		}
	}

	return sweep{k: k, idx: idx, start: start, step: step.c0, first: first, perIter: perIter, guardNorm: guardNorm, guardOK: guardOK, entryOK: entryOK}, true
}
