package rules

import (
	"go/constant"
	"go/token"
	"go/types"
	"sort"
	"strings"

	"golang.org/x/tools/go/ssa"

	"f1verif/internal/an"
	"f1verif/internal/core"
)

func init() { register("C01", c01) }

func isStatsRecord(f *ssa.Function) bool { return isMethod(f, progressPkg, "Stats", "Record") }
func isMetricsIter(f *ssa.Function) bool {
	return isMethod(f, metricsPkg, "Metrics", "RecordIterationResult")
}

// resultArg returns the ResultType argument of a recording call.
func resultArg(call ssa.CallInstruction) ssa.Value {
	for _, a := range call.Common().Args {
		if an.IsNamed(a.Type(), metricsPkg, "ResultType") {
			return a
		}
	}
	return nil
}

// hotClasses computes the instance classes of progress.IterationDurations that receive an Add
// reachable from the iteration runner (the per-period accumulators workers write concurrently).
type atomicSite struct {
	an.AtomicOp
	classes []string
}

func durationAtomics(c *core.Ctx) []atomicSite {
	var out []atomicSite
	for _, op := range an.AtomicOps(c.AllFuncs) {
		recv := op.Call.Common().Args[0]
		fa, ok := recv.(*ssa.FieldAddr)
		if !ok {
			continue
		}
		// the accumulator's atomics, also when they are grouped into small structs inside it
		base := an.BaseIn(fa, progressPkg, "IterationDurations")
		if base == nil {
			continue
		}
		out = append(out, atomicSite{op, an.InstanceClasses(c, base, 4)})
	}
	return out
}

// accBase: the IterationDurations value an atomic field address belongs to (through by-value grouping structs).
func accBase(addr ssa.Value) ssa.Value {
	if b := an.BaseIn(addr, progressPkg, "IterationDurations"); b != nil {
		return b
	}
	if fa, ok := addr.(*ssa.FieldAddr); ok {
		return fa.X
	}
	return addr
}

func has(l []string, s string) bool {
	for _, x := range l {
		if x == s {
			return true
		}
	}
	return false
}

func c01(c *core.Ctx, r *core.Report) {
	r.Explanation = "Decides the code shape from which 'every iteration counted exactly once with its true outcome' follows for every interleaving: " +
		"(R1) one progress record and one metrics record on every path of the iteration runner and of the drop recorder; (R2) both records carry the same outcome value, read once from T.Failed() after the recovered body; " +
		"(R3) no accumulating atomic written by workers is cleared by a plain Store; (R4) the lifetime totals are fed from the value the atomic drain removed, not from a separate Load; " +
		"(R5) the non-reentrant drain is reachable only under Result.mu held for writing; (R6) outcome routing tables agree; (R7) final totals are taken after run() returned and the returned result is the one totalled; (R8) the dropped counter only grows by one. " +
		"No interleaving is executed; the Prometheus client's own counting is trusted."
	r.NotDecided = []string{"numerical equality itself (follows from the decided shape)", "internals of prometheus.SummaryVec"}

	var runner *ssa.Function
	var body ssa.CallInstruction

	rule(r, "C01.R1", "on every path of the iteration runner, progress.Stats.Record and Metrics.RecordIterationResult are each called exactly once; likewise in the drop recorder, with DroppedResult", func() {
		runner, body, _ = iterationRunner(c)
		r.Exists("iteration-runner", c.Pos(runner.Pos()), "%s invokes the scenario RunFn at %s", core.FuncName(runner), an.Pos(c, body))
		check := func(fn *ssa.Function, what string, pred func(*ssa.Function) bool) {
			exits := an.PathCount(fn, an.CallWeight(func(_ ssa.CallInstruction, t *ssa.Function) bool { return t != nil && pred(t) }, flatDepth))
			n := 0
			for _, e := range exits {
				if _, isRet := e.Instr.(*ssa.Return); !isRet {
					continue
				}
				n++
				key := core.FuncName(fn) + "#" + what + "@exit" + itoa(n)
				if e.Count.Lo == 1 && e.Count.Hi == 1 {
					r.OK(key, an.Pos(c, e.Instr), "%s executed exactly once on every path to this return", what)
				} else {
					r.Violation(key, an.Pos(c, e.Instr), "%s executed %s times on paths to this return (entry %s), expected exactly once", what, e.Count, core.FuncName(fn))
				}
			}
			if n == 0 {
				r.Undecided(core.FuncName(fn)+"#"+what, c.Pos(fn.Pos()), "no return found")
			}
		}
		check(runner, "Stats.Record", isStatsRecord)
		check(runner, "Metrics.RecordIterationResult", isMetricsIter)
		drops := dropRecorderFns(c, r, runner)
		for _, fn := range drops {
			if cnt, _ := bulkDropRecorder(c, fn); cnt != nil {
				// n drops in one call: one metric sample per pass of a loop bounded by n, and n added to the progress count
				r.OK(core.FuncName(fn)+"#bulk", c.Pos(fn.Pos()), "records %s drops per call: one metric sample per pass of a loop bounded by it and the same number in the progress count", an.D().Of(cnt))
				continue
			}
			check(fn, "Stats.Record", isStatsRecord)
			check(fn, "Metrics.RecordIterationResult", isMetricsIter)
		}
		r.Floor("drop recorders", len(drops), 1)
	})

	rule(r, "C01.R2", "both records in the iteration runner receive the same ResultType value: metrics.Result(x) with x one read of T.Failed() on the body's T, taken after the body call", func() {
		if runner == nil {
			r.Undecided("anchor", "-", "iteration runner not resolved")
			return
		}
		_, bodyEv, _ := userRunner(c, "RunFn", func(t *ssa.Function) bool { return isStatsRecord(t) || isMetricsIter(t) })
		stopAtOutcome := func(f *ssa.Function) bool {
			return isMethod(f, testingPkg, "T", "Failed") || an.IsFunc(f, metricsPkg, "Result")
		}
		var flags []an.FV
		var evs []recEvent
		for _, e := range recordEvents(runner) {
			if e.Kind == "setup" {
				continue
			}
			evs = append(evs, e)
			res := an.EventFV(e.Ev, resultArg(e.Ev.Call())).Resolve(stopAtOutcome)
			if rc, ok := res.V.(*ssa.Call); ok && an.IsFunc(an.Callee(rc), metricsPkg, "Result") {
				flags = append(flags, an.FV{V: rc.Call.Args[0], F: res.F}.Resolve(stopAtOutcome))
			} else {
				flags = append(flags, res)
			}
		}
		if !r.Floor("recording calls", len(evs), 2) {
			return
		}
		key := core.FuncName(runner) + "#outcome"
		same := true
		for _, f := range flags {
			if f.V != flags[0].V {
				same = false
			}
		}
		if !same {
			var ds []string
			for i, f := range flags {
				ds = append(ds, an.Pos(c, evs[i].Ev.Instr)+": "+an.D().Of(f.V))
			}
			r.Violation(key, an.Pos(c, evs[0].Ev.Instr), "the recording calls classify the iteration from different reads of the outcome (%s): a failure landing between them is counted differently by the result and the metrics", strings.Join(ds, "; "))
			return
		}
		fc, ok := flags[0].V.(*ssa.Call)
		if !ok || !isMethod(an.Callee(fc), testingPkg, "T", "Failed") {
			r.Violation(key, an.Pos(c, evs[0].Ev.Instr), "the recorded outcome is %s, not metrics.Result(T.Failed())", an.D().Of(flags[0].V))
			return
		}
		if !sameHandle(an.FV{V: fc.Call.Args[0], F: flags[0].F}, an.EventFV(bodyEv, bodyEv.Call().Common().Args[0])) {
			r.Violation(key, an.Pos(c, fc), "outcome read from %s but the body ran with %s", stripCaret(an.D().Of(fc.Call.Args[0])), stripCaret(an.D().Of(bodyEv.Call().Common().Args[0])))
			return
		}
		readEv := an.Event{Instr: fc, Frame: flags[0].F}
		if readEv.RootFn() != runner || !an.Before(bodyEv, readEv) {
			r.Violation(key, an.Pos(c, fc), "T.Failed() is not read in the runner's frame after the body call at %s: failures of the body are not seen", an.Pos(c, bodyEv.Instr))
			return
		}
		for _, e := range evs {
			if !an.Before(readEv, e.Ev) {
				r.Violation(key, an.Pos(c, e.Ev.Instr), "recording call not dominated by the outcome read")
				return
			}
		}
		r.OK(key, an.Pos(c, fc), "single read %s after the body call feeds both records through metrics.Result", an.D().Of(flags[0].V))
	})

	sites := durationAtomics(c)
	hot := map[string]bool{}
	accum := map[string]bool{} // accumulating field names (Add-ed on a hot class)
	rule(r, "C01.R3", "no accumulating atomic that workers Add to concurrently is cleared by a plain Store (lost update); only Swap/CompareAndSwap may remove from it", func() {
		if runner == nil {
			r.Undecided("anchor", "-", "iteration runner not resolved")
			return
		}
		// hot classes: Add sites reachable from Stats.Record (called by the runner)
		reach := map[*ssa.Function]bool{}
		var walk func(f *ssa.Function, d int)
		walk = func(f *ssa.Function, d int) {
			if f == nil || reach[f] || d < 0 {
				return
			}
			reach[f] = true
			for _, call := range an.AllCalls(f) {
				if t := an.Callee(call); t != nil && core.InModule(t) {
					walk(t, d-1)
				}
			}
		}
		walk(runner, 6)
		for _, s := range sites {
			if s.Op == "Add" && reach[s.Fn] {
				for _, k := range s.classes {
					// classes reached from the runner: resolve only through call sites on the runner's path
					hot[k] = true
				}
				accum[s.Field.Name()] = true
			}
		}
		// the lifetime class also receives Adds (merge) but from the collector, not from workers: a class is hot
		// only if some Add on it sits in a function reachable from the runner AND the class is not exclusively
		// bound through the collector. InstanceClasses unions over all call sites, so refine: classes bound at
		// call sites that are themselves reachable from the runner.
		hot = map[string]bool{}
		for _, s := range sites {
			if s.Op != "Add" || !reach[s.Fn] {
				continue
			}
			for _, k := range classesVia(c, accBase(s.Call.Common().Args[0]), reach, 4) {
				hot[k] = true
			}
		}
		var hl []string
		for k := range hot {
			hl = append(hl, k)
		}
		sort.Strings(hl)
		if !r.Floor("hot accumulator classes", len(hl), 1) {
			return
		}
		r.Exists("hot-classes", "-", "accumulators written from the iteration runner: %s; accumulating fields: %v", strings.Join(hl, ", "), keys(accum))
		n := 0
		for _, s := range sites {
			if !accum[s.Field.Name()] {
				continue
			}
			isHot := false
			for _, k := range s.classes {
				if hot[k] {
					isHot = true
				}
			}
			if !isHot {
				continue
			}
			n++
			key := "IterationDurations." + s.Field.Name() + "@" + core.FuncName(s.Fn) + "#" + s.Op
			switch s.Op {
			case "Store":
				r.Violation(key, an.Pos(c, s.Call), "plain Store on %s of a per-period accumulator (%s) that workers Add to concurrently: an iteration recorded between the read and this Store is erased", s.Field.Name(), strings.Join(s.classes, ","))
			case "Add", "Load", "Swap", "CompareAndSwap":
				r.OK(key, an.Pos(c, s.Call), "%s on hot accumulator field %s (classes %s)", s.Op, s.Field.Name(), strings.Join(s.classes, ","))
			default:
				r.Undecided(key, an.Pos(c, s.Call), "unknown atomic operation %s", s.Op)
			}
		}
		r.Floor("atomic operations on hot accumulating fields", n, 3)
	})

	rule(r, "C01.R4", "the value the drain removes from a per-period accumulator is the value merged into the lifetime totals: every hot accumulating field is removed by a Swap whose result is used, and no separate Load of it flows into an Add", func() {
		if len(hot) == 0 {
			r.Undecided("anchor", "-", "hot classes not resolved (R3)")
			return
		}
		swapped := map[string]bool{}
		for _, s := range sites {
			isHot := false
			for _, k := range s.classes {
				if hot[k] {
					isHot = true
				}
			}
			if !isHot || !accum[s.Field.Name()] {
				continue
			}
			key := "IterationDurations." + s.Field.Name() + "@" + core.FuncName(s.Fn) + "#" + s.Op
			switch s.Op {
			case "Swap":
				v, _ := s.Call.(ssa.Value)
				used := false
				if v != nil {
					for _, ref := range an.Referrers(v) {
						if ci, ok := ref.(ssa.CallInstruction); ok {
							t := an.Callee(ci)
							if t != nil && t.Pkg != nil && t.Pkg.Pkg.Path() == "sync/atomic" && (t.Name() == "Store" || t.Name() == "Add") {
								if fld := an.FieldOfAddr(ci.Common().Args[0]); fld != nil && fld.Name() == s.Field.Name() {
									used = true
								} else if fld != nil {
									r.Violation(key, an.Pos(c, ci), "drained %s is merged into field %s", s.Field.Name(), fld.Name())
								}
							}
						}
					}
				}
				if k, ok := s.Call.Common().Args[1].(*ssa.Const); !ok || k.Value == nil || k.Int64() != 0 {
					r.Violation(key, an.Pos(c, s.Call), "drain swaps in %s instead of 0", an.D().Of(s.Call.Common().Args[1]))
					continue
				}
				if used {
					swapped[s.Field.Name()] = true
					r.OK(key, an.Pos(c, s.Call), "Swap(0) result is stored/added into the same-named field of the drain destination")
				} else {
					r.Violation(key, an.Pos(c, s.Call), "result of the draining Swap on %s is discarded: the removed iterations never reach the lifetime totals", s.Field.Name())
				}
			case "Load":
				v, _ := s.Call.(ssa.Value)
				for _, ref := range an.Referrers(v) {
					if ci, ok := ref.(ssa.CallInstruction); ok {
						t := an.Callee(ci)
						if t != nil && t.Pkg != nil && t.Pkg.Pkg.Path() == "sync/atomic" && t.Name() == "Add" {
							// a merge method serving several (destination, source) pairs is judged pair by pair, at its call
							// sites: only a pair that adds the hot accumulator into something that outlives the call counts
							srcP, okS := an.Strip(accBase(s.Call.Common().Args[0])).(*ssa.Parameter)
							dstP, okD := an.Strip(accBase(ci.Common().Args[0])).(*ssa.Parameter)
							if okS && okD && srcP.Parent() == s.Fn && dstP.Parent() == s.Fn {
								sitesOfFn := an.CallSitesOf(c, s.Fn)
								bad := len(sitesOfFn) == 0
								for _, cs := range sitesOfFn {
									si, di := an.ParamIndex(srcP), an.ParamIndex(dstP)
									if si >= len(cs.Common().Args) || di >= len(cs.Common().Args) {
										bad = true
										continue
									}
									srcHot, dstKept := false, false
									for _, k := range an.InstanceClasses(c, cs.Common().Args[si], 4) {
										if hot[k] {
											srcHot = true
										}
									}
									for _, k := range an.InstanceClasses(c, cs.Common().Args[di], 4) {
										if k != "local" {
											dstKept = true
										}
									}
									if srcHot && dstKept {
										bad = true
									}
								}
								if !bad {
									r.OK(key, an.Pos(c, s.Call), "read into a local copy only (a read-only view); nothing that outlives the call is fed from this Load")
									continue
								}
							}
							r.Violation(key, an.Pos(c, s.Call), "lifetime totals are fed from a separate Load of the per-period accumulator field %s (classes %s), not from the value the drain removed", s.Field.Name(), strings.Join(s.classes, ","))
						}
					}
				}
			}
		}
		for f := range accum {
			if !swapped[f] {
				r.Violation("IterationDurations."+f+"#drain", "-", "no atomic Swap drains hot accumulating field %s", f)
			}
		}
		// the merge into the lifetime totals: an Add of an accumulating field fed from a Load of the same-named field
		// of another accumulator runs on every path of its function, or is skipped only when that other
		// accumulator's count is tested to be zero (nothing was drained)
		merges := 0
		for _, s := range sites {
			if s.Op != "Add" || !accum[s.Field.Name()] {
				continue
			}
			src, ok := an.Strip(s.Call.Common().Args[1]).(*ssa.Call)
			if !ok {
				continue
			}
			st := an.Callee(src)
			sf := an.FieldOfAddr(src.Call.Args[0])
			if st == nil || st.Name() != "Load" || sf == nil || sf.Name() != s.Field.Name() {
				continue
			}
			merges++
			key := "IterationDurations." + s.Field.Name() + "@" + core.FuncName(s.Fn) + "#merge-unconditional"
			tot, okT := an.Total(an.PathCount(s.Fn, func(x ssa.Instruction) an.Interval {
				if x == ssa.Instruction(s.Call) {
					return an.Interval{Lo: 1, Hi: 1}
				}
				return an.Interval{}
			}), false)
			if okT && tot.Lo == 1 && tot.Hi == 1 {
				r.OK(key, an.Pos(c, s.Call), "merged on every path")
				continue
			}
			onlyCount := true
			for _, g := range an.GuardsOf(s.Call.Block()) {
				okG := false
				if bo, isB := an.Strip(g.If.Cond).(*ssa.BinOp); isB {
					for _, side := range []ssa.Value{bo.X, bo.Y} {
						if ld, isC := an.Strip(side).(*ssa.Call); isC {
							if lt := an.Callee(ld); lt != nil && lt.Name() == "Load" {
								if f := an.FieldOfAddr(ld.Call.Args[0]); f != nil && f.Name() == durationRoles(c).count {
									okG = true
								}
							}
						}
					}
				}
				if !okG {
					onlyCount = false
				}
			}
			r.Check(onlyCount, key, an.Pos(c, s.Call), "skipped only when the drained count is zero", "the drained "+s.Field.Name()+" is merged into the lifetime totals only on some paths (under a condition other than an empty count): iterations that were drained are lost from the totals")
		}
		r.Floor("lifetime merges", merges, 2)
	})

	rule(r, "C01.R5", "the drain (non-reentrant: two concurrent drains could interleave their merges) is reachable only through call sites executing with one mutex held in write mode", func() {
		// drain functions: those containing a Swap on a hot class
		inSet := map[*ssa.Function]bool{}
		for _, s := range sites {
			if s.Op == "Swap" {
				inSet[s.Fn] = true
			}
		}
		if !r.Floor("drain functions", len(inSet), 1) {
			return
		}
		lockNames := map[string]bool{}
		work := keysFn(inSet)
		guarded := 0
		for len(work) > 0 {
			fn := work[0]
			work = work[1:]
			cs := an.CallSitesOf(c, fn)
			// … and where it runs because it was handed to a helper as a function value
			cs = append(cs, an.ParamCallSitesOf(c, fn)...)
			if len(cs) == 0 {
				r.Violation(core.FuncName(fn)+"#unlocked-entry", c.Pos(fn.Pos()), "%s reaches the drain and has no caller holding a write lock (it is an unlocked entry point to the collector)", core.FuncName(fn))
				continue
			}
			for _, call := range cs {
				caller := call.Parent()
				ls := an.NewLockState(caller)
				var w *an.Held
				for _, h := range ls.At(call) {
					if h.Mode == 'W' {
						hh := h
						w = &hh
					}
				}
				key := core.FuncName(caller) + "→" + core.FuncName(fn)
				if w != nil {
					guarded++
					lockNames[w.Field.Name()+" of "+ownerOfField(w.Field)] = true
					r.OK(key, an.Pos(c, call), "call executes with %s.%s held for writing", w.Base, w.Field.Name())
					continue
				}
				if _, isGo := call.(*ssa.Go); isGo {
					r.Violation(key, an.Pos(c, call), "collector started with `go` without a lock")
					continue
				}
				if !inSet[caller] {
					inSet[caller] = true
					work = append(work, caller)
				}
				r.Note(key, an.Pos(c, call), "no lock here; obligation moves to the callers of %s", core.FuncName(caller))
			}
		}
		r.Floor("lock-guarded collector entries", guarded, 2)
		if len(lockNames) > 1 {
			r.Violation("collector-lock", "-", "collector entries are guarded by different mutexes (%v): they do not exclude each other", keys(lockNames))
		}
	})

	rule(r, "C01.R6", "outcome routing: Stats.Record writes the success/fail/dropped state for the matching constant; Snapshot/Total feed each key from the matching state and drain every DurationStats field; metrics.Result(true) is FailedResult", func() {
		routingRules(c, r)
	})

	rule(r, "C01.R7", "in Run.Do the final totals are taken after run() returned, and the *Result returned is the one GetTotals was called on", func() {
		do, _ := runDo(c)
		loop, _ := runLoop(c)
		var runCall, totals ssa.CallInstruction
		body := do
		// the run loop may be called from a helper of Do (the tail of Do split off): order is judged where the call is
		for _, e := range an.FlatCalls(do, flatDepth, func(_ ssa.CallInstruction, t *ssa.Function) bool { return t == loop }) {
			body = e.Instr.Parent()
		}
		for _, call := range an.AllCalls(body) {
			t := an.Callee(call)
			if t == loop {
				runCall = call
			}
			isTotal := func(g *ssa.Function) bool { return isMethod(g, progressPkg, "Stats", "Total") }
			if t != nil && core.RelPkg(t) == "internal/run" && (an.ReachesCall(t, 0, isTotal) || an.PassesFunc(t, isTotal)) {
				totals = call
			}
		}
		if runCall == nil || totals == nil {
			r.Undecided("anchor", c.Pos(do.Pos()), "call of run() or of the totals collector not found in %s", core.FuncName(do))
			return
		}
		key := core.FuncName(do) + "#totals"
		if _, isDefer := totals.(*ssa.Defer); isDefer {
			r.OK(key+"-order", an.Pos(c, totals), "totals are deferred: taken at exit, after run()")
		} else {
			r.Check(an.Dominates(runCall, totals), key+"-order", an.Pos(c, totals), "GetTotals is dominated by the return of run()", "final totals are taken before run() returned: iterations finishing later are missing from the result")
		}
		recv := an.D().Of(totals.Common().Args[0])
		n := 0
		for _, ret := range an.Returns(do) {
			if len(ret.Results) == 0 {
				continue
			}
			if body == do && !an.Dominates(totals, ret) {
				continue
			}
			if body != do {
				// returns of Do that follow the helper which ran the loop and took the totals
				after := false
				for _, e := range an.FlatCalls(do, flatDepth, func(_ ssa.CallInstruction, t *ssa.Function) bool { return t == loop }) {
					if an.ReachableFrom(e.Root(), ret) {
						after = true
					}
				}
				if !after {
					continue
				}
			}
			n++
			got := an.D().Of(ret.Results[0])
			r.Check(got == recv, key+"-returned", an.Pos(c, ret), "returns "+got+", the result that was totalled", "returns "+got+" but totals were taken on "+recv)
		}
		r.Floor("returns after totals", n, 1)
	})

	rule(r, "C01.R16", "the figures the verdict and the summary read are the final totals: the function that takes the totals stores the unmodified result of Stats.Total in the result's snapshot exactly once on every path (no earlier state decides whether they are kept, nothing rewrites them on the way)", func() {
		totalsStoredFaithfully(c, r)
	})

	rule(r, "C01.R8", "the dropped counter is only incremented by the constant 1 and loaded", func() {
		n := 0
		for _, op := range an.AtomicOps(c.AllFuncs) {
			fa, ok := op.Call.Common().Args[0].(*ssa.FieldAddr)
			if !ok || !an.IsNamed(fa.X.Type(), progressPkg, "Stats") {
				continue
			}
			n++
			key := "Stats." + op.Field.Name() + "@" + core.FuncName(op.Fn) + "#" + op.Op
			switch op.Op {
			case "Load":
				r.OK(key, an.Pos(c, op.Call), "Load")
			case "Add":
				k, ok := op.Call.Common().Args[1].(*ssa.Const)
				if !ok && bulkAdd(c, op.Fn) {
					// the bulk form: every caller is a recorder of several drops handing on its count
					sites := an.CallSitesOf(c, op.Fn)
					allBulk := len(sites) > 0
					for _, cs := range sites {
						if cnt, _ := bulkDropRecorder(c, an.Outermost(cs.Parent())); cnt == nil {
							allBulk = false
						}
					}
					if allBulk {
						r.OK(key, an.Pos(c, op.Call), "Add(n) for the n drops a bulk recorder was given (every caller is one)")
						continue
					}
				}
				r.Check(ok && k.Value != nil && k.Uint64() == 1, key, an.Pos(c, op.Call), "Add(1)", "dropped counter changed by "+an.D().Of(op.Call.Common().Args[1])+" instead of 1")
			default:
				r.Violation(key, an.Pos(c, op.Call), "%s on the dropped counter: it must only grow by one per reported drop", op.Op)
			}
		}
		r.Floor("operations on Stats atomics", n, 2)
	})
}

// classesVia is InstanceClasses restricted to parameter bindings at call sites located in functions of
// the `within` set (so that a helper shared by workers and the collector is classified per caller).
func classesVia(c *core.Ctx, v ssa.Value, within map[*ssa.Function]bool, depth int) []string {
	set := map[string]bool{}
	var rec func(v ssa.Value, d int)
	rec = func(v ssa.Value, d int) {
		t := an.Terminal(v)
		switch x := t.(type) {
		case *ssa.FieldAddr:
			set[ownerNameOf(x.X.Type())+"."+an.FieldOfAddr(x).Name()] = true
		case *ssa.Alloc:
			set["local"] = true
		case *ssa.Parameter:
			if d <= 0 {
				return
			}
			fn := x.Parent()
			idx := -1
			for i, p := range fn.Params {
				if p == x {
					idx = i
				}
			}
			for _, call := range an.CallSitesOf(c, fn) {
				if !within[call.Parent()] {
					continue
				}
				if idx < len(call.Common().Args) {
					rec(call.Common().Args[idx], d-1)
				}
			}
		case *ssa.FreeVar:
			if b := an.FreeVarBinding(x); b != nil {
				rec(b, d)
			}
		}
	}
	rec(v, depth)
	return keys(set)
}

func ownerNameOf(t types.Type) string {
	if p, ok := t.(*types.Pointer); ok {
		t = p.Elem()
	}
	if n, ok := t.(*types.Named); ok {
		return n.Obj().Name()
	}
	return t.String()
}

func ownerOfField(f *types.Var) string {
	if f.Pkg() != nil {
		return f.Pkg().Name()
	}
	return "?"
}

func keys(m map[string]bool) []string {
	var l []string
	for k := range m {
		l = append(l, k)
	}
	sort.Strings(l)
	return l
}

func keysFn(m map[*ssa.Function]bool) []*ssa.Function {
	var l []*ssa.Function
	for k := range m {
		l = append(l, k)
	}
	sort.Slice(l, func(i, j int) bool { return l[i].String() < l[j].String() })
	return l
}

// routingRules implements C01.R6 (shared with C16.R4).
// statsState names the piece of progress.Stats an address denotes: a field ("failedIterationDurations"), or an
// element of an array-typed field selected by a constant index ("iterationDurations[1]").
func statsState(addr ssa.Value) (string, bool) {
	t := an.Terminal(addr)
	if ia, ok := t.(*ssa.IndexAddr); ok {
		k, isK := ia.Index.(*ssa.Const)
		fa, isFA := an.Terminal(ia.X).(*ssa.FieldAddr)
		if !isFA {
			fa, isFA = ia.X.(*ssa.FieldAddr)
		}
		if isK && k.Value != nil && isFA && an.IsNamed(fa.X.Type(), progressPkg, "Stats") {
			return an.FieldOfAddr(fa).Name() + "[" + k.Value.String() + "]", true
		}
		return "", false
	}
	if fa, ok := t.(*ssa.FieldAddr); ok && an.IsNamed(fa.X.Type(), progressPkg, "Stats") {
		return an.FieldOfAddr(fa).Name(), true
	}
	return "", false
}

func routingRules(c *core.Ctx, r *core.Report) {
	want := map[string]string{ // constant name -> substring the written state's field name must contain
		"SuccessResult": "successful",
		"FailedResult":  "failed",
		"DroppedResult": "dropped",
	}
	rec := c.MustFn("internal/progress", "Stats.Record")
	var resParam *ssa.Parameter
	for _, p := range rec.Params {
		if an.IsNamed(p.Type(), metricsPkg, "ResultType") {
			resParam = p
		}
	}
	if resParam == nil {
		r.Undecided("Stats.Record", c.Pos(rec.Pos()), "no ResultType parameter")
		return
	}
	valToName := map[string]string{}
	for name := range want {
		valToName[resultConst(c, name)] = name
	}
	// case blocks: `result == K` tests
	type caseInfo struct {
		name  string
		block *ssa.BasicBlock
	}
	var cases []caseInfo
	an.Instrs(rec, func(in ssa.Instruction) {
		bo, ok := in.(*ssa.BinOp)
		if !ok || bo.Op != token.EQL {
			return
		}
		var k *ssa.Const
		if bo.X == ssa.Value(resParam) {
			k, _ = bo.Y.(*ssa.Const)
		} else if bo.Y == ssa.Value(resParam) {
			k, _ = bo.X.(*ssa.Const)
		}
		if k == nil || k.Value == nil {
			return
		}
		name := valToName[constant.StringVal(k.Value)]
		for _, ref := range an.Referrers(bo) {
			if iff, ok := ref.(*ssa.If); ok {
				cases = append(cases, caseInfo{name, iff.Block().Succs[0]})
			}
		}
	})
	found := map[string]bool{}
	stateOwner, stateOf := map[string]string{}, map[string]string{}
	for _, cs := range cases {
		if cs.name == "" {
			continue
		}
		found[cs.name] = true
		// state fields of Stats touched in blocks dominated by the case block and by no other case block
		touched := map[string]ssa.Instruction{}
		for _, b := range rec.Blocks {
			if !(b == cs.block || cs.block.Dominates(b)) {
				continue
			}
			other := false
			for _, o := range cases {
				if o.block != cs.block && (o.block == b || o.block.Dominates(b)) && cs.block.Dominates(o.block) {
					other = true
				}
			}
			if other {
				continue
			}
			for _, in := range b.Instrs {
				ci, ok := in.(ssa.CallInstruction)
				if !ok || len(ci.Common().Args) == 0 {
					continue
				}
				if st, ok := statsState(ci.Common().Args[0]); ok {
					touched[st] = in
				}
			}
		}
		key := "Stats.Record#case-" + cs.name
		if len(touched) != 1 {
			r.Violation(key, c.Pos(cs.block.Instrs[0].Pos()), "case %s writes %d state fields (%v), expected exactly one", cs.name, len(touched), mapKeys(touched))
			continue
		}
		for f, in := range touched {
			// the table Record → state: one state per outcome, no state shared by two outcomes; Snapshot/Total below must
			// read the same table
			if prev, dup := stateOwner[f]; dup && prev != cs.name {
				r.Violation(key, an.Pos(c, in), "case %s records into %s, the state that case %s also records into: the two outcomes are merged", cs.name, f, prev)
				continue
			}
			stateOwner[f] = cs.name
			stateOf[cs.name] = f
			r.OK(key, an.Pos(c, in), "case %s records into %s", cs.name, f)
		}
	}
	for name := range want {
		if !found[name] {
			r.Violation("Stats.Record#case-"+name, c.Pos(rec.Pos()), "no branch of Stats.Record handles %s", name)
		}
	}

	// metrics.Result
	res := c.MustFn("internal/metrics", "Result")
	// what Result returns when its bool parameter is true / false, read along every path (the result may be merged
	// before a common return)
	if paths, err := an.DecisionPaths(res, 64); err != nil || len(res.Params) == 0 {
		r.Undecided("metrics.Result", c.Pos(res.Pos()), "shape of metrics.Result not recognised")
	} else {
		byVal := map[bool]map[string]bool{true: {}, false: {}}
		for _, p := range paths {
			if p.Ret == nil || len(p.Ret.Results) != 1 {
				continue
			}
			got := "?"
			if k, ok := an.Strip(p.OnPath(p.Ret.Results[0])).(*ssa.Const); ok && k.Value != nil && k.Value.Kind() == constant.String {
				got = constant.StringVal(k.Value)
			}
			decided := false
			for _, l := range p.Lits {
				if an.Strip(l.Cond) == ssa.Value(res.Params[0]) {
					byVal[l.Val][got] = true
					decided = true
				}
			}
			if !decided {
				byVal[true][got], byVal[false][got] = true, true
			}
		}
		t, f := strings.Join(keys(byVal[true]), "|"), strings.Join(keys(byVal[false]), "|")
		r.Check(t == resultConst(c, "FailedResult") && f == resultConst(c, "SuccessResult"), "metrics.Result", c.Pos(res.Pos()), "Result(true) is FailedResult and Result(false) is SuccessResult", "metrics.Result maps failed=true to "+t+" and failed=false to "+f)
	}

	// Snapshot / Total literals
	drain := func(f *ssa.Function) bool { return isMethod(f, progressPkg, "DurationStats", "CollectLifetime") }
	for _, name := range []string{"Stats.Snapshot", "Stats.Total"} {
		fn := c.MustFn("internal/progress", name)
		// every DurationStats field drained exactly once on every path
		st := c.Named("internal/progress", "Stats").Underlying().(*types.Struct)
		var states []string
		for i := 0; i < st.NumFields(); i++ {
			fld := st.Field(i)
			if an.IsNamed(fld.Type(), progressPkg, "DurationStats") {
				states = append(states, fld.Name())
			}
			if arr, isArr := fld.Type().Underlying().(*types.Array); isArr && an.IsNamed(arr.Elem(), progressPkg, "DurationStats") {
				for k := int64(0); k < arr.Len(); k++ {
					states = append(states, sprintf("%s[%d]", fld.Name(), k))
				}
			}
		}
		for _, state := range states {
			state := state
			exits := an.PathCount(fn, an.CallWeight(func(call ssa.CallInstruction, t *ssa.Function) bool {
				if t == nil || !drain(t) {
					return false
				}
				got, ok := statsState(call.Common().Args[0])
				return ok && got == state
			}, 1))
			tot, ok := an.Total(exits, false)
			r.Check(ok && tot.Lo == 1 && tot.Hi == 1, name+"#drain-"+state, c.Pos(fn.Pos()), name+" drains "+state+" exactly once", name+" drains "+state+" "+tot.String()+" times: iterations still in its period accumulator are missing from (or merged twice into) the totals")
		}
		for _, ret := range an.Returns(fn) {
			lit := an.StructLiteralOf(ret.Results[0])
			if lit == nil {
				r.Undecided(name+"#literal", an.Pos(c, ret), "returned Snapshot is not a struct literal")
				continue
			}
			fields := an.LiteralFields(lit)
			for k, v := range fields {
				d := an.D().Of(v)
				lk := strings.ToLower(k)
				key := name + "#" + k
				// the Stats field the value is read from
				srcField := func(v ssa.Value) (string, int, bool) {
					switch x := an.Strip(v).(type) {
					case *ssa.Extract:
						call, ok := x.Tuple.(*ssa.Call)
						if !ok || !drain(an.Callee(call)) {
							return "", 0, false
						}
						st, ok := statsState(call.Call.Args[0])
						if !ok {
							return "", 0, false
						}
						return st, x.Index, true
					case *ssa.Call:
						if t := an.Callee(x); t != nil && t.Pkg != nil && t.Pkg.Pkg.Path() == "sync/atomic" && t.Name() == "Load" {
							if fa, ok := x.Call.Args[0].(*ssa.FieldAddr); ok && an.IsNamed(fa.X.Type(), progressPkg, "Stats") {
								return an.FieldOfAddr(fa).Name(), -1, true
							}
						}
					}
					return "", 0, false
				}
				switch {
				case strings.Contains(lk, "successful") || strings.Contains(lk, "failed"):
					outcome := "SuccessResult"
					if strings.Contains(lk, "failed") {
						outcome = "FailedResult"
					}
					wantState := stateOf[outcome]
					wantIdx := 1
					if strings.Contains(lk, "forperiod") {
						wantIdx = 0
					}
					f, idx, ok := srcField(v)
					ok = ok && wantState != "" && f == wantState && idx == wantIdx
					r.Check(ok, key, an.Pos(c, ret), k+" ← "+d, k+" is fed from "+d+", expected the "+map[int]string{0: "period", 1: "lifetime"}[wantIdx]+" result of draining "+wantState+" (the state "+outcome+" is recorded into)")
				case strings.Contains(lk, "dropped"):
					f, idx, ok := srcField(v)
					r.Check(ok && idx == -1 && f == stateOf["DroppedResult"] && f != "", key, an.Pos(c, ret), k+" ← "+d, k+" is fed from "+d+", expected a Load of "+stateOf["DroppedResult"]+" (the counter DroppedResult is recorded into)")
				}
			}
			for _, must := range []string{"SuccessfulIterationDurations", "FailedIterationDurations", "DroppedIterationCount"} {
				if _, ok := fields[must]; !ok {
					r.Violation(name+"#"+must, an.Pos(c, ret), "%s does not set %s", name, must)
				}
			}
		}
	}
	// the collector's results: #0 period (drain destination), #1 lifetime
	_, life := progressRoles(c)
	cl := c.MustFn("internal/progress", "DurationStats.CollectLifetime")
	for _, ret := range an.Returns(cl) {
		if len(ret.Results) != 2 {
			r.Undecided("CollectLifetime#results", an.Pos(c, ret), "expected two results")
			continue
		}
		d0, d1 := an.D().Of(ret.Results[0]), an.D().Of(ret.Results[1])
		r.Check(strings.Contains(d1, "Snapshot($recv."+fieldOfClass(life)+")"), "CollectLifetime#lifetime-result", an.Pos(c, ret), "#1 ← "+d1, "second result (lifetime figures) is "+d1)
		r.Check(strings.Contains(d0, "Snapshot(") && !strings.Contains(d0, "$recv."+fieldOfClass(life)), "CollectLifetime#period-result", an.Pos(c, ret), "#0 ← "+d0, "first result (period figures) is "+d0)
	}
}

func mapKeys(m map[string]ssa.Instruction) []string {
	var l []string
	for k := range m {
		l = append(l, k)
	}
	sort.Strings(l)
	return l
}

func itoa(i int) string { return sprintf("%d", i) }

// dropRecorderFns finds, by role, the minimal functions of internal/workers whose recording events carry the
// DroppedResult constant; recording calls elsewhere (outside the runner) must forward their own parameter.
func dropRecorderFns(c *core.Ctx, r *core.Report, runner *ssa.Function) []*ssa.Function {
	dropped := resultConst(c, "DroppedResult")
	isDropped := func(v ssa.Value) bool {
		k, ok := an.Strip(v).(*ssa.Const)
		return ok && k.Value != nil && k.Value.Kind() == constant.String && constant.StringVal(k.Value) == dropped
	}
	var cands []*ssa.Function
	for _, fn := range c.AllFuncs {
		if core.RelPkg(fn) != "internal/workers" || fn.Parent() != nil || fn == runner {
			continue
		}
		var evs []recEvent
		for _, e := range recordEvents(fn) {
			if e.Kind != "setup" {
				evs = append(evs, e)
			}
		}
		if len(evs) == 0 {
			continue
		}
		all := true
		for _, e := range evs {
			if !isDropped(e.Result) {
				all = false
			}
		}
		if all {
			cands = append(cands, fn)
			continue
		}
		// not a drop recorder: every recording call in its own frame must pass on its own parameter (a wrapper)
		if r != nil {
			for _, e := range evs {
				if e.Ev.Frame.Parent != nil || isDropped(e.Result) {
					continue
				}
				if _, isParam := an.Strip(e.Result).(*ssa.Parameter); isParam {
					continue
				}
				if rc, isCall := an.Strip(e.Result).(*ssa.Call); isCall && an.IsFunc(an.Callee(rc), metricsPkg, "Result") {
					if _, isParam := an.Strip(rc.Call.Args[0]).(*ssa.Parameter); isParam {
						continue // a wrapper taking the failed flag
					}
				}
				// functions that merely reach the runner are fine (their events are the runner's)
				if len(an.FlatCalls(fn, flatDepth, func(_ ssa.CallInstruction, t *ssa.Function) bool { return t == runner })) > 0 {
					continue
				}
				r.Violation(core.FuncName(fn)+"#record", an.Pos(c, e.Ev.Instr), "recording call outside the iteration runner whose outcome is neither the DroppedResult constant nor the function's own parameter (%s)", an.D().Of(e.Result))
			}
		}
	}
	// minimal ones
	var out []*ssa.Function
	for _, f := range cands {
		callsOther := false
		for _, g := range cands {
			if f != g && len(an.FlatCalls(f, flatDepth, func(_ ssa.CallInstruction, t *ssa.Function) bool { return t == g })) > 0 {
				callsOther = true
			}
		}
		if !callsOther {
			out = append(out, f)
		}
	}
	return out
}

// progressRoles names, by role, the two accumulators of a DurationStats: the per-period one (written from the
// iteration runner) and the lifetime one (the struct field that receives values read from another instance).
func progressRoles(c *core.Ctx) (hot, lifetime string) {
	runner, _, _ := iterationRunner(c)
	reach := map[*ssa.Function]bool{}
	var walk func(f *ssa.Function, d int)
	walk = func(f *ssa.Function, d int) {
		if f == nil || reach[f] || d < 0 {
			return
		}
		reach[f] = true
		for _, call := range an.AllCalls(f) {
			if t := an.Callee(call); t != nil && core.InModule(t) {
				walk(t, d-1)
			}
		}
	}
	walk(runner, 6)
	sites := durationAtomics(c)
	for _, s := range sites {
		if s.Op == "Add" && reach[s.Fn] {
			for _, k := range classesVia(c, accBase(s.Call.Common().Args[0]), reach, 4) {
				if k != "local" {
					hot = k
				}
			}
		}
	}
	for _, s := range sites {
		if !(s.Op == "Add" || s.Op == "Store") || len(s.Call.Common().Args) < 2 {
			continue
		}
		src, ok := stripAllocs(s.Call.Common().Args[1]).(*ssa.Call)
		if !ok {
			continue
		}
		t := an.Callee(src)
		if t == nil || t.Pkg == nil || t.Pkg.Pkg.Path() != "sync/atomic" || !(t.Name() == "Load" || t.Name() == "Swap") {
			continue
		}
		if an.D().Of(accBase(src.Call.Args[0])) == an.D().Of(accBase(s.Call.Common().Args[0])) {
			continue // same instance (check-then-update), not a merge
		}
		for _, k := range s.classes {
			if k != hot && k != "local" && !strings.HasPrefix(k, "?") {
				lifetime = k
			}
		}
	}
	if hot == "" || lifetime == "" {
		panic(core.AnchorError{What: "per-period / lifetime accumulators of progress.DurationStats (hot=" + hot + ", lifetime=" + lifetime + ")"})
	}
	return
}

func fieldOfClass(class string) string {
	if i := strings.LastIndex(class, "."); i >= 0 {
		return class[i+1:]
	}
	return class
}

// ---- recording several drops in one call ----

// countedLoopBound: the call sits in a loop that makes one pass per unit of a bound — `for range n`, `for i := 0; i < n;
// i++` — with exactly one execution of the call per pass; the bound value is returned (conversions stripped).
func countedLoopBound(call ssa.CallInstruction) (ssa.Value, bool) {
	loop, head := an.NaturalLoopOf(call.Block())
	if loop == nil || an.OnCycleAvoiding(call, head) {
		return nil, false
	}
	// no condition inside the pass decides whether the call runs
	for _, g := range an.GuardsOf(call.Block()) {
		if loop[g.If.Block()] {
			exits := false
			for _, s := range g.If.Block().Succs {
				if !loop[s] {
					exits = true
				}
			}
			if !exits {
				return nil, false
			}
		}
	}
	var bound ssa.Value
	ok := true
	see := func(cond ssa.Value) {
		bo, isBin := cond.(*ssa.BinOp)
		if !isBin || bo.Op != token.LSS {
			ok = false
			return
		}
		// counter (or counter+1, or the constant 0 of the entry test) < bound
		switch x := bo.X.(type) {
		case *ssa.Phi:
		case *ssa.BinOp:
			if x.Op != token.ADD {
				ok = false
			}
		case *ssa.Const:
			if x.Value == nil || x.Int64() != 0 {
				ok = false
			}
		default:
			ok = false
		}
		b := bo.Y
		for {
			if cv, isCv := b.(*ssa.Convert); isCv {
				b = cv.X
				continue
			}
			break
		}
		if bound == nil {
			bound = b
		} else if bound != b {
			ok = false
		}
	}
	for b := range loop {
		if iff, isIf := b.Instrs[len(b.Instrs)-1].(*ssa.If); isIf && loop[b.Succs[0]] != loop[b.Succs[1]] {
			see(iff.Cond)
		}
	}
	for _, p := range head.Preds {
		if loop[p] {
			continue
		}
		if iff, isIf := p.Instrs[len(p.Instrs)-1].(*ssa.If); isIf {
			if bo, isBin := iff.Cond.(*ssa.BinOp); isBin && bo.Op == token.LSS {
				if k, isK := bo.X.(*ssa.Const); isK && k.Value != nil && k.Int64() == 0 {
					see(iff.Cond)
				}
			}
		}
	}
	return bound, ok && bound != nil
}

// bulkAdd: f's body adds its own (single, unsigned integer) parameter to the dropped counter, once, unconditionally.
func bulkAdd(c *core.Ctx, f *ssa.Function) bool {
	if f == nil || f.Blocks == nil || len(f.Blocks) != 1 || f.Signature.Params().Len() != 1 {
		return false
	}
	n := 0
	for _, op := range an.AtomicOps([]*ssa.Function{f}) {
		fa, ok := op.Call.Common().Args[0].(*ssa.FieldAddr)
		if !ok || !an.IsNamed(fa.X.Type(), progressPkg, "Stats") || op.Op != "Add" {
			return false
		}
		if an.Strip(op.Call.Common().Args[1]) != ssa.Value(f.Params[len(f.Params)-1]) {
			return false
		}
		n++
	}
	return n == 1
}

// bulkDropRecorder: fn(n) records n dropped iterations in one call — the metric sample once per pass of a loop bounded
// by n, and the progress count either likewise or by one call of a function that adds n to the dropped counter; with
// n ≤ 0 nothing is recorded. The count parameter is returned.
func bulkDropRecorder(c *core.Ctx, fn *ssa.Function) (*ssa.Parameter, string) {
	var cnt *ssa.Parameter
	for _, p := range fn.Params {
		if isIntType(p.Type()) {
			if cnt != nil {
				return nil, "more than one integer parameter"
			}
			cnt = p
		}
	}
	if cnt == nil {
		return nil, "no count parameter"
	}
	isCnt := func(v ssa.Value) bool {
		for {
			if cv, ok := v.(*ssa.Convert); ok {
				v = cv.X
				continue
			}
			break
		}
		return v == ssa.Value(cnt)
	}
	nMetric, nProgress := 0, 0
	for _, call := range an.AllCalls(fn) {
		t := an.Callee(call)
		switch {
		case t != nil && (isMetricsIter(t) || isStatsRecord(t)):
			b, ok := countedLoopBound(call)
			if !ok || !isCnt(b) {
				return nil, "a record that is not made once per pass of a loop bounded by the count"
			}
			if isMetricsIter(t) {
				nMetric++
			} else {
				nProgress++
			}
		case t != nil && bulkAdd(c, t):
			if an.InLoop(call) || !isCnt(call.Common().Args[len(call.Common().Args)-1]) {
				return nil, "the bulk count handed to " + core.FuncName(t) + " is not the count parameter, or the call repeats"
			}
			// on every path where anything is recorded
			nProgress++
		case t != nil && core.InModule(t) && len(an.FlatCalls(t, flatDepth, func(_ ssa.CallInstruction, g *ssa.Function) bool {
			return g != nil && (isMetricsIter(g) || isStatsRecord(g))
		})) > 0:
			// a per-drop recorder called once per pass
			b, ok := countedLoopBound(call)
			if !ok || !isCnt(b) {
				return nil, "a per-drop recorder that is not called once per pass of a loop bounded by the count"
			}
			nMetric++
			nProgress++
		}
	}
	if nMetric != 1 || nProgress != 1 {
		return nil, sprintf("%d metric and %d progress recordings (expected one of each)", nMetric, nProgress)
	}
	return cnt, ""
}

// totalsStoredFaithfully implements C01.R16 (imported by C08 and C19): in every method of run.Result that takes the
// final totals (calls Stats.Total, through helpers), the snapshot field of the result is stored exactly once on every
// path, with the value Stats.Total returned — not with a copy edited on the way, and not under a condition on earlier
// state (a "final" flag set by an earlier call would keep totals taken before the last iterations finished).
func totalsStoredFaithfully(c *core.Ctx, r *core.Report) {
	isTotal := func(_ ssa.CallInstruction, g *ssa.Function) bool { return isMethod(g, progressPkg, "Stats", "Total") }
	resT, _ := c.Named("internal/run", "Result").Underlying().(*types.Struct)
	if resT == nil {
		r.Undecided("anchor", "-", "internal/run.Result is not a struct")
		return
	}
	var snaps []*types.Var
	for i := 0; i < resT.NumFields(); i++ {
		if an.IsNamed(resT.Field(i).Type(), progressPkg, "Snapshot") {
			snaps = append(snaps, resT.Field(i))
		}
	}
	isSnap := func(f *types.Var) bool {
		for _, s := range snaps {
			if f != nil && an.SameField(f, s) {
				return true
			}
		}
		return false
	}
	isSnapStore := func(in ssa.Instruction) bool {
		st, ok := in.(*ssa.Store)
		return ok && isSnap(an.FieldOfAddr(st.Addr))
	}
	// the functions taking the totals: methods of Result reaching Stats.Total that no other such method calls
	var takers []*ssa.Function
	for _, fn := range c.AllFuncs {
		if core.RelPkg(fn) != "internal/run" || fn.Parent() != nil || !isMethodOf(fn, core.ModPath+"/internal/run", "Result") {
			continue
		}
		if len(an.FlatCalls(fn, flatDepth, isTotal)) > 0 || an.PassesFunc(fn, func(g *ssa.Function) bool { return isTotal(nil, g) }) {
			takers = append(takers, fn)
		}
	}
	inner := map[*ssa.Function]bool{}
	for _, a := range takers {
		for _, b := range takers {
			if a != b && len(an.FlatCalls(a, flatDepth, func(_ ssa.CallInstruction, t *ssa.Function) bool { return t == b })) > 0 {
				inner[b] = true
			}
		}
	}
	n := 0
	for _, fn := range takers {
		if inner[fn] {
			continue
		}
		n++
		key := core.FuncName(fn)
		tot, ok := an.Total(an.PathCount(fn, an.InstrWeight(isSnapStore, flatDepth)), false)
		r.Check(ok && tot.Lo == 1 && tot.Hi == 1, key+"#stored-once", c.Pos(fn.Pos()), "the totals are stored in the result's snapshot exactly once on every path", "the totals are stored in the result's snapshot "+tot.String()+" times per call: on some path the totals just taken are not what the verdict and the summary will read")
		an.Flatten(fn, flatDepth, nil, func(e an.Event) {
			st, isSt := e.Instr.(*ssa.Store)
			if !isSt || !isSnap(an.FieldOfAddr(st.Addr)) {
				return
			}
			v := an.EventFV(e, st.Val).Resolve(func(f *ssa.Function) bool { return core.RelPkg(f) != "internal/run" })
			call, isCall := v.V.(*ssa.Call)
			okV := isCall && isTotal(call, an.Callee(call))
			if isCall && !okV && an.Callee(call) == nil && v.F != nil && v.F.Site != nil {
				// `setSnapshot(stats.Total)`: the helper calls the function value it was handed
				if p, isP := an.Strip(call.Call.Value).(*ssa.Parameter); isP && p.Parent() == v.F.Fn {
					if idx := an.ParamIndex(p); idx >= 0 && idx < len(v.F.Site.Common().Args) {
						if g := an.FuncValueOf(v.F.Site.Common().Args[idx]); g != nil && isTotal(nil, g) {
							okV = true
						}
					}
				}
			}
			r.Check(okV, key+"#stored-unmodified", an.Pos(c, st), "the value stored is what Stats.Total returned", "the snapshot is stored with "+an.D().Of(st.Val)+", not with the unmodified result of Stats.Total: the verdict and the summary are computed from figures other than the recorded totals")
		})
	}
	r.Floor("functions taking the final totals", n, 1)
}
