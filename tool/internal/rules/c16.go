package rules

import (
	"go/constant"
	"go/token"
	"go/types"
	"strings"

	"golang.org/x/tools/go/ssa"

	"f1verif/internal/an"
	"f1verif/internal/core"
)

func init() { register("C16", c16) }

// sliceLitPlus decomposes `append([]T{e0,e1,…}, tail...)` into its literal elements and the tail value.
func sliceLitPlus(v ssa.Value) (elems []ssa.Value, tail ssa.Value, ok bool) {
	call, isCall := v.(*ssa.Call)
	if !isCall || !an.IsBuiltinCall(call, "append") || len(call.Call.Args) != 2 {
		return nil, nil, false
	}
	sl, isSl := call.Call.Args[0].(*ssa.Slice)
	if !isSl {
		return nil, nil, false
	}
	al, isAl := sl.X.(*ssa.Alloc)
	if !isAl {
		return nil, nil, false
	}
	arr, isArr := al.Type().(*types.Pointer).Elem().Underlying().(*types.Array)
	if !isArr {
		return nil, nil, false
	}
	elems = make([]ssa.Value, arr.Len())
	for _, ref := range an.Referrers(al) {
		ia, isIA := ref.(*ssa.IndexAddr)
		if !isIA {
			continue
		}
		k, isK := ia.Index.(*ssa.Const)
		if !isK {
			return nil, nil, false
		}
		for _, st := range an.StoresTo(ia) {
			elems[k.Int64()] = st.Val
		}
	}
	for _, e := range elems {
		if e == nil {
			return nil, nil, false
		}
	}
	return elems, call.Call.Args[1], true
}

// varargElems lists the values stored into the array behind a `[]T{…}` / variadic-argument slice.
func varargElems(v ssa.Value) []ssa.Value {
	sl, ok := v.(*ssa.Slice)
	if !ok {
		return nil
	}
	al, ok := sl.X.(*ssa.Alloc)
	if !ok {
		return nil
	}
	var out []ssa.Value
	for _, ref := range an.Referrers(al) {
		if ia, ok := ref.(*ssa.IndexAddr); ok {
			for _, st := range an.StoresTo(ia) {
				out = append(out, st.Val)
			}
		}
	}
	return out
}

// sliceLitPlusFV is sliceLitPlus through helpers: the value may be produced by a helper that appends the
// static tail to its variadic parameter.
func sliceLitPlusFV(x an.FV, stop func(*ssa.Function) bool) (elems []an.FV, tail an.FV, ok bool) {
	x = x.Resolve(stop)
	if phi, isPhi := x.V.(*ssa.Phi); isPhi && len(phi.Edges) == 2 {
		// `l := []string{…}; if len(tail) > 0 { l = append(l, tail...) }`: appending nothing is skipped
		for i, e := range phi.Edges {
			ap, isAp := e.(*ssa.Call)
			if !isAp || !an.IsBuiltinCall(ap, "append") || len(ap.Call.Args) != 2 || ap.Call.Args[0] != phi.Edges[1-i] {
				continue
			}
			tf, towner := an.TerminalField(ap.Call.Args[1])
			onlyWhenNonEmpty := false
			for _, g := range an.GuardsOf(ap.Block()) {
				bo, isBin := g.Cond.(*ssa.BinOp)
				if !isBin {
					continue
				}
				var subj ssa.Value
				nonEmpty := false
				if ln, isLen := an.Strip(bo.X).(*ssa.Call); isLen && an.IsBuiltinCall(ln, "len") {
					k, isK := constInt(bo.Y)
					subj = ln.Call.Args[0]
					switch {
					case !isK:
					case bo.Op == token.GTR && k == 0, bo.Op == token.NEQ && k == 0, bo.Op == token.GEQ && k == 1:
						nonEmpty = g.Polarity
					case bo.Op == token.EQL && k == 0, bo.Op == token.LSS && k == 1, bo.Op == token.LEQ && k == 0:
						nonEmpty = !g.Polarity
					}
				} else if isNilConst(bo.Y) {
					subj = bo.X
					nonEmpty = (bo.Op == token.NEQ) == g.Polarity
				}
				if subj == nil || !nonEmpty {
					continue
				}
				sf, sowner := an.TerminalField(subj)
				if tf != nil && sf != nil && an.SameField(tf, sf) && types.Identical(towner, sowner) {
					onlyWhenNonEmpty = true
				}
			}
			// the other edge comes straight from the test (nothing else assigned in between)
			if onlyWhenNonEmpty && len(an.GuardsOf(ap.Block())) == len(an.GuardsOf(phi.Block()))+1 {
				x = an.FV{V: ap, F: x.F}
			}
		}
	}
	call, isCall := x.V.(*ssa.Call)
	if !isCall || !an.IsBuiltinCall(call, "append") || len(call.Call.Args) != 2 {
		return nil, an.FV{}, false
	}
	base := an.FV{V: call.Call.Args[0], F: x.F}.Resolve(stop)
	if inner, isInner := base.V.(*ssa.Call); isInner && an.IsBuiltinCall(inner, "append") && len(inner.Call.Args) == 2 {
		// `l := make([]string, 0, n); l = append(l, a, b, c); l = append(l, tail...)`: the fixed values appended to an
		// empty list
		b0 := an.FV{V: inner.Call.Args[0], F: base.F}.Resolve(stop)
		empty := false
		switch y := an.Strip(b0.V).(type) {
		case *ssa.MakeSlice:
			k, isK := y.Len.(*ssa.Const)
			empty = isK && k.Value != nil && k.Int64() == 0
		case *ssa.Const:
			empty = y.IsNil()
		}
		if empty {
			base = an.FV{V: inner.Call.Args[1], F: base.F}.Resolve(stop)
		}
	}
	sl, isSl := base.V.(*ssa.Slice)
	if !isSl {
		return nil, an.FV{}, false
	}
	al, isAl := sl.X.(*ssa.Alloc)
	if !isAl {
		return nil, an.FV{}, false
	}
	arr, isArr := al.Type().(*types.Pointer).Elem().Underlying().(*types.Array)
	if !isArr {
		return nil, an.FV{}, false
	}
	elems = make([]an.FV, arr.Len())
	for _, ref := range an.Referrers(al) {
		ia, isIA := ref.(*ssa.IndexAddr)
		if !isIA {
			continue
		}
		k, isK := ia.Index.(*ssa.Const)
		if !isK {
			return nil, an.FV{}, false
		}
		for _, st := range an.StoresTo(ia) {
			elems[k.Int64()] = an.FV{V: st.Val, F: base.F}
		}
	}
	for _, e := range elems {
		if e.V == nil {
			return nil, an.FV{}, false
		}
	}
	return elems, an.FV{V: call.Call.Args[1], F: x.F}.Resolve(stop), true
}

// valuesFollowSortedKeys: fn(m) returns m[key] for key ranging over sortedKeys(m), in that order — either
// appended in loop order or stored at the key's own index.
func valuesFollowSortedKeys(fn *ssa.Function, sortedKeysFns map[*ssa.Function]bool) (bool, string) {
	if len(fn.Params) != 1 {
		return false, "computed by a function of a different shape"
	}
	return valuesFollowIn(fn, fn.Params[0], sortedKeysFns, func(v ssa.Value) bool {
		for _, ret := range an.Returns(fn) {
			if an.Strip(ret.Results[0]) == an.Strip(v) || feedsValue(v, ret.Results[0]) {
				return true
			}
		}
		return false
	})
}

// feedsValue: v reaches target through phis / appends only.
func feedsValue(v, target ssa.Value) bool {
	seen := map[ssa.Value]bool{}
	var up func(x ssa.Value) bool
	up = func(x ssa.Value) bool {
		x = an.Strip(x)
		if x == an.Strip(v) {
			return true
		}
		if seen[x] {
			return false
		}
		seen[x] = true
		switch y := x.(type) {
		case *ssa.Phi:
			for _, e := range y.Edges {
				if up(e) {
					return true
				}
			}
		case *ssa.Call:
			if an.IsBuiltinCall(y, "append") {
				return up(y.Call.Args[0])
			}
		}
		return false
	}
	return up(target)
}

// valuesFollowIn: inside fn, a slice is filled with m[key] for key ranging over sortedKeys(m), in that order —
// appended in loop order or stored at the key's own index — and that slice is the result (isResult).
func valuesFollowIn(fn *ssa.Function, m ssa.Value, sortedKeysFns map[*ssa.Function]bool, isResult func(ssa.Value) bool) (bool, string) {
	found := false
	var why string
	an.Instrs(fn, func(in ssa.Instruction) {
		lk, ok := in.(*ssa.Lookup)
		if !ok || an.Strip(lk.X) != m {
			return
		}
		ia, ok := an.Strip(lk.Index).(*ssa.IndexAddr)
		if !ok {
			why = "looked up with " + an.D().Of(lk.Index) + ", not with an element of the sorted key list"
			return
		}
		kc, ok := an.Strip(ia.X).(*ssa.Call)
		if !ok || !sortedKeysFns[an.Callee(kc)] || an.Strip(kc.Call.Args[0]) != m {
			why = "looked up with elements of " + an.D().Of(ia.X) + ", not of the sorted key list of the same map"
			return
		}
		// the value looked up: the lookup itself, or the first half of its comma-ok form (whose second half is always
		// true here: the key was taken from the key list of the same map)
		uses := an.Referrers(lk)
		var present ssa.Value
		if lk.CommaOk {
			uses = nil
			for _, ref := range an.Referrers(lk) {
				if ex, isEx := ref.(*ssa.Extract); isEx && ex.Index == 0 {
					uses = append(uses, an.Referrers(ex)...)
				} else if isEx {
					present = ex
				}
			}
		}
		for _, ref := range uses {
			st, ok := ref.(*ssa.Store)
			if !ok {
				continue
			}
			dst, ok := st.Addr.(*ssa.IndexAddr)
			if !ok {
				continue
			}
			if al, isAl := dst.X.(*ssa.Alloc); isAl {
				// the variadic array of an append in loop order
				for _, r2 := range an.Referrers(al) {
					if sl, ok := r2.(*ssa.Slice); ok {
						for _, r3 := range an.Referrers(sl) {
							if call, ok := r3.(*ssa.Call); ok && an.IsBuiltinCall(call, "append") && isResult(call) {
								// every key's value is collected: within one pass of the loop nothing but the lookup's own
								// presence flag decides whether the append runs
								loop, _ := an.NaturalLoopOf(call.Block())
								skipped := false
								for _, g := range an.GuardsOf(call.Block()) {
									if loop == nil || !loop[g.If.Block()] || isLoopTest(g.If, loop) {
										continue
									}
									if present == nil || an.Strip(g.Cond) != present {
										skipped = true
									}
								}
								if skipped {
									why = "collected only under a further condition: some names are left without their value"
								} else {
									found = true
								}
							}
						}
					}
				}
				continue
			}
			// values[i] = m[keys[i]] with the same i
			if dst.Index == ia.Index {
				if isResult(dst.X) {
					found = true
				}
			} else {
				why = "stored at index " + an.D().Of(dst.Index) + " while the key is at index " + an.D().Of(ia.Index)
			}
		}
	})
	if found {
		return true, ""
	}
	if why == "" {
		why = "not collected as map[key] over the sorted key list"
	}
	return false, why
}

// isLoopTest: the branch decides between another pass of the loop and leaving it.
func isLoopTest(iff *ssa.If, loop map[*ssa.BasicBlock]bool) bool {
	for _, s := range iff.Block().Succs {
		if !loop[s] {
			return true
		}
	}
	return false
}

func c16(c *core.Ctx, r *core.Report) {
	r.Explanation = "Decides label and sample discipline structurally: (R1) for each SummaryVec the label names at construction and the label values at every WithLabelValues site agree position by position (test↔name, stage↔stage, result↔result.String()), the static suffixes both derive from the same sorted key list of the same map, and nothing re-orders the keys afterwards; " +
		"(R2) exactly one setup observation on every path of Setup, labelled from T.Failed() read after the recovered setup call; (R3) Reset resets every vector, precedes Setup in Run.Do, and every observation resolves its series through the vector at observation time (no observer cached across Reset); " +
		"(R4) one observation per iteration/drop with the same result as the progress statistics (C01.R1/R2) and exactly one Observe when iteration metrics are enabled. Prometheus internals are trusted."
	r.NotDecided = []string{"internals of prometheus.SummaryVec (sample counting)"}
	mpkg := "internal/metrics"
	labelConst := func(name string) string {
		k, _ := c.ByRel[mpkg].Types.Scope().Lookup(name).(*types.Const)
		if k == nil {
			panic(core.AnchorError{What: "metrics." + name})
		}
		return constant.StringVal(k.Val())
	}
	testL, stageL, resultL := labelConst("TestNameLabel"), labelConst("StageLabel"), labelConst("ResultLabel")

	names := map[string][]string{} // vec field -> label names
	isResultString := func(f *ssa.Function) bool { return isMethod(f, metricsPkg, "ResultType", "String") }
	isMapStrStr := func(t types.Type) bool {
		m, ok := t.Underlying().(*types.Map)
		return ok && types.Identical(m.Key(), types.Typ[types.String])
	}
	// by role: a sorted-keys function takes a map, collects its range keys and sorts them
	sortedKeysFns := map[*ssa.Function]bool{}
	for _, fn := range c.AllFuncs {
		if core.RelPkg(fn) != mpkg || fn.Signature.Recv() != nil || fn.Signature.Params().Len() != 1 || fn.Signature.Results().Len() != 1 || !isMapStrStr(fn.Signature.Params().At(0).Type()) {
			continue
		}
		sorts, keysOnly, appends := false, true, 0
		for _, call := range an.AllCalls(fn) {
			if an.IsFunc(an.Callee(call), "sort", "Strings") || an.IsFunc(an.Callee(call), "slices", "Sort") {
				sorts = true
			}
			if an.IsBuiltinCall(call, "append") {
				for _, e := range varargElems(call.Common().Args[1]) {
					appends++
					ex, ok := an.Strip(e).(*ssa.Extract)
					if !ok || ex.Index != 1 {
						keysOnly = false
						continue
					}
					nx, ok := ex.Tuple.(*ssa.Next)
					if !ok {
						keysOnly = false
						continue
					}
					rg, ok := nx.Iter.(*ssa.Range)
					if !ok || an.Strip(rg.X) != ssa.Value(fn.Params[0]) {
						keysOnly = false
					}
				}
			}
		}
		if sorts && keysOnly && appends > 0 {
			sortedKeysFns[fn] = true
		}
	}
	stopAtKeys := func(f *ssa.Function) bool { return sortedKeysFns[f] || isResultString(f) }
	// reordered: the slice is handed to something that may reorder or extend it
	var reordered func(v ssa.Value, seen map[ssa.Value]bool) ssa.Instruction
	reordered = func(v ssa.Value, seen map[ssa.Value]bool) ssa.Instruction {
		if seen[v] {
			return nil
		}
		seen[v] = true
		for _, ref := range an.Referrers(v) {
			switch x := ref.(type) {
			case *ssa.ChangeType, *ssa.Convert, *ssa.MakeInterface, *ssa.Slice, *ssa.Phi:
				if in := reordered(x.(ssa.Value), seen); in != nil {
					return in
				}
			case *ssa.IndexAddr:
				for _, st := range an.StoresTo(x) {
					// an element rewritten in place from its own old value (`keys[i] = sanitize(keys[i])`) keeps every name
					// at its position: the list is renamed, not re-ordered
					elementwise := false
					if call, isCall := an.Strip(st.Val).(*ssa.Call); isCall {
						for _, a := range call.Call.Args {
							if ld, isLd := a.(*ssa.UnOp); isLd && ld.Op == token.MUL {
								if src, isIA := ld.X.(*ssa.IndexAddr); isIA && src.X == x.X && src.Index == x.Index {
									elementwise = true
								}
							}
						}
					}
					if !elementwise {
						return x
					}
				}
			case *ssa.Store:
				// kept in a local variable (captured by a literal): follow its loads
				if al, ok := x.Addr.(*ssa.Alloc); ok && x.Val == v {
					for _, r2 := range an.Referrers(al) {
						if ld, ok := r2.(*ssa.UnOp); ok {
							if in := reordered(ld, seen); in != nil {
								return in
							}
						}
					}
				}
			case ssa.CallInstruction:
				if an.IsBuiltinCall(x, "append") {
					if len(x.Common().Args) > 0 && x.Common().Args[0] == v {
						return x
					}
					continue
				}
				if an.IsBuiltinCall(x, "len") || an.IsBuiltinCall(x, "cap") {
					continue
				}
				if t := an.Callee(x); t != nil && (t.Name() == "NewSummaryVec" || core.InModule(t)) {
					continue // module helpers are looked into by Resolve; the vector constructor copies the names
				}
				return x
			}
		}
		return nil
	}
	rule(r, "C16.R1", "label names and label values agree position by position for every vector; static keys and values derive from the same sorted key list", func() {
		// the builder: the function of the metrics package that constructs the summary vectors
		var bm *ssa.Function
		for _, fn := range c.AllFuncs {
			if core.RelPkg(fn) != mpkg {
				continue
			}
			for _, call := range an.AllCalls(fn) {
				if t := an.Callee(call); t != nil && t.Name() == "NewSummaryVec" {
					bm = fn
				}
			}
		}
		// when each vector is made by a helper, the builder is the function that assembles the Metrics value from them
		if bm != nil && (bm.Signature.Results().Len() == 0 || !an.IsNamed(bm.Signature.Results().At(0).Type(), core.ModPath+"/"+mpkg, "Metrics")) {
			helper := bm
			for _, fn := range c.AllFuncs {
				if core.RelPkg(fn) != mpkg || fn.Signature.Results().Len() == 0 || !an.IsNamed(fn.Signature.Results().At(0).Type(), core.ModPath+"/"+mpkg, "Metrics") {
					continue
				}
				for _, call := range an.AllCalls(fn) {
					if an.Callee(call) == helper {
						bm = fn
					}
				}
			}
		}
		if bm == nil {
			panic(core.AnchorError{What: "the function of internal/metrics that builds the summary vectors"})
		}
		var bmMap *ssa.Parameter
		for _, p := range bm.Params {
			if isMapStrStr(p.Type()) {
				bmMap = p
			}
		}
		for _, ret := range an.Returns(bm) {
			lit := an.StructLiteralOf(ret.Results[0])
			if lit == nil {
				r.Undecided(bm.Name()+"#literal", an.Pos(c, ret), "Metrics is not built as a literal")
				return
			}
			for f, v := range an.LiteralFields(lit) {
				// the vector: made here, or by a helper that is handed the names
				cv := an.RootFV(bm, v)
				call, ok := v.(*ssa.Call)
				if ok && an.Callee(call) != nil && an.Callee(call).Name() != "NewSummaryVec" && core.RelPkg(an.Callee(call)) == mpkg && !sortedKeysFns[an.Callee(call)] {
					cv = cv.Resolve(stopAtKeys)
					call, ok = cv.V.(*ssa.Call)
				}
				if !ok || an.Callee(call) == nil || an.Callee(call).Name() != "NewSummaryVec" {
					continue
				}
				elems, tail, ok := sliceLitPlusFV(an.FV{V: call.Call.Args[1], F: cv.F}, stopAtKeys)
				if !ok {
					r.Undecided("buildMetrics#"+f, an.Pos(c, call), "label names of %s are not `append([]string{…}, keys...)`", f)
					continue
				}
				var ns []string
				for _, e := range elems {
					k, isK := e.V.(*ssa.Const)
					if !isK {
						r.Undecided("buildMetrics#"+f, an.Pos(c, call), "non-constant label name")
						return
					}
					ns = append(ns, constant.StringVal(k.Value))
				}
				names[f] = ns
				// the static names: the untouched result of a sorted-keys function applied to the builder's map
				kv, trace := an.FV{V: tail.V, F: tail.F}.ResolveTrace(stopAtKeys)
				kc, isCall := kv.V.(*ssa.Call)
				okKeys := isCall && sortedKeysFns[an.Callee(kc)] && bmMap != nil && an.FV{V: kc.Call.Args[0], F: kv.F}.Resolve(stopAtKeys).V == ssa.Value(bmMap)
				r.Check(okKeys, "buildMetrics#"+f+"-static-keys", an.Pos(c, call), "names = "+strings.Join(ns, ",")+" + sorted keys of the static label map", "the static label names of "+f+" are "+an.D().Of(tail.V)+", not the sorted keys of the static label map")
				if okKeys {
					for _, link := range append(trace, kv) {
						if in := reordered(link.V, map[ssa.Value]bool{}); in != nil {
							r.Violation("static-keys#reordered", an.Pos(c, in), "the sorted key list is passed on (%T) before it becomes the label names: if it is re-ordered or extended here the names no longer line up with the values, which are taken in sorted-key order", in)
						}
					}
				}
			}
		}
		if !r.Floor("summary vectors", len(names), 2) {
			return
		}
		// value sites, seen from the exported recorders (through helpers)
		nSites := 0
		stageConst := labelConst("IterationStage")
		var valsField *types.Var
		for _, fn := range c.AllFuncs {
			if core.RelPkg(fn) != mpkg || fn.Parent() != nil || !isMethod(fn, metricsPkg, "Metrics", fn.Name()) || !fn.Object().Exported() {
				continue
			}
			var strParams []*ssa.Parameter
			for _, p := range fn.Params[1:] {
				if types.Identical(p.Type(), types.Typ[types.String]) {
					strParams = append(strParams, p)
				}
			}
			for _, e := range an.FlatCalls(fn, flatDepth, func(_ ssa.CallInstruction, t *ssa.Function) bool { return t != nil && t.Name() == "WithLabelValues" }) {
				call := e.Call()
				nSites++
				fld, _ := an.TerminalField(an.EventFV(e, call.Common().Args[0]).Resolve(nil).V)
				key := core.FuncName(fn) + "#WithLabelValues"
				if fld != nil && names[fld.Name()] == nil && !strings.HasSuffix(fld.Type().String(), "prometheus.SummaryVec") {
					// a further vector fed next to a summary (a histogram of the same durations): it carries the right labels when
					// it is given the very label values a summary vector is given in the same function
					same := false
					for _, other := range an.AllCalls(call.Parent()) {
						if other == call || an.Callee(other) == nil || an.Callee(other).Name() != "WithLabelValues" || len(other.Common().Args) < 2 || len(call.Common().Args) < 2 {
							continue
						}
						of, _ := an.TerminalField(other.Common().Args[0])
						if of != nil && names[of.Name()] != nil && other.Common().Args[1] == call.Common().Args[1] {
							same = true
						}
					}
					nSites--
					if same {
						r.OK(key+":"+fld.Name(), an.Pos(c, call), "%s is given the same label values as the summary vector observed next to it", fld.Name())
					} else {
						r.Note(key+":"+fld.Name(), an.Pos(c, call), "label values of the additional vector %s are not compared with its names", fld.Name())
					}
					continue
				}
				if fld == nil || names[fld.Name()] == nil {
					r.Undecided(key, an.Pos(c, call), "cannot tell which vector is observed")
					continue
				}
				elems, tail, ok := sliceLitPlusFV(an.EventFV(e, call.Common().Args[1]), isResultString)
				if !ok {
					r.Undecided(key, an.Pos(c, call), "label values are not `append([]string{…}, static...)`")
					continue
				}
				ns := names[fld.Name()]
				if len(elems) != len(ns) {
					r.Violation(key, an.Pos(c, call), "%d fixed label values for %d fixed label names of %s", len(elems), len(ns), fld.Name())
					continue
				}
				okAll := true
				for i, el := range elems {
					el = el.Resolve(isResultString)
					role := ""
					switch x := el.V.(type) {
					case *ssa.Const:
						// the fixed stage name stands for the stage only in a recorder that is not given a stage
						if x.Value != nil && x.Value.Kind() == constant.String && constant.StringVal(x.Value) == stageConst && len(strParams) < 2 {
							role = stageL
						}
					case *ssa.Parameter:
						if x.Parent() == fn && len(strParams) > 0 && x == strParams[0] {
							role = testL // by convention of the recorders' signatures: the first string is the scenario name
						} else if x.Parent() == fn && len(strParams) > 1 && x == strParams[1] {
							role = stageL
						} else if x.Parent() == fn && an.IsNamed(x.Type(), metricsPkg, "ResultType") {
							role = resultL // string(result): the same text as result.String()
						}
					case *ssa.Call:
						if isResultString(an.Callee(x)) {
							if p, ok := (an.FV{V: x.Call.Args[0], F: el.F}).Resolve(isResultString).V.(*ssa.Parameter); ok && p.Parent() == fn {
								role = resultL
							}
						}
					case *ssa.ChangeType, *ssa.Convert:
						// string(result): the same text as result.String()
						var inner ssa.Value
						if ct, ok := x.(*ssa.ChangeType); ok {
							inner = ct.X
						} else {
							inner = x.(*ssa.Convert).X
						}
						if p, ok := (an.FV{V: inner, F: el.F}).Resolve(isResultString).V.(*ssa.Parameter); ok && p.Parent() == fn && an.IsNamed(p.Type(), metricsPkg, "ResultType") {
							role = resultL
						}
					}
					if role != ns[i] {
						okAll = false
						r.Violation(key+"#pos"+itoa(i), an.Pos(c, call), "label %q of %s receives %s (a %q value): series carry swapped labels", ns[i], fld.Name(), an.D().Of(el.V), role)
					}
				}
				tf, owner := an.TerminalField(tail.V)
				if tf == nil || !an.IsNamed(owner, metricsPkg, "Metrics") || (valsField != nil && !an.SameField(tf, valsField)) {
					okAll = false
					r.Violation(key+"#static", an.Pos(c, call), "the static label values appended are %s, not the values computed from the sorted keys", an.D().Of(tail.V))
				} else {
					valsField = tf
				}
				if okAll {
					r.OK(key, an.Pos(c, call), "%s: values (%d fixed + static) match names %v position by position", fld.Name(), len(elems), ns)
				}
			}
		}
		r.Floor("WithLabelValues sites", nSites, 3)
		if valsField == nil {
			r.Violation("static-values#field", "-", "no recorder appends the static label values")
			return
		}
		// the static values field is computed by a values function from the same map as the names
		nStores := 0
		for _, fn := range c.AllFuncs {
			if !core.InModule(fn) {
				continue
			}
			an.Instrs(fn, func(in ssa.Instruction) {
				st, ok := in.(*ssa.Store)
				if !ok {
					return
				}
				f := an.FieldOfAddr(st.Addr)
				if f == nil || !an.SameField(f, valsField) {
					return
				}
				if isNilConst(st.Val) {
					// the explicit zero of a composite literal: the field of a freshly allocated struct, not set otherwise there
					if fa, isFA := st.Addr.(*ssa.FieldAddr); isFA {
						if al, isAl := fa.X.(*ssa.Alloc); isAl {
							others := 0
							for _, ref := range an.Referrers(al) {
								if fa2, ok := ref.(*ssa.FieldAddr); ok && fa2 != fa && an.SameField(an.FieldOfAddr(fa2), f) {
									others++
								}
							}
							if others == 0 {
								return
							}
						}
					}
				}
				nStores++
				key := core.FuncName(fn) + "#static-values"
				vc, isCall := an.Strip(st.Val).(*ssa.Call)
				var vf *ssa.Function
				if isCall {
					vf = an.Callee(vc)
				}
				inline := !isCall || vf == nil || !core.InModule(vf) || len(vc.Call.Args) != 1
				builds := an.FlatCalls(fn, flatDepth, func(_ ssa.CallInstruction, t *ssa.Function) bool { return t == bm })
				if len(builds) != 1 || bmMap == nil {
					r.Undecided(key, an.Pos(c, in), "cannot relate the map the values are computed from to the map the names were built from (%d builder calls here)", len(builds))
					return
				}
				mapOfNames := an.EventFV(builds[0], builds[0].Call().Common().Args[an.ParamIndex(bmMap)]).Resolve(nil).V
				if inline {
					// computed in place: this function itself walks the sorted keys of the map the names were built from
					okV, why := valuesFollowIn(fn, mapOfNames, sortedKeysFns, func(v ssa.Value) bool {
						return an.Strip(v) == an.Strip(st.Val) || feedsValue(v, st.Val)
					})
					r.Check(okV, key, an.Pos(c, in), "values are map[key] for key ranging over the sorted keys of the map the names were built from", "static label values are "+an.D().Of(st.Val)+" ("+why+"): values are attached to the wrong label names")
					return
				}
				mapOfVals := an.Strip(vc.Call.Args[0])
				r.Check(mapOfNames == mapOfVals, key, an.Pos(c, in), "values computed from the same map the names were built from", "static label values come from "+an.D().Of(vc)+" while the names were built from "+an.D().Of(mapOfNames))
				// the values function walks the sorted keys of its map and collects map[key] in that order
				okV, why := valuesFollowSortedKeys(vf, sortedKeysFns)
				r.Check(okV, core.FuncName(vf)+"#element", c.Pos(vf.Pos()), "values are map[key] for key ranging over the sorted keys of the same map, in that order", "label values are "+why+": values are attached to the wrong label names (map iteration order is random)")
			})
		}
		r.Check(nStores > 0, "static-values#set", "-", "the static label values are computed at construction", "the static label values are never computed from the static label map")
		r.Floor("sorted-keys functions", len(sortedKeysFns), 1)
	})

	rule(r, "C16.R2", "the setup metric receives exactly one sample on every path of Setup (also when setup panics), labelled metrics.Result(T.Failed()) read after the recovered setup call", func() {
		setup, _, _ := setupRunner(c)
		isRec := func(_ ssa.CallInstruction, t *ssa.Function) bool {
			return isMethod(t, metricsPkg, "Metrics", "RecordSetupResult")
		}
		exits := an.PathCount(setup, an.CallWeight(isRec, flatDepth))
		tot, ok := an.Total(exits, false)
		r.Check(ok && tot.Lo == 1 && tot.Hi == 1, core.FuncName(setup)+"#one-sample", c.Pos(setup.Pos()), "RecordSetupResult exactly once on every path", "RecordSetupResult executed "+tot.String()+" times per Setup")
		// and Setup itself runs exactly once per run
		do, setupCall := runDo(c)
		dexits := an.PathCount(do, an.CallWeight(func(_ ssa.CallInstruction, t *ssa.Function) bool { return t == setup }, flatDepth))
		dtot, dok := an.Total(dexits, false)
		r.Check(dok && dtot.Lo == 1 && dtot.Hi == 1, core.FuncName(do)+"#setup-once", an.Pos(c, setupCall), "Setup (and with it the setup sample) runs exactly once per run", "Setup runs "+dtot.String()+" times per run: the setup metric holds more than one sample")
		// the label: metrics.Result(handle.Failed()) of the handle the setup function ran with, read after the frame that
		// recovers and classifies a panicking setup has finished
		_, bodyEv, _ := userRunner(c, "ScenarioFn", func(t *ssa.Function) bool { return isMethod(t, metricsPkg, "Metrics", "RecordSetupResult") })
		classifiers := an.FlatCalls(setup, flatDepth, func(_ ssa.CallInstruction, t *ssa.Function) bool {
			_, ok := recovering(t)
			return ok
		})
		stopAtT := func(f *ssa.Function) bool { return core.RelPkg(f) != "internal/workers" }
		for _, e := range an.FlatCalls(setup, flatDepth, isRec) {
			call := e.Call()
			if _, isDefer := call.(*ssa.Defer); isDefer {
				r.Violation(core.FuncName(setup)+"#label", an.Pos(c, call), "the setup sample is deferred: its arguments are evaluated before setup ran")
				continue
			}
			res := an.EventFV(e, resultArg(call)).Resolve(stopAtT)
			rc, ok := res.V.(*ssa.Call)
			okk := ok && an.IsFunc(an.Callee(rc), metricsPkg, "Result")
			why := "it is not metrics.Result(handle.Failed())"
			if okk {
				fv := an.FV{V: rc.Call.Args[0], F: res.F}.Resolve(stopAtT)
				fc, ok := fv.V.(*ssa.Call)
				okk = ok && isMethod(an.Callee(fc), testingPkg, "T", "Failed")
				if okk {
					if !sameHandle(an.FV{V: fc.Call.Args[0], F: fv.F}, an.EventFV(bodyEv, bodyEv.Call().Common().Args[0])) {
						okk, why = false, "the outcome is read from another handle than the one setup ran with"
					}
				}
				if okk {
					if len(classifiers) == 0 {
						okk, why = false, "no recovering frame classifies a panicking setup"
					}
					for _, cl := range classifiers {
						if !an.Before(cl, an.Event{Instr: fc, Frame: fv.F}) {
							okk, why = false, "the outcome is read before the recovering frame has classified a panicking setup"
						}
					}
				}
			}
			r.Check(okk, core.FuncName(setup)+"#label", an.Pos(c, call), "label = metrics.Result(handle.Failed()) read after the recovered setup call", "the setup sample's result label is "+an.D().Of(resultArg(call))+": "+why)
		}
	})

	rule(r, "C16.R3", "Metrics.Reset resets every SummaryVec field and precedes Setup in Run.Do; every Observe resolves its series through Vec.WithLabelValues at observation time (nothing cached across Reset)", func() {
		reset := c.MustFn(mpkg, "Metrics.Reset")
		st := c.Named(mpkg, "Metrics").Underlying().(*types.Struct)
		for i := 0; i < st.NumFields(); i++ {
			f := st.Field(i)
			// every metric vector the process keeps across runs (summaries, and histograms or counters added next to them)
			if ts := f.Type().String(); !strings.Contains(ts, "prometheus.") || !strings.HasSuffix(ts, "Vec") {
				continue
			}
			isResetOf := func(call ssa.CallInstruction, t *ssa.Function) bool {
				if t == nil || t.Name() != "Reset" || len(call.Common().Args) == 0 {
					return false
				}
				fld, _ := an.TerminalField(call.Common().Args[0])
				if fld == nil {
					// promoted method through the embedded *MetricVec
					d := an.D().Of(call.Common().Args[0])
					return strings.HasPrefix(d, "$recv."+f.Name())
				}
				return an.SameField(fld, f) || strings.HasPrefix(an.D().Of(call.Common().Args[0]), "$recv."+f.Name())
			}
			exits := an.PathCount(reset, an.CallWeight(isResetOf, 0))
			tot, ok := an.Total(exits, false)
			if ok && tot.Lo == 0 && tot.Hi >= 1 {
				// an optional vector: reset whenever it exists (the only condition on the reset is `vector != nil`)
				onlyNilGuard := true
				found := false
				for _, call := range an.AllCalls(reset) {
					if !isResetOf(call, an.Callee(call)) {
						continue
					}
					found = true
					for _, g := range an.GuardsOf(call.Block()) {
						bo, isBin := g.Cond.(*ssa.BinOp)
						gf, _ := an.TerminalField(func() ssa.Value {
							if isBin {
								return bo.X
							}
							return nil
						}())
						if !isBin || !isNilConst(bo.Y) || gf == nil || !an.SameField(gf, f) || (bo.Op == token.NEQ) != g.Polarity {
							onlyNilGuard = false
						}
					}
				}
				if found && onlyNilGuard {
					r.OK("Metrics.Reset#"+f.Name(), c.Pos(reset.Pos()), "Reset resets %s whenever it exists", f.Name())
					continue
				}
			}
			r.Check(ok && tot.Lo >= 1, "Metrics.Reset#"+f.Name(), c.Pos(reset.Pos()), "Reset resets "+f.Name()+" on every path", "Metrics.Reset does not reset "+f.Name()+": samples of an earlier run in the same process are mixed into this run's metric")
		}
		do, _ := runDo(c)
		setupFn, _, _ := setupRunner(c)
		resets := an.FlatCalls(do, flatDepth, func(_ ssa.CallInstruction, t *ssa.Function) bool { return t == reset })
		setups := an.FlatCalls(do, flatDepth, func(_ ssa.CallInstruction, t *ssa.Function) bool { return t == setupFn })
		if len(resets) == 0 {
			r.Violation(core.FuncName(do)+"#reset", c.Pos(do.Pos()), "Run.Do does not reset the metrics at run start")
		} else if len(setups) > 0 {
			_, isDefer := resets[0].Instr.(*ssa.Defer)
			r.Check(!isDefer && an.Before(resets[0], setups[0]), core.FuncName(do)+"#reset-before-setup", an.Pos(c, resets[0].Instr), "metrics are reset before Setup records its sample", "metrics are reset after Setup (or at exit): the setup sample of this run is erased")
		}
		// observations
		n := 0
		for _, fn := range c.AllFuncs {
			if core.RelPkg(fn) != mpkg {
				continue
			}
			for _, call := range an.AllCalls(fn) {
				if !call.Common().IsInvoke() || call.Common().Method.Name() != "Observe" {
					continue
				}
				n++
				src, ok := an.Strip(call.Common().Value).(*ssa.Call)
				okk := ok && an.Callee(src) != nil && an.Callee(src).Name() == "WithLabelValues" && src.Block() == call.(ssa.Instruction).Block()
				r.Check(okk, core.FuncName(fn)+"#observe", an.Pos(c, call), "series resolved through the vector at observation time", "the observer used is "+an.D().Of(call.Common().Value)+", not looked up from the vector now: after Metrics.Reset (next run in the same process) the cached series is detached and its samples are no longer exported")
			}
		}
		r.Floor("Observe sites", n, 1)
	})

	rule(r, "C16.R4", "one iteration-metric sample per iteration / drop with the same outcome as the statistics (C01.R1, C01.R2); RecordIterationResult observes exactly once unless iteration metrics are disabled", func() {
		sub := core.NewReport("C01")
		c01(c, sub)
		n := 0
		for _, o := range sub.Obls {
			if !(o.Rule == "C01.R1" || o.Rule == "C01.R2") {
				continue
			}
			n++
			switch o.Status {
			case core.Discharged:
				r.OK(o.Rule+":"+o.Key, o.Pos, "%s", o.Msg)
			case core.Violated:
				r.Violation(o.Rule+":"+o.Key, o.Pos, "%s", o.Msg)
			case core.Undecided:
				r.Undecided(o.Rule+":"+o.Key, o.Pos, "%s", o.Msg)
			}
		}
		r.Floor("recording obligations", n, 4)
		// the vector an Observe goes to: the Metrics field behind `vec.WithLabelValues(…).Observe(…)`
		vecOf := func(call ssa.CallInstruction) *types.Var {
			src, ok := an.Strip(call.Common().Value).(*ssa.Call)
			if !ok || len(src.Call.Args) == 0 {
				return nil
			}
			fld, _ := an.TerminalField(src.Call.Args[0])
			return fld
		}
		isSummary := func(f *types.Var) bool {
			return f == nil || strings.HasSuffix(f.Type().String(), "prometheus.SummaryVec")
		}
		// the samples this property is about are those of the summary vectors; a further vector fed next to them
		// (a histogram of the same durations) is judged on its own: at most one sample per call there too
		isObserve := func(call ssa.CallInstruction, _ *ssa.Function) bool {
			return call.Common().IsInvoke() && call.Common().Method.Name() == "Observe" && isSummary(vecOf(call))
		}
		for _, name := range []string{"Metrics.RecordIterationResult", "Metrics.RecordIterationStage"} {
			fn := c.MustFn(mpkg, name)
			// at most one sample on every path (through helpers) …
			tot, ok := an.Total(an.PathCount(fn, an.CallWeight(isObserve, flatDepth)), false)
			r.Check(ok && tot.Hi <= 1, name+"#at-most-one", c.Pos(fn.Pos()), "at most one Observe per call", name+" observes "+tot.String()+" samples per call")
			others := map[string]bool{}
			for _, e := range an.FlatCalls(fn, flatDepth, func(call ssa.CallInstruction, _ *ssa.Function) bool {
				return call.Common().IsInvoke() && call.Common().Method.Name() == "Observe" && !isSummary(vecOf(call))
			}) {
				others[vecOf(e.Call()).Name()] = true
			}
			for vn := range others {
				vn := vn
				totO, okO := an.Total(an.PathCount(fn, an.CallWeight(func(call ssa.CallInstruction, _ *ssa.Function) bool {
					f := vecOf(call)
					return call.Common().IsInvoke() && call.Common().Method.Name() == "Observe" && f != nil && f.Name() == vn
				}, flatDepth)), false)
				r.Check(okO && totO.Hi <= 1, name+"#at-most-one:"+vn, c.Pos(fn.Pos()), "at most one sample per call in "+vn, name+" observes "+totO.String()+" samples per call in "+vn)
			}
			// … and the only condition under which it is not taken is the disabled flag
			obs := an.FlatCalls(fn, flatDepth, isObserve)
			r.Check(len(obs) == 1, name+"#observe-site", c.Pos(fn.Pos()), "one Observe site", sprintf("%d Observe sites under %s", len(obs), name))
			for _, e := range obs {
				var foreign []string
				for _, g := range an.GuardsOfEvent(e) {
					fld, _ := an.TerminalField(g.Cond)
					if fld != nil && fld.Name() == "IterationMetricsEnabled" && g.Polarity {
						continue
					}
					foreign = append(foreign, sprintf("%s=%v", an.D().Of(g.Cond), g.Polarity))
				}
				inLoop := false
				for ev, fr := e.Instr, e.Frame; fr != nil; fr = fr.Parent {
					if an.InLoop(ev) {
						inLoop = true
					}
					if fr.Parent != nil {
						ev = fr.Site
					}
				}
				r.Check(len(foreign) == 0 && !inLoop, name+"#always-unless-disabled", an.Pos(c, e.Instr), "the sample is skipped only when iteration metrics are disabled", name+sprintf(" skips or repeats the sample under %v (in loop: %v) although iteration metrics are enabled", foreign, inLoop))
				// the value observed is the duration parameter
				v := an.EventFV(e, e.Call().Common().Args[0]).Resolve(nil).V
				p, isP := v.(*ssa.Parameter)
				okDur := isP && p.Parent() == fn && p == fn.Params[len(fn.Params)-1]
				r.Check(okDur, name+"#value", an.Pos(c, e.Instr), "observes the duration parameter", "observes "+an.D().Of(v)+" instead of the duration it was given")
			}
		}
	})
}
