package rules

import (
	"go/constant"
	"go/types"
	"strings"

	"golang.org/x/tools/go/ssa"

	"f1verif/internal/an"
	"f1verif/internal/core"
)

func init() { register("C16", c16) }

// sliceLitPlus decomposes `append([]T{e0,e1,…}, tail...)` into its literal elements and the tail value.
func sliceLitPlus(v ssa.Value) (elems []ssa.Value, tail ssa.Value, ok bool) {
	call, isCall := v.(*ssa.Call)
	if !isCall || !an.IsBuiltinCall(call, "append") || len(call.Call.Args) != 2 {
		return nil, nil, false
	}
	sl, isSl := call.Call.Args[0].(*ssa.Slice)
	if !isSl {
		return nil, nil, false
	}
	al, isAl := sl.X.(*ssa.Alloc)
	if !isAl {
		return nil, nil, false
	}
	arr, isArr := al.Type().(*types.Pointer).Elem().Underlying().(*types.Array)
	if !isArr {
		return nil, nil, false
	}
	elems = make([]ssa.Value, arr.Len())
	for _, ref := range an.Referrers(al) {
		ia, isIA := ref.(*ssa.IndexAddr)
		if !isIA {
			continue
		}
		k, isK := ia.Index.(*ssa.Const)
		if !isK {
			return nil, nil, false
		}
		for _, st := range an.StoresTo(ia) {
			elems[k.Int64()] = st.Val
		}
	}
	for _, e := range elems {
		if e == nil {
			return nil, nil, false
		}
	}
	return elems, call.Call.Args[1], true
}

func c16(c *core.Ctx, r *core.Report) {
	r.Explanation = "Decides label and sample discipline structurally: (R1) for each SummaryVec the label names at construction and the label values at every WithLabelValues site agree position by position (test↔name, stage↔stage, result↔result.String()), the static suffixes both derive from the same sorted key list of the same map, and nothing re-orders the keys afterwards; " +
		"(R2) exactly one setup observation on every path of Setup, labelled from T.Failed() read after the recovered setup call; (R3) Reset resets every vector, precedes Setup in Run.Do, and every observation resolves its series through the vector at observation time (no observer cached across Reset); " +
		"(R4) one observation per iteration/drop with the same result as the progress statistics (C01.R1/R2) and exactly one Observe when iteration metrics are enabled. Prometheus internals are trusted."
	r.NotDecided = []string{"internals of prometheus.SummaryVec (sample counting)"}
	mpkg := "internal/metrics"
	labelConst := func(name string) string {
		k, _ := c.ByRel[mpkg].Types.Scope().Lookup(name).(*types.Const)
		if k == nil {
			panic(core.AnchorError{What: "metrics." + name})
		}
		return constant.StringVal(k.Val())
	}
	testL, stageL, resultL := labelConst("TestNameLabel"), labelConst("StageLabel"), labelConst("ResultLabel")

	names := map[string][]string{} // vec field -> label names
	rule(r, "C16.R1", "label names and label values agree position by position for every vector; static keys and values derive from the same sorted key list", func() {
		bm := c.MustFn(mpkg, "buildMetrics")
		var keysCall ssa.Value
		for _, ret := range an.Returns(bm) {
			lit := an.StructLiteralOf(ret.Results[0])
			if lit == nil {
				r.Undecided("buildMetrics#literal", an.Pos(c, ret), "Metrics is not built as a literal")
				return
			}
			for f, v := range an.LiteralFields(lit) {
				call, ok := v.(*ssa.Call)
				if !ok || an.Callee(call) == nil || an.Callee(call).Name() != "NewSummaryVec" {
					continue
				}
				elems, tail, ok := sliceLitPlus(call.Call.Args[1])
				if !ok {
					r.Undecided("buildMetrics#"+f, an.Pos(c, call), "label names of %s are not `append([]string{…}, keys...)`", f)
					continue
				}
				var ns []string
				for _, e := range elems {
					k, isK := e.(*ssa.Const)
					if !isK {
						r.Undecided("buildMetrics#"+f, an.Pos(c, call), "non-constant label name")
						return
					}
					ns = append(ns, constant.StringVal(k.Value))
				}
				names[f] = ns
				if keysCall == nil {
					keysCall = tail
				}
				td := an.D().Of(tail)
				r.Check(tail == keysCall && strings.HasSuffix(td, "getStaticMetricLabelKeys($staticMetrics)"), "buildMetrics#"+f+"-static-keys", an.Pos(c, call), "names = "+strings.Join(ns, ",")+" + sorted static keys", "the static label names of "+f+" are "+td)
			}
		}
		if !r.Floor("summary vectors", len(names), 2) {
			return
		}
		// value sites
		nSites := 0
		for _, fn := range c.AllFuncs {
			if core.RelPkg(fn) != mpkg {
				continue
			}
			for _, call := range an.AllCalls(fn) {
				t := an.Callee(call)
				if t == nil || t.Name() != "WithLabelValues" {
					continue
				}
				nSites++
				fld, _ := an.TerminalField(call.Common().Args[0])
				key := core.FuncName(fn) + "#WithLabelValues"
				if fld == nil || names[fld.Name()] == nil {
					r.Undecided(key, an.Pos(c, call), "cannot tell which vector is observed")
					continue
				}
				elems, tail, ok := sliceLitPlus(call.Common().Args[1])
				if !ok {
					r.Undecided(key, an.Pos(c, call), "label values are not `append([]string{…}, static...)`")
					continue
				}
				ns := names[fld.Name()]
				if len(elems) != len(ns) {
					r.Violation(key, an.Pos(c, call), "%d fixed label values for %d fixed label names of %s", len(elems), len(ns), fld.Name())
					continue
				}
				okAll := true
				for i, e := range elems {
					d := an.D().Of(e)
					role := ""
					switch {
					case d == "$name":
						role = testL
					case strings.HasSuffix(d, "ResultType).String($result)"):
						role = resultL
					case d == "$stage" || d == "\""+labelConst("IterationStage")+"\"":
						role = stageL
					}
					if role != ns[i] {
						okAll = false
						r.Violation(key+"#pos"+itoa(i), an.Pos(c, call), "label %q of %s receives %s (a %q value): series carry swapped labels", ns[i], fld.Name(), d, role)
					}
				}
				td := an.D().Of(tail)
				if td != "$metrics.staticMetricLabelValues" {
					okAll = false
					r.Violation(key+"#static", an.Pos(c, call), "the static label values appended are %s, not the values computed from the sorted keys", td)
				}
				if okAll {
					r.OK(key, an.Pos(c, call), "%s: values (%d fixed + static) match names %v position by position", fld.Name(), len(elems), ns)
				}
			}
		}
		r.Floor("WithLabelValues sites", nSites, 3)
		// the static values field is computed from the same map as the keys
		ni := c.MustFn(mpkg, "NewInstance")
		okVals := false
		an.Instrs(ni, func(in ssa.Instruction) {
			st, ok := in.(*ssa.Store)
			if !ok {
				return
			}
			if f := an.FieldOfAddr(st.Addr); f != nil && f.Name() == "staticMetricLabelValues" {
				d := an.D().Of(st.Val)
				okVals = strings.HasSuffix(d, "getStaticMetricLabelValues($staticMetrics)")
				var mapArg string
				for _, call := range an.AllCalls(ni) {
					if t := an.Callee(call); t != nil && t.Name() == "buildMetrics" {
						mapArg = an.D().Of(call.Common().Args[0])
					}
				}
				okVals = okVals && mapArg == "$staticMetrics"
				r.Check(okVals, "NewInstance#static-values", an.Pos(c, in), "values computed from the same map the names were built from", "static label values come from "+d+" while the names were built from "+mapArg)
			}
		})
		if !okVals {
			r.Violation("NewInstance#static-values-set", c.Pos(ni.Pos()), "staticMetricLabelValues is not computed from the static label map")
		}
		// keys: exactly sortedKeys(m), untouched afterwards
		gk := c.MustFn(mpkg, "getStaticMetricLabelKeys")
		sk := c.MustFn(mpkg, "sortedKeys")
		for _, ret := range an.Returns(gk) {
			call, ok := an.Strip(ret.Results[0]).(*ssa.Call)
			okk := ok && an.Callee(call) == sk && an.D().Of(call.Call.Args[0]) == "$staticMetrics"
			if okk {
				for _, ref := range an.Referrers(call) {
					if _, isRet := ref.(*ssa.Return); !isRet {
						okk = false
						r.Violation("getStaticMetricLabelKeys#reordered", an.Pos(c, ref), "the sorted key list is passed on (%T) before being returned: if it is re-ordered here the names no longer line up with the values, which are taken in sortedKeys order", ref)
					}
				}
			}
			r.Check(okk, "getStaticMetricLabelKeys", an.Pos(c, ret), "label names are exactly sortedKeys(map)", "label names are "+an.D().Of(ret.Results[0])+", not the untouched result of sortedKeys(map)")
		}
		gv := c.MustFn(mpkg, "getStaticMetricLabelValues")
		okElem := false
		for _, call := range an.AllCalls(gv) {
			if !an.IsBuiltinCall(call, "append") {
				continue
			}
			var ed string
			if sl, ok := call.Common().Args[1].(*ssa.Slice); ok {
				if al, ok := sl.X.(*ssa.Alloc); ok {
					for _, ref := range an.Referrers(al) {
						if ia, ok := ref.(*ssa.IndexAddr); ok {
							for _, st := range an.StoresTo(ia) {
								ed = an.D().Of(st.Val)
							}
						}
					}
				}
			}
			okElem = strings.HasPrefix(ed, "$staticMetrics[internal/metrics.sortedKeys($staticMetrics)[")
			r.Check(okElem, "getStaticMetricLabelValues#element", an.Pos(c, call), "values are map[key] for key ranging over sortedKeys(map)", "label values are collected as "+ed+", not as map[key] in sortedKeys order: values are attached to the wrong label names (map iteration order is random)")
		}
		if !okElem {
			r.Violation("getStaticMetricLabelValues#shape", c.Pos(gv.Pos()), "values are not collected by walking sortedKeys(map)")
		}
		// sortedKeys sorts
		sorts := false
		for _, call := range an.AllCalls(sk) {
			if an.IsFunc(an.Callee(call), "sort", "Strings") || an.IsFunc(an.Callee(call), "slices", "Sort") {
				sorts = true
			}
		}
		r.Check(sorts, "sortedKeys#sorts", c.Pos(sk.Pos()), "sortedKeys sorts the collected keys", "sortedKeys does not sort: two calls can return different orders")
	})

	rule(r, "C16.R2", "the setup metric receives exactly one sample on every path of Setup (also when setup panics), labelled metrics.Result(T.Failed()) read after the recovered setup call", func() {
		setup, _, frame := setupRunner(c)
		isRec := func(_ ssa.CallInstruction, t *ssa.Function) bool {
			return isMethod(t, metricsPkg, "Metrics", "RecordSetupResult")
		}
		exits := an.PathCount(setup, an.CallWeight(isRec, 1))
		tot, ok := an.Total(exits, false)
		r.Check(ok && tot.Lo == 1 && tot.Hi == 1, core.FuncName(setup)+"#one-sample", c.Pos(setup.Pos()), "RecordSetupResult exactly once on every path", "RecordSetupResult executed "+tot.String()+" times per Setup")
		// and Setup itself runs exactly once per run
		do, setupCall := runDo(c)
		dexits := an.PathCount(do, an.CallWeight(func(_ ssa.CallInstruction, t *ssa.Function) bool { return t == setup }, flatDepth))
		dtot, dok := an.Total(dexits, false)
		r.Check(dok && dtot.Lo == 1 && dtot.Hi == 1, core.FuncName(do)+"#setup-once", an.Pos(c, setupCall), "Setup (and with it the setup sample) runs exactly once per run", "Setup runs "+dtot.String()+" times per run: the setup metric holds more than one sample")
		for _, call := range an.AllCalls(setup) {
			if !isRec(call, an.Callee(call)) {
				continue
			}
			if _, isDefer := call.(*ssa.Defer); isDefer {
				r.Violation(core.FuncName(setup)+"#label", an.Pos(c, call), "the setup sample is deferred: its arguments are evaluated before setup ran")
				continue
			}
			res := resultArg(call)
			rc, ok := res.(*ssa.Call)
			okk := ok && an.IsFunc(an.Callee(rc), metricsPkg, "Result")
			if okk {
				fc, ok := an.Strip(rc.Call.Args[0]).(*ssa.Call)
				okk = ok && isMethod(an.Callee(fc), testingPkg, "T", "Failed") && an.Dominates(frame, fc) && an.D().Of(fc.Call.Args[0]) == "$s.t"
			}
			r.Check(okk, core.FuncName(setup)+"#label", an.Pos(c, call), "label = metrics.Result(s.t.Failed()) read after the recovered setup call", "the setup sample's result label is "+an.D().Of(res)+", not the setup handle's outcome read after setup ran")
		}
	})

	rule(r, "C16.R3", "Metrics.Reset resets every SummaryVec field and precedes Setup in Run.Do; every Observe resolves its series through Vec.WithLabelValues at observation time (nothing cached across Reset)", func() {
		reset := c.MustFn(mpkg, "Metrics.Reset")
		st := c.Named(mpkg, "Metrics").Underlying().(*types.Struct)
		for i := 0; i < st.NumFields(); i++ {
			f := st.Field(i)
			if !strings.HasSuffix(f.Type().String(), "prometheus.SummaryVec") {
				continue
			}
			isResetOf := func(call ssa.CallInstruction, t *ssa.Function) bool {
				if t == nil || t.Name() != "Reset" || len(call.Common().Args) == 0 {
					return false
				}
				fld, _ := an.TerminalField(call.Common().Args[0])
				if fld == nil {
					// promoted method through the embedded *MetricVec
					d := an.D().Of(call.Common().Args[0])
					return strings.HasPrefix(d, "$metrics."+f.Name())
				}
				return an.SameField(fld, f) || strings.HasPrefix(an.D().Of(call.Common().Args[0]), "$metrics."+f.Name())
			}
			exits := an.PathCount(reset, an.CallWeight(isResetOf, 0))
			tot, ok := an.Total(exits, false)
			r.Check(ok && tot.Lo >= 1, "Metrics.Reset#"+f.Name(), c.Pos(reset.Pos()), "Reset resets "+f.Name()+" on every path", "Metrics.Reset does not reset "+f.Name()+": samples of an earlier run in the same process are mixed into this run's metric")
		}
		do, _ := runDo(c)
		setupFn, _, _ := setupRunner(c)
		resets := an.FlatCalls(do, flatDepth, func(_ ssa.CallInstruction, t *ssa.Function) bool { return t == reset })
		setups := an.FlatCalls(do, flatDepth, func(_ ssa.CallInstruction, t *ssa.Function) bool { return t == setupFn })
		if len(resets) == 0 {
			r.Violation(core.FuncName(do)+"#reset", c.Pos(do.Pos()), "Run.Do does not reset the metrics at run start")
		} else if len(setups) > 0 {
			_, isDefer := resets[0].Instr.(*ssa.Defer)
			r.Check(!isDefer && an.Before(resets[0], setups[0]), core.FuncName(do)+"#reset-before-setup", an.Pos(c, resets[0].Instr), "metrics are reset before Setup records its sample", "metrics are reset after Setup (or at exit): the setup sample of this run is erased")
		}
		// observations
		n := 0
		for _, fn := range c.AllFuncs {
			if core.RelPkg(fn) != mpkg {
				continue
			}
			for _, call := range an.AllCalls(fn) {
				if !call.Common().IsInvoke() || call.Common().Method.Name() != "Observe" {
					continue
				}
				n++
				src, ok := an.Strip(call.Common().Value).(*ssa.Call)
				okk := ok && an.Callee(src) != nil && an.Callee(src).Name() == "WithLabelValues" && src.Block() == call.(ssa.Instruction).Block()
				r.Check(okk, core.FuncName(fn)+"#observe", an.Pos(c, call), "series resolved through the vector at observation time", "the observer used is "+an.D().Of(call.Common().Value)+", not looked up from the vector now: after Metrics.Reset (next run in the same process) the cached series is detached and its samples are no longer exported")
			}
		}
		r.Floor("Observe sites", n, 3)
	})

	rule(r, "C16.R4", "one iteration-metric sample per iteration / drop with the same outcome as the statistics (C01.R1, C01.R2); RecordIterationResult observes exactly once unless iteration metrics are disabled", func() {
		sub := core.NewReport("C01")
		c01(c, sub)
		n := 0
		for _, o := range sub.Obls {
			if !(o.Rule == "C01.R1" || o.Rule == "C01.R2") {
				continue
			}
			n++
			switch o.Status {
			case core.Discharged:
				r.OK(o.Rule+":"+o.Key, o.Pos, "%s", o.Msg)
			case core.Violated:
				r.Violation(o.Rule+":"+o.Key, o.Pos, "%s", o.Msg)
			case core.Undecided:
				r.Undecided(o.Rule+":"+o.Key, o.Pos, "%s", o.Msg)
			}
		}
		r.Floor("recording obligations", n, 4)
		for _, name := range []string{"Metrics.RecordIterationResult", "Metrics.RecordIterationStage"} {
			fn := c.MustFn(mpkg, name)
			w := func(in ssa.Instruction) an.Interval {
				if call, ok := in.(ssa.CallInstruction); ok && call.Common().IsInvoke() && call.Common().Method.Name() == "Observe" {
					return an.Interval{Lo: 1, Hi: 1}
				}
				return an.Interval{}
			}
			for i, e := range an.PathCount(fn, w) {
				ret, isRet := e.Instr.(*ssa.Return)
				if !isRet {
					continue
				}
				key := sprintf("%s#exit%d", name, i+1)
				if e.Count.Lo == 1 && e.Count.Hi == 1 {
					r.OK(key, an.Pos(c, ret), "one Observe")
					continue
				}
				disabled := false
				for _, g := range an.GuardsOf(ret.Block()) {
					if strings.HasSuffix(an.D().Of(g.Cond), ".IterationMetricsEnabled") && !g.Polarity {
						disabled = true
					}
				}
				r.Check(disabled && e.Count.Hi == 0, key, an.Pos(c, ret), "no sample only when iteration metrics are disabled", name+" returns having observed "+e.Count.String()+" samples although iteration metrics are enabled")
			}
			// the value observed is the duration parameter
			for _, call := range an.AllCalls(fn) {
				if call.Common().IsInvoke() && call.Common().Method.Name() == "Observe" {
					d := an.D().Of(call.Common().Args[0])
					r.Check(d == "$nanoseconds", name+"#value", an.Pos(c, call), "observes the duration parameter", "observes "+d+" instead of the duration it was given")
				}
			}
		}
	})
}
