// Package rules holds the per-property rule instantiations (DESIGN.md §4).
package rules

import (
	"fmt"
	"os"
	"runtime/debug"
	"sort"
	"time"

	"f1verif/internal/an"
	"f1verif/internal/core"
)

// PropFunc decides one property.
type PropFunc func(c *core.Ctx, r *core.Report)

var registry = map[string]PropFunc{}

// curCtx is the program the running property function analyses (for helpers without a context parameter).
var curCtx *core.Ctx

func register(id string, f PropFunc) { registry[id] = f }

func Props() []string {
	var l []string
	for k := range registry {
		l = append(l, k)
	}
	sort.Strings(l)
	return l
}

// extra holds rule groups appended to a property after its main function ran.
var extra = map[string][]PropFunc{}

func Get(id string) PropFunc {
	f := registry[id]
	if f == nil {
		return nil
	}
	return func(c *core.Ctx, r *core.Report) {
		an.SetProgram(c)
		curCtx = c
		f(c, r)
		for _, e := range extra[id] {
			e(c, r)
		}
	}
}

// rule runs one rule body; a missing anchor or an analysis panic makes the rule UNDECIDED, never a pass.
func rule(r *core.Report, id, text string, body func()) {
	r.Rule(id, text)
	if os.Getenv("F1LINT_TIMING") != "" {
		t0 := time.Now()
		defer func() { fmt.Fprintf(os.Stderr, "timing %s %.2fs\n", id, time.Since(t0).Seconds()) }()
	}
	defer func() {
		if e := recover(); e != nil {
			if ae, ok := e.(core.AnchorError); ok {
				r.Undecided("anchor", "-", "%s", ae.Error())
				return
			}
			r.Undecided("panic", "-", "analysis panic: %v\n%s", e, firstLines(string(debug.Stack()), 14))
		}
	}()
	body()
}

func firstLines(s string, n int) string {
	out := ""
	c := 0
	for _, ch := range s {
		out += string(ch)
		if ch == '\n' {
			c++
			if c >= n {
				break
			}
		}
	}
	return out
}

func sprintf(f string, a ...any) string { return fmt.Sprintf(f, a...) }
