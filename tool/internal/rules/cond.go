package rules

import (
	"go/constant"
	"go/token"
	"go/types"
	"strings"

	"golang.org/x/tools/go/ssa"

	"f1verif/internal/an"
	"f1verif/internal/core"
)

func isCondMethod(f *ssa.Function, name string) bool {
	return f != nil && f.Pkg != nil && f.Pkg.Pkg.Path() == "sync" && f.Signature.Recv() != nil &&
		an.IsNamed(f.Signature.Recv().Type(), "sync", "Cond") && f.Name() == name
}

// atom is one boolean sub-condition of a wait loop, computed from an atomic Load of a field.
type atom struct {
	field *types.Var
	expr  ssa.Value // boolean expression over the Load (in the getter or inline)
	load  ssa.Value // the Load call
	stay  bool      // value of the atom for which the waiter keeps waiting
	desc  string
	inl   map[ssa.Value]ssa.Value // calls of bool getters seen through: call -> the getter's returned expression
	outer *types.Var              // when the Load sits in a method of a wrapper type: the field holding the wrapper
}

// evalBool evaluates a boolean expression over one atomic Load replaced by the constant k.
func evalBool(v ssa.Value, load ssa.Value, k constant.Value, inl map[ssa.Value]ssa.Value) (bool, bool) {
	v = an.Strip(v)
	if r, ok := inl[v]; ok && v != load {
		return evalBool(r, load, k, inl)
	}
	switch x := v.(type) {
	case *ssa.UnOp:
		if x.Op == token.NOT {
			b, ok := evalBool(x.X, load, k, inl)
			return !b, ok
		}
	case *ssa.Const:
		if x.Value != nil && x.Value.Kind() == constant.Bool {
			return constant.BoolVal(x.Value), true
		}
	case *ssa.BinOp:
		val := func(o ssa.Value) (constant.Value, bool) {
			o = an.Strip(o)
			if o == load {
				return k, true
			}
			if c, ok := o.(*ssa.Const); ok && c.Value != nil {
				return c.Value, true
			}
			return nil, false
		}
		a, ok1 := val(x.X)
		b, ok2 := val(x.Y)
		if ok1 && ok2 && a.Kind() == b.Kind() {
			switch x.Op {
			case token.EQL, token.NEQ, token.LSS, token.LEQ, token.GTR, token.GEQ:
				return constant.Compare(a, x.Op, b), true
			}
		}
	case *ssa.Call:
		if v == load && k.Kind() == constant.Bool {
			return constant.BoolVal(k), true
		}
	}
	if v == load && k.Kind() == constant.Bool {
		return constant.BoolVal(k), true
	}
	return false, false
}

// monotoneNonIncreasingKeeps reports whether decreasing the loaded value keeps `expr` true (expr is Load <= c / Load < c).
func decreasingKeepsTrue(expr ssa.Value, load ssa.Value) bool {
	bo, ok := an.Strip(expr).(*ssa.BinOp)
	if !ok {
		return false
	}
	if an.Strip(bo.X) == load && isConst(bo.Y) && (bo.Op == token.LEQ || bo.Op == token.LSS) {
		return true
	}
	if an.Strip(bo.Y) == load && isConst(bo.X) && (bo.Op == token.GEQ || bo.Op == token.GTR) {
		return true
	}
	return false
}

// condDiscipline implements analysis G for every sync.Cond Wait in the module.
func condDiscipline(c *core.Ctx, r *core.Report) {
	type waitSite struct {
		call ssa.CallInstruction
		cond *types.Var
	}
	var waits []waitSite
	for _, fn := range c.AllFuncs {
		for _, call := range an.AllCalls(fn) {
			if isCondMethod(an.Callee(call), "Wait") {
				fld, _ := an.TerminalField(call.Common().Args[0])
				if fld != nil {
					waits = append(waits, waitSite{call, fld})
				}
			}
		}
	}
	if !r.Floor("sync.Cond Wait sites", len(waits), 1) {
		return
	}
	for _, w := range waits {
		fn := w.call.Parent()
		key := core.FuncName(fn) + "#Wait(" + w.cond.Name() + ")"
		pos := an.Pos(c, w.call)
		loop, _ := an.NaturalLoopOf(w.call.Block())
		if loop == nil {
			r.Violation(key, pos, "Cond.Wait is not inside a loop that re-checks the predicate: a spurious or stale wake-up proceeds with the predicate false, and a wake-up for another waiter is lost")
			continue
		}
		ls := an.NewLockState(fn)
		holds := func(in ssa.Instruction) bool {
			for _, h := range ls.At(in) {
				if h.Mode == 'W' && an.SameField(h.Field, w.cond) {
					return true
				}
			}
			return false
		}
		if !holds(w.call) {
			r.Violation(key, pos, "Cond.Wait is called without holding the Cond's lock on every path")
			continue
		}
		// atoms: Ifs in the loop with exactly one successor inside the loop
		var atoms []atom
		undecided := ""
		for b := range loop {
			iff, ok := b.Instrs[len(b.Instrs)-1].(*ssa.If)
			if !ok {
				continue
			}
			inT, inF := loop[b.Succs[0]], loop[b.Succs[1]]
			if inT == inF {
				continue
			}
			if !holds(iff) {
				r.Violation(key+"#predicate-lock", an.Pos(c, iff), "the wait predicate is evaluated without the Cond's lock: a wake-up between the check and Wait is lost")
			}
			cond := iff.Cond
			stay := inT
			for {
				u, ok := cond.(*ssa.UnOp)
				if !ok || u.Op != token.NOT {
					break
				}
				cond, stay = u.X, !stay
			}
			a, ok := resolveAtom(c, cond)
			if !ok {
				undecided = "cannot resolve wait predicate atom " + an.D().Of(cond)
				continue
			}
			a.atom.stay = stay
			atoms = append(atoms, a.atom)
		}
		if undecided != "" || len(atoms) == 0 {
			r.Undecided(key, pos, "wait predicate not understood: %s", undecided)
			continue
		}
		var ds []string
		for _, a := range atoms {
			ds = append(ds, a.desc)
		}
		r.OK(key, pos, "Wait in a loop under the lock; predicate atoms: %s", strings.Join(ds, "; "))

		// writers of predicate fields
		nWrites := 0
		ord := map[string]int{}
		for _, op := range an.AtomicOps(c.AllFuncs) {
			var at *atom
			for i := range atoms {
				if an.SameField(atoms[i].field, op.Field) {
					at = &atoms[i]
				}
			}
			if at == nil || op.Op == "Load" {
				continue
			}
			// sites: the op itself, or the call sites of a small wrapper whose parameter is the written value
			type site struct {
				in  ssa.Instruction
				val ssa.Value
			}
			var sites []site
			var written ssa.Value
			if len(op.Call.Common().Args) > 1 {
				written = op.Call.Common().Args[1]
			}
			// a method of a wrapper type operating on a field of its own receiver: the write happens, for the pool,
			// at the wrapper's call sites — and only those reaching it through the same outer field count
			onOwnRecv := false
			if fa, ok := op.Call.Common().Args[0].(*ssa.FieldAddr); ok && op.Fn.Signature.Recv() != nil && len(op.Fn.Params) > 0 {
				if p0, isP := an.Strip(fa.X).(*ssa.Parameter); isP && p0 == op.Fn.Params[0] && at.outer != nil {
					onOwnRecv = true
				}
			}
			// … or the pool reaches into the wrapper's field directly (p.outer.inner.Op(…)): a write at this very place
			directViaOuter := false
			if fa, ok := op.Call.Common().Args[0].(*ssa.FieldAddr); ok && at.outer != nil {
				if ofa, isFA := fa.X.(*ssa.FieldAddr); isFA && an.SameField(an.FieldOfAddr(ofa), at.outer) {
					directViaOuter = true
				}
			}
			if at.outer != nil && !onOwnRecv && !directViaOuter {
				continue
			}
			viaOuter := func(cs ssa.CallInstruction) bool {
				if at.outer == nil {
					return true
				}
				fa, ok := an.Strip(cs.Common().Args[0]).(*ssa.FieldAddr)
				return ok && an.SameField(an.FieldOfAddr(fa), at.outer)
			}
			if p, ok := an.Strip(written).(*ssa.Parameter); ok {
				idx := -1
				for i, pp := range op.Fn.Params {
					if pp == p {
						idx = i
					}
				}
				for _, cs := range an.CallSitesOf(c, op.Fn) {
					if viaOuter(cs) {
						sites = append(sites, site{cs, cs.Common().Args[idx]})
					}
				}
			} else if onOwnRecv {
				for _, cs := range an.CallSitesOf(c, op.Fn) {
					if viaOuter(cs) {
						sites = append(sites, site{cs, written})
					}
				}
			} else {
				sites = append(sites, site{op.Call, written})
			}
			for _, s := range sites {
				nWrites++
				sfn := s.in.Parent()
				ordKey := core.FuncName(sfn) + "#" + op.Op + "(" + op.Field.Name() + ")"
				ord[ordKey]++
				skey := ordKey
				if ord[ordKey] > 1 {
					skey = sprintf("%s[%d]", ordKey, ord[ordKey])
				}
				falsifies := true
				why := "non-constant value"
				if k, ok := an.Strip(s.val).(*ssa.Const); ok && k.Value != nil {
					switch op.Op {
					case "Store", "Swap":
						if b, ok := evalBool(at.expr, at.load, k.Value, at.inl); ok {
							falsifies = b != at.stay
							why = sprintf("writes %s, atom becomes %v (waiter stays on %v)", k.Value, b, at.stay)
						}
					case "Add":
						if constant.Sign(k.Value) < 0 && at.stay && decreasingKeepsTrue(at.expr, at.load) {
							falsifies = false
							why = "decrement keeps the atom true"
						}
					}
				}
				if !falsifies {
					r.OK(skey, an.Pos(c, s.in), "cannot end a wait (%s): no wake-up needed", why)
					continue
				}
				esc := an.EscapesWithout(s.in, func(in ssa.Instruction) bool { return wakesUnderLock(c, in, w.cond, 2) })
				if esc != nil && wakesAfterCriticalSection(c, s.in, w.cond, 2) {
					r.OK(skey, an.Pos(c, s.in), "can end a wait (%s); the write is ordered before a critical section of the Cond's lock that a Broadcast follows on every path (a waiter that saw the old value is already waiting when the lock is taken)", why)
					continue
				}
				if esc == nil {
					r.OK(skey, an.Pos(c, s.in), "can end a wait (%s); followed on every path by a Broadcast executed with the lock held", why)
				} else {
					r.Violation(skey, an.Pos(c, s.in), "write that can end a wait on %s (%s) reaches the return at %s without a Broadcast/Signal executed under the Cond's lock: a worker checking the predicate concurrently sleeps through it (lost wake-up)", w.cond.Name(), why, an.Pos(c, esc))
				}
			}
		}
		r.Floor("writes to wait-predicate fields", nWrites, 2)
	}
}

type resolvedAtom struct {
	atom
}

// resolveAtom understands `getter()` (a bool module function computed from one atomic Load) and inline
// comparisons of an atomic Load.
func resolveAtom(c *core.Ctx, cond ssa.Value) (resolvedAtom, bool) {
	cond = an.Strip(cond)
	var expr ssa.Value = cond
	inl := map[ssa.Value]ssa.Value{}
	// find the single atomic Load under expr, looking through bool getters of the module (one returned expression)
	var load ssa.Value
	var fld, outer *types.Var
	var walk func(v ssa.Value, d int, recvField *types.Var)
	walk = func(v ssa.Value, d int, recvField *types.Var) {
		v = an.Strip(v)
		if d > 8 {
			return
		}
		switch x := v.(type) {
		case *ssa.Call:
			t := an.Callee(x)
			if t != nil && t.Pkg != nil && t.Pkg.Pkg.Path() == "sync/atomic" && t.Name() == "Load" {
				if f := an.FieldOfAddr(x.Call.Args[0]); f != nil {
					load, fld = x, f
					// the Load is on a field of the getter's own receiver, which the caller reached through recvField
					if fa, ok := x.Call.Args[0].(*ssa.FieldAddr); ok && recvField != nil {
						if p, isP := an.Strip(fa.X).(*ssa.Parameter); isP && an.ParamIndex(p) == 0 {
							outer = recvField
						}
					}
				}
				return
			}
			if t != nil && core.InModule(t) && t.Blocks != nil {
				rets := an.Returns(t)
				if len(rets) != 1 || len(rets[0].Results) != 1 {
					return
				}
				inl[x] = rets[0].Results[0]
				var rf *types.Var
				if t.Signature.Recv() != nil && len(x.Call.Args) > 0 {
					if fa, ok := an.Strip(x.Call.Args[0]).(*ssa.FieldAddr); ok {
						rf = an.FieldOfAddr(fa)
					}
				}
				walk(rets[0].Results[0], d+1, rf)
			}
		case *ssa.BinOp:
			walk(x.X, d+1, recvField)
			walk(x.Y, d+1, recvField)
		case *ssa.UnOp:
			walk(x.X, d+1, recvField)
		}
	}
	walk(expr, 0, nil)
	if load == nil {
		return resolvedAtom{}, false
	}
	for {
		r, ok := inl[an.Strip(expr)]
		if !ok {
			break
		}
		expr = r
	}
	return resolvedAtom{atom: atom{field: fld, expr: expr, load: load, desc: an.D().Of(expr), inl: inl, outer: outer}}, true
}

// wakesUnderLock: the instruction is a Broadcast/Signal on cond executed with cond.L held, or a call of a
// module function that does so on every path.
func wakesUnderLock(c *core.Ctx, in ssa.Instruction, cond *types.Var, depth int) bool {
	call, ok := in.(ssa.CallInstruction)
	if !ok {
		return false
	}
	if _, isGo := in.(*ssa.Go); isGo {
		return false
	}
	t := an.Callee(call)
	if t == nil {
		return false
	}
	if isCondMethod(t, "Broadcast") || isCondMethod(t, "Signal") {
		fld, _ := an.TerminalField(call.Common().Args[0])
		if !an.SameField(fld, cond) {
			return false
		}
		ls := an.NewLockState(in.Parent())
		for _, h := range ls.At(in) {
			if h.Mode == 'W' && an.SameField(h.Field, cond) {
				return true
			}
		}
		return false
	}
	if depth <= 0 || !core.InModule(t) || t.Blocks == nil {
		return false
	}
	// must-wake summary: no path from entry to a return avoids a waking instruction
	first := t.Blocks[0].Instrs[0]
	if wakesUnderLock(c, first, cond, depth-1) {
		return true
	}
	return an.EscapesWithout(first, func(x ssa.Instruction) bool { return wakesUnderLock(c, x, cond, depth-1) }) == nil
}

// broadcasts: the instruction is a Broadcast/Signal on cond (whatever the lock state), or a call of a module function
// that broadcasts on every path.
func broadcasts(c *core.Ctx, in ssa.Instruction, cond *types.Var, depth int) bool {
	call, ok := in.(ssa.CallInstruction)
	if !ok {
		return false
	}
	if _, isGo := in.(*ssa.Go); isGo {
		return false
	}
	t := an.Callee(call)
	if t == nil {
		return false
	}
	if isCondMethod(t, "Broadcast") || isCondMethod(t, "Signal") {
		fld, _ := an.TerminalField(call.Common().Args[0])
		return an.SameField(fld, cond)
	}
	if depth <= 0 || !core.InModule(t) || t.Blocks == nil {
		return false
	}
	first := t.Blocks[0].Instrs[0]
	if broadcasts(c, first, cond, depth-1) {
		return true
	}
	return an.EscapesWithout(first, func(x ssa.Instruction) bool { return broadcasts(c, x, cond, depth-1) }) == nil
}

// acquiresCondLock: the instruction takes cond.L (not deferred).
func acquiresCondLock(in ssa.Instruction, cond *types.Var) bool {
	call, ok := in.(ssa.CallInstruction)
	if !ok {
		return false
	}
	op := an.LockOpOf(call)
	return op != nil && !op.Deferred && op.Op == "Lock" && an.SameField(op.Field, cond)
}

// lockThenBroadcast: from instruction `from` (exclusive) every path takes cond.L — here or, wholly, inside a module
// helper — and after every such acquisition every path broadcasts.
func lockThenBroadcast(c *core.Ctx, from ssa.Instruction, cond *types.Var, depth int) bool {
	whole := func(in ssa.Instruction) bool {
		call, ok := in.(ssa.CallInstruction)
		if !ok || depth <= 0 {
			return false
		}
		if _, isGo := in.(*ssa.Go); isGo {
			return false
		}
		t := an.Callee(call)
		if t == nil || !core.InModule(t) || t.Blocks == nil {
			return false
		}
		first := t.Blocks[0].Instrs[0]
		if acquiresCondLock(first, cond) {
			return an.EscapesWithout(first, func(x ssa.Instruction) bool { return broadcasts(c, x, cond, depth-1) }) == nil
		}
		return lockThenBroadcast(c, first, cond, depth-1)
	}
	if an.EscapesWithout(from, func(in ssa.Instruction) bool { return acquiresCondLock(in, cond) || whole(in) }) != nil {
		return false
	}
	ok := true
	an.Instrs(from.Parent(), func(in ssa.Instruction) {
		if acquiresCondLock(in, cond) && an.ReachableFrom(from, in) {
			if an.EscapesWithout(in, func(x ssa.Instruction) bool { return broadcasts(c, x, cond, depth) }) != nil {
				ok = false
			}
		}
	})
	return ok
}

// wakesAfterCriticalSection: the idiomatic `mu.Lock(); state = x; mu.Unlock(); cond.Broadcast()`. The write executes
// with cond.L held and a Broadcast follows on every path; or the write is made without the lock, and afterwards every
// path passes a critical section of cond.L followed by a Broadcast. Either way a waiter that evaluated the predicate
// before the write holds the lock until it waits, so it is waiting when the Broadcast comes; one that evaluates it
// afterwards sees the new value.
func wakesAfterCriticalSection(c *core.Ctx, write ssa.Instruction, cond *types.Var, depth int) bool {
	ls := an.NewLockState(write.Parent())
	for _, h := range ls.At(write) {
		if h.Mode == 'W' && an.SameField(h.Field, cond) {
			return an.EscapesWithout(write, func(x ssa.Instruction) bool { return broadcasts(c, x, cond, depth) }) == nil
		}
	}
	return lockThenBroadcast(c, write, cond, depth)
}
