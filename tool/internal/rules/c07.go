package rules

import (
	"go/token"
	"go/types"
	"strings"

	"golang.org/x/tools/go/ssa"

	"f1verif/internal/an"
	"f1verif/internal/core"
)

func init() { register("C07", c07) }

// recovering: the function calls the builtin recover() directly in its own body (Go only honours it there).
func recovering(fn *ssa.Function) (ssa.CallInstruction, bool) {
	if fn == nil || fn.Blocks == nil {
		return nil, false
	}
	for _, call := range an.AllCalls(fn) {
		if an.IsBuiltinCall(call, "recover") {
			return call, true
		}
	}
	return nil, false
}

// userSide: function values that are themselves RunFn / ScenarioFn (code running inside the contained frames).
func userSide(c *core.Ctx) map[*ssa.Function]bool {
	out := map[*ssa.Function]bool{}
	for _, f := range an.FuncsOfType(c, testingPkg, "RunFn") {
		out[f] = true
	}
	for _, f := range an.FuncsOfType(c, testingPkg, "ScenarioFn") {
		out[f] = true
	}
	// literals returned from a function whose result type is RunFn/ScenarioFn
	for _, fn := range c.AllFuncs {
		for _, ret := range an.Returns(fn) {
			for i, res := range ret.Results {
				rt := fn.Signature.Results().At(i).Type()
				if an.IsNamed(rt, testingPkg, "RunFn") || an.IsNamed(rt, testingPkg, "ScenarioFn") {
					v := an.Strip(res)
					if ct, ok := v.(*ssa.ChangeType); ok {
						v = ct.X
					}
					if mc, ok := v.(*ssa.MakeClosure); ok {
						out[mc.Fn.(*ssa.Function)] = true
					}
					if f, ok := v.(*ssa.Function); ok {
						out[f] = true
					}
				}
			}
		}
	}
	// helpers called only (synchronously) from user-side functions run in the same frames
	for changed := true; changed; {
		changed = false
		for _, fn := range c.AllFuncs {
			if out[fn] || !core.InModule(fn) || fn.Parent() != nil || fn.Object() == nil || fn.Object().Exported() {
				continue
			}
			sites := an.CallSitesOf(c, fn)
			if len(sites) == 0 {
				continue
			}
			all := true
			for _, s := range sites {
				if _, isCall := s.(*ssa.Call); !isCall || !out[s.Parent()] {
					all = false
				}
			}
			// not used as a value anywhere
			if all && fn.Referrers() != nil {
				for _, ref := range *fn.Referrers() {
					if ci, ok := ref.(ssa.CallInstruction); !ok || ci.Common().Value != ssa.Value(fn) {
						all = false
					}
				}
			}
			if all {
				out[fn] = true
				changed = true
			}
		}
	}
	return out
}

// containmentRule is C07.R1 (and the per-cleanup part of C06.R4).
func containmentRule(c *core.Ctx, r *core.Report, perCall bool) {
	us := userSide(c)
	calls := userCalls(c)
	contained, exempt := 0, 0
	ord := map[string]int{}
	for _, u := range calls {
		fn := u.Fn
		k := core.FuncName(fn) + "#" + u.Kind
		ord[k]++
		key := k
		if ord[k] > 1 {
			key = sprintf("%s[%d]", k, ord[k])
		}
		pos := an.Pos(c, u.Call)
		if us[fn] {
			exempt++
			r.Exists(key, pos, "call inside a user-side %s value (it runs inside the frames checked here)", u.Kind)
			continue
		}
		if _, isGo := u.Call.(*ssa.Go); isGo {
			r.Violation(key, pos, "user code started with `go`: a panic in it kills the process")
			continue
		}
		var rec *ssa.Defer
		if u.Host != nil {
			// handed to a guarding helper: every such call has its own recovered frame
			contained++
			r.OK(key, pos, "handed to %s, which calls it behind its own deferred %s", core.FuncName(an.Callee(u.Call)), core.FuncName(an.Callee(u.Host)))
			continue
		}
		for _, call := range an.AllCalls(fn) {
			d, ok := call.(*ssa.Defer)
			if !ok || !an.Dominates(d, u.Call) {
				continue
			}
			if _, ok := recovering(an.Callee(d)); ok {
				rec = d
			}
		}
		if rec == nil {
			// the call sits in a literal handed to a helper that runs it behind the recovering defer
			// (`runGuarded(t, func(t *T) { user(t) })`)
			for _, h := range literalHosts(fn) {
				if h.rec != nil && !(perCall && an.InLoop(h.call)) {
					rec = h.rec
				} else {
					rec = nil
					break
				}
			}
		}
		if rec == nil {
			r.Violation(key, pos, "call of user code (%s) in %s is not preceded in the same frame by a defer of a function that itself calls recover(): a panic escapes the iteration and kills the worker/process", u.Kind, core.FuncName(fn))
			continue
		}
		if perCall && an.InLoop(u.Call) {
			r.Violation(key, pos, "several user callbacks share one recovered frame (the call is in a loop inside %s): a panic or FailNow in one of them skips the remaining ones", core.FuncName(fn))
			continue
		}
		contained++
		r.OK(key, pos, "frame %s defers %s (calls recover() itself) before the call", core.FuncName(fn), core.FuncName(an.Callee(rec)))
	}
	r.Floor("contained user-callback sites", contained, 3)
	r.Count("user-side call sites (exempt)", exempt)
}

func c07(c *core.Ctx, r *core.Report) {
	r.Explanation = "Decides containment and classification structurally: (R1) every dynamic call of user code (ScenarioFn, RunFn, cleanups) lies in its own frame behind a defer of a function that calls recover() itself; " +
		"(R2) in the classifier every path with a non-nil recovered value marks failure unless it is the FailNow sentinel; the sentinel is panicked only by FailNow after the failure store; (R3) every failure API stores the failed flag when not tearing down and the *Now/Fatal variants stop the body; " +
		"(R4) `failed` becomes true only in Fail/FailNow and false only in Reset, which clears all per-iteration state unconditionally; the outcome is read after the body and before the cleanups. Panics on goroutines started by user code are out of scope."
	r.NotDecided = []string{"panics on goroutines created by user code (Go cannot contain them)"}

	rule(r, "C07.R1", "every dynamic call of user-supplied code lies in a frame that deferred, before the call, a function calling recover() directly", func() {
		containmentRule(c, r, false)
	})

	tpkg := "pkg/f1/testing"
	failedFld := handleFields(c).failed
	tdFailedFld := handleFields(c).tdFailed
	_ = handleFields(c).tearing
	isFail := func(f *ssa.Function) bool {
		return isMethod(f, testingPkg, "T", "Fail") || isMethod(f, testingPkg, "T", "FailNow")
	}
	storeOn := func(in ssa.Instruction, fld *types.Var, val string) bool {
		call, ok := in.(ssa.CallInstruction)
		if !ok {
			return false
		}
		t := an.Callee(call)
		if t == nil || t.Pkg == nil || t.Pkg.Pkg.Path() != "sync/atomic" || t.Name() != "Store" {
			return false
		}
		if !an.SameField(an.FieldOfAddr(call.Common().Args[0]), fld) {
			return false
		}
		k, ok := call.Common().Args[1].(*ssa.Const)
		return ok && k.Value != nil && k.Value.String() == val
	}

	rule(r, "C07.R2", "classifier: the recovered value reaches the classifier; every path with a non-nil value calls T.Fail unless it is the FailNow sentinel; panic(sentinel) occurs only in FailNow after the failure store", func() {
		// the classifier: callee receiving recover()'s result
		var classifier *ssa.Function
		var recValue ssa.Value
		for _, fn := range c.AllFuncs {
			rc, ok := recovering(fn)
			if !ok || core.RelPkg(fn) != tpkg {
				continue
			}
			v, _ := rc.(ssa.Value)
			used := false
			// classified in place (the value is tested here) or handed to a classifier of this package
			for _, ref := range an.Referrers(v) {
				switch x := ref.(type) {
				case *ssa.BinOp, *ssa.TypeAssert:
					classifier, recValue, used = fn, v, true
				case ssa.CallInstruction:
					if t := an.Callee(x); t != nil && core.RelPkg(t) == tpkg && classifier != fn {
						classifier = t
						used = true
					}
				}
			}
			r.Check(used, core.FuncName(fn)+"#recover-result", an.Pos(c, rc), "recover()'s result is handed to the classifier", "the value returned by recover() is dropped: a panic is swallowed without marking the iteration failed")
			// whoever waits for this frame (a `done` channel) is released only after the classification
			an.Instrs(fn, func(in ssa.Instruction) {
				isSend := false
				switch x := in.(type) {
				case *ssa.Send:
					isSend = true
				case *ssa.Select:
					for _, st := range x.States {
						if st.Dir == types.SendOnly {
							isSend = true
						}
					}
				}
				if !isSend {
					return
				}
				late := false
				for _, call := range an.AllCalls(fn) {
					t := an.Callee(call)
					if t == nil || !core.InModule(t) {
						continue
					}
					classifies := isFail(t) || an.ReachesCall(t, 2, isFail)
					if classifies && an.ReachableFrom(in, call) {
						late = true
					}
					// a deferred classification runs when this function exits, i.e. after the send
					if _, isDefer := call.(*ssa.Defer); isDefer && classifies {
						late = true
					}
				}
				r.Check(!late, core.FuncName(fn)+"#release-after-classification", an.Pos(c, in), "the waiting body is released after the recovered value was classified", "the channel send that releases the waiting body comes before the recovered value is classified: the body reads its outcome before the failure is marked, and the mark lands in the next iteration on this worker")
			})
		}
		if classifier == nil {
			r.Undecided("anchor:classifier", "-", "no function receives recover()'s result")
			return
		}
		var recParam ssa.Value
		if recValue != nil {
			recParam = recValue
		} else {
			for _, p := range classifier.Params {
				if types.IsInterface(p.Type()) {
					recParam = p
				}
			}
		}
		paths, err := an.DecisionPaths(classifier, 256)
		if err != nil {
			r.Undecided(core.FuncName(classifier), c.Pos(classifier.Pos()), "classifier is not loop-free: %v", err)
			return
		}
		nPaths := 0
		for _, p := range paths {
			nilPath, sentinel := false, false
			for _, l := range p.Lits {
				d := an.D().Of(l.Cond)
				if bo, ok := an.Strip(l.Cond).(*ssa.BinOp); ok && recParam != nil && an.Strip(bo.X) == recParam {
					if k, ok := bo.Y.(*ssa.Const); ok && k.IsNil() {
						if (bo.Op == token.EQL && l.Val) || (bo.Op == token.NEQ && !l.Val) {
							nilPath = true
						}
					}
				}
				if strings.Contains(d, "errors.Is(") && strings.Contains(d, "global:errFailNow") && l.Val {
					sentinel = true
				}
			}
			if nilPath {
				continue
			}
			nPaths++
			fails := false
			for _, b := range p.Blocks {
				for _, in := range b.Instrs {
					if call, ok := in.(ssa.CallInstruction); ok {
						t := an.Callee(call)
						if t != nil && (isFail(t) || (core.InModule(t) && an.ReachesCall(t, 1, isFail) && !t.Object().Exported())) {
							fails = true
						}
						if t != nil && isMethod(t, testingPkg, "T", "Errorf") {
							fails = true
						}
					}
				}
			}
			key := core.FuncName(classifier) + "#path" + itoa(nPaths)
			last := p.Blocks[len(p.Blocks)-1]
			pos := c.Pos(core.InstrPos(last.Instrs[len(last.Instrs)-1]))
			switch {
			case fails:
				r.OK(key, pos, "non-nil recovered value → T.Fail")
			case sentinel:
				r.OK(key, pos, "FailNow sentinel: already marked by FailNow")
			default:
				var lits []string
				for _, l := range p.Lits {
					lits = append(lits, sprintf("%s=%v", an.D().Of(l.Cond), l.Val))
				}
				r.Violation(key, pos, "a path of the classifier with a non-nil recovered value (%s) returns without marking the iteration failed", strings.Join(lits, ", "))
			}
		}
		r.Floor("classifier paths with a recovered value", nPaths, 2)
		// panic(sentinel)
		nP := 0
		for _, fn := range c.AllFuncs {
			an.Instrs(fn, func(in ssa.Instruction) {
				p, ok := in.(*ssa.Panic)
				if !ok || !strings.Contains(an.D().Of(p.X), "global:errFailNow") {
					return
				}
				nP++
				key := core.FuncName(fn) + "#panic(sentinel)"
				if !isMethod(fn, testingPkg, "T", "FailNow") {
					r.Violation(key, an.Pos(c, in), "the FailNow sentinel is panicked outside FailNow: the classifier treats it as already marked")
					return
				}
				// every path to the panic stores a failure flag (directly or through a helper)
				w := an.InstrWeight(func(i ssa.Instruction) bool {
					return storeOn(i, failedFld, "true") || storeOn(i, tdFailedFld, "true")
				}, 2)
				ok2 := false
				for _, e := range an.PathCount(fn, w) {
					if e.Instr == ssa.Instruction(p) {
						ok2 = e.Count.Lo >= 1
					}
				}
				r.Check(ok2, key, an.Pos(c, in), "every path to panic(sentinel) stored a failure flag first", "FailNow can panic with the sentinel without having stored the failure: the iteration is reported successful")
			})
		}
		r.Floor("panic(sentinel) sites", nP, 1)
	})

	rule(r, "C07.R3", "failure APIs: Fail and FailNow store failed=true on every path where tearingDown is false (teardownFailed otherwise); Error/Errorf call Fail and Fatal/Fatalf call FailNow on every path; FailNow never returns", func() {
		for _, name := range []string{"T.Fail", "T.FailNow"} {
			fn := c.MustFn(tpkg, name)
			// exactly one flag store on every path (through helpers)
			w := an.InstrWeight(func(i ssa.Instruction) bool {
				return storeOn(i, failedFld, "true") || storeOn(i, tdFailedFld, "true")
			}, 2)
			okOnce := true
			for _, e := range an.PathCount(fn, w) {
				if e.Count.Lo != 1 || e.Count.Hi != 1 {
					okOnce = false
					r.Violation(name+"#marks-once", an.Pos(c, e.Instr), "%s stores a failure flag %s times on paths to this exit (expected exactly once): the failure is not recorded", name, e.Count)
				}
				if _, isRet := e.Instr.(*ssa.Return); isRet && name == "T.FailNow" {
					r.Violation(name+"#returns", an.Pos(c, e.Instr), "FailNow can return: the body continues after a fatal failure")
				}
			}
			if okOnce {
				r.OK(name+"#marks-once", c.Pos(fn.Pos()), "exactly one failure-flag store on every path")
			}
			// which flag under which phase: each store event is guarded by the matching tearingDown test
			nStores := 0
			an.Flatten(fn, 2, nil, func(e an.Event) {
				var fld *types.Var
				switch {
				case storeOn(e.Instr, failedFld, "true"):
					fld = failedFld
				case storeOn(e.Instr, tdFailedFld, "true"):
					fld = tdFailedFld
				default:
					return
				}
				nStores++
				wantTearing := fld == tdFailedFld
				okGuard := false
				for _, g := range an.GuardsOfEvent(e) {
					if tearing, ok := handleFields(c).tearingTest(g.Cond, g.Polarity); ok && tearing == wantTearing {
						okGuard = true
					}
				}
				r.Check(okGuard, sprintf("%s#%s-phase", name, fld.Name()), an.Pos(c, e.Instr), sprintf("%s is stored only when tearingDown=%v", fld.Name(), wantTearing), sprintf("%s stores %s without testing tearingDown=%v: a failure is attributed to the wrong phase (an iteration failure is lost, or a cleanup failure fails the iteration)", name, fld.Name(), wantTearing))
			})
			r.Check(nStores == 2, name+"#both-flags", c.Pos(fn.Pos()), "both phases handled", sprintf("%s has %d failure-flag stores (expected one per phase)", name, nStores))
		}
		for name, want := range map[string]string{"T.Error": "Fail", "T.Errorf": "Fail", "T.Fatal": "FailNow", "T.Fatalf": "FailNow"} {
			fn := c.MustFn(tpkg, name)
			exits := an.PathCount(fn, an.CallWeight(func(_ ssa.CallInstruction, t *ssa.Function) bool { return isMethod(t, testingPkg, "T", want) }, 2))
			tot, ok := an.Total(exits, true)
			r.Check(ok && tot.Lo >= 1, name, c.Pos(fn.Pos()), name+" calls "+want+" on every path", name+" has a path that does not call "+want+": the failure is only logged")
		}
	})

	rule(r, "C07.R4", "`failed` is stored true only by Fail/FailNow and false only by Reset; Reset clears failed, teardownFailed, tearingDown and the cleanup stack on every path; the outcome is read after the body and before the iteration's cleanups run", func() {
		fullReset(c, r)
		n := 0
		for _, fn := range c.AllFuncs {
			an.Instrs(fn, func(in ssa.Instruction) {
				key := core.FuncName(fn) + "#failed.Store"
				if storeOn(in, failedFld, "true") {
					n++
					okWho := isFail(fn)
					if !okWho {
						// an unexported helper of T called only from Fail/FailNow
						sites := an.CallSitesOf(c, fn)
						okWho = len(sites) > 0 && fn.Object() != nil && !fn.Object().Exported()
						for _, cs := range sites {
							if !isFail(an.Outermost(cs.Parent())) {
								okWho = false
							}
						}
					}
					r.Check(okWho, key+"(true)", an.Pos(c, in), "set by a failure API (or its private helper)", "failed is set to true in "+core.FuncName(fn)+", outside Fail/FailNow")
				}
				if storeOn(in, failedFld, "false") {
					n++
					r.Check(isMethod(fn, testingPkg, "T", "Reset"), key+"(false)", an.Pos(c, in), "cleared by Reset", "failed is cleared in "+core.FuncName(fn)+": a failure of the running iteration can be erased")
				}
			})
		}
		r.Floor("stores to T.failed", n, 2)
		resetClears(c, r)
		// outcome read vs. cleanups in the iteration runner
		runner, bodyEv, _ := userRunner(c, "RunFn", func(t *ssa.Function) bool { return isStatsRecord(t) || isMetricsIter(t) })
		reads := an.FlatCalls(runner, flatDepth, func(_ ssa.CallInstruction, t *ssa.Function) bool { return isMethod(t, testingPkg, "T", "Failed") })
		if len(reads) == 0 {
			r.Violation(core.FuncName(runner)+"#outcome-read", c.Pos(runner.Pos()), "the iteration runner never reads T.Failed()")
			return
		}
		failedRead := reads[len(reads)-1]
		okOrder := an.Before(bodyEv, failedRead)
		for _, e := range an.FlatCalls(runner, flatDepth, func(call ssa.CallInstruction, t *ssa.Function) bool {
			if t != nil || call.Common().IsInvoke() {
				return false
			}
			fld, owner := an.TerminalField(call.Common().Value)
			return fld != nil && an.IsNamed(owner, workersPkg, "iterationState") && fld.Name() == "teardown"
		}) {
			if _, isDefer := e.Instr.(*ssa.Defer); !isDefer && !an.Before(failedRead, e) {
				okOrder = false
			}
		}
		r.Check(okOrder, core.FuncName(runner)+"#outcome-read", an.Pos(c, failedRead.Instr), "outcome read after the recovered body and before the cleanups", "the outcome is read before the body ran or after the cleanups: the iteration is classified by the wrong state")
	})
}

func init() {
	extra["C07"] = append(extra["C07"], func(c *core.Ctx, r *core.Report) {
		rule(r, "C07.R6", "recover() is called only by functions deferred from frames that themselves call user code (the frames of R1): a recover anywhere else stops a FailNow/panic before it reaches the iteration's frame, so the rest of the body keeps running", func() {
			frames := map[*ssa.Function]bool{}
			for _, u := range userCalls(c) {
				frames[u.Fn] = true
				// a helper running the literal that holds the user call is such a frame too
				for _, h := range literalHosts(u.Fn) {
					frames[h.call.Parent()] = true
				}
			}
			// a guarding helper is such a frame only for what it is handed: every call of it must hand it user code the
			// runner is about to run (a literal holding a user call, or a registered cleanup) — guarding anything else
			// (a function the user passed to an API such as T.Time) stops a FailNow before it reaches the iteration's frame
			hosts := hostHelpers(c)
			ucalls := userCalls(c)
			for h, hh := range hosts {
				for _, site := range an.CallSitesOf(c, h) {
					if hh.param >= len(site.Common().Args) {
						continue
					}
					arg := an.Strip(site.Common().Args[hh.param])
					okArg := false
					if mc, isMC := arg.(*ssa.MakeClosure); isMC {
						if lf, isF := mc.Fn.(*ssa.Function); isF {
							for _, u := range ucalls {
								if u.Fn == lf {
									okArg = true
								}
							}
						}
					}
					for _, u := range ucalls {
						if u.Host != nil && u.Call == site {
							okArg = true
						}
					}
					if okArg {
						frames[h] = true
					}
					r.Check(okArg, core.FuncName(site.Parent())+"#guards→"+h.Name(), an.Pos(c, site), "the guarding helper is handed user code the runner runs", sprintf("%s hands %s to %s, which recovers: a FailNow or panic raised in it ends there instead of unwinding to the iteration's frame, and the code after this call carries on", core.FuncName(site.Parent()), an.D().Of(site.Common().Args[hh.param]), core.FuncName(h)))
				}
			}
			n := 0
			for _, fn := range c.AllFuncs {
				if !core.InModule(fn) {
					continue
				}
				if _, ok := recovering(fn); !ok {
					continue
				}
				n++
				// where is it deferred?
				sites := 0
				for _, g := range c.AllFuncs {
					for _, call := range an.AllCalls(g) {
						d, isDefer := call.(*ssa.Defer)
						if !isDefer || an.Callee(d) != fn {
							continue
						}
						sites++
						key := core.FuncName(g) + "#defer→" + fn.Name()
						r.Check(frames[g], key, an.Pos(c, d), "deferred from a frame that calls user code", sprintf("%s defers %s, which calls recover(), but %s is not a frame that calls a scenario/iteration/cleanup function: a FailNow or panic unwinding through it (it is reachable from user code) ends here and the caller carries on", core.FuncName(g), core.FuncName(fn), core.FuncName(g)))
					}
				}
				if sites == 0 {
					r.Exists(core.FuncName(fn)+"#recover-not-deferred", c.Pos(fn.Pos()), "calls recover() but is never deferred directly (recover returns nil there)")
				}
			}
			r.Floor("functions calling recover()", n, 1)
		})

		rule(r, "C07.R5", "handle isolation (so that an iteration is reported by its own outcome): "+freshStateText, func() { freshStateRule(c, r, false) })
	})
}

// resetClears: T.Reset stores failed=false, teardownFailed=false, tearingDown=false and a fresh empty
// cleanup stack exactly once on every path (shared by C07.R4 and C06.R5).
func resetClears(c *core.Ctx, r *core.Report) { resetClearsOnly(c, r, "") }

// resetClearsOnly checks the named target only ("" = all).
func resetClearsOnly(c *core.Ctx, r *core.Report, only string) {
	tpkg := "pkg/f1/testing"
	reset := c.MustFn(tpkg, "T.Reset")
	type tgt struct {
		name string
		pred func(in ssa.Instruction) bool
	}
	atomicFalse := func(fld *types.Var) func(ssa.Instruction) bool {
		return func(in ssa.Instruction) bool {
			call, ok := in.(ssa.CallInstruction)
			if !ok {
				return false
			}
			t := an.Callee(call)
			if t == nil || t.Pkg == nil || t.Pkg.Pkg.Path() != "sync/atomic" || t.Name() != "Store" || !an.SameField(an.FieldOfAddr(call.Common().Args[0]), fld) {
				return false
			}
			k, ok := call.Common().Args[1].(*ssa.Const)
			return ok && k.Value != nil && k.Value.String() == "false"
		}
	}
	plainStore := func(fld *types.Var, ok func(v ssa.Value) bool) func(ssa.Instruction) bool {
		return func(in ssa.Instruction) bool {
			st, isSt := in.(*ssa.Store)
			return isSt && an.SameField(an.FieldOfAddr(st.Addr), fld) && ok(st.Val)
		}
	}
	targets := []tgt{
		{"failed=false", atomicFalse(handleFields(c).failed)},
		{"teardownFailed=false", atomicFalse(handleFields(c).tdFailed)},
		{"tearingDown=false", plainStore(handleFields(c).tearing, func(v ssa.Value) bool {
			k, ok := v.(*ssa.Const)
			return ok && k.Value != nil && k.Value.String() == handleFields(c).tearingOff
		})},
		{"teardownStack=empty", plainStore(handleFields(c).stack, func(v ssa.Value) bool {
			d := an.D().Of(v)
			return strings.HasPrefix(d, "local:") || strings.HasPrefix(d, "make(slice") || d == "nil" || strings.Contains(d, "[:]") || strings.Contains(d, "[:0]") || freshEmptySlice(reset, v)
		})},
	}
	for _, t := range targets {
		if only != "" && t.name != only {
			continue
		}
		pred := t.pred
		// through the helpers Reset calls in place (`t.resetStack()`)
		exits := an.PathCount(reset, an.InstrWeight(pred, flatDepth))
		tot, ok := an.Total(exits, false)
		r.Check(ok && tot.Lo >= 1, "T.Reset#"+t.name, c.Pos(reset.Pos()), "Reset sets "+t.name+" on every path", "Reset has a path that does not set "+t.name+": state of the previous iteration on this worker leaks into the next one")
	}
}

// literalHosts: for a function literal that is only ever handed, as an argument, to helpers of the module which call
// that parameter synchronously: the calls of the parameter in those helpers, each with the recovering defer that
// dominates it (nil when there is none).
type literalHost struct {
	call ssa.CallInstruction // the helper's call of its function-typed parameter
	rec  *ssa.Defer
}

func literalHosts(lit *ssa.Function) []literalHost {
	if lit == nil || lit.Parent() == nil {
		return nil
	}
	var out []literalHost
	ok := true
	an.Instrs(lit.Parent(), func(in ssa.Instruction) {
		mc, isMC := in.(*ssa.MakeClosure)
		if !isMC || mc.Fn != ssa.Value(lit) {
			return
		}
		for _, ref := range an.Referrers(mc) {
			site, isCall := ref.(*ssa.Call)
			if !isCall {
				ok = false
				continue
			}
			h := an.Callee(site)
			if h == nil || !core.InModule(h) || h.Blocks == nil {
				ok = false
				continue
			}
			for i, a := range site.Call.Args {
				if a != ssa.Value(mc) || i >= len(h.Params) {
					continue
				}
				for _, hc := range an.AllCalls(h) {
					if an.Callee(hc) != nil || an.Strip(hc.Common().Value) != ssa.Value(h.Params[i]) {
						continue
					}
					if _, isPlain := hc.(*ssa.Call); !isPlain {
						ok = false
						continue
					}
					host := literalHost{call: hc}
					for _, d := range an.AllCalls(h) {
						df, isDefer := d.(*ssa.Defer)
						if !isDefer || !an.Dominates(df, hc) {
							continue
						}
						if _, rok := recovering(an.Callee(df)); rok {
							host.rec = df
						}
					}
					out = append(out, host)
				}
			}
		}
	})
	if !ok {
		return nil
	}
	return out
}

// fullReset (part of C07.R4): a worker's handle is reused for every iteration it runs, so whatever a method of T
// writes into the handle while an iteration runs — a flag, a counter, a list — is written by Reset as well, on every
// path; otherwise the state of one iteration leaks into the next one on that worker. Fields set only when the handle
// is built (options, the constructor) are configuration, not iteration state.
func fullReset(c *core.Ctx, r *core.Report) {
	tpkg := "pkg/f1/testing"
	reset := c.MustFn(tpkg, "T.Reset")
	st, _ := c.Named(tpkg, "T").Underlying().(*types.Struct)
	if st == nil {
		return
	}
	fieldOf := func(in ssa.Instruction) *types.Var {
		switch x := in.(type) {
		case *ssa.Store:
			if f, owner := an.TerminalField(x.Addr); f != nil && an.IsNamed(owner, testingPkg, "T") {
				return f
			}
		case ssa.CallInstruction:
			t := an.Callee(x)
			if t != nil && t.Pkg != nil && t.Pkg.Pkg.Path() == "sync/atomic" && t.Signature.Recv() != nil && len(x.Common().Args) > 0 {
				switch t.Name() {
				case "Store", "Swap", "Add", "CompareAndSwap":
					if f, owner := an.TerminalField(x.Common().Args[0]); f != nil && an.IsNamed(owner, testingPkg, "T") {
						return f
					}
				}
			}
		}
		return nil
	}
	written := map[*types.Var]ssa.Instruction{}
	for _, fn := range c.AllFuncs {
		if core.RelPkg(fn) != tpkg {
			continue
		}
		top := an.Outermost(fn)
		// methods of T (and the literals inside them); not Reset itself, not option closures, not the constructor
		if top.Signature.Recv() == nil || !an.IsNamed(top.Signature.Recv().Type(), testingPkg, "T") || top == reset {
			continue
		}
		an.Instrs(fn, func(in ssa.Instruction) {
			if f := fieldOf(in); f != nil {
				for i := 0; i < st.NumFields(); i++ {
					if an.SameField(st.Field(i), f) {
						if _, seen := written[st.Field(i)]; !seen {
							written[st.Field(i)] = in
						}
					}
				}
			}
		})
	}
	n := 0
	for i := 0; i < st.NumFields(); i++ {
		f := st.Field(i)
		at, isState := written[f]
		if !isState {
			continue
		}
		n++
		pred := func(in ssa.Instruction) bool {
			g := fieldOf(in)
			return g != nil && an.SameField(g, f)
		}
		tot, ok := an.Total(an.PathCount(reset, an.InstrWeight(pred, flatDepth)), false)
		r.Check(ok && tot.Lo >= 1, "T.Reset#resets("+f.Name()+")", an.Pos(c, at), "iteration state "+f.Name()+" is written by Reset on every path", "a method of T writes "+f.Name()+" while an iteration runs, but Reset has a path that does not reset it: on a reused handle the state of one iteration leaks into the next one on that worker")
	}
	r.Floor("iteration-state fields of testing.T", n, 3)
}
