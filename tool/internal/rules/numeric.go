package rules

import (
	"go/constant"
	"go/token"
	"go/types"
	"math"

	"golang.org/x/tools/go/ssa"

	"f1verif/internal/an"
	"f1verif/internal/core"
)

// cell is a persistent storage location of a closure (captured variable) or method (receiver field).
type cell struct {
	name string
	fv   *ssa.FreeVar
	fld  *types.Var
	// param: the cell is (also) reached through this pointer parameter of a helper that is handed the cell's address
	// (`c.remainder.whole(rate)` with `func (r *carry) whole(rate float64) int`)
	param *ssa.Parameter
}

func (k cell) addrIs(v ssa.Value) bool {
	if k.param != nil && v == ssa.Value(k.param) {
		return true
	}
	if k.fv != nil {
		return v == ssa.Value(k.fv)
	}
	if fa, ok := v.(*ssa.FieldAddr); ok {
		return an.SameField(an.FieldOfAddr(fa), k.fld)
	}
	return false
}

func (k cell) loadOf(v ssa.Value) bool {
	u, ok := v.(*ssa.UnOp)
	return ok && u.Op == token.MUL && k.addrIs(u.X)
}

func (k cell) stores(fn *ssa.Function) []*ssa.Store {
	var out []*ssa.Store
	an.Instrs(fn, func(in ssa.Instruction) {
		if st, ok := in.(*ssa.Store); ok && k.addrIs(st.Addr) {
			out = append(out, st)
		}
	})
	return out
}

func (k cell) loads(fn *ssa.Function) []*ssa.UnOp {
	var out []*ssa.UnOp
	an.Instrs(fn, func(in ssa.Instruction) {
		if u, ok := in.(*ssa.UnOp); ok && k.loadOf(u) {
			out = append(out, u)
		}
	})
	return out
}

// cellsOf lists the persistent locations a function writes: captured variables of a closure, or fields of
// the receiver of a method.
func cellsOf(fn *ssa.Function) []cell {
	var out []cell
	if fn.Signature.Recv() != nil && len(fn.Params) > 0 {
		seen := map[*types.Var]bool{}
		an.Instrs(fn, func(in ssa.Instruction) {
			st, ok := in.(*ssa.Store)
			if !ok {
				return
			}
			fa, ok := st.Addr.(*ssa.FieldAddr)
			if !ok || an.Strip(fa.X) != ssa.Value(fn.Params[0]) {
				return
			}
			f := an.FieldOfAddr(fa)
			if f != nil && !seen[f] {
				seen[f] = true
				out = append(out, cell{name: f.Name(), fld: f})
			}
		})
		return out
	}
	for _, fv := range fn.FreeVars {
		k := cell{name: fv.Name(), fv: fv}
		if len(k.stores(fn)) > 0 {
			out = append(out, k)
		}
	}
	return out
}

// initialStores lists the stores that initialise the cell outside fn: the stores to the captured variable in
// the enclosing function, or the stores to the field anywhere else in the module.
func (k cell) initialStores(c *core.Ctx, fn *ssa.Function, _ ssa.Value) []*ssa.Store {
	var out []*ssa.Store
	if k.fv != nil {
		if al, ok := an.FreeVarBinding(k.fv).(*ssa.Alloc); ok {
			out = append(out, an.StoresTo(al)...)
		}
		return out
	}
	for _, g := range c.AllFuncs {
		if g == fn {
			continue
		}
		out = append(out, k.stores(g)...)
	}
	return out
}

// cellAt names the persistent location behind an address used in fn: a captured variable, or a field of fn's
// receiver.
func cellAt(fn *ssa.Function, addr ssa.Value) (cell, bool) {
	switch x := addr.(type) {
	case *ssa.FreeVar:
		return cell{name: x.Name(), fv: x}, true
	case *ssa.FieldAddr:
		if fn.Signature.Recv() != nil && len(fn.Params) > 0 && an.Strip(x.X) == ssa.Value(fn.Params[0]) {
			if f := an.FieldOfAddr(x); f != nil {
				return cell{name: f.Name(), fld: f}, true
			}
		}
	}
	return cell{}, false
}

func (k cell) valid() bool { return k.fv != nil || k.fld != nil }

// elem is the type of the value the cell holds.
func (k cell) elem() types.Type {
	if k.fv != nil {
		if p, ok := k.fv.Type().(*types.Pointer); ok {
			return p.Elem()
		}
		return k.fv.Type()
	}
	if k.fld != nil {
		return k.fld.Type()
	}
	return nil
}

// initial returns the values the cell is initialised with outside fn: the stores into the captured variable in
// the enclosing function, or the stores into the field elsewhere in the module.
func (k cell) initial(c *core.Ctx, fn *ssa.Function) []ssa.Value {
	var out []ssa.Value
	for _, st := range k.initialStores(c, fn, nil) {
		out = append(out, st.Val)
	}
	return out
}

func freeCell(fn *ssa.Function, name string) (cell, bool) {
	for _, fv := range fn.FreeVars {
		if fv.Name() == name {
			return cell{name: name, fv: fv}, true
		}
	}
	return cell{}, false
}

// noConv strips loads of locals but keeps numeric conversions visible.
func noConv(v ssa.Value) ssa.Value {
	for i := 0; i < 8; i++ {
		u, ok := v.(*ssa.UnOp)
		if !ok || u.Op != token.MUL {
			return v
		}
		a, ok := u.X.(*ssa.Alloc)
		if !ok {
			return v
		}
		sts := an.StoresTo(a)
		if len(sts) != 1 {
			return v
		}
		v = sts[0].Val
	}
	return v
}

// carryTemplate checks analysis H on fn for the given cell: on every path there is exactly one store
// B' = X − out with X = in + B (B loaded before any store) and the function returns int(out) of the
// same out. This is the shape that makes Σ out = Σ in − B_final + B_0 an identity of real arithmetic.
// carryTerms remembers, per carry store, the term added to the carried value ("rate" in due = rate + carry), as
// resolved by the last carryTemplate run.
var carryTerms = map[*ssa.Store]an.FV{}

func isRootFrame(f *an.Frame) bool { return f == nil || f.Parent == nil }

func carryTemplate(c *core.Ctx, r *core.Report, fn *ssa.Function, k cell, what string) bool {
	key := core.FuncName(fn) + "#carry(" + k.name + ")"
	stores := k.stores(fn)
	if len(stores) == 0 {
		r.Violation(key, c.Pos(fn.Pos()), "%s is never updated: the part of the rate that was not emitted is lost (or the over-delivery never paid back)", k.name)
		return false
	}
	// exactly one store on every path to a return
	exits := an.PathCount(fn, func(in ssa.Instruction) an.Interval {
		if st, ok := in.(*ssa.Store); ok && k.addrIs(st.Addr) {
			return an.Interval{Lo: 1, Hi: 1}
		}
		return an.Interval{}
	})
	ok := true
	type zeroReturn struct {
		ret   *ssa.Return
		zeros []ssa.Value
		count an.Interval
	}
	var zeroReturns []zeroReturn
	for _, e := range exits {
		if _, isRet := e.Instr.(*ssa.Return); !isRet {
			continue
		}
		if ret := e.Instr.(*ssa.Return); e.Count.Lo == 0 && e.Count.Hi == 0 && len(ret.Results) == 1 {
			// nothing due is withheld and nothing carried is paid out: the value returned is this tick's own input
			// (a call of the wrapped function value), so what is carried stays as it is
			if call, isCall := noConv(ret.Results[0]).(*ssa.Call); isCall && an.Callee(call) == nil && !call.Call.IsInvoke() {
				if _, isSig := call.Call.Value.Type().Underlying().(*types.Signature); isSig {
					r.OK(key+"#pass-through", an.Pos(c, ret), "this return hands on the wrapped value unchanged; the carried %s is left as it is", what)
					continue
				}
			}
		}
		if ret := e.Instr.(*ssa.Return); e.Count.Lo == 0 && e.Count.Hi == 0 && len(ret.Results) == 1 {
			// nothing is due on this tick: the function returns the constant 0 under a test that a factor of this tick's
			// rate is zero, and leaves what is carried as it is (decided once the rate terms are known, below)
			if k, isK := noConv(ret.Results[0]).(*ssa.Const); isK && k.Value != nil && k.Int64() == 0 {
				var zeros []ssa.Value
				for _, g := range an.GuardsOf(ret.Block()) {
					bo, isBin := an.Strip(g.Cond).(*ssa.BinOp)
					if !isBin {
						continue
					}
					kz, isZ := bo.Y.(*ssa.Const)
					if !isZ || kz.Value == nil || constant.Sign(kz.Value) != 0 {
						continue
					}
					if (bo.Op == token.EQL && g.Polarity) || (bo.Op == token.NEQ && !g.Polarity) {
						zeros = append(zeros, bo.X)
					}
				}
				if len(zeros) > 0 {
					zeroReturns = append(zeroReturns, zeroReturn{ret, zeros, e.Count})
					continue
				}
			}
		}
		if e.Count.Lo != 1 || e.Count.Hi != 1 {
			ok = false
			r.Violation(key+"#once", an.Pos(c, e.Instr), "on paths to this return the carried %s is stored %s times (expected exactly once): the difference between what was due and what was emitted on this tick is not carried to later ticks", what, e.Count)
		}
	}
	for _, st := range stores {
		// through helpers: the new carry may be one result of a helper that computes (emitted, due − emitted)
		q := an.RootFV(fn, st.Val).Resolve(nil)
		sub, isSub := q.V.(*ssa.BinOp)
		if !isSub || sub.Op != token.SUB {
			ok = false
			r.Violation(key+"#shape", an.Pos(c, st), "%s is set to %s, not to (due − emitted): the long-run total is not conserved", k.name, an.D().Of(st.Val))
			continue
		}
		x := an.FV{V: sub.X, F: q.F}.Resolve(nil)
		out := an.FV{V: sub.Y, F: q.F}.Resolve(nil).V
		add, isAdd := x.V.(*ssa.BinOp)
		okX := false
		var term an.FV
		var carryLoad *ssa.UnOp
		if isAdd && add.Op == token.ADD {
			l, rr := an.FV{V: add.X, F: x.F}.Resolve(nil), an.FV{V: add.Y, F: x.F}.Resolve(nil)
			lc, rc := k.addrIs(l.V) && isRootFrame(l.F), k.addrIs(rr.V) && isRootFrame(rr.F)
			okX = lc != rc
			term = rr
			raw := add.X
			if rc {
				term = l
				raw = add.Y
			}
			// the load instruction that enters the amount due (when it sits in this function)
			if x.F == nil || x.F.Parent == nil {
				if u, isU := noConv(raw).(*ssa.UnOp); isU && u.Op == token.MUL {
					carryLoad = u
				}
			}
		}
		if !okX {
			ok = false
			r.Violation(key+"#due", an.Pos(c, st), "the amount due (%s) is not rate + carried %s: the carry is computed from a value that does not include the previous remainder", an.D().Of(x.V), k.name)
			continue
		}
		carryTerms[st] = term
		// the cell is read before it is overwritten: the read that enters the amount due (reads made after the update
		// for diagnostics — a trace hook, a log line — do not take part in the carry)
		for _, ld := range k.loads(fn) {
			if carryLoad != nil && ld != carryLoad {
				continue
			}
			for _, s2 := range stores {
				if an.Dominates(s2, ld) {
					ok = false
					r.Violation(key+"#stale", an.Pos(c, s2), "%s is overwritten before it is read", k.name)
				}
			}
		}
		// read and update are one step: when the cell is protected by a mutex, the lock is not released between the
		// read that enters the amount due and this store (a second caller's update in between would be overwritten)
		for _, ld := range k.loads(fn) {
			if carryLoad != nil && ld != carryLoad {
				continue
			}
			for _, call := range an.AllCalls(fn) {
				if _, isDefer := call.(*ssa.Defer); isDefer {
					continue
				}
				t := an.Callee(call)
				if t == nil || t.Pkg == nil || t.Pkg.Pkg.Path() != "sync" || (t.Name() != "Unlock" && t.Name() != "RUnlock") {
					continue
				}
				if an.ReachableFrom(ld, call) && an.ReachableFrom(call, st) {
					ok = false
					r.Violation(key+"#split-critical-section", an.Pos(c, call), "the lock protecting %s is released between the read that enters the amount due and the update: a call running in between has its carry overwritten (lost update), so what it did not emit is never paid back", k.name)
				}
			}
		}
		// returns after this store return int(out)
		nRet := 0
		for _, ret := range an.Returns(fn) {
			if !an.Dominates(st, ret) {
				continue
			}
			nRet++
			if an.RootFV(fn, ret.Results[0]).Resolve(nil).V != out {
				ok = false
				r.Violation(key+"#emitted", an.Pos(c, ret), "the function returns %s but the carry was computed against %s: what is emitted differs from what the remainder accounts for", an.D().Of(ret.Results[0]), an.D().Of(out))
			}
		}
		if nRet == 0 {
			ok = false
			r.Violation(key+"#emitted", an.Pos(c, st), "no return follows the carry update")
		}
	}
	// early `return 0` paths that leave the carry alone: the value tested zero is a factor of the rate term of every
	// carry update (so this tick's rate is zero and nothing is withheld)
	for _, zr := range zeroReturns {
		good := len(stores) > 0
		for _, st := range stores {
			term, have := carryTerms[st]
			if !have {
				good = false
				break
			}
			factors := map[ssa.Value]bool{}
			var walk func(v ssa.Value, d int)
			walk = func(v ssa.Value, d int) {
				v = noConv(v)
				if d > 12 || factors[v] {
					return
				}
				factors[v] = true
				switch x := v.(type) {
				case *ssa.BinOp:
					if x.Op == token.MUL {
						walk(x.X, d+1)
						walk(x.Y, d+1)
					} else if x.Op == token.QUO {
						walk(x.X, d+1)
					}
				case *ssa.Convert:
					walk(x.X, d+1)
				case *ssa.ChangeType:
					walk(x.X, d+1)
				case *ssa.Phi:
					for _, e := range x.Edges {
						walk(e, d+1)
					}
				}
			}
			walk(term.V, 0)
			hit := false
			for _, z := range zr.zeros {
				if factors[noConv(z)] || factors[z] {
					hit = true
				}
			}
			if !hit {
				good = false
			}
		}
		if good {
			r.OK(key+"#nothing-due", an.Pos(c, zr.ret), "this return emits 0 under a test that a factor of the tick's rate is zero; the carried %s is left as it is", what)
		} else {
			ok = false
			r.Violation(key+"#once", an.Pos(c, zr.ret), "on paths to this return the carried %s is stored %s times (expected exactly once): the difference between what was due and what was emitted on this tick is not carried to later ticks", what, zr.count)
		}
	}
	if ok {
		r.OK(key, an.Pos(c, stores[0]), "due = rate + %s; emitted = int(out); %s' = due − out, exactly once on every path", k.name, k.name)
	}
	return ok
}

// nonNegReturns checks that every value returned is a non-negative constant, a value guarded by a
// lower-bound test on the returning path, or int(math.Max(c>=0, ·)) / int(math.Floor(nonneg)).
func nonNegReturns(c *core.Ctx, r *core.Report, fn *ssa.Function, nonneg func(v ssa.Value) (bool, string)) {
	for i, ret := range an.Returns(fn) {
		key := sprintf("%s#return%d-nonneg", core.FuncName(fn), i+1)
		v := ret.Results[0]
		ok, why := returnNonNeg(ret, v, nonneg)
		if ok {
			r.OK(key, an.Pos(c, ret), "%s", why)
		} else {
			r.Violation(key, an.Pos(c, ret), "returned request %s is not shown non-negative: %s", an.D().Of(v), why)
		}
	}
}

func returnNonNeg(ret *ssa.Return, v ssa.Value, nonneg func(v ssa.Value) (bool, string)) (bool, string) {
	return returnNonNegAt(ret.Block(), ret, v, nonneg)
}

// returnNonNegAt judges v as it is known at the end of block at (the returning block, or — for results merged before a
// single exit — the predecessor a phi edge comes from).
func returnNonNegAt(at *ssa.BasicBlock, ret *ssa.Return, v ssa.Value, nonneg func(v ssa.Value) (bool, string)) (bool, string) {
	v = noConv(v)
	if nonneg != nil {
		if ok, why := nonneg(v); ok {
			return true, why
		}
	}
	if phi, isPhi := v.(*ssa.Phi); isPhi && len(phi.Edges) == len(phi.Block().Preds) {
		// named results merged before one return: every incoming value is judged under the guards of its own edge
		all := true
		for i, e := range phi.Edges {
			if ok, _ := returnNonNegAt(phi.Block().Preds[i], ret, e, nonneg); !ok {
				all = false
				break
			}
		}
		if all {
			return true, "every value merged into the result is non-negative on its own path"
		}
	}
	// a result of a same-module helper: every return of the helper must be non-negative at that position
	if ex, ok := v.(*ssa.Extract); ok {
		if call, isCall := ex.Tuple.(*ssa.Call); isCall {
			if t := an.Callee(call); t != nil && t.Blocks != nil && core.InModule(t) && t != ret.Parent() {
				rets := an.Returns(t)
				for _, hr := range rets {
					if ex.Index >= len(hr.Results) {
						return false, "helper result missing"
					}
					if ok, why := returnNonNeg(hr, hr.Results[ex.Index], nil); !ok {
						return false, "helper " + t.Name() + ": " + why
					}
				}
				if len(rets) > 0 {
					return true, "every return of helper " + t.Name() + " is non-negative at this position"
				}
			}
		}
	}
	// the single result of a same-module helper (a method of a small carry / accumulator type): every return of the
	// helper must be non-negative under its own guards
	if call, ok := v.(*ssa.Call); ok {
		if t := an.Callee(call); t != nil && t.Blocks != nil && core.InModule(t) && t != ret.Parent() && t.Signature.Results().Len() == 1 {
			rets := an.Returns(t)
			all := len(rets) > 0
			for _, hr := range rets {
				if ok, _ := returnNonNeg(hr, hr.Results[0], nil); !ok {
					all = false
				}
			}
			if all {
				return true, "every return of helper " + t.Name() + " is non-negative"
			}
		}
	}
	if k, ok := v.(*ssa.Const); ok && k.Value != nil {
		if k.Int64() >= 0 {
			return true, "constant " + k.Value.String()
		}
		return false, "negative constant"
	}
	// guarded by !(v < k) / (v >= k) with k >= 0
	for _, g := range an.GuardsOf(at) {
		bo, ok := g.Cond.(*ssa.BinOp)
		if !ok {
			continue
		}
		k, isK := bo.Y.(*ssa.Const)
		if !isK || k.Value == nil || noConv(bo.X) != v && !sameConvSource(bo.X, v) {
			continue
		}
		if (bo.Op == token.LSS && !g.Polarity && k.Int64() >= 0) || (bo.Op == token.GEQ && g.Polarity && k.Int64() >= 0) || (bo.Op == token.GTR && g.Polarity && k.Int64() >= -1) {
			return true, "guarded on this path by a lower bound " + k.Value.String()
		}
	}
	if cv, ok := v.(*ssa.Convert); ok {
		inner := noConv(cv.X)
		if ok, why := clampedNonNeg(inner, 2); ok {
			return true, "int(" + why + ")"
		}
		if call, ok := inner.(*ssa.Call); ok {
			if an.IsFunc(an.Callee(call), "math", "Max") {
				for _, a := range call.Call.Args {
					if k, ok := a.(*ssa.Const); ok && k.Value != nil && k.Float64() >= 0 {
						return true, "int(math.Max(" + k.Value.String() + ", ·))"
					}
				}
			}
			if an.IsFunc(an.Callee(call), "math", "Floor") || an.IsFunc(an.Callee(call), "math", "Round") || an.IsFunc(an.Callee(call), "math", "Ceil") {
				// monotone: a lower bound k ≥ 0 of the argument on this path carries over
				for _, g := range an.GuardsOf(at) {
					bo, ok := g.Cond.(*ssa.BinOp)
					if !ok {
						continue
					}
					k, isK := bo.Y.(*ssa.Const)
					if !isK || k.Value == nil {
						continue
					}
					lower := (bo.Op == token.LSS && !g.Polarity) || (bo.Op == token.GEQ && g.Polarity) || (bo.Op == token.GTR && g.Polarity) || (bo.Op == token.LEQ && !g.Polarity)
					if lower && k.Float64() >= 0 && sameCellLoad(bo.X, call.Call.Args[0]) {
						return true, "int(" + an.Callee(call).Name() + "(x)) with x ≥ " + k.Value.String() + " on this path"
					}
				}
				if nonneg != nil {
					if ok, why := nonneg(call.Call.Args[0]); ok {
						return true, "int(" + an.Callee(call).Name() + "(x)) with x ≥ 0: " + why
					} else {
						return false, why
					}
				}
			}
		}
		// int(x) where x is guarded
		for _, g := range an.GuardsOf(at) {
			bo, ok := g.Cond.(*ssa.BinOp)
			if !ok {
				continue
			}
			k, isK := bo.Y.(*ssa.Const)
			if !isK || k.Value == nil {
				continue
			}
			lower := (bo.Op == token.LSS && !g.Polarity) || (bo.Op == token.GEQ && g.Polarity) || (bo.Op == token.GTR && g.Polarity) || (bo.Op == token.LEQ && !g.Polarity)
			if sameCellLoad(bo.X, inner) && lower && k.Float64() >= 0 {
				return true, "int(x) with x ≥ " + k.Value.String() + " on this path"
			}
		}
		if nonneg != nil {
			if ok, why := nonneg(inner); ok {
				return true, why
			}
		}
	}
	if nonneg != nil {
		return nonneg(v)
	}
	return false, "no lower-bound guard, clamp or non-negative source"
}

// clampedNonNeg: v is math.Max(k ≥ 0, ·), a non-negative constant, or the result of a module helper all of
// whose returns are.
func clampedNonNeg(v ssa.Value, depth int) (bool, string) {
	v = noConv(v)
	switch x := v.(type) {
	case *ssa.Const:
		if x.Value != nil && x.Float64() >= 0 {
			return true, "constant " + x.Value.String()
		}
	case *ssa.Phi:
		// every value merged here is clamped (an unreachable `if x < 0 { x = 0 }` after the clamp, for one)
		for _, e := range x.Edges {
			if ok, _ := clampedNonNeg(e, depth); !ok {
				return false, ""
			}
		}
		if len(x.Edges) > 0 {
			return true, "merge of clamped values"
		}
	case *ssa.Call:
		t := an.Callee(x)
		if an.IsBuiltinCall(x, "max") {
			// the builtin max(k ≥ 0, ·): same clamp as math.Max
			for _, a := range x.Call.Args {
				if ok, why := clampedNonNeg(a, depth); ok {
					return true, "max(" + why + ", ·)"
				}
			}
			return false, ""
		}
		if an.IsFunc(t, "math", "Max") {
			for _, a := range x.Call.Args {
				if ok, why := clampedNonNeg(a, depth); ok {
					return true, "math.Max(" + why + ", ·)"
				}
			}
			return false, ""
		}
		for _, mono := range []string{"Round", "Floor", "Ceil", "Trunc", "RoundToEven", "Sqrt", "Abs"} {
			if an.IsFunc(t, "math", mono) {
				if mono == "Abs" {
					return true, "math.Abs(·)"
				}
				if ok, why := clampedNonNeg(x.Call.Args[0], depth); ok {
					return true, "math." + mono + "(" + why + ")"
				}
				return false, ""
			}
		}
		if t != nil && t.Blocks != nil && core.InModule(t) && depth > 0 && t.Signature.Results().Len() == 1 {
			rets := an.Returns(t)
			for _, ret := range rets {
				if ok, _ := clampedNonNeg(ret.Results[0], depth-1); !ok {
					return false, ""
				}
			}
			if len(rets) > 0 {
				return true, t.Name() + "(·) whose every return is clamped at ≥ 0"
			}
		}
	}
	return false, ""
}

func sameConvSource(a, b ssa.Value) bool { return noConv(a) == noConv(b) }

// sameCellLoad: two loads of the same captured cell / the same value.
func sameCellLoad(a, b ssa.Value) bool {
	a, b = noConv(a), noConv(b)
	if a == b {
		return true
	}
	ua, ok1 := a.(*ssa.UnOp)
	ub, ok2 := b.(*ssa.UnOp)
	if !(ok1 && ok2 && ua.Op == token.MUL && ub.Op == token.MUL) {
		return false
	}
	if ua.X == ub.X {
		return true
	}
	// two loads of the same field of the same base
	fa, okA := ua.X.(*ssa.FieldAddr)
	fb, okB := ub.X.(*ssa.FieldAddr)
	return okA && okB && an.SameField(an.FieldOfAddr(fa), an.FieldOfAddr(fb)) && an.Strip(fa.X) == an.Strip(fb.X)
}

// feedsReturn: does v (transitively, within fn) feed one of fn's return values?
func feedsReturn(fn *ssa.Function, v ssa.Value) bool {
	seen := map[ssa.Value]bool{}
	var up func(x ssa.Value) bool
	up = func(x ssa.Value) bool {
		if seen[x] {
			return false
		}
		seen[x] = true
		for _, ref := range an.Referrers(x) {
			switch y := ref.(type) {
			case *ssa.Return:
				return true
			case ssa.Value:
				if up(y) {
					return true
				}
			case *ssa.Store:
				if a, ok := y.Addr.(*ssa.Alloc); ok {
					if up(a) {
						return true
					}
				}
			}
		}
		return false
	}
	return up(v)
}

// ---- a small interval evaluation for the random term of the jitter factor ----

// fIv is a closed interval of float values; known=false means "could not be evaluated" (no verdict), unbounded=true
// means the value is known to have no finite bound (a normally or exponentially distributed draw).
type fIv struct {
	lo, hi    float64
	known     bool
	unbounded bool
	why       string
}

func fUnknown(why string) fIv { return fIv{why: why} }

func fJoin(a, b fIv) fIv {
	if !a.known {
		return a
	}
	if !b.known {
		return b
	}
	out := fIv{lo: math.Min(a.lo, b.lo), hi: math.Max(a.hi, b.hi), known: true, unbounded: a.unbounded || b.unbounded}
	if a.unbounded {
		out.why = a.why
	} else if b.unbounded {
		out.why = b.why
	}
	return out
}

// floatInterval evaluates v from constants, the documented ranges of math and math/rand functions, arithmetic, and
// module functions (the union over their returns); a call of a function-typed parameter is the union over the
// functions handed in at the call sites of the function holding the parameter.
func floatInterval(c *core.Ctx, v ssa.Value, depth int) fIv {
	if depth <= 0 {
		return fUnknown("too deep")
	}
	switch x := v.(type) {
	case *ssa.Const:
		if x.Value == nil {
			return fUnknown("nil constant")
		}
		f, _ := constant.Float64Val(constant.ToFloat(x.Value))
		return fIv{lo: f, hi: f, known: true}
	case *ssa.Convert:
		return floatInterval(c, x.X, depth)
	case *ssa.ChangeType:
		return floatInterval(c, x.X, depth)
	case *ssa.UnOp:
		if x.Op == token.SUB {
			a := floatInterval(c, x.X, depth-1)
			if !a.known {
				return a
			}
			return fIv{lo: -a.hi, hi: -a.lo, known: true, unbounded: a.unbounded, why: a.why}
		}
		if x.Op == token.MUL {
			if sv := stripAllocs(x); sv != ssa.Value(x) {
				return floatInterval(c, sv, depth-1)
			}
		}
		return fUnknown("load of " + an.D().Of(x))
	case *ssa.Phi:
		var out fIv
		for i, e := range x.Edges {
			iv := floatInterval(c, e, depth-1)
			if i == 0 {
				out = iv
			} else {
				out = fJoin(out, iv)
			}
		}
		return out
	case *ssa.BinOp:
		a, b := floatInterval(c, x.X, depth-1), floatInterval(c, x.Y, depth-1)
		if !a.known {
			return a
		}
		if !b.known {
			return b
		}
		out := fIv{known: true, unbounded: a.unbounded || b.unbounded, why: a.why + b.why}
		switch x.Op {
		case token.ADD:
			out.lo, out.hi = a.lo+b.lo, a.hi+b.hi
		case token.SUB:
			out.lo, out.hi = a.lo-b.hi, a.hi-b.lo
		case token.MUL:
			ps := []float64{a.lo * b.lo, a.lo * b.hi, a.hi * b.lo, a.hi * b.hi}
			out.lo, out.hi = ps[0], ps[0]
			for _, p := range ps {
				out.lo, out.hi = math.Min(out.lo, p), math.Max(out.hi, p)
			}
		case token.QUO:
			if b.lo <= 0 && b.hi >= 0 {
				return fUnknown("division by an interval containing 0")
			}
			ps := []float64{a.lo / b.lo, a.lo / b.hi, a.hi / b.lo, a.hi / b.hi}
			out.lo, out.hi = ps[0], ps[0]
			for _, p := range ps {
				out.lo, out.hi = math.Min(out.lo, p), math.Max(out.hi, p)
			}
		default:
			return fUnknown("operator " + x.Op.String())
		}
		return out
	case *ssa.Call:
		t := an.Callee(x)
		if t == nil {
			// a function value: the functions that can be behind it
			fns, why := funcsBehind(c, x.Call.Value)
			if len(fns) == 0 {
				return fUnknown(why)
			}
			var out fIv
			for i, f := range fns {
				iv := funcInterval(c, f, x.Call.Args, depth-1)
				if i == 0 {
					out = iv
				} else {
					out = fJoin(out, iv)
				}
			}
			return out
		}
		return funcInterval(c, t, x.Call.Args, depth-1)
	}
	return fUnknown(an.D().Of(v))
}

func funcInterval(c *core.Ctx, t *ssa.Function, args []ssa.Value, depth int) fIv {
	pkg := ""
	if t.Pkg != nil {
		pkg = t.Pkg.Pkg.Path()
	}
	switch {
	case pkg == "math" && (t.Name() == "Cos" || t.Name() == "Sin"):
		return fIv{lo: -1, hi: 1, known: true}
	case (pkg == "math/rand" || pkg == "math/rand/v2") && t.Name() == "Float64":
		return fIv{lo: 0, hi: 1, known: true}
	case (pkg == "math/rand" || pkg == "math/rand/v2") && (t.Name() == "NormFloat64" || t.Name() == "ExpFloat64"):
		return fIv{lo: math.Inf(-1), hi: math.Inf(1), known: true, unbounded: true, why: t.Name() + " has no finite bound"}
	case pkg == "math" && (t.Name() == "Max" || t.Name() == "Min") && len(args) == 2:
		a, b := floatInterval(c, args[0], depth), floatInterval(c, args[1], depth)
		if !a.known || !b.known {
			// a clamp against a constant still bounds one side
			if t.Name() == "Max" && b.known && !a.known {
				a, b = b, a
			}
			return fUnknown("clamp of an unknown")
		}
		if t.Name() == "Max" {
			return fIv{lo: math.Max(a.lo, b.lo), hi: math.Max(a.hi, b.hi), known: true, unbounded: math.IsInf(math.Max(a.hi, b.hi), 1)}
		}
		return fIv{lo: math.Min(a.lo, b.lo), hi: math.Min(a.hi, b.hi), known: true, unbounded: math.IsInf(math.Min(a.lo, b.lo), -1)}
	}
	if !core.InModule(t) || t.Blocks == nil || depth <= 0 {
		return fUnknown("result of " + core.FuncName(t))
	}
	var out fIv
	n := 0
	for _, ret := range an.Returns(t) {
		if len(ret.Results) != 1 {
			return fUnknown("results of " + core.FuncName(t))
		}
		iv := floatInterval(c, ret.Results[0], depth)
		if n == 0 {
			out = iv
		} else {
			out = fJoin(out, iv)
		}
		n++
	}
	if n == 0 {
		return fUnknown("no return in " + core.FuncName(t))
	}
	// the result is finite when the clamping made it so
	if out.known && !math.IsInf(out.lo, 0) && !math.IsInf(out.hi, 0) {
		out.unbounded = false
	}
	return out
}

// funcsBehind: the functions a function value can stand for — the value itself, or, for a (captured) parameter, what
// every call site of the function holding the parameter hands in.
func funcsBehind(c *core.Ctx, v ssa.Value) ([]*ssa.Function, string) {
	v = an.Strip(v)
	if ld, ok := v.(*ssa.UnOp); ok && ld.Op == token.MUL {
		v = ld.X
	}
	if fv, ok := v.(*ssa.FreeVar); ok {
		b := an.FreeVarBinding(fv)
		if al, isAl := b.(*ssa.Alloc); isAl {
			if sts := an.StoresTo(al); len(sts) == 1 {
				b = an.Strip(sts[0].Val)
			}
		}
		v = b
	}
	if f := an.FuncValueOf(v); f != nil {
		return []*ssa.Function{f}, ""
	}
	p, ok := v.(*ssa.Parameter)
	if !ok {
		return nil, "a function value that is neither a function nor a parameter: " + an.D().Of(v)
	}
	sites := an.CallSitesOf(c, p.Parent())
	if len(sites) == 0 {
		return nil, "no call site of " + core.FuncName(p.Parent())
	}
	idx := an.ParamIndex(p)
	var out []*ssa.Function
	for _, s := range sites {
		if idx >= len(s.Common().Args) {
			return nil, "argument missing"
		}
		fs, why := funcsBehind(c, s.Common().Args[idx])
		if len(fs) == 0 {
			return nil, why
		}
		out = append(out, fs...)
	}
	return out, ""
}
