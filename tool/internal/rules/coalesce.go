package rules

import (
	"go/token"
	"go/types"

	"golang.org/x/tools/go/ssa"

	"f1verif/internal/an"
	"f1verif/internal/core"
)

// Coalescing helpers: small functions (often generic) of the shape
//
//	func orDefault[T any](own, inherited *T, fallback T) *T {
//		if own != nil { return own }
//		if inherited != nil { return inherited }
//		return &fallback
//	}
//
// are summarised by running them symbolically over every nil / non-nil assignment of their pointer-like
// parameters: the outcome is the index of the parameter returned, or -1 for a value made in the helper.

type coalesceSummary struct {
	ptrParams []int        // indices of the pointer / map / slice parameters
	outcome   map[uint]int // assignment (bit k set = ptrParams[k] is non-nil) → parameter index returned, -1 = fresh, -2 = unknown, -3 = (nil, error), -4 = nil
	fresh     map[uint]ssa.Value
}

var coalesceCache = map[*ssa.Function]*coalesceSummary{}

func nilable(t types.Type) bool {
	switch t.Underlying().(type) {
	case *types.Pointer, *types.Map, *types.Slice:
		return true
	}
	return false
}

func coalesceOf(h *ssa.Function) *coalesceSummary {
	if h == nil || h.Blocks == nil || !core.InModule(h) || h.Signature.Results().Len() < 1 || h.Signature.Results().Len() > 2 || !nilable(h.Signature.Results().At(0).Type()) {
		return nil
	}
	withErr := h.Signature.Results().Len() == 2
	if withErr && !types.Identical(h.Signature.Results().At(1).Type(), types.Universe.Lookup("error").Type()) {
		return nil
	}
	if s, ok := coalesceCache[h]; ok {
		return s
	}
	coalesceCache[h] = nil
	s := &coalesceSummary{outcome: map[uint]int{}, fresh: map[uint]ssa.Value{}}
	for i, p := range h.Params {
		if nilable(p.Type()) {
			s.ptrParams = append(s.ptrParams, i)
		}
	}
	if len(s.ptrParams) == 0 || len(s.ptrParams) > 4 || len(h.Blocks) > 24 {
		return nil
	}
	bit := func(p *ssa.Parameter) int {
		for k, i := range s.ptrParams {
			if h.Params[i] == p {
				return k
			}
		}
		return -1
	}
	for asg := uint(0); asg < 1<<uint(len(s.ptrParams)); asg++ {
		b := h.Blocks[0]
		var prev *ssa.BasicBlock
		res := -2
		for steps := 0; steps < 64 && b != nil; steps++ {
			// only value construction may happen on the way: anything with an effect outside the helper disqualifies it
			for _, in := range b.Instrs {
				switch x := in.(type) {
				case *ssa.Call:
					if _, isBuiltin := x.Call.Value.(*ssa.Builtin); !isBuiltin {
						// building an error value is the one call allowed
						t := an.Callee(x)
						if !withErr || t == nil || t.Pkg == nil || (t.Pkg.Pkg.Path() != "fmt" && t.Pkg.Pkg.Path() != "errors") {
							return nil
						}
					}
				case *ssa.Go, *ssa.Defer, *ssa.Send, *ssa.MapUpdate, *ssa.Panic:
					return nil
				case *ssa.Store:
					// stores into locals only (a variable, an element of a local array such as a varargs list)
					var base ssa.Value = x.Addr
					for k := 0; k < 3; k++ {
						switch y := base.(type) {
						case *ssa.IndexAddr:
							base = y.X
						case *ssa.FieldAddr:
							base = y.X
						}
					}
					if _, isAlloc := base.(*ssa.Alloc); !isAlloc {
						return nil
					}
				}
			}
			switch t := b.Instrs[len(b.Instrs)-1].(type) {
			case *ssa.Jump:
				prev, b = b, b.Succs[0]
			case *ssa.If:
				cond := t.Cond
				neg := false
				for {
					u, ok := cond.(*ssa.UnOp)
					if !ok || u.Op != token.NOT {
						break
					}
					cond, neg = u.X, !neg
				}
				bo, ok := cond.(*ssa.BinOp)
				if !ok {
					return nil
				}
				var val bool
				if lc, isLen := an.Strip(bo.X).(*ssa.Call); isLen && an.IsBuiltinCall(lc, "len") {
					// `len(fallback) > 0` on a slice (variadic) parameter: "is one provided"
					p, isP := an.Strip(lc.Call.Args[0]).(*ssa.Parameter)
					k, isK := bo.Y.(*ssa.Const)
					if !isP || !isK || k.Value == nil || bit(p) < 0 {
						return nil
					}
					nonEmpty := asg&(1<<uint(bit(p))) != 0
					n := k.Int64()
					switch {
					case (bo.Op == token.GTR && n == 0) || (bo.Op == token.NEQ && n == 0) || (bo.Op == token.GEQ && n == 1):
						val = nonEmpty
					case (bo.Op == token.EQL && n == 0) || (bo.Op == token.LSS && n == 1) || (bo.Op == token.LEQ && n == 0):
						val = !nonEmpty
					default:
						return nil
					}
					if neg {
						val = !val
					}
					prev = b
					if val {
						b = b.Succs[0]
					} else {
						b = b.Succs[1]
					}
					continue
				}
				if bo.Op != token.EQL && bo.Op != token.NEQ {
					return nil
				}
				x, y := bo.X, bo.Y
				if isNilConst(x) {
					x, y = y, x
				}
				p, isP := an.Strip(x).(*ssa.Parameter)
				if !isP || !isNilConst(y) || bit(p) < 0 {
					return nil
				}
				nonNil := asg&(1<<uint(bit(p))) != 0
				val = nonNil == (bo.Op == token.NEQ)
				if neg {
					val = !val
				}
				prev = b
				if val {
					b = b.Succs[0]
				} else {
					b = b.Succs[1]
				}
			case *ssa.Return:
				if withErr && !isNilConst(t.Results[1]) {
					// (nil, error): nothing to hand out
					res = -3
					b = nil
					break
				}
				v := t.Results[0]
				for k := 0; k < 4; k++ {
					phi, isPhi := v.(*ssa.Phi)
					if !isPhi || prev == nil {
						break
					}
					for e, pb := range phi.Block().Preds {
						if pb == prev {
							v = phi.Edges[e]
						}
					}
				}
				if p, isP := an.Strip(v).(*ssa.Parameter); isP {
					res = -2
					for i, hp := range h.Params {
						if hp == p {
							res = i
						}
					}
				} else {
					switch y := an.Strip(v).(type) {
					case *ssa.Alloc, *ssa.MakeMap, *ssa.MakeSlice:
						res = -1
						s.fresh[asg] = v
					case *ssa.IndexAddr:
						// &fallback[0]: the caller's own fallback value
						if p, isP := an.Strip(y.X).(*ssa.Parameter); isP && bit(p) >= 0 && asg&(1<<uint(bit(p))) != 0 {
							res = -1
							s.fresh[asg] = v
						}
					case *ssa.Const:
						if y.IsNil() {
							res = -4 // nothing available: nil
						}
					}
				}
				b = nil
			default:
				return nil
			}
		}
		if res == -2 {
			return nil
		}
		s.outcome[asg] = res
	}
	coalesceCache[h] = s
	return s
}

// nonNil: whatever the arguments, the helper returns a non-nil value (a parameter only where it is non-nil).
func (s *coalesceSummary) nonNil() bool {
	for asg, res := range s.outcome {
		if res == -1 || res == -3 {
			continue // a fresh value, or an error instead of a value
		}
		if res == -4 {
			return false
		}
		ok := false
		for k, i := range s.ptrParams {
			if i == res && asg&(1<<uint(k)) != 0 {
				ok = true
			}
		}
		if !ok {
			return false
		}
	}
	return true
}

// prefers: the helper returns parameter own whenever it is non-nil, else parameter def whenever that is non-nil,
// else a fresh value.
func (s *coalesceSummary) prefers(own, def int) bool {
	ko, kd := -1, -1
	for k, i := range s.ptrParams {
		if i == own {
			ko = k
		}
		if i == def {
			kd = k
		}
	}
	if ko < 0 || kd < 0 {
		return false
	}
	for asg, res := range s.outcome {
		switch {
		case asg&(1<<uint(ko)) != 0:
			if res != own {
				return false
			}
		case asg&(1<<uint(kd)) != 0:
			if res != def {
				return false
			}
		default:
			if res != -1 && res != -3 && res != -4 {
				return false
			}
		}
	}
	return true
}

// feasibleAt: the assignments possible at a call — a variadic / slice argument is known to be empty or not.
func (s *coalesceSummary) feasibleAt(call *ssa.Call) func(asg uint) bool {
	known := map[int]bool{} // bit -> non-empty
	for k, i := range s.ptrParams {
		if call == nil || i >= len(call.Call.Args) {
			continue
		}
		if _, isSlice := call.Call.Args[i].Type().Underlying().(*types.Slice); !isSlice {
			continue
		}
		switch a := call.Call.Args[i].(type) {
		case *ssa.Const:
			if a.IsNil() {
				known[k] = false
			}
		case *ssa.Slice:
			if al, ok := a.X.(*ssa.Alloc); ok {
				if arr, isArr := al.Type().(*types.Pointer).Elem().Underlying().(*types.Array); isArr {
					known[k] = arr.Len() > 0
				}
			}
		}
	}
	return func(asg uint) bool {
		for k, v := range known {
			if (asg&(1<<uint(k)) != 0) != v {
				return false
			}
		}
		return true
	}
}

// nonNilAt is nonNil restricted to what this call can pass.
func (s *coalesceSummary) nonNilAt(call *ssa.Call) bool {
	ok := s.feasibleAt(call)
	for asg, res := range s.outcome {
		if !ok(asg) || res == -1 || res == -3 {
			continue
		}
		if res == -4 {
			return false
		}
		good := false
		for k, i := range s.ptrParams {
			if i == res && asg&(1<<uint(k)) != 0 {
				good = true
			}
		}
		if !good {
			return false
		}
	}
	return true
}
