package rules

import (
	"strings"

	"golang.org/x/tools/go/ssa"

	"f1verif/internal/an"
	"f1verif/internal/core"
)

func init() { register("C09", c09) }

func c09(c *core.Ctx, r *core.Report) {
	r.Explanation = "Decides the structure from which 'one evaluation immediately, then at most one per interval, each passed on unchanged' follows: (R1) in the ticking closure the rate function is evaluated at exactly two sites — once before the loop and once per loop iteration under the ticker-receive arm; " +
		"(R2) each result is, unchanged, the request of the Trigger that follows it, and Trigger → sender → pending counter pass it through with conversions only; (R3) the ticker's period is the interval parameter unchanged, the ticker is created after the first evaluation and is never Reset; (R4) the loop's only other arm is context-done → return. " +
		"The bound 1+floor(e/interval) itself rests on time.Ticker's semantics and is not decided."
	r.NotDecided = []string{"the elapsed-time bound itself (time.Ticker semantics, scheduling delay)"}

	// the ticking function, by role: the minimal function of internal/trigger/api that (through helpers) both
	// evaluates a RateFunction value and creates a ticker — a function literal today
	isEval := func(call ssa.CallInstruction, t *ssa.Function) bool {
		if t != nil {
			return false
		}
		n := an.DynCallType(call)
		return n != nil && an.IsNamed(n, apiPkg, "RateFunction")
	}
	isNewTicker := func(_ ssa.CallInstruction, t *ssa.Function) bool { return an.IsFunc(t, "time", "NewTicker") }
	var tick *ssa.Function
	var evals []an.Event
	var newTickerEv *an.Event
	type tcand struct {
		fn  *ssa.Function
		ev  []an.Event
		nts []an.Event
	}
	var tcands []tcand
	for _, fn := range c.AllFuncs {
		if core.RelPkg(fn) != "internal/trigger/api" {
			continue
		}
		ev := an.FlatCalls(fn, flatDepth, isEval)
		nts := an.FlatCalls(fn, flatDepth, isNewTicker)
		if len(ev) > 0 && len(nts) > 0 {
			tcands = append(tcands, tcand{fn, ev, nts})
		}
	}
	for i, tc := range tcands {
		callsOther := false
		for j, o := range tcands {
			if i != j && len(an.FlatCalls(tc.fn, flatDepth, func(_ ssa.CallInstruction, t *ssa.Function) bool { return t == o.fn })) > 0 {
				callsOther = true
			}
		}
		if !callsOther {
			tc := tc
			tick, evals, newTickerEv = tc.fn, tc.ev, &tc.nts[len(tc.nts)-1]
		}
	}
	var newTicker *ssa.Call
	if newTickerEv != nil {
		newTicker, _ = newTickerEv.Instr.(*ssa.Call)
	}
	evInLoop := func(e an.Event) bool {
		in := e.Instr
		for fr := e.Frame; fr != nil; fr = fr.Parent {
			if an.InLoop(in) {
				return true
			}
			if fr.Parent != nil {
				in = fr.Site
			}
		}
		return false
	}

	rule(r, "C09.R1", "the rate function is evaluated at exactly two sites of the ticking closure: one dominating the loop, one per loop iteration dominated by the ticker receive; nowhere else on the run path", func() {
		if tick == nil {
			panic(core.AnchorError{What: "ticking closure (RateFunction call + time.NewTicker in internal/trigger/api)"})
		}
		var pre, inLoop []an.Event
		for _, e := range evals {
			if evInLoop(e) {
				inLoop = append(inLoop, e)
			} else {
				pre = append(pre, e)
			}
		}
		key := core.FuncName(tick)
		r.Check(len(pre) == 1, key+"#first-eval", c.Pos(tick.Pos()), "one evaluation before the loop", sprintf("%d evaluations of the rate before the loop (expected exactly one)", len(pre)))
		r.Check(len(inLoop) == 1, key+"#tick-eval", c.Pos(tick.Pos()), "one evaluation site inside the loop", sprintf("%d evaluation sites inside the tick loop (expected exactly one): the rate is consumed more than once per tick", len(inLoop)))
		if len(pre) == 1 {
			e := pre[0]
			// executed exactly once: precedes the loop and is not conditional
			ok := true
			for _, l := range inLoop {
				if !an.Before(e, l) {
					ok = false
				}
			}
			if _, isGo := e.Instr.(*ssa.Go); isGo {
				ok = false
			}
			// conditions of the closure's own frame are covered by the dominance just checked (the other branch never
			// reaches the tick loop: triggering was abandoned before it started); inside a helper frame the evaluation
			// must be unconditional
			for _, fg := range an.GuardsOfEvent(e) {
				if fg.Frame != nil && fg.Frame.Parent != nil {
					ok = false
				}
			}
			r.Check(ok, key+"#first-eval-once", an.Pos(c, e.Instr), "the first evaluation runs once on every path that reaches the tick loop, before ticking starts", "the first evaluation is conditional or does not precede the tick loop")
		}
		for _, e := range inLoop {
			// the evaluation itself, or the call of the helper that makes it (`rateForTick(rate, due, lag)`: one evaluation
			// on every path of the helper is what #tick-eval and the pairing rule count)
			sel, idx := an.ArmOf(e.Instr)
			if sel == nil || idx < 0 {
				// … walking outwards through the helper frames to the first call that sits on an arm
				chain := an.Chain(e)
				for i := len(chain) - 1; i >= 0; i-- {
					if s2, i2 := an.ArmOf(chain[i]); s2 != nil && i2 >= 0 {
						sel, idx = s2, i2
						break
					}
				}
			}
			if sel == nil || idx < 0 {
				r.Violation(key+"#tick-arm", an.Pos(c, e.Instr), "the in-loop evaluation is not under a select arm: it is not tied to a tick")
				continue
			}
			// the channel received from must be the C of the ticker created here (possibly handed to a helper)
			chv := an.EventFV(e, sel.States[idx].Chan).Resolve(nil)
			isTicker := false
			if fa, ok := chv.V.(*ssa.FieldAddr); ok {
				fld := an.FieldOfAddr(fa)
				if fld != nil && fld.Name() == "C" && an.IsNamed(fa.X.Type(), "time", "Ticker") {
					isTicker = (an.FV{V: fa.X, F: chv.F}).Resolve(nil).V == ssa.Value(newTicker)
				}
			}
			if !isTicker {
				r.Violation(key+"#tick-arm", an.Pos(c, e.Instr), "the in-loop evaluation is under the arm receiving from %s, not from the ticker created in this closure", an.D().Of(sel.States[idx].Chan))
				continue
			}
			if an.OnCycleAvoiding(e.Instr, sel.Block()) {
				r.Violation(key+"#tick-arm", an.Pos(c, e.Instr), "the evaluation sits on an inner loop: several evaluations per tick")
				continue
			}
			r.OK(key+"#tick-arm", an.Pos(c, e.Instr), "evaluation dominated by the receive from the ticker (select state %d), once per receive", idx)
		}
		// other evaluations of trigger-level rate functions on the run path (excluding wrappers that take a RateFunction
		// and return one, the chart dry-run, and the file dry-run)
		n := 0
		evalHolders := map[*ssa.Function]bool{}
		for _, e := range evals {
			evalHolders[e.Instr.Parent()] = true
		}
		rateValues := map[*ssa.Function]bool{}
		for _, f := range an.FuncsOfType(c, apiPkg, "RateFunction") {
			rateValues[f] = true
		}
		for _, fn := range c.AllFuncs {
			rel := core.RelPkg(fn)
			if fn == tick || evalHolders[fn] || !strings.HasPrefix(rel, "internal/") {
				continue
			}
			for _, call := range an.AllCalls(fn) {
				if nn := an.DynCallType(call); nn == nil || !an.IsNamed(nn, apiPkg, "RateFunction") {
					continue
				}
				n++
				outer := an.Outermost(fn)
				wrapper := false
				for i := 0; i < outer.Signature.Results().Len(); i++ {
					if an.IsNamed(outer.Signature.Results().At(i).Type(), apiPkg, "RateFunction") {
						wrapper = true
					}
				}
				wrapper = wrapper || strings.Contains(types_String(outer), "RateFunction") || rateValues[fn]
				dry := rel == "internal/chart" || strings.Contains(strings.ToLower(outer.Name()), "dryrun")
				if wrapper || dry {
					r.Exists(core.FuncName(fn)+"#rate-call", an.Pos(c, call), "evaluation inside a rate wrapper / dry-run (not the trigger loop)")
					continue
				}
				r.Violation(core.FuncName(fn)+"#rate-call", an.Pos(c, call), "the rate function is also evaluated in %s, outside the ticking closure: stateful rates (stages, carry, distribution) advance more than once per tick", core.FuncName(fn))
			}
		}
		r.Count("other RateFunction call sites", n)
	})

	rule(r, "C09.R2", "each evaluation's result is the unchanged request of the Trigger that follows; Trigger, the sender and the pending-counter supersede pass the number through with conversions only", func() {
		if tick == nil {
			panic(core.AnchorError{What: "ticking closure"})
		}
		triggers := an.FlatCalls(tick, flatDepth, func(_ ssa.CallInstruction, t *ssa.Function) bool {
			return isMethod(t, workersPkg, "TriggerPool", "Trigger")
		})
		key := core.FuncName(tick)
		r.Check(len(triggers) == len(evals), key+"#pairing", c.Pos(tick.Pos()), sprintf("%d evaluations, %d Trigger calls", len(evals), len(triggers)), sprintf("%d evaluations of the rate but %d Trigger calls: a value is computed and not requested, or requested twice", len(evals), len(triggers)))
		used := map[ssa.Value]bool{}
		for i, tev := range triggers {
			tcall := tev.Call()
			last := tcall.Common().Args[len(tcall.Common().Args)-1]
			arg := an.EventFV(tev, last).Resolve(nil).V
			k := sprintf("%s#trigger%d", key, i+1)
			ok := false
			for _, e := range evals {
				if v, isV := e.Instr.(ssa.Value); isV && arg == v {
					ok = !used[v] && an.Before(e, tev) && evInLoop(e) == evInLoop(tev)
					used[v] = true
				}
			}
			r.Check(ok, k, an.Pos(c, tcall), "Trigger receives the value of the evaluation just made", "Trigger is given "+an.D().Of(last)+", not the unchanged result of this tick's evaluation")
		}
		// pass-through chain inside the pool: the request parameter reaches the atomic supersede unchanged
		trig := c.MustFn("internal/workers", "TriggerPool.Trigger")
		pf := findPending(c)
		var intParam *ssa.Parameter
		for _, p := range trig.Params {
			if p.Type().String() == "int" {
				intParam = p
			}
		}
		ok, why := reachesCounter(pf, trig, intParam, 4)
		r.Check(ok, "TriggerPool.Trigger#chain", c.Pos(trig.Pos()), "Trigger(n) hands n unchanged (through "+why+") to the pending counter", "the requested number does not reach the pending counter unchanged: "+why)
	})

	rule(r, "C09.R3", "the ticker's period is the interval parameter unchanged; the ticker is created after the first evaluation; it is never Reset", func() {
		if tick == nil {
			panic(core.AnchorError{What: "ticking closure"})
		}
		key := core.FuncName(tick)
		arg := an.EventFV(*newTickerEv, newTicker.Call.Args[0]).Resolve(nil).V
		d := an.D().Of(arg)
		// the configured interval: a parameter of the constructor, reached directly, through a captured variable or
		// through a field that is only ever assigned such a parameter
		isParam := func(v ssa.Value) bool {
			v = an.Strip(v)
			if al, isAl := v.(*ssa.Alloc); isAl {
				if sts := an.StoresTo(al); len(sts) == 1 {
					v = an.Strip(sts[0].Val)
				}
			}
			_, ok := v.(*ssa.Parameter)
			return ok
		}
		okParam := false
		switch x := arg.(type) {
		case *ssa.Parameter:
			okParam = true
		case *ssa.FreeVar:
			if b := an.FreeVarBinding(x); b != nil {
				okParam = isParam(b)
			}
		case *ssa.FieldAddr:
			fld := an.FieldOfAddr(x)
			n := 0
			okParam = true
			for _, fn := range c.AllFuncs {
				if !core.InModule(fn) {
					continue
				}
				an.Instrs(fn, func(in ssa.Instruction) {
					if st, ok := in.(*ssa.Store); ok && an.SameField(an.FieldOfAddr(st.Addr), fld) {
						n++
						if !isParam(st.Val) {
							okParam = false
						}
					}
				})
			}
			okParam = okParam && n > 0
		}
		r.Check(okParam, key+"#period", an.Pos(c, newTicker), "ticker period is the interval parameter "+d, "ticker period is "+d+", not the configured interval unchanged")
		for _, e := range evals {
			if !evInLoop(e) {
				r.Check(an.Before(e, *newTickerEv), key+"#ticker-after-first-eval", an.Pos(c, newTicker), "the ticker starts after the first evaluation: tick k cannot arrive before t0 + k·interval", "the ticker is created before the first evaluation: the second evaluation comes less than one interval after the first")
			}
		}
		bad := 0
		for _, fn := range c.AllFuncs {
			for _, call := range an.AllCalls(fn) {
				if isTimeMethod(an.Callee(call), "Ticker", "Reset") && strings.HasPrefix(core.RelPkg(fn), "internal/trigger") {
					bad++
					r.Violation(core.FuncName(fn)+"#ticker-reset", an.Pos(c, call), "Ticker.Reset changes the period for all later ticks: the evaluation cadence no longer follows the configured interval")
				}
			}
		}
		if bad == 0 {
			r.OK(key+"#no-reset", an.Pos(c, newTicker), "no Ticker.Reset in the trigger packages")
		}
	})

	rule(r, "C09.R4", "the tick loop's select has exactly two arms: the worker context's Done (→ return) and the ticker", func() {
		if tick == nil {
			panic(core.AnchorError{What: "ticking closure"})
		}
		var sels []an.Event
		an.Flatten(tick, flatDepth, nil, func(e an.Event) {
			// the select of the tick loop; a wait before ticking starts (a start delay) is not part of the cadence
			if _, ok := e.Instr.(*ssa.Select); ok && evInLoop(e) {
				sels = append(sels, e)
			}
		})
		key := core.FuncName(tick) + "#select"
		if len(sels) != 1 {
			r.Violation(key, c.Pos(tick.Pos()), "%d select statements in the ticking closure, expected one", len(sels))
			return
		}
		selEv := sels[0]
		sel := selEv.Instr.(*ssa.Select)
		if !sel.Blocking {
			r.Violation(key, an.Pos(c, sel), "the tick select has a default arm: the loop spins instead of waiting for the next tick")
			return
		}
		done, tk := 0, 0
		arms := an.SelectArms(sel)
		inWorkers := func(f *ssa.Function) bool { return core.RelPkg(f) == "internal/workers" }
		for idx, st := range sel.States {
			if call, ok := an.Strip(st.Chan).(*ssa.Call); ok && call.Common().IsInvoke() && call.Common().Method.Name() == "Done" {
				done++
				cv := an.EventFV(selEv, call.Common().Value).Resolve(inWorkers).V
				sc, isCall := cv.(*ssa.Call)
				okCtx := isCall && isMethod(an.Callee(sc), workersPkg, "TriggerPool", "Start")
				r.Check(okCtx, key+"-done-ctx", c.Pos(st.Pos), "Done of the worker context returned by the pool", "the Done arm watches "+an.D().Of(cv)+", not the worker context the pool returned")
				if arm := arms[idx]; arm != nil {
					returns := !an.ReachableFrom(arm.Instrs[0], sel)
					for fr := selEv.Frame; fr.Parent != nil; fr = fr.Parent {
						if an.InLoop(fr.Site) {
							returns = false
						}
					}
					r.Check(returns, key+"-done-returns", c.Pos(st.Pos), "Done arm returns", "Done arm loops back: evaluations continue after the context ended")
					for _, e := range evals {
						if e.Instr.Parent() == sel.Parent() && (e.Instr.Block() == arm || arm.Dominates(e.Instr.Block())) {
							r.Violation(key+"-done-eval", an.Pos(c, e.Instr), "the rate is evaluated on the Done arm")
						}
					}
				}
				continue
			}
			chv := an.EventFV(selEv, st.Chan).Resolve(nil)
			if fa, ok := chv.V.(*ssa.FieldAddr); ok {
				if fld := an.FieldOfAddr(fa); fld != nil && fld.Name() == "C" && an.IsNamed(fa.X.Type(), "time", "Ticker") {
					tk++
					continue
				}
			}
			r.Violation(key+"-extra-arm", c.Pos(st.Pos), "unexpected select arm on %s in the tick loop", an.D().Of(st.Chan))
		}
		r.Check(done == 1 && tk == 1, key, an.Pos(c, sel), "two arms: Done and ticker", sprintf("tick select has %d Done arms and %d ticker arms", done, tk))
	})
}

func types_String(fn *ssa.Function) string { return fn.Signature.String() }

// reachesCounter: parameter p of fn is passed on unchanged (conversions only) until it is the value written by
// the atomic supersede of the pending counter; returns the chain walked or the reason it breaks.
func reachesCounter(pf *pendingFacts, fn *ssa.Function, p *ssa.Parameter, depth int) (bool, string) {
	if p == nil || depth <= 0 {
		return false, "no request parameter in " + core.FuncName(fn)
	}
	// a tick's value must be delivered whatever it is: no test on the request guards the hand-over
	conditional := func(in ssa.Instruction) string {
		for _, g := range an.GuardsOf(in.Block()) {
			if dependsOn(g.Cond, p) {
				return sprintf("%s forwards the request only when %s is %v: a tick whose value fails that test is not delivered, so what the previous tick left pending keeps running", core.FuncName(fn), an.D().Of(g.Cond), g.Polarity)
			}
		}
		return ""
	}
	// the value handed to the supersede: the request itself, or the request replaced by the constant 0 on a branch the
	// pool's stop flag alone selects (a stopped pool takes no new work: a late tick only discards)
	isRequest := func(v ssa.Value) bool {
		v = an.Strip(v)
		if v == ssa.Value(p) {
			return true
		}
		phi, ok := v.(*ssa.Phi)
		if !ok || len(phi.Edges) != 2 || len(phi.Block().Preds) != 2 {
			return false
		}
		for i, e := range phi.Edges {
			k, isK := an.Strip(e).(*ssa.Const)
			other := an.Strip(phi.Edges[1-i])
			if !isK || k.Value == nil || k.Int64() != 0 || other != ssa.Value(p) {
				continue
			}
			// the zero edge comes from a block entered only under a test of the stop flag
			gs := an.GuardsOf(phi.Block().Preds[i])
			if len(gs) > 0 && derivesFromStopFlag(gs[len(gs)-1].Cond, 0) && phi.Block().Preds[i] != gs[len(gs)-1].If.Block() {
				return true
			}
		}
		return false
	}
	for _, op := range pf.ops {
		if op.Fn == fn && (op.Op == "Swap" || op.Op == "Store") && isRequest(op.Call.Common().Args[1]) {
			if why := conditional(op.Call); why != "" {
				return false, why
			}
			return true, fn.Name()
		}
	}
	broken := ""
	for _, call := range an.AllCalls(fn) {
		t := an.Callee(call)
		if t == nil || !core.InModule(t) || t.Blocks == nil {
			continue
		}
		if _, isCall := call.(*ssa.Call); !isCall {
			continue
		}
		if !(pf.setFns[t] || an.ReachesCall(t, depth, func(g *ssa.Function) bool { return pf.setFns[g] })) {
			continue
		}
		for i, a := range call.Common().Args {
			if isRequest(a) && i < len(t.Params) {
				if why := conditional(call); why != "" {
					return false, why
				}
				ok, why := reachesCounter(pf, t, t.Params[i], depth-1)
				if ok {
					return true, fn.Name() + " → " + why
				}
				if strings.Contains(why, "forwards the request only when") {
					return false, why
				}
			}
		}
		// the supersede is reached but with another value
		for i, tp := range t.Params {
			if tp.Type().String() == "int" && i < len(call.Common().Args) && !isRequest(call.Common().Args[i]) {
				broken = core.FuncName(fn) + " passes " + an.D().Of(call.Common().Args[i]) + " instead of its request parameter"
			}
		}
	}
	if broken == "" {
		broken = core.FuncName(fn) + " does not pass its request parameter on to the supersede"
	}
	return false, broken
}
