package rules

import (
	"go/constant"
	"go/token"
	"go/types"
	"strings"

	"golang.org/x/tools/go/ssa"

	"f1verif/internal/an"
	"f1verif/internal/core"
)

func init() { register("C06", c06) }

// setupTeardownCaller finds the function of internal/run that invokes the setup handle's teardown
// (the func-typed field of ActiveScenario).
func setupTeardownCallers(c *core.Ctx) []ssa.CallInstruction {
	var out []ssa.CallInstruction
	for _, fn := range c.AllFuncs {
		for _, call := range an.AllCalls(fn) {
			if an.Callee(call) != nil || call.Common().IsInvoke() {
				continue
			}
			// a function-typed field of the active scenario, possibly grouped with the setup handle in a struct it holds
			if fld := an.FieldIn(call.Common().Value, workersPkg, "ActiveScenario"); fld != nil {
				if sig, isSig := fld.Type().Underlying().(*types.Signature); isSig && sig.Params().Len() == 0 && sig.Results().Len() == 0 && holdsTeardown(c, fld) {
					out = append(out, call)
				}
			}
		}
	}
	return out
}

// teardownBehind: the teardown a wrapper was built around — `wrap(teardown)` handing back a function that calls the
// function it was given exactly once on every path (timing it, logging it) stands for that function. Anything else
// is returned unchanged.
func teardownBehind(v ssa.Value) ssa.Value {
	call, ok := an.Strip(v).(*ssa.Call)
	if !ok {
		return v
	}
	h := an.Callee(call)
	if h == nil || !core.InModule(h) || h.Blocks == nil || h.Signature.Results().Len() != 1 {
		return v
	}
	for i, a := range call.Call.Args {
		sig, isSig := a.Type().Underlying().(*types.Signature)
		if !isSig || sig.Params().Len() != 0 || sig.Results().Len() != 0 || i >= len(h.Params) {
			continue
		}
		prm := h.Params[i]
		okAll := true
		nRet := 0
		for _, ret := range an.Returns(h) {
			mc, isMC := an.Strip(ret.Results[0]).(*ssa.MakeClosure)
			if !isMC {
				okAll = false
				continue
			}
			cl, _ := mc.Fn.(*ssa.Function)
			if cl == nil {
				okAll = false
				continue
			}
			nRet++
			isWrapped := func(in ssa.Instruction) an.Interval {
				ci, isCall := in.(ssa.CallInstruction)
				if !isCall || an.Callee(ci) != nil || ci.Common().IsInvoke() {
					return an.Interval{}
				}
				cv := an.Strip(ci.Common().Value)
				if ld, isLd := cv.(*ssa.UnOp); isLd {
					cv = ld.X
				}
				if fv, isFV := cv.(*ssa.FreeVar); isFV {
					b := an.FreeVarBinding(fv)
					if al, isAl := b.(*ssa.Alloc); isAl {
						if sts := an.StoresTo(al); len(sts) == 1 {
							b = an.Strip(sts[0].Val)
						}
					}
					if b == ssa.Value(prm) {
						if _, isGo := in.(*ssa.Go); isGo {
							return an.Interval{}
						}
						return an.Interval{Lo: 1, Hi: 1}
					}
				}
				return an.Interval{}
			}
			tot, okT := an.Total(an.PathCount(cl, isWrapped), false)
			if !okT || tot.Lo != 1 || tot.Hi != 1 {
				okAll = false
			}
		}
		if okAll && nRet > 0 {
			return a
		}
	}
	return v
}

// holdsTeardown: the func() field is the one the handle constructor's teardown is stored in (the second result of
// the call that made the handle) — not an optional hook that happens to have the same shape.
func holdsTeardown(c *core.Ctx, fld *types.Var) bool {
	stores, fromCtor := 0, 0
	for _, fn := range c.AllFuncs {
		if !core.InModule(fn) {
			continue
		}
		an.Instrs(fn, func(in ssa.Instruction) {
			st, ok := in.(*ssa.Store)
			if !ok || !an.SameField(an.FieldOfAddr(st.Addr), fld) {
				return
			}
			stores++
			if ex, isEx := an.Strip(teardownBehind(st.Val)).(*ssa.Extract); isEx && ex.Index == 1 {
				// the handle constructor, or a helper of the package around it: a call handing back (*T, func())
				if call, isCall := ex.Tuple.(*ssa.Call); isCall && an.Callee(call) != nil && call.Call.Signature().Results().Len() == 2 && an.IsNamed(call.Call.Signature().Results().At(0).Type(), testingPkg, "T") {
					fromCtor++
				}
			}
		})
	}
	// stored from the constructor, or (handle grouped differently) not stored by plain assignment at all
	return fromCtor > 0 || stores == 0
}

func c06(c *core.Ctx, r *core.Report) {
	r.Explanation = "Decides lifecycle ordering and multiplicity structurally: (R1) Setup runs exactly once before the failure test, iterations are reachable only on its not-failed branch and the failed branch records an error and returns; " +
		"(R2) the setup handle's teardown is deferred exactly once on every path after Setup, has a single caller, is bound to the setup handle's own T, and a teardown failure is turned into a run error through the handle's own teardownFailed flag; " +
		"(R3) each iteration's cleanups run exactly once after the body (deferred or after the body call) on the T of that iteration's state; (R4) cleanups are visited from the last registered to the first, each in its own recovered frame; " +
		"(R5) the cleanup stack is written only by Cleanup, Reset and the constructor, tearingDown only by teardown/Reset, and Reset clears them on every path; (R6) the run waits for started iterations through a per-call completion signal before the deferred teardown. " +
		"Cleanups registered while cleanups run are unspecified and not decided."
	r.NotDecided = []string{"cleanups registered during teardown", "timing of the completion timeout"}
	do, setupCall := runDo(c)
	loop, _ := runLoop(c)

	var failedTest *ssa.If
	rule(r, "C06.R1", "in Run.Do, Setup is called exactly once on every path and before the failure test; run() is reachable only when setup did not fail; the failed branch records an error and returns without running iterations", func() {
		setup, _, _ := setupRunner(c)
		exits := an.PathCount(do, an.CallWeight(func(_ ssa.CallInstruction, t *ssa.Function) bool { return t == setup }, flatDepth))
		tot, ok := an.Total(exits, false)
		r.Check(ok && tot.Lo == 1 && tot.Hi == 1, core.FuncName(do)+"#setup-once", an.Pos(c, setupCall), "Setup executed exactly once on every path", "Setup executed "+tot.String()+" times")
		// failure test: If on a call that (through getters) returns T.Failed() of the setup handle
		var failedCall ssa.CallInstruction
		for _, b := range do.Blocks {
			iff, ok := b.Instrs[len(b.Instrs)-1].(*ssa.If)
			if !ok {
				continue
			}
			call, ok := an.Strip(iff.Cond).(*ssa.Call)
			if !ok || an.Callee(call) == nil {
				continue
			}
			if tc, ok := an.Terminal(call).(*ssa.Call); ok && len(tc.Call.Args) > 0 {
				if f, owner := an.TerminalField(tc.Call.Args[0]); f != nil && f.Name() == "failed" && an.IsNamed(owner, testingPkg, "T") {
					failedTest, failedCall = iff, call
				}
			}
		}
		if failedTest == nil {
			r.Violation(core.FuncName(do)+"#failure-test", c.Pos(do.Pos()), "Run.Do never tests whether setup failed before running iterations")
			return
		}
		r.Check(an.Dominates(setupCall, failedCall), core.FuncName(do)+"#test-after-setup", an.Pos(c, failedCall), "setup failure is tested after Setup returned", "the setup failure test precedes Setup")
		var runCall ssa.CallInstruction
		for _, call := range an.AllCalls(do) {
			if an.Callee(call) == loop {
				runCall = call
			}
		}
		if runCall == nil {
			// the run loop is called from a helper of Do: the helper's call in Do stands for it
			for _, e := range an.FlatCalls(do, flatDepth, func(_ ssa.CallInstruction, t *ssa.Function) bool { return t == loop }) {
				if rc, ok := e.Root().(ssa.CallInstruction); ok {
					runCall = rc
				}
			}
		}
		if runCall == nil {
			r.Undecided(core.FuncName(do)+"#run-call", c.Pos(do.Pos()), "call of the run loop not found")
			return
		}
		guarded := false
		for _, g := range an.GuardsOf(runCall.Block()) {
			if g.If == failedTest && !g.Polarity {
				guarded = true
			}
		}
		r.Check(guarded, core.FuncName(do)+"#run-guard", an.Pos(c, runCall), "run() executes only on the not-failed branch", "run() is reachable although setup failed: iterations run against a scenario whose setup failed")
		// failed branch: returns without run, records an error
		fb := failedTest.Block().Succs[0]
		reach := reachesAvoiding(fb, runCall, nil)
		r.Check(!reach, core.FuncName(do)+"#failed-branch-returns", c.Pos(fb.Instrs[0].Pos()), "the setup-failed branch cannot reach run()", "the setup-failed branch continues into run()")
		records := false
		seen := map[*ssa.BasicBlock]bool{}
		var walk func(b *ssa.BasicBlock)
		walk = func(b *ssa.BasicBlock) {
			if seen[b] {
				return
			}
			seen[b] = true
			for _, in := range b.Instrs {
				if call, ok := in.(ssa.CallInstruction); ok {
					if t := an.Callee(call); t != nil && (isMethod(t, runPkg, "Result", "AddError") || an.ReachesCall(t, 3, func(g *ssa.Function) bool { return isMethod(g, runPkg, "Result", "AddError") })) {
						records = true
					}
				}
			}
			for _, s := range b.Succs {
				walk(s)
			}
		}
		walk(fb)
		r.Check(records, core.FuncName(do)+"#failed-branch-error", c.Pos(fb.Instrs[0].Pos()), "the setup-failed branch records a run error", "a failed setup is not recorded as a run error: the run is reported passed")
	})

	rule(r, "C06.R2", "the setup handle's teardown has one caller, which Run.Do defers exactly once on every path after Setup (so it runs after run() and before Do returns); a teardown failure becomes a run error; handle wiring: ActiveScenario.{t,Teardown} come from one constructor call, TeardownFailed/Failed read the matching flags", func() {
		callers := setupTeardownCallers(c)
		if !r.Floor("callers of the setup handle's teardown", len(callers), 1) {
			return
		}
		if len(callers) > 1 {
			for _, cc := range callers[1:] {
				r.Violation(core.FuncName(cc.Parent())+"#second-teardown", an.Pos(c, cc), "the setup handle's teardown is invoked from a second place: setup cleanups run twice")
			}
		}
		td := callers[0].Parent()
		// the teardown may be wrapped in a method of the handle's owner: the function Do defers is then its one caller
		for hop := 0; hop < 2; hop++ {
			inDo := false
			for _, call := range an.AllCalls(do) {
				if an.Callee(call) == td {
					inDo = true
				}
			}
			if inDo {
				break
			}
			sites := an.CallSitesOf(c, td)
			if len(sites) != 1 {
				break
			}
			callers[0] = sites[0]
			td = sites[0].Parent()
		}
		if an.InLoop(callers[0]) {
			r.Violation(core.FuncName(td)+"#teardown-loop", an.Pos(c, callers[0]), "setup teardown invoked in a loop")
		}
		var def *ssa.Defer
		nCalls := 0
		for _, call := range an.AllCalls(do) {
			if an.Callee(call) == td {
				nCalls++
				if d, ok := call.(*ssa.Defer); ok {
					def = d
				} else {
					r.Violation(core.FuncName(do)+"#teardown-not-deferred", an.Pos(c, call), "setup teardown is called inline, not deferred: a panic or an early return skips it")
				}
			}
		}
		for _, cs := range an.CallSitesOf(c, td) {
			if cs.Parent() != do {
				r.Violation(core.FuncName(cs.Parent())+"#teardown-caller", an.Pos(c, cs), "%s is also called from %s", core.FuncName(td), core.FuncName(cs.Parent()))
			}
		}
		if def == nil {
			r.Violation(core.FuncName(do)+"#teardown-defer", c.Pos(do.Pos()), "Run.Do does not defer the setup teardown")
			return
		}
		okDefer := !an.InLoop(def) && nCalls == 1
		for _, ret := range an.Returns(do) {
			if an.ReachableFrom(setupCall, ret) && !an.Dominates(def, ret) {
				okDefer = false
				r.Violation(core.FuncName(do)+"#teardown-defer", an.Pos(c, ret), "this return is reachable after Setup without the teardown having been deferred (e.g. the setup-failure return): cleanups registered during setup never run")
			}
		}
		if okDefer {
			r.OK(core.FuncName(do)+"#teardown-defer", an.Pos(c, def), "deferred once; dominates every return reachable after Setup")
		}
		// teardown failure → error
		var tfIf *ssa.If
		for _, b := range td.Blocks {
			if iff, ok := b.Instrs[len(b.Instrs)-1].(*ssa.If); ok {
				if call, ok := an.Strip(iff.Cond).(*ssa.Call); ok && an.Callee(call) != nil && an.Dominates(callers[0], call) {
					if tc, ok := an.Terminal(call).(*ssa.Call); ok {
						if f, _ := an.TerminalField(tc.Call.Args[0]); f != nil && f.Name() == "teardownFailed" {
							tfIf = iff
						}
					}
				}
			}
		}
		if tfIf == nil {
			r.Violation(core.FuncName(td)+"#teardown-failed-test", c.Pos(td.Pos()), "after the setup teardown nobody tests the handle's teardownFailed flag: a failing setup cleanup does not fail the run")
		} else {
			tb := tfIf.Block().Succs[0]
			rec := false
			for _, in := range tb.Instrs {
				if call, ok := in.(ssa.CallInstruction); ok {
					if t := an.Callee(call); t != nil && (isMethod(t, runPkg, "Result", "AddError") || an.ReachesCall(t, 2, func(g *ssa.Function) bool { return isMethod(g, runPkg, "Result", "AddError") })) {
						rec = true
					}
				}
			}
			r.Check(rec, core.FuncName(td)+"#teardown-failed-error", an.Pos(c, tfIf), "teardown failure is recorded as a run error", "the teardown-failed branch does not record a run error")
		}
		// wiring of the handle
		handleWiring(c, r)
	})

	rule(r, "C06.R3", "the iteration runner runs the state's teardown exactly once on every path, after the body; the state's teardown and T come from one constructor call", func() {
		runner, bodyEv, _ := userRunner(c, "RunFn", func(t *ssa.Function) bool { return isStatsRecord(t) || isMetricsIter(t) })
		isTd := func(call ssa.CallInstruction, _ *ssa.Function) bool {
			fld, owner := an.TerminalField(call.Common().Value)
			return an.Callee(call) == nil && fld != nil && an.IsNamed(owner, workersPkg, "iterationState") && fld.Name() != "t"
		}
		// seen through function literals invoked in place and helpers: the teardown may be deferred in the frame
		// that runs the body
		tds := an.FlatCalls(runner, flatDepth, isTd)
		once := func(in ssa.Instruction) bool {
			if _, isDefer := in.(*ssa.Defer); isDefer {
				return !an.InLoop(in) && dominatesAllReturns(in, in.Parent())
			}
			tot, ok := an.Total(an.PathCount(in.Parent(), func(x ssa.Instruction) an.Interval {
				if x == in {
					return an.Interval{Lo: 1, Hi: 1}
				}
				return an.Interval{}
			}), false)
			return ok && tot.Lo == 1 && tot.Hi == 1
		}
		okOnce := len(tds) == 1
		why := sprintf("%d teardown calls per iteration", len(tds))
		if okOnce {
			for _, in := range an.Chain(tds[0]) {
				if !once(in) {
					okOnce = false
					why = "the teardown call (or the frame it runs in, " + an.Pos(c, in) + ") is not executed exactly once on every path"
				}
			}
		}
		r.Check(okOnce, core.FuncName(runner)+"#iteration-teardown", c.Pos(runner.Pos()), "the state's teardown runs exactly once on every path", "the iteration's cleanups do not run exactly once per iteration: "+why)
		for _, e := range tds {
			call := e.Call()
			stateOK := false
			var fx ssa.Value
			switch x := call.Common().Value.(type) {
			case *ssa.UnOp:
				if fa, ok := x.X.(*ssa.FieldAddr); ok {
					fx = fa.X
				}
			case *ssa.Field:
				fx = x.X
			}
			if fx != nil {
				base := an.EventFV(e, fx).Resolve(nil)
				stateOK = unspill(an.Strip(base.V)) == an.Strip(frameStateArg(runner))
			}
			r.Check(stateOK, core.FuncName(runner)+"#teardown-state", an.Pos(c, call), "teardown of the state handed to this call", "teardown invoked is "+an.D().Of(call.Common().Value)+", not the one of the runner's state parameter")
			r.Check(an.Before(bodyEv, e), core.FuncName(runner)+"#teardown-after-body", an.Pos(c, call), "the teardown runs after the (recovered) body", "the iteration's cleanups run before its body")
		}
	})

	rule(r, "C06.R8", "wherever the user's iteration function is run (the iteration runner, and any other runner next to it: a warm-up, a dry run), the cleanups registered on the handle it was given run afterwards on every path — also when the body failed", func() {
		isUser := func(call ssa.CallInstruction, t *ssa.Function) bool {
			if t != nil {
				return false
			}
			n := an.DynCallType(call)
			return n != nil && an.IsNamed(n, testingPkg, "RunFn")
		}
		isTdCall := func(in ssa.Instruction) bool {
			call, ok := in.(ssa.CallInstruction)
			if !ok {
				return false
			}
			found := false
			check := func(ci ssa.CallInstruction) {
				fld, owner := an.TerminalField(ci.Common().Value)
				if an.Callee(ci) == nil && fld != nil && an.IsNamed(owner, workersPkg, "iterationState") && fld.Name() != "t" {
					found = true
				}
			}
			check(call)
			if t := an.Callee(call); !found && t != nil && core.InModule(t) && t.Blocks != nil {
				// through a helper that runs it on every path
				for _, e := range an.FlatCalls(t, 2, func(ci ssa.CallInstruction, _ *ssa.Function) bool { check(ci); return false }) {
					_ = e
				}
			}
			return found
		}
		n := 0
		// judged where the body is called; when that function does not run the cleanups itself (a small helper that only
		// guards the call), the obligation moves to each of its callers in the package
		var judge func(fn *ssa.Function, root ssa.Instruction, depth int) (bool, ssa.Instruction)
		judge = func(fn *ssa.Function, root ssa.Instruction, depth int) (bool, ssa.Instruction) {
			deferred := false
			an.Instrs(fn, func(in ssa.Instruction) {
				if d, isDefer := in.(*ssa.Defer); isDefer && isTdCall(d) && an.Dominates(d, root) {
					deferred = true
				}
			})
			if deferred {
				return true, nil
			}
			esc := an.EscapesWithout(root, func(in ssa.Instruction) bool {
				if _, isDefer := in.(*ssa.Defer); isDefer {
					return false
				}
				return isTdCall(in)
			})
			if esc == nil {
				return true, nil
			}
			if depth <= 0 {
				return false, esc
			}
			outer := an.Outermost(fn)
			var sites []ssa.CallInstruction
			for _, cs := range an.CallSitesOf(c, outer) {
				if core.RelPkg(cs.Parent()) == "internal/workers" {
					sites = append(sites, cs)
				}
			}
			if fn != outer {
				// a literal invoked in place: its invocation in the enclosing function
				return false, esc
			}
			if len(sites) == 0 {
				return false, esc
			}
			for _, cs := range sites {
				if _, isGo := cs.(*ssa.Go); isGo {
					return false, esc
				}
				if ok, e2 := judge(cs.Parent(), cs, depth-1); !ok {
					return false, e2
				}
			}
			return true, nil
		}
		_ = isUser
		seenRoot := map[ssa.Instruction]bool{}
		for _, uc := range userCalls(c) {
			if uc.Kind != "RunFn" || core.RelPkg(uc.Fn) != "internal/workers" {
				continue
			}
			// the call in its outermost function: a literal invoked in place counts as its invocation
			fn, root := uc.Fn, ssa.Instruction(uc.Call)
			okRoot := true
			for fn.Parent() != nil && okRoot {
				okRoot = false
				parent := fn.Parent()
				an.Instrs(parent, func(in ssa.Instruction) {
					if mc, isMC := in.(*ssa.MakeClosure); isMC && mc.Fn == ssa.Value(fn) {
						for _, ref := range an.Referrers(mc) {
							if ci, isCall := ref.(ssa.CallInstruction); isCall {
								// invoked in place, or handed to a guarding helper that calls it
								root, okRoot = ci, true
							}
						}
					}
				})
				fn = parent
			}
			if !okRoot || seenRoot[root] {
				continue
			}
			seenRoot[root] = true
			n++
			key := core.FuncName(fn) + "#cleanups-after-body"
			if ok, esc := judge(fn, root, 3); ok {
				r.OK(key, an.Pos(c, root), "every path from the body to an exit runs the handle's cleanups (here or in every caller)")
			} else {
				r.Violation(key, an.Pos(c, esc), "after the user's iteration function ran, this exit is reached without running the cleanups registered on its handle (a failing or panicking body leaves them behind)")
			}
		}
		r.Floor("runners of the user's iteration function", n, 1)
	})

	rule(r, "C06.R9", "once the trigger has returned, the run leaves its loop function only through the wait for the started iterations (the select on the completion signal): no early exit in between", func() {
		fn, _ := runLoop(c)
		isCompletion := func(v ssa.Value) bool {
			call, ok := an.Strip(v).(*ssa.Call)
			if !ok {
				return false
			}
			t := an.Callee(call)
			if t == nil || core.RelPkg(t) != "internal/workers" || t.Signature.Results().Len() != 1 {
				return false
			}
			_, isChan := t.Signature.Results().At(0).Type().Underlying().(*types.Chan)
			return isChan
		}
		n := 0
		for _, call := range an.AllCalls(fn) {
			if an.Callee(call) != nil {
				continue
			}
			if nt := an.DynCallType(call); nt == nil || !an.IsNamed(nt, apiPkg, "WorkTriggerer") {
				continue
			}
			n++
			key := core.FuncName(fn) + "#wait-after-trigger"
			esc := an.EscapesWithout(call, func(in ssa.Instruction) bool {
				switch x := in.(type) {
				case *ssa.Select:
					for _, st := range x.States {
						if isCompletion(st.Chan) {
							return true
						}
					}
				case *ssa.UnOp:
					return x.Op == token.ARROW && isCompletion(x.X)
				}
				return false
			})
			if esc != nil {
				r.Violation(key, an.Pos(c, esc), "after the trigger returned, this exit is reached without waiting for the iterations that were started: the setup teardown (deferred by the caller) runs while iterations are still in flight")
			} else {
				r.OK(key, an.Pos(c, call), "every path from the trigger's return to an exit waits on the completion signal")
			}
		}
		r.Floor("trigger invocations in the run loop", n, 1)
	})

	rule(r, "C06.R4", "cleanups run in reverse registration order (the loop in T.teardown visits indices len-1 … 0) and each cleanup call has its own recovered frame", func() {
		cleanupOrderRule(c, r)
		containmentRule(c, r, true)
	})

	rule(r, "C06.R5", "the cleanup stack is written only by Cleanup (append), Reset and the constructor; tearingDown is set only by teardown and cleared only by Reset; Reset clears both on every path", func() {
		tpkg := "pkg/f1/testing"
		stack := handleFields(c).stack
		tearing := handleFields(c).tearing
		// the marker's stores, the cleanup calls and the classifying (recovering) calls seen from the teardown function
		tdFn := c.MustFn(tpkg, "T.teardown")
		tdStores := map[ssa.Instruction]bool{}
		var onEv, offEv, cleanupEv, classEv []an.Event
		an.Flatten(tdFn, flatDepth, nil, func(e an.Event) {
			if st, ok := e.Instr.(*ssa.Store); ok && an.SameField(an.FieldOfAddr(st.Addr), tearing) {
				if k, isK := st.Val.(*ssa.Const); isK && k.Value != nil {
					tdStores[e.Instr] = true
					if k.Value.String() == handleFields(c).tearingOn {
						onEv = append(onEv, e)
					} else {
						offEv = append(offEv, e)
					}
				}
			}
			if call := e.Call(); call != nil {
				if t := an.Callee(call); t != nil {
					if _, rec := recovering(t); rec {
						classEv = append(classEv, e)
					}
				} else if sig, isSig := call.Common().Value.Type().Underlying().(*types.Signature); isSig && !call.Common().IsInvoke() && sig.Params().Len() == 0 && sig.Results().Len() == 0 {
					cleanupEv = append(cleanupEv, e)
				}
			}
		})
		n := 0
		for _, fn := range c.AllFuncs {
			an.Instrs(fn, func(in ssa.Instruction) {
				st, ok := in.(*ssa.Store)
				if !ok {
					return
				}
				fld := an.FieldOfAddr(st.Addr)
				name := an.Outermost(fn).Name()
				switch {
				case an.SameField(fld, stack):
					n++
					d := an.D().Of(st.Val)
					okk := false
					switch name {
					case "Cleanup":
						// append(<the same field of the receiver>, <the function given>)
						if ap, isCall := an.Strip(st.Val).(*ssa.Call); isCall && an.IsBuiltinCall(ap, "append") {
							if fa, isFA := an.Strip(ap.Call.Args[0]).(*ssa.FieldAddr); isFA && an.SameField(an.FieldOfAddr(fa), stack) && len(fn.Params) > 0 && an.Strip(fa.X) == ssa.Value(fn.Params[0]) {
								for _, el := range varargElems(ap.Call.Args[1]) {
									if _, isParam := an.Strip(el).(*ssa.Parameter); isParam {
										okk = true
									}
								}
							}
						}
					case "Reset", "NewTWithOptions":
						okk = strings.HasPrefix(d, "local:") || strings.HasPrefix(d, "make(") || freshEmptySlice(fn, st.Val) || truncatedToEmpty(st, stack)
					default:
						// an unexported helper that only Reset calls (`resetStack`): the same emptying, one frame down
						if !token.IsExported(name) && core.RelPkg(fn) == tpkg {
							sites := an.CallSitesOf(c, an.Outermost(fn))
							onlyReset := len(sites) > 0
							for _, cs := range sites {
								if an.Outermost(cs.Parent()).Name() != "Reset" {
									onlyReset = false
								}
							}
							if onlyReset {
								okk = strings.HasPrefix(d, "local:") || strings.HasPrefix(d, "make(") || freshEmptySlice(fn, st.Val) || truncatedToEmpty(st, stack)
							}
						}
					}
					r.Check(okk, core.FuncName(fn)+"#teardownStack", an.Pos(c, in), name+" writes "+d, "cleanup stack written in "+core.FuncName(fn)+" with "+d+": registered cleanups are lost, duplicated or reordered")
				case an.SameField(fld, tearing):
					n++
					k, _ := st.Val.(*ssa.Const)
					val := ""
					if k != nil && k.Value != nil {
						val = k.Value.String()
					}
					hf := handleFields(c)
					okk := (val == hf.tearingOn && name == "teardown") || (val == hf.tearingOff && name == "Reset")
					// stores made while tearing down — in the teardown function or in the helpers it runs in place — are
					// judged by their order relative to the cleanups and their classification (below)
					if tdStores[in] {
						okk = true
					}
					// the zero value spelled out in the literal that builds a new handle
					if fa, isFA := st.Addr.(*ssa.FieldAddr); isFA && val == hf.tearingOff {
						if _, isNew := fa.X.(*ssa.Alloc); isNew {
							okk = true
						}
					}
					if val == hf.tearingOn {
						val = "true"
					} else if val == hf.tearingOff {
						val = "false"
					}
					r.Check(okk, core.FuncName(fn)+"#tearingDown="+val, an.Pos(c, in), name+" sets tearingDown="+val, "tearingDown set to "+val+" in "+core.FuncName(fn)+": failures are attributed to the wrong phase")
				}
			})
		}
		// writes made by pointer-receiver methods of a wrapper type around the stack (`func (s *stack) push(f)`): the
		// method must append its own parameter to its receiver, and be called only from Cleanup, on the handle's field
		for _, m := range c.AllFuncs {
			if core.RelPkg(m) != tpkg || m.Signature.Recv() == nil || len(m.Params) == 0 {
				continue
			}
			rp, isPtr := m.Signature.Recv().Type().Underlying().(*types.Pointer)
			if !isPtr || !types.Identical(rp.Elem(), stack.Type()) {
				continue
			}
			an.Instrs(m, func(in ssa.Instruction) {
				st, ok := in.(*ssa.Store)
				if !ok || an.Strip(st.Addr) != ssa.Value(m.Params[0]) {
					return
				}
				n++
				okk := false
				if ap, isCall := an.Strip(st.Val).(*ssa.Call); isCall && an.IsBuiltinCall(ap, "append") {
					if ld, isLd := ap.Call.Args[0].(*ssa.UnOp); isLd && an.Strip(ld.X) == ssa.Value(m.Params[0]) {
						for _, el := range varargElems(ap.Call.Args[1]) {
							if _, isParam := an.Strip(el).(*ssa.Parameter); isParam {
								okk = true
							}
						}
					}
				}
				for _, site := range an.CallSitesOf(c, m) {
					fld, _ := an.TerminalField(site.Common().Args[0])
					if an.Outermost(site.Parent()).Name() != "Cleanup" || !an.SameField(fld, stack) {
						okk = false
					}
					if len(site.Common().Args) > 1 {
						if _, isParam := an.Strip(site.Common().Args[1]).(*ssa.Parameter); !isParam {
							okk = false
						}
					}
				}
				r.Check(okk, core.FuncName(m)+"#teardownStack", an.Pos(c, in), m.Name()+" appends its argument to the stack and is called only by Cleanup", "cleanup stack written in "+core.FuncName(m)+" with "+an.D().Of(st.Val)+": registered cleanups are lost, duplicated or reordered")
			})
		}
		r.Floor("writes to the cleanup stack / tearingDown", n, 5)
		resetClearsOnly(c, r, "teardownStack=empty")
		// the marker is on while every cleanup runs and while its outcome is classified
		td := tdFn
		okOrder := len(onEv) > 0 && len(cleanupEv) > 0
		for _, ce := range cleanupEv {
			covered := false
			for _, on := range onEv {
				if an.Before(on, ce) {
					covered = true
				}
			}
			if !covered {
				okOrder = false
			}
		}
		r.Check(okOrder, "T.teardown#tearingDown-first", c.Pos(td.Pos()), "tearingDown is set before any cleanup runs", "cleanups run before tearingDown is set: their failures are counted as iteration failures")
		for _, off := range offEv {
			okOff := true
			for _, ce := range cleanupEv {
				if !an.Before(ce, off) {
					okOff = false
				}
			}
			for _, cl := range classEv {
				if !an.Before(cl, off) {
					okOff = false
				}
			}
			r.Check(okOff, core.FuncName(off.Instr.Parent())+"#tearingDown-cleared-late", an.Pos(c, off.Instr), "the marker is switched off only after the cleanup ran and its outcome was classified", "the tearing-down marker is switched off before the cleanup's outcome is classified (deferred calls run last-registered-first): a cleanup that panics is booked as an iteration failure, not as a teardown failure, and a failing setup cleanup no longer fails the run")
		}
	})

	rule(r, "C06.R6", "the run reaches the deferred setup teardown only after waiting for started iterations through a completion signal computed per call (shared with C05.R5/R9)", func() {
		// re-use the C05 rules by running them on a scratch report and copying their obligations
		sub := core.NewReport("C05")
		c05(c, sub)
		n := 0
		for _, o := range sub.Obls {
			if o.Rule == "C05.R5" || o.Rule == "C05.R9" {
				n++
				switch o.Status {
				case core.Discharged:
					r.OK(o.Rule+":"+o.Key, o.Pos, "%s", o.Msg)
				case core.Violated:
					r.Violation(o.Rule+":"+o.Key, o.Pos, "%s", o.Msg)
				case core.Undecided:
					r.Undecided(o.Rule+":"+o.Key, o.Pos, "%s", o.Msg)
				}
			}
		}
		r.Floor("completion-wait obligations", n, 4)
	})
}

func frameStateArg(runner *ssa.Function) ssa.Value {
	for _, p := range runner.Params {
		if an.IsNamed(p.Type(), workersPkg, "iterationState") {
			return p
		}
	}
	return runner.Params[len(runner.Params)-1]
}

func teardownFieldName(call ssa.CallInstruction) string {
	if fld, _ := an.TerminalField(call.Common().Value); fld != nil {
		return fld.Name()
	}
	return "?"
}

// handleWiring: constructors bind a handle's T and its teardown from one NewT* call; accessor chains read the
// matching flags.
func handleWiring(c *core.Ctx, r *core.Report) {
	check := func(fn *ssa.Function) {
		for _, ret := range an.Returns(fn) {
			al, ok := an.Strip(ret.Results[0]).(*ssa.Alloc)
			if !ok {
				// not a constructor: hands out a handle built elsewhere (an accessor)
				r.Exists(core.FuncName(fn)+"#accessor", an.Pos(c, ret), "returns an existing handle (%s), not a new one", an.D().Of(ret.Results[0]))
				continue
			}
			// roles by type: the *testing.T field and the func() field of the handle
			var t, td ssa.Value
			tName, tdName := "?", "?"
			for name, v := range literalLeafFields(al) {
				if an.IsNamed(v.Type(), testingPkg, "T") {
					t, tName = v, name
				}
				if sig, isSig := v.Type().Underlying().(*types.Signature); isSig && sig.Params().Len() == 0 && sig.Results().Len() == 0 {
					td, tdName = v, name
				}
			}
			if t == nil || td == nil {
				r.Undecided(core.FuncName(fn)+"#fields", an.Pos(c, ret), "the handle literal does not set both a *T and a func() field")
				continue
			}
			e0, ok0 := an.Strip(t).(*ssa.Extract)
			e1, ok1 := an.Strip(teardownBehind(td)).(*ssa.Extract)
			okk := ok0 && ok1 && e0.Tuple == e1.Tuple && e0.Index == 0 && e1.Index == 1
			r.Check(okk, core.FuncName(fn)+"#handle", an.Pos(c, ret), tName+" and "+tdName+" come from the same constructor call", "the handle's teardown ("+an.D().Of(td)+") does not belong to its T ("+an.D().Of(t)+"): cleanups registered on one handle are run (or not) by another")
		}
	}
	check(c.MustFn("internal/workers", "NewActiveScenario"))
	// the per-iteration state constructor: the function of internal/workers returning the iteration state type
	nIS := 0
	for _, fn := range c.AllFuncs {
		if core.RelPkg(fn) == "internal/workers" && fn.Parent() == nil && fn.Signature.Results().Len() == 1 && an.IsNamed(fn.Signature.Results().At(0).Type(), workersPkg, "iterationState") {
			nIS++
			check(fn)
		}
	}
	if nIS == 0 {
		r.Undecided("iteration-state-constructor", "-", "no constructor of the iteration state found")
	}
	// NewTWithOptions returns (t, t.teardown)
	nt := c.MustFn("pkg/f1/testing", "NewTWithOptions")
	for _, ret := range an.Returns(nt) {
		d0, d1 := an.D().Of(ret.Results[0]), an.D().Of(ret.Results[1])
		okk := strings.Contains(d1, "teardown") && strings.Contains(d1, "closure:")
		if mc, ok := an.Strip(ret.Results[1]).(*ssa.MakeClosure); ok && len(mc.Bindings) == 1 {
			okk = okk && an.Strip(mc.Bindings[0]) == an.Strip(ret.Results[0])
		} else {
			okk = false
		}
		r.Check(okk, "NewTWithOptions#teardown-binding", an.Pos(c, ret), "returns "+d0+" and its own teardown method", "the teardown returned ("+d1+") is not the method value of the T returned")
	}
	// accessor chains
	type acc struct{ fn, want string }
	for _, a := range []acc{
		{"ActiveScenario.TeardownFailed", "teardownFailed"},
		{"ActiveScenario.Failed", "failed"},
	} {
		fn := c.MustFn("internal/workers", a.fn)
		for _, ret := range an.Returns(fn) {
			fld, _ := an.TerminalField(func() ssa.Value {
				if call, ok := an.Terminal(ret.Results[0]).(*ssa.Call); ok && len(call.Call.Args) > 0 {
					return call.Call.Args[0]
				}
				return ret.Results[0]
			}())
			got := "?"
			if fld != nil {
				got = fld.Name()
			}
			r.Check(got == a.want, a.fn+"#flag", an.Pos(c, ret), a.fn+" reads T."+a.want, a.fn+" reads T."+got+" instead of T."+a.want)
		}
	}
}

// literalLeafFields is LiteralFields that also lists the fields of struct values nested in the literal
// (`outer{group: inner{f: v}}` is stored field by field through &outer.group.f).
func literalLeafFields(al ssa.Value) map[string]ssa.Value {
	out := map[string]ssa.Value{}
	var walk func(base ssa.Value, depth int)
	walk = func(base ssa.Value, depth int) {
		for _, ref := range an.Referrers(base) {
			fa, ok := ref.(*ssa.FieldAddr)
			if !ok || fa.X != base {
				continue
			}
			name := an.FieldOfAddr(fa).Name()
			for _, st := range an.StoresTo(fa) {
				out[name] = st.Val
			}
			if _, isStruct := an.FieldOfAddr(fa).Type().Underlying().(*types.Struct); isStruct && depth < 2 {
				walk(fa, depth+1)
			}
		}
	}
	walk(al, 0)
	return out
}

// freshEmptySlice: v is an empty slice made here — nil, make(…, 0, …), an empty literal — or the result of a
// function of the module that returns one on its only return.
func freshEmptySlice(fn *ssa.Function, v ssa.Value) bool {
	rv := an.RootFV(fn, v).Resolve(nil)
	x := an.Strip(rv.V)
	for i := 0; i < 3; i++ {
		if ct, ok := x.(*ssa.ChangeType); ok {
			x = an.Strip(ct.X)
		}
	}
	switch y := x.(type) {
	case *ssa.Const:
		return y.IsNil()
	case *ssa.MakeSlice:
		k, ok := y.Len.(*ssa.Const)
		return ok && k.Value != nil && k.Int64() == 0
	case *ssa.Slice:
		// []T{}[:] of a zero-length array
		if al, ok := y.X.(*ssa.Alloc); ok {
			if arr, isArr := al.Type().(*types.Pointer).Elem().Underlying().(*types.Array); isArr {
				return arr.Len() == 0
			}
		}
	}
	return false
}

// truncatedToEmpty: the store writes `field[:0]` of the very field it stores to — the stack emptied in place, keeping
// its backing array (whether the dropped entries are zeroed first does not matter for which cleanups run).
func truncatedToEmpty(st *ssa.Store, fld *types.Var) bool {
	if !an.SameField(an.FieldOfAddr(st.Addr), fld) {
		return false
	}
	var sl *ssa.Slice
	for v := st.Val; v != nil && sl == nil; {
		switch x := v.(type) {
		case *ssa.Slice:
			sl = x
		case *ssa.ChangeType:
			v = x.X
		default:
			v = nil
		}
	}
	if sl == nil || (sl.Low != nil && !isZeroConst(sl.Low)) || sl.High == nil || !isZeroConst(sl.High) {
		return false
	}
	f, _ := an.TerminalField(sl.X)
	return f != nil && an.SameField(f, fld)
}

func isZeroConst(v ssa.Value) bool {
	k, ok := v.(*ssa.Const)
	return ok && k.Value != nil && k.Value.Kind() == constant.Int && k.Int64() == 0
}
