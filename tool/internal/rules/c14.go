package rules

import (
	"os"
	"go/constant"
	"go/token"
	"go/types"
	"sort"
	"strings"

	"golang.org/x/tools/go/ssa"

	"f1verif/internal/an"
	"f1verif/internal/core"
)

func init() { register("C14", c14) }

func inputFacing(fn *ssa.Function) bool {
	rel := core.RelPkg(fn)
	if strings.HasPrefix(rel, "internal/trigger") {
		return true
	}
	return rel == "internal/run" && strings.HasPrefix(an.Outermost(fn).Name(), "runCmdExecute")
}

// ---- nil / lower-bound facts for the config-file package (analysis L3/L4) ----

type fileSummary struct {
	void        bool     // no error result: the facts hold after every call
	stores      []string // "$recv.…" paths the function may overwrite
	facts       []string // facts about "$recv.…" holding at every nil-error return
	returnsRecv bool
	requires    map[string]ssa.Instruction // facts about parameters needed at entry
	recv        string
	single      bool // one result, no error: the facts hold as soon as the call returns
}

type fileAnalysis struct {
	c       *core.Ctx
	sums    map[*ssa.Function]*fileSummary
	engines map[*ssa.Function]*an.Facts
	canon   map[*ssa.Function]func(string) string
}

type descFn func(v ssa.Value) string

func (f descFn) Of(v ssa.Value) string { return f(v) }

func isNilConst(v ssa.Value) bool { k, ok := v.(*ssa.Const); return ok && k.IsNil() }

func ptrField(v ssa.Value) bool {
	// v is a load of a pointer-typed struct field
	u, ok := v.(*ssa.UnOp)
	if !ok || u.Op != token.MUL {
		return false
	}
	fa, ok := u.X.(*ssa.FieldAddr)
	if !ok {
		return false
	}
	_, isPtr := an.FieldOfAddr(fa).Type().Underlying().(*types.Pointer)
	return isPtr
}

// aliasesOf: results #0 of calls to validators that return their receiver denote the receiver itself.
func (fa *fileAnalysis) aliasesOf(fn *ssa.Function) func(string) string {
	d := &an.Desc{MaxDepth: 48}
	type al struct{ from, to string }
	var as []al
	for _, call := range an.AllCalls(fn) {
		cv, ok := call.(*ssa.Call)
		if !ok {
			continue
		}
		if s := fa.sums[an.Callee(call)]; s != nil && s.returnsRecv && len(cv.Call.Args) > 0 {
			if s.single {
				as = append(as, al{d.Of(cv), d.Of(cv.Call.Args[0])})
			} else {
				as = append(as, al{d.Of(cv) + "#0", d.Of(cv.Call.Args[0])})
			}
		}
	}
	sort.Slice(as, func(i, j int) bool { return len(as[i].from) > len(as[j].from) })
	return func(p string) string {
		for i := 0; i < 4; i++ {
			changed := false
			for _, a := range as {
				if strings.HasPrefix(p, a.from) {
					p = a.to + strings.TrimPrefix(p, a.from)
					changed = true
				}
			}
			if !changed {
				break
			}
		}
		return p
	}
}

func (fa *fileAnalysis) engine(fn *ssa.Function) *an.Facts {
	raw := &an.Desc{MaxDepth: 48}
	canon := fa.aliasesOf(fn)
	fa.canon[fn] = canon
	d := descFn(func(v ssa.Value) string { return canon(raw.Of(v)) })
	e := &an.Facts{Fn: fn, Entry: map[string]bool{}}
	e.Gen = func(in ssa.Instruction, cur map[string]bool) {
		if call, isCall := in.(*ssa.Call); isCall {
			if s := fa.sums[an.Callee(call)]; s != nil && len(call.Call.Args) > 0 {
				recvD := d.Of(call.Call.Args[0])
				for _, p := range s.stores {
					q := recvD + strings.TrimPrefix(p, s.recv)
					an.KillFact(cur, "nn:"+q)
					an.KillFact(cur, "ge1:"+q)
				}
				if s.void || s.single {
					for _, f := range s.facts {
						cur[an.RebaseFact(f, s.recv, recvD)] = true
					}
				}
			}
			return
		}
		st, ok := in.(*ssa.Store)
		if !ok {
			return
		}
		f := an.FieldOfAddr(st.Addr)
		if f == nil {
			return
		}
		if _, isPtr := f.Type().Underlying().(*types.Pointer); !isPtr {
			return
		}
		path := d.Of(st.Addr)
		an.KillFact(cur, "nn:"+path)
		an.KillFact(cur, "ge1:"+path)
		switch v := st.Val.(type) {
		case *ssa.Alloc:
			cur["nn:"+path] = true
		case *ssa.FieldAddr, *ssa.IndexAddr:
			cur["nn:"+path] = true
		case *ssa.Parameter:
			if cur["nn:"+d.Of(v)] {
				cur["nn:"+path] = true
			}
		case *ssa.Call:
			// a coalescing helper (`orDefault(own, inherited, fallback)`) that never returns nil
			if cs := coalesceOf(an.Callee(v)); cs != nil && cs.nonNilAt(v) {
				cur["nn:"+path] = true
			}
		case *ssa.UnOp:
			if ptrField(v) {
				q := d.Of(v)
				if cur["nn:"+q] {
					cur["nn:"+path] = true
				}
				if cur["ge1:"+q] {
					cur["ge1:"+path] = true
				}
			}
		}
	}
	e.Edge = func(iff *ssa.If, taken bool, cur map[string]bool) {
		cond := iff.Cond
		for {
			u, ok := cond.(*ssa.UnOp)
			if !ok || u.Op != token.NOT {
				break
			}
			cond, taken = u.X, !taken
		}
		bo, ok := cond.(*ssa.BinOp)
		if !ok {
			return
		}
		x, y, op := bo.X, bo.Y, bo.Op
		if isNilConst(x) {
			x, y = y, x
		}
		if isNilConst(y) && (op == token.EQL || op == token.NEQ) {
			nonNil := (op == token.EQL && !taken) || (op == token.NEQ && taken)
			if ptrField(x) && nonNil {
				cur["nn:"+d.Of(x)] = true
			}
			if _, isParam := x.(*ssa.Parameter); isParam && nonNil {
				cur["nn:"+d.Of(x)] = true
			}
			if _, isParam := x.(*ssa.Parameter); (ptrField(x) || isParam) && !nonNil {
				// x is nil here: a disjunction "x or y is non-nil" established earlier now gives y
				an.ResolveOr(cur, "nn:"+d.Of(x))
			}
			// err == nil after a summarised call
			if ex, isEx := x.(*ssa.Extract); isEx && !nonNil {
				if call, isCall := ex.Tuple.(*ssa.Call); isCall {
					// `s.F, err = requiredField(s.F, defaults.F, …)`: on success the value stored is not nil
					if cs := coalesceOf(an.Callee(call)); cs != nil && cs.nonNil() && ex.Index == 1 {
						for _, ref := range an.Referrers(call) {
							if v0, ok := ref.(*ssa.Extract); ok && v0.Index == 0 {
								for _, r2 := range an.Referrers(v0) {
									if st, isSt := r2.(*ssa.Store); isSt && an.FieldOfAddr(st.Addr) != nil {
										cur["nn:"+d.Of(st.Addr)] = true
									}
								}
							}
						}
					}
					if s := fa.sums[an.Callee(call)]; s != nil && len(call.Call.Args) > 0 {
						for _, f := range s.facts {
							cur[an.RebaseFact(f, s.recv, d.Of(call.Call.Args[0]))] = true
						}
					}
				}
			}
			return
		}
		// lower bounds on *p
		if k, isK := y.(*ssa.Const); isK && k.Value != nil && k.Value.Kind() == constant.Int {
			if u, isU := x.(*ssa.UnOp); isU && u.Op == token.MUL && ptrField(u.X) {
				n := k.Int64()
				ge1 := (op == token.LSS && n >= 1 && !taken) || (op == token.LEQ && n >= 0 && !taken) || (op == token.GEQ && n >= 1 && taken) || (op == token.GTR && n >= 0 && taken)
				if ge1 {
					cur["ge1:"+d.Of(u.X)] = true
				}
			}
		}
	}
	return e
}

func analyseFilePkg(c *core.Ctx) *fileAnalysis {
	posEngines = map[*ssa.Function]*an.Facts{}
	fa := &fileAnalysis{c: c, sums: map[*ssa.Function]*fileSummary{}, engines: map[*ssa.Function]*an.Facts{}, canon: map[*ssa.Function]func(string) string{}}
	var fns []*ssa.Function
	for _, fn := range c.AllFuncs {
		if core.RelPkg(fn) == "internal/trigger/file" {
			fns = append(fns, fn)
		}
	}
	for round := 0; round < 3; round++ {
		for _, fn := range fns {
			e := fa.engine(fn)
			e.Run()
			fa.engines[fn] = e
			nres := fn.Signature.Results().Len()
			if fn.Signature.Recv() == nil || nres > 2 {
				continue
			}
			// a validator without an error result (`func (s *Stage) withDefaults(d Stage) *Stage`)
			single := nres == 1 && types.Identical(fn.Signature.Results().At(0).Type(), fn.Signature.Recv().Type())
			if nres == 1 && !single {
				continue
			}
			void := nres == 0
			recv := an.ParamDesc(fn.Params[0])
			var common map[string]bool
			retRecv := !void
			n := 0
			for _, ret := range an.Returns(fn) {
				if !void && !single && (len(ret.Results) != 2 || !isNilConst(ret.Results[1])) {
					continue
				}
				n++
				if !void && an.Strip(ret.Results[0]) != ssa.Value(fn.Params[0]) {
					retRecv = false
				}
				at := e.At(ret)
				if common == nil {
					common = map[string]bool{}
					for k := range at {
						common[k] = true
					}
				} else {
					for k := range common {
						if !at[k] {
							delete(common, k)
						}
					}
				}
			}
			if n == 0 {
				continue
			}
			s := &fileSummary{returnsRecv: retRecv, recv: recv, void: void, single: single}
			storeSet := map[string]bool{}
			an.Instrs(fn, func(in ssa.Instruction) {
				if st, ok := in.(*ssa.Store); ok && an.FieldOfAddr(st.Addr) != nil {
					if p := fa.canon[fn]((&an.Desc{MaxDepth: 48}).Of(st.Addr)); strings.HasPrefix(p, recv+".") {
						storeSet[p] = true
					}
				}
			})
			for p := range storeSet {
				s.stores = append(s.stores, p)
			}
			sort.Strings(s.stores)
			for k := range common {
				// plain facts about the receiver's fields, and disjunctions of two such facts
				// ("volume or peak-rate is set")
				if an.FactAbout(k, recv+".") {
					s.facts = append(s.facts, k)
				}
			}
			sort.Strings(s.facts)
			fa.sums[fn] = s
		}
	}
	return fa
}

// ---- positivity summaries (analysis L2) ----

type posKind int

const (
	posUnknown posKind = iota
	posYes
	posIfArg // positive when the argument bound to parameter Arg is positive
)

type posSummary struct {
	kind posKind
	arg  int
	why  string
}

// positiveOnSuccess summarises result index res of fn: on every nil-error return it is positive.
func positiveOnSuccess(c *core.Ctx, fn *ssa.Function, res int, depth int) posSummary {
	fn = delegateTarget(fn)
	if fn == nil || fn.Blocks == nil || depth <= 0 || !core.InModule(fn) {
		return posSummary{why: "not a module function with a body"}
	}
	errIdx := -1
	for i := 0; i < fn.Signature.Results().Len(); i++ {
		if types.Identical(fn.Signature.Results().At(i).Type(), types.Universe.Lookup("error").Type()) {
			errIdx = i
		}
	}
	out := posSummary{kind: posYes}
	n := 0
	for _, ret := range an.Returns(fn) {
		if errIdx >= 0 && !isNilConst(ret.Results[errIdx]) {
			continue
		}
		n++
		s := valuePositive(c, ret, ret.Results[res], depth)
		switch s.kind {
		case posUnknown:
			return posSummary{why: an.Pos(c, ret) + ": " + s.why}
		case posIfArg:
			if out.kind == posIfArg && out.arg != s.arg {
				return posSummary{why: "depends on two parameters"}
			}
			out.kind, out.arg = posIfArg, s.arg
		}
		if out.why == "" || s.kind == posIfArg {
			out.why = s.why
		}
	}
	if n == 0 {
		return positiveOnSuccessPaths(c, fn, res, errIdx, depth)
	}
	return out
}

// pathLits: while a result is judged along one entry→return path (single-exit functions with named results), the
// branch literals of that path count as guards.
var pathLits []an.Lit

// positiveOnSuccessPaths is positiveOnSuccess for functions whose results are merged before a common return: every
// entry→return path is followed, the results are read along the path, and the path's own branch conditions guard.
func positiveOnSuccessPaths(c *core.Ctx, fn *ssa.Function, res, errIdx, depth int) posSummary {
	paths, err := an.DecisionPaths(fn, 256)
	if err != nil {
		return posSummary{why: "no successful return (and paths not enumerable: " + err.Error() + ")"}
	}
	out := posSummary{kind: posYes}
	n := 0
	for _, p := range paths {
		if p.Ret == nil {
			continue
		}
		if errIdx >= 0 && !isNilConst(p.OnPath(p.Ret.Results[errIdx])) {
			continue
		}
		n++
		saved := pathLits
		pathLits = p.Lits
		s := valuePositive(c, p.Ret, p.OnPath(p.Ret.Results[res]), depth)
		pathLits = saved
		switch s.kind {
		case posUnknown:
			return posSummary{why: an.Pos(c, p.Ret) + ": " + s.why}
		case posIfArg:
			if out.kind == posIfArg && out.arg != s.arg {
				return posSummary{why: "depends on two parameters"}
			}
			out.kind, out.arg = posIfArg, s.arg
		}
		if out.why == "" || s.kind == posIfArg {
			out.why = s.why
		}
	}
	if n == 0 {
		return posSummary{why: "no successful return"}
	}
	return out
}

// valuePositive: is v > 0 at instruction at (using dominating guards whose failing branch leaves)?
var posEngines = map[*ssa.Function]*an.Facts{}

func allocKey(a *ssa.Alloc) string { return "pos:" + a.Name() + "@" + a.Comment }

// posEngine: must-facts "local variable is > 0" from constant stores and from guards whose other branch leaves.
func posEngine(fn *ssa.Function) *an.Facts {
	if e, ok := posEngines[fn]; ok {
		return e
	}
	e := &an.Facts{Fn: fn, Entry: map[string]bool{}}
	e.Gen = func(in ssa.Instruction, cur map[string]bool) {
		st, ok := in.(*ssa.Store)
		if !ok {
			return
		}
		a, ok := st.Addr.(*ssa.Alloc)
		if !ok {
			return
		}
		delete(cur, allocKey(a))
		if k, isK := st.Val.(*ssa.Const); isK && k.Value != nil && (k.Value.Kind() == constant.Int || k.Value.Kind() == constant.Float) && constant.Sign(k.Value) > 0 {
			cur[allocKey(a)] = true
		}
	}
	e.Edge = func(iff *ssa.If, taken bool, cur map[string]bool) {
		bo, ok := iff.Cond.(*ssa.BinOp)
		if !ok {
			return
		}
		u, ok := bo.X.(*ssa.UnOp)
		if !ok || u.Op != token.MUL {
			return
		}
		a, ok := u.X.(*ssa.Alloc)
		if !ok {
			return
		}
		k, isK := bo.Y.(*ssa.Const)
		if !isK || k.Value == nil {
			return
		}
		sgn := constant.Sign(k.Value)
		if (bo.Op == token.LEQ && sgn >= 0 && !taken) || (bo.Op == token.LSS && sgn > 0 && !taken) || (bo.Op == token.GTR && sgn >= 0 && taken) || (bo.Op == token.GEQ && sgn > 0 && taken) {
			cur[allocKey(a)] = true
		}
	}
	e.Run()
	posEngines[fn] = e
	return e
}

func valuePositive(c *core.Ctx, at ssa.Instruction, v ssa.Value, depth int) posSummary {
	if u, ok := v.(*ssa.UnOp); ok && u.Op == token.MUL {
		if a, ok := u.X.(*ssa.Alloc); ok && len(an.StoresTo(a)) > 1 {
			if posEngine(a.Parent()).At(u)[allocKey(a)] {
				return posSummary{kind: posYes, why: "local " + a.Comment + " is positive on every path here (constant stores / `<= 0 → error` guards)"}
			}
			return posSummary{why: "local " + a.Comment + " is not positive on every path reaching " + an.Pos(c, u)}
		}
	}
	v = stripAllocs(v)
	if k, ok := v.(*ssa.Const); ok && k.Value != nil {
		if constant.Sign(k.Value) > 0 {
			return posSummary{kind: posYes, why: "positive constant " + k.Value.String()}
		}
		return posSummary{why: "constant " + k.Value.String() + " is not positive"}
	}
	// guard on this very value
	for _, g := range an.GuardsOf(at.Block()) {
		bo, ok := g.Cond.(*ssa.BinOp)
		if !ok || stripAllocs(bo.X) != v {
			continue
		}
		k, isK := bo.Y.(*ssa.Const)
		if !isK || k.Value == nil {
			continue
		}
		sgn := constant.Sign(k.Value)
		if (bo.Op == token.LEQ && sgn >= 0 && !g.Polarity) || (bo.Op == token.LSS && sgn > 0 && !g.Polarity) || (bo.Op == token.GTR && sgn >= 0 && g.Polarity) || (bo.Op == token.GEQ && sgn > 0 && g.Polarity) {
			return posSummary{kind: posYes, why: "guarded by " + an.D().Of(bo) + " = " + sprintf("%v", g.Polarity) + " (" + an.Pos(c, g.If) + ")"}
		}
	}
	for _, l := range pathLits {
		bo, ok := l.Cond.(*ssa.BinOp)
		if !ok || stripAllocs(bo.X) != v {
			continue
		}
		k, isK := bo.Y.(*ssa.Const)
		if !isK || k.Value == nil {
			continue
		}
		sgn := constant.Sign(k.Value)
		if (bo.Op == token.LEQ && sgn >= 0 && !l.Val) || (bo.Op == token.LSS && sgn > 0 && !l.Val) || (bo.Op == token.GTR && sgn >= 0 && l.Val) || (bo.Op == token.GEQ && sgn > 0 && l.Val) {
			return posSummary{kind: posYes, why: "on this path " + an.D().Of(bo) + " = " + sprintf("%v", l.Val)}
		}
	}
	switch x := v.(type) {
	case *ssa.Parameter:
		// a parameter of an unexported function called from one place with a positive constant
		if k, isK := singleSource(c, x).(*ssa.Const); isK && k.Value != nil && constant.Sign(k.Value) > 0 {
			return posSummary{kind: posYes, why: "parameter " + x.Name() + " is only ever given the positive constant " + k.Value.String()}
		}
		for i, p := range x.Parent().Params {
			if p == x {
				return posSummary{kind: posIfArg, arg: i, why: "parameter " + x.Name()}
			}
		}
	case *ssa.Phi:
		out := posSummary{kind: posYes, why: "all incoming values positive"}
		for i, e := range x.Edges {
			pred := x.Block().Preds[i]
			// the condition of the edge pred → phi block itself
			if iff, ok := pred.Instrs[len(pred.Instrs)-1].(*ssa.If); ok {
				if bo, ok := iff.Cond.(*ssa.BinOp); ok && stripAllocs(bo.X) == stripAllocs(e) {
					if k, isK := bo.Y.(*ssa.Const); isK && k.Value != nil {
						taken := pred.Succs[0] == x.Block()
						sgn := constant.Sign(k.Value)
						if (bo.Op == token.LEQ && sgn >= 0 && !taken) || (bo.Op == token.LSS && sgn > 0 && !taken) || (bo.Op == token.GTR && sgn >= 0 && taken) || (bo.Op == token.GEQ && sgn > 0 && taken) {
							continue
						}
					}
				}
			}
			s := valuePositive(c, pred.Instrs[len(pred.Instrs)-1], e, depth)
			if s.kind == posUnknown {
				return s
			}
			if s.kind == posIfArg {
				out = s
			}
		}
		return out
	case *ssa.Extract:
		call, ok := x.Tuple.(*ssa.Call)
		if !ok {
			break
		}
		g := an.Callee(call)
		s := positiveOnSuccess(c, g, x.Index, depth-1)
		switch s.kind {
		case posYes:
			return posSummary{kind: posYes, why: core.FuncName(g) + " returns a positive value on success: " + s.why}
		case posIfArg:
			inner := valuePositive(c, call, call.Call.Args[s.arg], depth)
			if inner.kind != posUnknown {
				inner.why = core.FuncName(g) + " passes its argument through; " + inner.why
			}
			return inner
		}
		return posSummary{why: core.FuncName(g) + " result #" + sprintf("%d", x.Index) + " not shown positive (" + s.why + ")"}
	case *ssa.UnOp:
		if x.Op == token.MUL {
			// field load: Rates.IterationDuration of a Calculate*Rate result
			if fa, ok := x.X.(*ssa.FieldAddr); ok {
				if call, ok := stripAllocs(fa.X).(*ssa.Extract); ok {
					if cc, ok := call.Tuple.(*ssa.Call); ok {
						if s := fieldPositiveOnSuccess(c, an.Callee(cc), an.FieldOfAddr(fa).Name(), depth-1); s.kind == posYes {
							return posSummary{kind: posYes, why: core.FuncName(an.Callee(cc)) + " sets " + an.FieldOfAddr(fa).Name() + " positive: " + s.why}
						} else {
							return posSummary{why: core.FuncName(an.Callee(cc)) + "." + an.FieldOfAddr(fa).Name() + ": " + s.why}
						}
					}
				}
			}
		}
	}
	return posSummary{why: "no positivity guard for " + an.D().Of(v)}
}

// fieldPositiveOnSuccess: fn returns (*T, error); on success T.field is positive.
func fieldPositiveOnSuccess(c *core.Ctx, fn *ssa.Function, field string, depth int) posSummary {
	if fn == nil || fn.Blocks == nil || depth <= 0 {
		return posSummary{why: "no body"}
	}
	out := posSummary{why: "no successful return"}
	for _, ret := range an.Returns(fn) {
		// `return helper(...)`: both results are handed on from one call of a module function
		if len(ret.Results) == 2 {
			e0, ok0 := ret.Results[0].(*ssa.Extract)
			e1, ok1 := ret.Results[1].(*ssa.Extract)
			if ok0 && ok1 && e0.Tuple == e1.Tuple && e0.Index == 0 && e1.Index == 1 {
				if call, isCall := e0.Tuple.(*ssa.Call); isCall {
					if h := an.Callee(call); h != nil && core.InModule(h) {
						s := fieldPositiveOnSuccess(c, h, field, depth-1)
						if s.kind != posYes {
							return posSummary{why: core.FuncName(h) + ": " + s.why}
						}
						out = s
						continue
					}
				}
			}
		}
		if len(ret.Results) != 2 || !isNilConst(ret.Results[1]) {
			continue
		}
		lit := an.StructLiteralOf(ret.Results[0])
		if lit == nil {
			return posSummary{why: "result is not a literal"}
		}
		v := an.LiteralFields(lit)[field]
		if v == nil {
			return posSummary{why: field + " not set"}
		}
		s := valuePositive(c, ret, v, depth)
		if s.kind != posYes {
			return posSummary{why: an.Pos(c, ret) + ": " + s.why}
		}
		out = s
	}
	return out
}

func stripAllocs(v ssa.Value) ssa.Value {
	for i := 0; i < 6; i++ {
		switch x := v.(type) {
		case *ssa.UnOp:
			if x.Op != token.MUL {
				return v
			}
			a, ok := x.X.(*ssa.Alloc)
			if !ok {
				return v
			}
			sts := an.StoresTo(a)
			if len(sts) == 0 {
				return v
			}
			// the store reaching this load
			var best *ssa.Store
			for _, st := range sts {
				if an.Dominates(st, x) && (best == nil || an.Dominates(best, st)) {
					best = st
				}
			}
			if best == nil {
				return v
			}
			v = best.Val
		case *ssa.ChangeType:
			v = x.X
		default:
			return v
		}
	}
	return v
}

// ---- the property ----

func c14(c *core.Ctx, r *core.Report) {
	r.Explanation = "Decides 'never crashes, rejected before setup, or runnable' by guard rules over the input-facing code (every function of internal/trigger/** and run.runCmdExecute): (R1) every index/slice is covered by an idiom that bounds it (range index, constant index under a length test, strings.Index under strings.Contains, non-empty test, len-1 under non-empty, bounded forward cursor); " +
		"(R2) the tick interval is positive at the choke points: ParseRate's unit and NewDistribution's result are positive on success, every NewIterationWorker receives such a value, schedule frequencies are positive constants; (R3) in the config-file package every dereference of a YAML-populated pointer is preceded on all paths by a non-nil fact (validator summaries, entry requirements checked at call sites); " +
		"(R4) worker counts are ≥ 1 on both the flag path and the config path; (R5) integer divisors are non-zero; (R6) the trigger constructor's error and the flag validation dominate NewRun/Do; (R7) ParseRate's two arms agree: count parsed and non-negative, bare number means per second. " +
		"NOT decided: the meaning of unit spellings such as '.5s' (string semantics); robustness of the YAML decoder (third party)."
	r.NotDecided = []string{"unit spellings such as '1/.5s' being read as 1.5s (string semantics)", "yaml.v3 decoding of arbitrary bytes", "weights[i] in the gaussian calculator (arithmetic on time; reported as information)"}

	rule(r, "C14.R1", "no index or slice expression in input-facing code can be out of range: each is covered by a bounding idiom", func() { boundsRule(c, r) })

	rule(r, "C14.R2", "tick intervals are positive: ParseRate returns a positive unit on success; NewDistribution returns a positive interval on success; every Calculate*Rate puts that into Rates.IterationDuration; every NewIterationWorker call receives such a value; raterun schedules have positive constant frequencies", func() {
		pr := c.MustFn("internal/trigger/rate", "ParseRate")
		s := positiveOnSuccess(c, pr, 1, 4)
		r.Check(s.kind == posYes, "ParseRate#unit-positive", c.Pos(pr.Pos()), "unit > 0 on every successful return ("+s.why+")", "ParseRate can succeed with a non-positive unit ("+s.why+"): a zero unit becomes a zero tick interval (time.NewTicker panics) or an infinite peak rate")
		nd := delegateTarget(c.MustFn("internal/trigger/api", "NewDistribution"))
		s = positiveOnSuccess(c, nd, 0, 4)
		r.Check(s.kind == posYes, "NewDistribution#interval-positive", c.Pos(nd.Pos()), "interval > 0 on every successful return ("+s.why+")", "NewDistribution can succeed with a non-positive tick interval ("+s.why+")")
		// every NewIterationWorker call site
		niw := c.MustFn("internal/trigger/api", "NewIterationWorker")
		sites := an.CallSitesOf(c, niw)
		extraSites := 0
		for _, call := range sites {
			key := core.FuncName(call.Parent()) + "#NewIterationWorker"
			arg := call.Common().Args[0]
			vs := valuePositive(c, call, arg, 5)
			if vs.kind == posYes {
				r.OK(key, an.Pos(c, call), "interval argument positive: %s", vs.why)
				continue
			}
			// stage field: runnableStage.IterationDuration is stored only from Calculate*Rate results
			d := stripCaret(an.D().Of(arg))
			if strings.HasSuffix(d, ".IterationDuration") {
				if fld, _ := an.TerminalField(arg); fld != nil && fld.Pkg() != nil && fld.Pkg().Path() == filePkg {
					okAll, n := true, 0
					for _, fn := range c.AllFuncs {
						an.Instrs(fn, func(in ssa.Instruction) {
							st, ok := in.(*ssa.Store)
							if !ok || !an.SameField(an.FieldOfAddr(st.Addr), fld) {
								return
							}
							n++
							if p := valuePositive(c, st, st.Val, 5); p.kind != posYes {
								okAll = false
								r.Violation(key+"#stage-field", an.Pos(c, in), "runnableStage.IterationDuration is stored from %s, not shown positive: %s", an.D().Of(st.Val), p.why)
							}
						})
					}
					// users stages leave it zero: the worker selection must not hand it to the ticker
					if okAll && n > 0 {
						guardOK := false
						for _, g := range an.GuardsOf(call.Block()) {
							gd := stripCaret(an.D().Of(g.Cond))
							if (strings.Contains(gd, ".UsersConcurrency == 0") && g.Polarity) || (strings.Contains(gd, ".UsersConcurrency != 0") && !g.Polarity) ||
								(strings.Contains(gd, ".UsersConcurrency > 0") && !g.Polarity) || (strings.Contains(gd, ".UsersConcurrency <= 0") && g.Polarity) {
								guardOK = true
							}
						}
						r.Check(guardOK, key, an.Pos(c, call), sprintf("stage interval stored only from positive Calculate*Rate results (%d stores); used only for stages without users", n), "a stage's IterationDuration reaches NewIterationWorker without the `UsersConcurrency == 0` discriminator")
						continue
					}
				}
			}
			// the interval is a field of a *Rates handed to a shared trigger constructor: every call of that constructor
			// passes the result of a Calculate*Rate whose IterationDuration is positive on success
			if fld, owner := an.TerminalField(arg); fld != nil && an.IsNamed(owner, apiPkg, "Rates") {
				if fa, isFA := an.Terminal(arg).(*ssa.FieldAddr); isFA {
					if p, isP := an.Strip(fa.X).(*ssa.Parameter); isP && p.Parent() == call.Parent() {
						upSites := an.CallSitesOf(c, call.Parent())
						okAll := len(upSites) > 0
						for _, us := range upSites {
							i := an.ParamIndex(p)
							if i >= len(us.Common().Args) {
								okAll = false
								continue
							}
							ex, isEx := stripAllocs(us.Common().Args[i]).(*ssa.Extract)
							if !isEx {
								okAll = false
								continue
							}
							cc, isCall := ex.Tuple.(*ssa.Call)
							if !isCall {
								okAll = false
								continue
							}
							// used only after the error was tested: the C14.R12 rule covers that; here: positive on success
							if ps := fieldPositiveOnSuccess(c, an.Callee(cc), fld.Name(), 4); ps.kind != posYes {
								okAll = false
								r.Violation(key+"@"+core.FuncName(us.Parent()), an.Pos(c, us), "the rates handed to %s come from %s, whose %s is not shown positive: %s", core.FuncName(call.Parent()), core.FuncName(an.Callee(cc)), fld.Name(), ps.why)
							}
							extraSites++
						}
						if okAll {
							r.OK(key, an.Pos(c, call), "interval is %s of the rates every caller (%d) computed with a Calculate*Rate that makes it positive", fld.Name(), len(upSites))
							continue
						}
					}
				}
			}
			r.Violation(key, an.Pos(c, call), "the tick interval handed to NewIterationWorker (%s) is not shown positive: %s", an.D().Of(arg), vs.why)
		}
		r.Floor("NewIterationWorker call sites (or callers of a shared trigger constructor)", len(sites)+extraSites, 4)
		// schedules
		n := 0
		for _, fn := range c.AllFuncs {
			an.Instrs(fn, func(in ssa.Instruction) {
				st, ok := in.(*ssa.Store)
				if !ok {
					return
				}
				f := an.FieldOfAddr(st.Addr)
				if f == nil || f.Name() != "Frequency" || f.Pkg() == nil || f.Pkg().Path() != raterunPkg {
					return
				}
				n++
				k, isK := st.Val.(*ssa.Const)
				okPos := isK && k.Value != nil && constant.Sign(k.Value) > 0
				if !okPos && !isK {
					// a configured frequency, used only under a test that it is positive
					okPos = nonZeroByPositivity(c, in, st.Val, 3)
				}
				r.Check(okPos, core.FuncName(fn)+"#schedule-frequency"+itoa(n), an.Pos(c, in), "positive frequency (a constant, or a value tested positive on every path to here)", "a progress schedule has frequency "+an.D().Of(st.Val)+": time.NewTicker panics on a non-positive period")
			})
		}
		r.Floor("schedule frequencies", n, 1)
		// ramp: float division by the ramp duration is guarded by duration >= unit > 0
		ramp := c.MustFn("internal/trigger/ramp", "CalculateRampRate")
		okRamp := false
		var rampDur *ssa.Parameter
		for _, p := range ramp.Params {
			if isDuration(p.Type()) {
				rampDur = p
			}
		}
		// a test rejecting `duration < unit` (or `duration <= 0`), in the function or in a validation helper, where unit
		// is the unit of a parsed rate (positive on success, see above)
		for _, t := range rejectingTests(ramp, 3) {
			x, y, op := t.X, t.Y, t.Op
			if os.Getenv("F1DEBUG") != "" {
				println("RT", an.D().Of(t.Cond), op.String(), an.D().Of(x.V), an.D().Of(y.V))
			}
			if an.Strip(y.V) == ssa.Value(rampDur) {
				x, y = y, x
				op = map[token.Token]token.Token{token.LSS: token.GTR, token.LEQ: token.GEQ, token.GTR: token.LSS, token.GEQ: token.LEQ}[op]
			}
			if rampDur == nil || an.Strip(x.V) != ssa.Value(rampDur) {
				continue
			}
			if k, isK := an.Strip(y.V).(*ssa.Const); isK && k.Value != nil {
				if (op == token.LEQ && constant.Sign(k.Value) >= 0) || (op == token.LSS && constant.Sign(k.Value) > 0) {
					okRamp = true
				}
				continue
			}
			if ex, isEx := an.Strip(y.V).(*ssa.Extract); isEx && (op == token.LSS || op == token.LEQ) {
				if call, isCall := ex.Tuple.(*ssa.Call); isCall && an.Callee(call) == pr && ex.Index == 1 {
					okRamp = true
				}
			}
		}
		r.Check(okRamp, "CalculateRampRate#duration-positive", c.Pos(ramp.Pos()), "duration < unit is rejected, so duration ≥ unit > 0 before it divides the offset", "the ramp duration is not checked against the (positive) rate unit: a zero duration divides by zero in the interpolation")
	})

	var fa *fileAnalysis
	rule(r, "C14.R3", "config-file package: every dereference of a pointer read from a YAML-populated field is preceded on all paths by a non-nil fact", func() {
		fa = analyseFilePkg(c)
		d := &an.Desc{MaxDepth: 48} // the same depth as the facts were computed with: paths are compared as text
		nDeref, nReq := 0, 0
		type req struct {
			fn   *ssa.Function
			fact string
			at   ssa.Instruction
		}
		var reqs []req
		for fn, e := range fa.engines {
			ord := map[string]int{}
			an.Instrs(fn, func(in ssa.Instruction) {
				u, ok := in.(*ssa.UnOp)
				if !ok || u.Op != token.MUL || !ptrField(u.X) || !e.Reachable(in) {
					return
				}
				// only fields of the package's own (YAML) structs
				f := an.FieldOfAddr(u.X.(*ssa.UnOp).X)
				if f.Pkg() == nil || f.Pkg().Path() != filePkg {
					return
				}
				nDeref++
				path := fa.canon[fn](d.Of(u.X))
				k := core.FuncName(fn) + "#*" + shortPath(path)
				ord[k]++
				key := k
				if ord[k] > 1 {
					key = sprintf("%s[%d]", k, ord[k])
				}
				if e.At(in)["nn:"+path] {
					r.OK(key, an.Pos(c, in), "non-nil on every path")
					return
				}
				// requirement on a parameter?
				for _, p := range fn.Params {
					if strings.HasPrefix(path, an.ParamDesc(p)+".") {
						nReq++
						reqs = append(reqs, req{fn, "nn:" + path, in})
						r.Note(key, an.Pos(c, in), "becomes an entry requirement of %s", core.FuncName(fn))
						return
					}
				}
				r.Violation(key, an.Pos(c, in), "dereference of %s, which may be nil here: a config file that omits the field (and whose defaults omit it) crashes the process", path)
			})
		}
		// entry requirements at call sites
		for _, q := range reqs {
			sites := an.CallSitesOf(c, q.fn)
			if len(sites) == 0 {
				r.Violation(core.FuncName(q.fn)+"#entry:"+shortPath(q.fact), an.Pos(c, q.at), "%s dereferences %s without a check and has no caller establishing it", core.FuncName(q.fn), q.fact)
				continue
			}
			for _, call := range sites {
				caller := call.Parent()
				e := fa.engines[caller]
				if e == nil {
					r.Violation(core.FuncName(caller)+"→"+q.fn.Name()+":"+shortPath(q.fact), an.Pos(c, call), "%s is called from outside the analysed package without %s established", core.FuncName(q.fn), q.fact)
					continue
				}
				// translate parameter prefix
				i := strings.Index(q.fact, ":")
				kind, p := q.fact[:i+1], q.fact[i+1:]
				ok := false
				for pi, prm := range q.fn.Params {
					pre := an.ParamDesc(prm)
					if strings.HasPrefix(p, pre+".") && pi < len(call.Common().Args) {
						tr := kind + fa.canon[caller](d.Of(call.Common().Args[pi])) + strings.TrimPrefix(p, pre)
						ok = e.At(call)[tr]
					}
				}
				r.Check(ok, core.FuncName(caller)+"→"+q.fn.Name()+":"+shortPath(q.fact), an.Pos(c, call), "caller establishes "+shortPath(q.fact)+" before the call", core.FuncName(q.fn)+" dereferences "+shortPath(q.fact)+" unchecked and this caller does not establish it: nil dereference")
			}
		}
		r.Count("dereferences of YAML pointer fields", nDeref)
		r.Count("entry requirements", nReq)
		r.Floor("dereferences of YAML pointer fields", nDeref, 30)
		r.Floor("validator summaries", len(fa.sums), 6)
	})

	rule(r, "C14.R4", "worker counts are ≥ 1: every value stored into RunnableStages.Concurrency / runnableStage.UsersConcurrency is a dereference with a ≥ 1 fact; api.Options.Concurrency and RunOptions.Concurrency are fed from those fields or from a flag value guarded by `< 1 → error`", func() {
		if fa == nil {
			fa = analyseFilePkg(c)
		}
		d := an.D()
		n := 0
		for fn, e := range fa.engines {
			an.Instrs(fn, func(in ssa.Instruction) {
				st, ok := in.(*ssa.Store)
				if !ok {
					return
				}
				f := an.FieldOfAddr(st.Addr)
				if f == nil || f.Pkg() == nil || f.Pkg().Path() != filePkg || !(f.Name() == "Concurrency" || f.Name() == "UsersConcurrency") {
					return
				}
				if b, isB := f.Type().Underlying().(*types.Basic); !isB || b.Kind() != types.Int {
					return
				}
				n++
				key := core.FuncName(fn) + "#" + ownerNameOf(st.Addr.(*ssa.FieldAddr).X.Type()) + "." + f.Name()
				u, isU := st.Val.(*ssa.UnOp)
				if !isU || u.Op != token.MUL || !ptrField(u.X) {
					r.Violation(key, an.Pos(c, in), "worker count stored from %s, not from a validated config value", d.Of(st.Val))
					return
				}
				path := fa.canon[fn](d.Of(u.X))
				r.Check(e.At(in)["ge1:"+path], key, an.Pos(c, in), "value "+shortPath(path)+" is ≥ 1 on every path (validator guard)", "the worker count "+shortPath(path)+" is not shown ≥ 1 on every path here: a config with 0 or a negative count is accepted (make() with a negative length panics; a users stage with 0 users is mistaken for a rate stage with no rate function)")
			})
		}
		r.Floor("config-file worker-count stores", n, 2)
		// api.Options.Concurrency in the file builder
		m := 0
		for _, fn := range c.AllFuncs {
			an.Instrs(fn, func(in ssa.Instruction) {
				st, ok := in.(*ssa.Store)
				if !ok {
					return
				}
				f := an.FieldOfAddr(st.Addr)
				if f == nil || f.Name() != "Concurrency" || f.Pkg() == nil {
					return
				}
				if b, isB := f.Type().Underlying().(*types.Basic); !isB || b.Kind() != types.Int {
					return
				}
				switch f.Pkg().Path() {
				case apiPkg:
					m++
					dd := d.Of(st.Val)
					r.Check((strings.HasSuffix(dd, "#0.Concurrency") && strings.Contains(dd, "ParseConfigFile(")) || fromPlanField(st.Val, "Concurrency"), core.FuncName(fn)+"#api.Options.Concurrency", an.Pos(c, in), "← "+dd, "api.Options.Concurrency is fed from "+dd+", not from the validated RunnableStages.Concurrency")
				case optionsPkg:
					m++
					key := core.FuncName(fn) + "#RunOptions.Concurrency"
					v := stripAllocs(st.Val)
					var edges []ssa.Value
					var preds []*ssa.BasicBlock
					if phi, isPhi := v.(*ssa.Phi); isPhi {
						edges, preds = phi.Edges, phi.Block().Preds
					} else {
						edges, preds = []ssa.Value{v}, []*ssa.BasicBlock{st.Block()}
					}
					for i, e := range edges {
						ed := d.Of(e)
						if strings.HasSuffix(ed, ".Options.Concurrency") {
							r.OK(key+"#config", an.Pos(c, in), "config path: %s (validated field)", ed)
							continue
						}
						at := preds[i].Instrs[len(preds[i].Instrs)-1]
						okg := false
						for _, g := range append(an.GuardsOf(preds[i]), guardsDominating(at, e)...) {
							bo, isB := g.Cond.(*ssa.BinOp)
							if !isB || stripAllocs(bo.X) != stripAllocs(e) {
								continue
							}
							k, isK := bo.Y.(*ssa.Const)
							if isK && ((bo.Op == token.LSS && k.Int64() >= 1 && !g.Polarity) || (bo.Op == token.GEQ && k.Int64() >= 1 && g.Polarity) || (bo.Op == token.LEQ && k.Int64() >= 0 && !g.Polarity)) {
								okg = true
							}
						}
						if !okg {
							// stored first, tested afterwards on the variable itself: every use of the struct is guarded by a
							// `field < 1 → leave` test made after this store
							if fa, isFA := st.Addr.(*ssa.FieldAddr); isFA {
								// the rejecting tests on this field made after the store
								type rej struct {
									iff    *ssa.If
									reject *ssa.BasicBlock
								}
								var rejs []rej
								for _, b := range fn.Blocks {
									iff, isIf := b.Instrs[len(b.Instrs)-1].(*ssa.If)
									if !isIf {
										continue
									}
									bo, isB := iff.Cond.(*ssa.BinOp)
									if !isB {
										continue
									}
									fl, isFl := bo.X.(*ssa.UnOp)
									if !isFl || fl.Op != token.MUL {
										continue
									}
									gfa, isG := fl.X.(*ssa.FieldAddr)
									if !isG || gfa.X != fa.X || !an.SameField(an.FieldOfAddr(gfa), an.FieldOfAddr(fa)) {
										continue
									}
									k, isK := bo.Y.(*ssa.Const)
									if !isK {
										continue
									}
									switch {
									case (bo.Op == token.LSS && k.Int64() >= 1) || (bo.Op == token.LEQ && k.Int64() >= 0):
										rejs = append(rejs, rej{iff, b.Succs[0]})
									case bo.Op == token.GEQ && k.Int64() >= 1:
										rejs = append(rejs, rej{iff, b.Succs[1]})
									}
								}
								uses, guardedUses := 0, 0
								for _, call := range an.AllCalls(fn) {
									for _, a := range call.Common().Args {
										ld, isLd := a.(*ssa.UnOp)
										if !isLd || ld.Op != token.MUL || ld.X != fa.X {
											continue
										}
										uses++
										for _, rj := range rejs {
											// every path from the store to the use passes the test, and its rejecting side never gets there
											if !reachesAvoiding(st.Block(), call, rj.iff) && !reachesAvoiding(rj.reject, call, nil) {
												guardedUses++
												break
											}
										}
									}
								}
								okg = uses > 0 && uses == guardedUses
							}
						}
						if !okg {
							// the value reaches this store through helpers (a positional constructor of the options): every
							// source of it is the validated config field or a flag value tested `< 1 → error` where it is read
							okg = true
							nsrc := 0
							for _, l := range sourcesOf(c, e, fn) {
								nsrc++
								if fld, owner := an.TerminalField(l.V); fld != nil && fld.Name() == "Concurrency" && an.IsNamed(owner, apiPkg, "Options") {
									continue
								}
								rejected := false
								if l.Fn != nil {
									for _, t := range rejectingTests(an.Outermost(l.Fn), 2) {
										k, isK := an.Strip(t.Y.V).(*ssa.Const)
										if !isK || k.Value == nil || stripAllocs(an.Strip(t.X.V)) != stripAllocs(an.Strip(l.V)) {
											continue
										}
										if (t.Op == token.LSS && k.Int64() >= 1) || (t.Op == token.LEQ && k.Int64() >= 0) {
											rejected = true
										}
									}
								}
								if !rejected {
									okg = false
								}
							}
							if nsrc == 0 {
								okg = false
							}
						}
						r.Check(okg, key+"#flag", an.Pos(c, in), "flag path: "+ed+" guarded by `< 1 → error`", "the --concurrency flag value ("+ed+") reaches RunOptions.Concurrency without a `< 1` rejection")
					}
				}
			})
		}
		r.Floor("Concurrency option stores", m, 2)
	})

	rule(r, "C14.R5", "integer divisions and remainders have a divisor that is a non-zero constant (or a constant duration's Milliseconds()) or are guarded by a zero test of the divisor", func() {
		n := 0
		for _, fn := range c.AllFuncs {
			if !inputFacing(fn) {
				continue
			}
			an.Instrs(fn, func(in ssa.Instruction) {
				bo, ok := in.(*ssa.BinOp)
				if !ok || !(bo.Op == token.QUO || bo.Op == token.REM) || !isIntType(bo.X.Type()) {
					return
				}
				n++
				key := core.FuncName(fn) + "#div" + itoa(n)
				div := stripAllocs(bo.Y)
				if k, isK := div.(*ssa.Const); isK && k.Value != nil && constant.Sign(k.Value) != 0 {
					r.OK(key, an.Pos(c, in), "constant divisor %s", k.Value)
					return
				}
				if k, isK := foldConst(div); isK && k != 0 {
					r.OK(key, an.Pos(c, in), "divisor %s is the non-zero constant %d", an.D().Of(bo.Y), k)
					return
				}
				if call, isCall := div.(*ssa.Call); isCall && len(call.Call.Args) == 1 {
					if k, isK := call.Call.Args[0].(*ssa.Const); isK && isDuration(k.Type()) && an.Callee(call) != nil && an.Callee(call).Name() == "Milliseconds" && k.Int64() >= 1000000 {
						r.OK(key, an.Pos(c, in), "divisor is (%dns).Milliseconds(), a non-zero constant", k.Int64())
						return
					}
				}
				for _, g := range an.GuardsOf(in.Block()) {
					gb, isB := g.Cond.(*ssa.BinOp)
					if !isB || !sameLoad(gb.X, bo.Y) {
						continue
					}
					if k, isK := gb.Y.(*ssa.Const); isK && k.Value != nil && constant.Sign(k.Value) == 0 {
						if (gb.Op == token.EQL && !g.Polarity) || (gb.Op == token.NEQ && g.Polarity) || (gb.Op == token.GTR && g.Polarity) {
							r.OK(key, an.Pos(c, in), "guarded by a zero test of the divisor")
							return
						}
					}
				}
				// positive by guards / parameters whose every caller passes a positive value
				if nonZeroByPositivity(c, in, bo.Y, 3) {
					r.OK(key, an.Pos(c, in), "divisor %s is positive on every path reaching it", an.D().Of(bo.Y))
					return
				}
				// `… % len(recv.list)` in an unexported helper that every caller enters only under `len(recv.list) > 0`
				lenField := func(v ssa.Value) *types.Var {
					call, isCall := an.Strip(v).(*ssa.Call)
					if !isCall || !an.IsBuiltinCall(call, "len") || len(call.Call.Args) != 1 {
						return nil
					}
					f, _ := an.TerminalField(call.Call.Args[0])
					return f
				}
				if lf := lenField(bo.Y); lf != nil && !token.IsExported(an.Outermost(fn).Name()) {
					sites := an.CallSitesOf(c, an.Outermost(fn))
					all := len(sites) > 0
					for _, cs := range sites {
						guarded := false
						for _, g := range an.GuardsOf(cs.Block()) {
							gb, isB := g.Cond.(*ssa.BinOp)
							if !isB {
								continue
							}
							kz, isK := gb.Y.(*ssa.Const)
							if !isK || kz.Value == nil || constant.Sign(kz.Value) != 0 {
								continue
							}
							if gf := lenField(gb.X); gf != nil && an.SameField(gf, lf) {
								if (gb.Op == token.GTR && g.Polarity) || (gb.Op == token.NEQ && g.Polarity) || (gb.Op == token.EQL && !g.Polarity) || (gb.Op == token.LEQ && !g.Polarity) {
									guarded = true
								}
							}
						}
						if !guarded {
							all = false
						}
					}
					if all {
						r.OK(key, an.Pos(c, in), "divisor %s: every caller of %s enters it only with a non-empty list", an.D().Of(bo.Y), fn.Name())
						return
					}
				}
				r.Violation(key, an.Pos(c, in), "integer %s by %s without a non-zero guard: division by zero panics", bo.Op, an.D().Of(bo.Y))
			})
		}
		r.Floor("integer divisions in input-facing code", n, 1)
	})

	rule(r, "C14.R6", "rejection precedes setup: in runCmdExecute the trigger constructor's error test and the flag validation dominate NewRun and Do", func() {
		do, _ := runDo(c)
		for _, fn := range c.AllFuncs {
			if core.RelPkg(fn) != "internal/run" {
				continue
			}
			var doCall, newRun, ctor ssa.CallInstruction
			for _, call := range an.AllCalls(fn) {
				if an.Callee(call) == do {
					doCall = call
				}
				if t := an.Callee(call); t != nil && t.Name() == "NewRun" {
					newRun = call
				}
				if n := an.DynCallType(call); n != nil && an.IsNamed(n, apiPkg, "Constructor") {
					ctor = call
				}
			}
			if doCall == nil {
				continue
			}
			key := core.FuncName(fn)
			if ctor == nil || newRun == nil {
				r.Undecided(key+"#anchors", c.Pos(fn.Pos()), "constructor call / NewRun not found next to Do")
				continue
			}
			// NewRun's block must be guarded by ctor's err == nil
			okCtor := false
			for _, g := range an.GuardsOf(newRun.Block()) {
				if bo, ok := g.Cond.(*ssa.BinOp); ok {
					if ex, ok := stripAllocs(bo.X).(*ssa.Extract); ok && ex.Tuple == ssa.Value(ctor.(*ssa.Call)) && ex.Index == 1 && isNilConst(bo.Y) {
						if (bo.Op == token.NEQ && !g.Polarity) || (bo.Op == token.EQL && g.Polarity) {
							okCtor = true
						}
					}
				}
			}
			r.Check(okCtor, key+"#constructor-error", an.Pos(c, newRun), "NewRun runs only when the trigger constructor returned no error", "NewRun/Do can run although the trigger constructor rejected the input")
			okNR := false
			for _, g := range an.GuardsOf(doCall.Block()) {
				if bo, ok := g.Cond.(*ssa.BinOp); ok {
					if ex, ok := stripAllocs(bo.X).(*ssa.Extract); ok && ex.Tuple == ssa.Value(newRun.(*ssa.Call)) && ex.Index == 1 {
						okNR = true
					}
				}
			}
			r.Check(okNR && an.Dominates(newRun, doCall), key+"#newrun-error", an.Pos(c, doCall), "Do runs only when NewRun succeeded (unknown scenario rejected first)", "Do runs without NewRun's error having been tested")
		}
	})

	rule(r, "C14.R7", "ParseRate's two arms agree: both parse the count with Atoi and reject negative counts; the `/` arm returns the parsed duration, the bare arm returns one second", func() {
		pr := c.MustFn("internal/trigger/rate", "ParseRate")
		rejTests := rejectingTests(pr, 3)
		slash, bare := 0, 0
		for _, ret := range an.Returns(pr) {
			if !isNilConst(ret.Results[2]) {
				continue
			}
			paths, err := an.DecisionPaths(pr, 4096)
			if err != nil {
				r.Undecided("ParseRate#paths", c.Pos(pr.Pos()), "%v", err)
				return
			}
			for _, p := range paths {
				if p.Ret != ret {
					continue
				}
				// the arms are told apart by what they return as the unit: a parsed duration or the constant second
				rateFV := an.RootFV(pr, p.OnPath(stripAllocsOnPath(p, ret.Results[0]))).Resolve(nil)
				rateV := rateFV.V
				unitFV := an.RootFV(pr, p.OnPath(stripAllocsOnPath(p, ret.Results[1]))).Resolve(nil)
				unitV := unitFV.V
				rate, unit := an.D().Of(rateV), an.D().Of(unitV)
				atoi := callBehind(rateV, "strconv", "Atoi")
				negRejected := false
				for _, l := range p.Lits {
					if bo, ok := l.Cond.(*ssa.BinOp); ok && bo.Op == token.LSS && an.D().Of(bo.Y) == "0" && !l.Val && atoi != nil && callBehind(an.Strip(p.OnPath(stripAllocsOnPath(p, bo.X))), "strconv", "Atoi") == atoi {
						negRejected = true
					}
				}
				// … or by a rejecting test in the helper that parsed the count
				if atoi != nil && !negRejected {
					for _, t := range rejTests {
						k, isK := an.Strip(t.Y.V).(*ssa.Const)
						if !isK || k.Value == nil || callBehind(an.Strip(t.X.V), "strconv", "Atoi") != atoi {
							continue
						}
						// the test lies on this path: its call site (or the test itself) is passed, and inside a helper it
						// precedes every successful return
						onPath := false
						rootIn := t.Ev.Root()
						for _, pb := range p.Blocks {
							if pb == rootIn.Block() {
								onPath = true
							}
						}
						if t.Ev.Frame.Parent != nil {
							hf := t.Ev.Instr.Parent()
							ei := errIndex(hf)
							for _, hr := range an.Returns(hf) {
								if ei >= 0 && isNilConst(hr.Results[ei]) && !an.Dominates(t.Ev.Instr, hr) {
									onPath = false
								}
							}
						}
						if !onPath {
							continue
						}
						if (t.Op == token.LSS && constant.Sign(k.Value) == 0) || (t.Op == token.LEQ && k.Int64() == -1) {
							negRejected = true
						}
					}
				}
				countOK := atoi != nil && len(pr.Params) > 0 && (dependsOn(atoi.Call.Args[0], pr.Params[0]) || dependsOnFV(an.FV{V: atoi.Call.Args[0], F: rateFV.F}, pr.Params[0]))
				pd := callBehind(unitV, "time", "ParseDuration")
				if pd == nil {
					// the unit is parsed by a helper with more than one successful form (`parseUnit`: days, or whatever
					// time.ParseDuration accepts): the helper's call stands for the parse
					hv := unitV
					if ex, isEx := hv.(*ssa.Extract); isEx {
						hv = ex.Tuple
					}
					hc, isCall := hv.(*ssa.Call)
					if !isCall && unitFV.F != nil && unitFV.F.Parent != nil {
						// resolved into the helper along its one return with a nil error: the helper's call site
						hc, isCall = unitFV.F.Site.(*ssa.Call)
					}
					if isCall {
						if h := an.Callee(hc); h != nil && core.InModule(h) && h.Blocks != nil {
							parses := false
							for _, hr := range an.Returns(h) {
								if len(hr.Results) > 0 && callBehind(an.Strip(hr.Results[0]), "time", "ParseDuration") != nil {
									parses = true
								}
							}
							if parses && len(hc.Call.Args) > 0 {
								pd = hc
							}
						}
					}
				}
				if pd != nil {
					slash++
					pdArg := an.FV{V: pd.Call.Args[0], F: unitFV.F}
					fromInput := dependsOn(pd.Call.Args[0], pr.Params[0])
					if !fromInput && unitFV.F != nil && unitFV.F.Parent != nil {
						// parsed inside a helper: its argument, seen from ParseRate, derives from the rate string
						for _, hp := range unitFV.F.Fn.Params {
							if dependsOn(pd.Call.Args[0], hp) && dependsOn((an.FV{V: hp, F: unitFV.F}).Resolve(nil).V, pr.Params[0]) {
								fromInput = true
							}
						}
						if dependsOnFV(pdArg, pr.Params[0]) {
							fromInput = true
						}
					}
					r.Check(negRejected && countOK && fromInput, "ParseRate#slash-arm", an.Pos(c, ret), "N/<duration>: count "+rate+", unit "+unit+", negatives rejected", "the `/` arm returns count "+rate+" and unit "+unit+sprintf(" (negative counts rejected: %v)", negRejected))
				} else {
					bare++
					r.Check(negRejected && countOK && unit == "1000000000", "ParseRate#bare-arm", an.Pos(c, ret), "bare N: count "+rate+", unit 1s, negatives rejected", "the bare-number arm returns count "+rate+" and unit "+unit+sprintf(" (negative counts rejected: %v)", negRejected))
				}
			}
		}
		r.Check(slash >= 1 && bare >= 1, "ParseRate#arms", c.Pos(pr.Pos()), sprintf("%d successful `/` paths, %d bare paths", slash, bare), "ParseRate does not have both a `/` arm and a bare-number arm that can succeed")
	})
}

// callBehind: v is (a result of) a call of pkg.name.
func callBehind(v ssa.Value, pkg, name string) *ssa.Call {
	for i := 0; i < 6; i++ {
		switch x := v.(type) {
		case *ssa.Extract:
			v = x.Tuple
		case *ssa.Call:
			if an.IsFunc(an.Callee(x), pkg, name) {
				return x
			}
			return nil
		case *ssa.Convert:
			v = x.X
		case *ssa.ChangeType:
			v = x.X
		default:
			return nil
		}
	}
	return nil
}

// dependsOnFV: the value, resolved to the root frame, is the source or computed from it.
func dependsOnFV(x an.FV, src ssa.Value) bool {
	rv := x.Resolve(nil)
	if (rv.F == nil || rv.F.Parent == nil) && dependsOn(rv.V, src) {
		return true
	}
	// computed inside a helper frame (merged from two assignments, passed through a string function): from a parameter
	// of the helper whose argument, seen from the caller, derives from the source
	for f := rv.F; f != nil && f.Parent != nil && f.Fn != nil; f = f.Parent {
		for _, hp := range f.Fn.Params {
			if dependsOn(rv.V, hp) {
				up := (an.FV{V: hp, F: f}).Resolve(nil)
				if (up.F == nil || up.F.Parent == nil) && dependsOn(up.V, src) {
					return true
				}
			}
		}
		break
	}
	return false
}

// dependsOn: v is computed (within one function) from src.
func dependsOn(v, src ssa.Value) bool {
	seen := map[ssa.Value]bool{}
	var walk func(x ssa.Value) bool
	walk = func(x ssa.Value) bool {
		if x == src {
			return true
		}
		if x == nil || seen[x] {
			return false
		}
		seen[x] = true
		if al, ok := x.(*ssa.Alloc); ok {
			for _, st := range an.StoresTo(al) {
				if walk(st.Val) {
					return true
				}
			}
			return false
		}
		in, ok := x.(ssa.Instruction)
		if !ok {
			return false
		}
		for _, op := range in.Operands(nil) {
			if *op != nil && walk(*op) {
				return true
			}
		}
		return false
	}
	return walk(v)
}

func stripAllocsOnPath(p an.DPath, v ssa.Value) ssa.Value {
	// named results / locals assigned on the path: take the last store on the path's blocks
	u, ok := v.(*ssa.UnOp)
	if !ok || u.Op != token.MUL {
		return v
	}
	a, ok := u.X.(*ssa.Alloc)
	if !ok {
		return v
	}
	var last ssa.Value
	for _, b := range p.Blocks {
		for _, in := range b.Instrs {
			if st, ok := in.(*ssa.Store); ok && st.Addr == ssa.Value(a) {
				last = st.Val
			}
		}
	}
	if last == nil {
		return v
	}
	return last
}

func guardsDominating(at ssa.Instruction, v ssa.Value) []an.Guard {
	// guards of blocks that dominate `at` and are after v's definition: approximated by the guards of at's block
	return an.GuardsOf(at.Block())
}

func sameLoad(a, b ssa.Value) bool {
	a, b = stripAllocs(a), stripAllocs(b)
	if a == b {
		return true
	}
	return an.D().Of(a) == an.D().Of(b)
}

func shortPath(p string) string {
	// keep the tail of long call-rooted paths readable
	if i := strings.LastIndex(p, ")#0"); i >= 0 {
		head := p[:i]
		if j := strings.LastIndex(head, ")."); j >= 0 {
			head = head[j+2:]
		}
		if k := strings.Index(head, "("); k >= 0 {
			head = head[:k]
		}
		return head + "()#0" + p[i+3:]
	}
	return p
}

// nonZeroByPositivity: the divisor is positive — by a guard, by being a parameter (or a captured parameter)
// that every caller feeds with a positive value, or by being bounded below by a positive value
// (`d < u → error` with u positive).
func nonZeroByPositivity(c *core.Ctx, at ssa.Instruction, v ssa.Value, depth int) bool {
	if depth <= 0 {
		return false
	}
	v = stripAllocs(v)
	// a method call on the value (Milliseconds, Nanoseconds…) preserves sign
	if call, ok := v.(*ssa.Call); ok && len(call.Call.Args) == 1 && an.Callee(call) != nil && an.Callee(call).Pkg != nil && an.Callee(call).Pkg.Pkg.Path() == "time" {
		return nonZeroByPositivity(c, at, call.Call.Args[0], depth)
	}
	if cv, ok := v.(*ssa.Convert); ok {
		return nonZeroByPositivity(c, at, cv.X, depth)
	}
	if ld, ok := v.(*ssa.UnOp); ok && ld.Op == token.MUL {
		// the load of a captured variable
		if fv, isFV := ld.X.(*ssa.FreeVar); isFV {
			v = fv
		}
	}
	if fv, ok := v.(*ssa.FreeVar); ok {
		if b := an.FreeVarBinding(fv); b != nil {
			if al, isAl := b.(*ssa.Alloc); isAl {
				if sts := an.StoresTo(al); len(sts) == 1 {
					// the closure is created after the stores' guards: judge at the closure creation
					for _, ref := range an.Referrers(al) {
						if mc, isMC := ref.(*ssa.MakeClosure); isMC {
							return nonZeroByPositivity(c, mc, sts[0].Val, depth)
						}
					}
				}
			}
		}
		return false
	}
	s := valuePositive(c, at, v, 4)
	if s.kind == posYes {
		return true
	}
	if p, ok := v.(*ssa.Parameter); ok {
		// lower bound by another positive value: `p < u → return error`
		for _, g := range an.GuardsOf(at.Block()) {
			bo, ok := g.Cond.(*ssa.BinOp)
			if ok && stripAllocs(bo.X) == ssa.Value(p) && bo.Op == token.LSS && !g.Polarity {
				if valuePositive(c, g.If, bo.Y, 4).kind == posYes {
					return true
				}
			}
		}
		sites := an.CallSitesOf(c, p.Parent())
		if len(sites) == 0 {
			return false
		}
		idx := paramIdx(p)
		for _, cs := range sites {
			if idx >= len(cs.Common().Args) || !nonZeroByPositivity(c, cs, cs.Common().Args[idx], depth-1) {
				return false
			}
		}
		return true
	}
	return false
}
