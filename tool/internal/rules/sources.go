package rules

import (
	"go/token"
	"go/types"

	"golang.org/x/tools/go/ssa"

	"f1verif/internal/an"
	"f1verif/internal/core"
)

// Whole-program sources of a value (context-insensitive): where the content of a value can come from, followed
// through phis, local variables, helper results, parameters (all call sites) and fields of locally built structs.
// Used for option plumbing, which refactorings like to move into small helpers (`optionsFromFlags`,
// `newRunOptions(positional…)`): the rule is about which flag / config option ends up in which field, not about
// where the assignments are written.

type srcLeaf struct {
	V  ssa.Value
	Fn *ssa.Function
	// a result of calling a function-typed parameter, seen from one call site of the function holding the call:
	// the function handed in there, the arguments it is called with (the holder's parameters replaced by that
	// site's arguments) and the site
	Callee *ssa.Function
	Args   []ssa.Value
	Site   ssa.CallInstruction
}

type seenKey struct {
	v    ssa.Value
	site ssa.CallInstruction
}

type srcWalker struct {
	c    *core.Ctx
	seen map[seenKey]bool
	out  []srcLeaf
	n    int
	// one level of calling context: while the results of a helper are followed from one of its call sites, the
	// helper's parameters stand for that site's arguments only
	ctx map[*ssa.Function]ssa.CallInstruction
}

// into follows the results of g as called at site.
func (w *srcWalker) into(g *ssa.Function, site ssa.CallInstruction, f func()) {
	old, had := w.ctx[g]
	w.ctx[g] = site
	f()
	if had {
		w.ctx[g] = old
	} else {
		delete(w.ctx, g)
	}
}

// sitesOf: the call sites a parameter of holder stands for (the one being followed, or all).
func (w *srcWalker) sitesOf(holder *ssa.Function) []ssa.CallInstruction {
	if s, ok := w.ctx[holder]; ok {
		return []ssa.CallInstruction{s}
	}
	return an.CallSitesOf(w.c, holder)
}

func sourcesOf(c *core.Ctx, v ssa.Value, fn *ssa.Function) []srcLeaf {
	w := &srcWalker{c: c, seen: map[seenKey]bool{}, ctx: map[*ssa.Function]ssa.CallInstruction{}}
	w.value(v, fn, 0)
	return w.out
}

func fieldSourcesOf(c *core.Ctx, structVal ssa.Value, field string, fn *ssa.Function) []srcLeaf {
	w := &srcWalker{c: c, seen: map[seenKey]bool{}, ctx: map[*ssa.Function]ssa.CallInstruction{}}
	w.field(structVal, field, fn, 0)
	return w.out
}

func (w *srcWalker) leaf(v ssa.Value, fn *ssa.Function) {
	// the result of calling a function handed in as a parameter (`flagValue(flags.GetInt, name)`)
	var call *ssa.Call
	switch x := v.(type) {
	case *ssa.Extract:
		call, _ = x.Tuple.(*ssa.Call)
	case *ssa.Call:
		call = x
	}
	if call != nil && an.Callee(call) == nil && !call.Call.IsInvoke() {
		if p, isParam := an.Strip(call.Call.Value).(*ssa.Parameter); isParam && p.Parent().Parent() == nil {
			holder := p.Parent()
			idx := an.ParamIndex(p)
			resolved := 0
			sites := w.sitesOf(holder)
			var leaves []srcLeaf
			for _, s := range sites {
				if idx < 0 || idx >= len(s.Common().Args) {
					continue
				}
				var target *ssa.Function
				switch f := an.Strip(s.Common().Args[idx]).(type) {
				case *ssa.Function:
					target = an.Unwrap(f)
				case *ssa.MakeClosure:
					if ff, ok := f.Fn.(*ssa.Function); ok {
						target = an.Unwrap(ff)
					}
				}
				if target == nil {
					continue
				}
				resolved++
				var args []ssa.Value
				for _, a := range call.Call.Args {
					if ap, ok := an.Strip(a).(*ssa.Parameter); ok && ap.Parent() == holder {
						if j := an.ParamIndex(ap); j >= 0 && j < len(s.Common().Args) {
							a = s.Common().Args[j]
						}
					}
					args = append(args, a)
				}
				leaves = append(leaves, srcLeaf{V: v, Fn: fn, Callee: target, Args: args, Site: s})
			}
			if resolved == len(sites) && resolved > 0 {
				w.out = append(w.out, leaves...)
				return
			}
		}
	}
	w.out = append(w.out, srcLeaf{V: v, Fn: fn})
}

func moduleBody(t *ssa.Function) bool { return t != nil && core.InModule(t) && t.Blocks != nil }

func (w *srcWalker) value(v ssa.Value, fn *ssa.Function, depth int) {
	w.n++
	if v == nil || depth > 12 || w.n > 4000 {
		return
	}
	v = an.Strip(v)
	key := seenKey{v, nil}
	if in, ok := v.(ssa.Instruction); ok && in.Parent() != nil {
		key.site = w.ctx[in.Parent()]
	} else if p, ok := v.(*ssa.Parameter); ok {
		key.site = w.ctx[p.Parent()]
	}
	if w.seen[key] {
		return
	}
	w.seen[key] = true
	switch x := v.(type) {
	case *ssa.Phi:
		for _, e := range x.Edges {
			w.value(e, fn, depth+1)
		}
	case *ssa.Parameter:
		sites := w.sitesOf(x.Parent())
		if len(sites) == 0 || x.Parent().Parent() != nil {
			w.leaf(v, fn)
			return
		}
		idx := an.ParamIndex(x)
		for _, s := range sites {
			if idx >= 0 && idx < len(s.Common().Args) {
				w.value(s.Common().Args[idx], s.Parent(), depth+1)
			}
		}
	case *ssa.Extract:
		if call, ok := x.Tuple.(*ssa.Call); ok && moduleBody(an.Callee(call)) {
			g := an.Callee(call)
			w.into(g, call, func() {
				for _, r := range an.Returns(g) {
					if x.Index < len(r.Results) {
						w.value(r.Results[x.Index], g, depth+1)
					}
				}
			})
			return
		}
		w.leaf(v, fn)
	case *ssa.Call:
		if g := an.Callee(x); moduleBody(g) && g.Signature.Results().Len() == 1 {
			w.into(g, x, func() {
				for _, r := range an.Returns(g) {
					w.value(r.Results[0], g, depth+1)
				}
			})
			return
		}
		w.leaf(v, fn)
	case *ssa.UnOp:
		if x.Op != token.MUL {
			w.leaf(v, fn)
			return
		}
		switch a := x.X.(type) {
		case *ssa.Alloc:
			sts := an.StoresTo(a)
			if len(sts) == 0 {
				w.leaf(v, fn)
			}
			for _, st := range sts {
				w.value(st.Val, fn, depth+1)
			}
		case *ssa.FieldAddr:
			// a field of a locally built struct; fields of anything else (a parameter struct, a pointer handed in) are leaves
			if base := localStruct(a.X); base != nil {
				w.field(base, an.FieldOfAddr(a).Name(), fn, depth+1)
			} else {
				w.leaf(v, fn)
			}
		default:
			w.leaf(v, fn)
		}
	case *ssa.Field:
		if _, isParam := an.Strip(x.X).(*ssa.Parameter); isParam {
			w.leaf(v, fn)
			return
		}
		w.field(x.X, an.FieldOfAddr(x).Name(), fn, depth+1)
	default:
		w.leaf(v, fn)
	}
}

// localStruct: the address is (a path into) a struct allocated in this function.
func localStruct(addr ssa.Value) ssa.Value {
	if al, ok := addr.(*ssa.Alloc); ok {
		if _, isStruct := al.Type().(*types.Pointer).Elem().Underlying().(*types.Struct); isStruct {
			return al
		}
	}
	return nil
}

func (w *srcWalker) field(sv ssa.Value, name string, fn *ssa.Function, depth int) {
	w.n++
	if sv == nil || depth > 12 || w.n > 4000 {
		return
	}
	switch x := sv.(type) {
	case *ssa.Alloc:
		found := false
		for _, ref := range an.Referrers(x) {
			switch y := ref.(type) {
			case *ssa.FieldAddr:
				if y.X == ssa.Value(x) && an.FieldOfAddr(y).Name() == name {
					for _, st := range an.StoresTo(y) {
						found = true
						w.value(st.Val, fn, depth+1)
					}
				}
			case *ssa.Store:
				if y.Addr == ssa.Value(x) {
					found = true
					w.field(y.Val, name, fn, depth+1)
				}
			}
		}
		if !found {
			w.leaf(x, fn) // zero value
		}
	case *ssa.UnOp:
		if x.Op == token.MUL {
			w.field(x.X, name, fn, depth+1)
			return
		}
		w.leaf(x, fn)
	case *ssa.Phi:
		for _, e := range x.Edges {
			w.field(e, name, fn, depth+1)
		}
	case *ssa.Extract:
		if call, ok := x.Tuple.(*ssa.Call); ok && moduleBody(an.Callee(call)) {
			g := an.Callee(call)
			w.into(g, call, func() {
				for _, r := range an.Returns(g) {
					if x.Index < len(r.Results) {
						w.field(r.Results[x.Index], name, g, depth+1)
					}
				}
			})
			return
		}
		w.leaf(x, fn)
	case *ssa.Call:
		if g := an.Callee(x); moduleBody(g) && g.Signature.Results().Len() == 1 {
			w.into(g, x, func() {
				for _, r := range an.Returns(g) {
					w.field(r.Results[0], name, g, depth+1)
				}
			})
			return
		}
		w.leaf(x, fn)
	case *ssa.Parameter:
		sites := w.sitesOf(x.Parent())
		if len(sites) == 0 || x.Parent().Parent() != nil {
			w.leaf(x, fn)
			return
		}
		idx := an.ParamIndex(x)
		for _, s := range sites {
			if idx >= 0 && idx < len(s.Common().Args) {
				w.field(s.Common().Args[idx], name, s.Parent(), depth+1)
			}
		}
	case *ssa.Const:
		w.leaf(x, fn)
	default:
		w.leaf(sv, fn)
	}
}

// guardedUp: the instruction, or every call chain leading to its function (up to depth levels), is guarded by a
// branch condition satisfying pred.
func guardedUp(c *core.Ctx, in ssa.Instruction, pred func(an.Guard) bool, depth int) bool {
	for _, g := range an.GuardsOf(in.Block()) {
		if pred(g) {
			return true
		}
	}
	if depth <= 0 {
		return false
	}
	sites := an.CallSitesOf(c, in.Parent())
	if len(sites) == 0 {
		return false
	}
	for _, s := range sites {
		if !guardedUp(c, s, pred, depth-1) {
			return false
		}
	}
	return true
}
