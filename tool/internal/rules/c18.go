package rules

import (
	"go/token"
	"go/types"
	"strings"

	"golang.org/x/tools/go/ssa"

	"f1verif/internal/an"
	"f1verif/internal/core"
)

const raterunPkg = core.ModPath + "/internal/raterun"

// runnerFacts locates, by role, the pieces of the periodic runner every C18/C05 rule talks about.
type runnerFacts struct {
	fnSites   []ssa.CallInstruction // dynamic calls of a raterun.RunFunction value
	body      *ssa.Function         // the function containing them and the select (the goroutine itself, or a step helper)
	loop      *ssa.Function         // the goroutine root that runs body (body itself when it is started with `go`)
	siteEv    map[ssa.CallInstruction]an.Event
	stop      *ssa.Function // method that calls the stored CancelFunc and then receives from a channel field
	joinField *types.Var    // that channel field
	cancelFld *types.Var    // the CancelFunc field
	stopRecv  ssa.Instruction
	stopCall  ssa.CallInstruction
}

func findRunner(c *core.Ctx) *runnerFacts {
	f := &runnerFacts{}
	for _, fn := range c.AllFuncs {
		if core.RelPkg(fn) != "internal/raterun" {
			// RunFunction values may be invoked anywhere; look everywhere for R2
		}
		for _, call := range an.AllCalls(fn) {
			if n := an.DynCallType(call); n != nil && an.IsNamed(n, raterunPkg, "RunFunction") {
				f.fnSites = append(f.fnSites, call)
				f.body, f.loop = fn, fn
			}
		}
	}
	f.siteEv = map[ssa.CallInstruction]an.Event{}
	if f.body != nil && len(an.GoTargetOf(c.AllFuncs, f.body)) == 0 {
		// a step helper: the goroutine is the go-started function that calls it (through helpers)
		for _, g := range c.AllFuncs {
			if core.RelPkg(g) != core.RelPkg(f.body) || len(an.GoTargetOf(c.AllFuncs, g)) == 0 {
				continue
			}
			evs := an.FlatCalls(g, flatDepth, func(call ssa.CallInstruction, _ *ssa.Function) bool {
				for _, s := range f.fnSites {
					if s == call {
						return true
					}
				}
				return false
			})
			if len(evs) > 0 {
				f.loop = g
				for _, e := range evs {
					f.siteEv[e.Call()] = e
				}
			}
		}
	}
	for _, fn := range c.AllFuncs {
		if core.RelPkg(fn) != "internal/raterun" || fn.Signature.Recv() == nil {
			continue
		}
		var cancelCall ssa.CallInstruction
		var cancelFld *types.Var
		for _, call := range an.AllCalls(fn) {
			if an.Callee(call) != nil || call.Common().IsInvoke() {
				continue
			}
			if fld, _ := an.TerminalField(call.Common().Value); fld != nil && an.IsNamed(fld.Type(), "context", "CancelFunc") {
				cancelCall, cancelFld = call, fld
			}
		}
		if cancelCall == nil {
			continue
		}
		an.Instrs(fn, func(in ssa.Instruction) {
			u, ok := in.(*ssa.UnOp)
			if !ok || u.Op != token.ARROW {
				return
			}
			if fld, _ := an.TerminalField(u.X); fld != nil {
				f.stop, f.joinField, f.cancelFld, f.stopRecv, f.stopCall = fn, fld, cancelFld, in, cancelCall
			}
		})
	}
	return f
}

func isTimeMethod(f *ssa.Function, typ, name string) bool {
	return f != nil && f.Pkg != nil && f.Pkg.Pkg.Path() == "time" && f.Name() == name && f.Signature.Recv() != nil &&
		an.IsNamed(f.Signature.Recv().Type(), "time", typ)
}

func init() { register("C18", c18) }

func c18(c *core.Ctx, r *core.Report) {
	r.Explanation = "Decides the structural causes of 'quiescent after Stop' and 'fires only on ticks' for internal/raterun: " +
		"(R1) the channel Stop blocks on is closed only by the goroutine that invokes the run function, at a point after which it cannot invoke it again; " +
		"(R2) the run function is invoked only from that goroutine, only under the ticker arm of its select, at most once per receive; " +
		"(R3) the loop leaves on the derived context's Done after stopping ticker and timer, and Stop cancels that context before waiting; " +
		"(R4) restart selects schedule 0, the next-schedule timer selects current+1, the ticker period is the selected schedule's Frequency. " +
		"Tick timing itself is not decided."
	r.NotDecided = []string{"wall-clock cadence of ticks (rests on time.Ticker/time.Timer)", "absence of goroutines under arbitrary scheduling beyond the exit edge shown by R3"}
	f := findRunner(c)

	rule(r, "C18.R2", "the run function is invoked only from the runner goroutine, only under the ticker arm of its select, at most once per receive", func() {
		if !r.Floor("RunFunction call sites", len(f.fnSites), 1) {
			return
		}
		for _, site := range f.fnSites {
			fn := site.Parent()
			key := core.FuncName(fn) + "#RunFunction-call"
			pos := an.Pos(c, site)
			if _, isGo := site.(*ssa.Go); isGo {
				r.Violation(key, pos, "run function started with `go`: it can still execute after Stop returned")
				continue
			}
			if _, isDefer := site.(*ssa.Defer); isDefer {
				r.Violation(key, pos, "run function deferred: it executes outside the ticker arm")
				continue
			}
			gos := an.GoTargetOf(c.AllFuncs, fn)
			if len(gos) == 0 && f.loop != nil && f.loop != fn {
				gos = an.GoTargetOf(c.AllFuncs, f.loop) // fn is a step helper of the goroutine
			}
			if len(gos) == 0 {
				r.Violation(key, pos, "run function invoked from %s, which is not the target of a go statement (it runs in the caller's frame)", core.FuncName(fn))
				continue
			}
			sel, idx := an.ArmOf(site)
			if sel == nil {
				r.Violation(key, pos, "invocation is not under any select arm")
				continue
			}
			if idx < 0 || idx >= len(sel.States) {
				r.Violation(key, pos, "invocation is under the default arm of a select")
				continue
			}
			fld, owner := an.TerminalField(sel.States[idx].Chan)
			if fld == nil || fld.Name() != "C" || !an.IsNamed(owner, "time", "Ticker") || sel.States[idx].Dir != types.RecvOnly {
				r.Violation(key, pos, "invocation is under select arm %d whose channel is %s, not a time.Ticker's C", idx, an.D().Of(sel.States[idx].Chan))
				continue
			}
			if an.OnCycleAvoiding(site, sel.Block()) {
				r.Violation(key, pos, "invocation sits on a loop that does not pass through the select: more than one call per tick")
				continue
			}
			r.OK(key, pos, "dynamic call of RunFunction in goroutine %s, dominated by receive from %s (state %d), one call per receive", core.FuncName(fn), an.D().Of(sel.States[idx].Chan), idx)
		}
	})

	rule(r, "C18.R1", joinRuleText, func() { joinRule(c, r, f) })

	rule(r, "C18.R3", "the goroutine's loop exits on the derived context's Done, stopping ticker and timer first; Stop cancels that context before waiting", func() {
		if f.loop == nil || f.stop == nil {
			r.Undecided("anchor", "-", "runner loop / Stop not found")
			return
		}
		r.Check(an.Dominates(f.stopCall, f.stopRecv), core.FuncName(f.stop)+"#cancel-before-wait", an.Pos(c, f.stopCall),
			"the stored CancelFunc is called before the receive", "Stop waits on the join channel before cancelling: it blocks until the parent context ends")
		found := 0
		for _, sel := range an.Selects(f.body) {
			arms := an.SelectArms(sel)
			for idx, st := range sel.States {
				call, ok := an.Terminal(st.Chan).(*ssa.Call)
				if !ok || !call.Common().IsInvoke() || call.Common().Method.Name() != "Done" {
					continue
				}
				found++
				key := core.FuncName(f.loop) + "#Done-arm"
				pos := c.Pos(st.Pos)
				// the context must be the one whose cancel func is stored in the field Stop calls: follow the value
				// out of the goroutine (captured variable or argument of the go statement) to its WithCancel call
				ctxV := an.Strip(call.Common().Value)
				if p, isParam := ctxV.(*ssa.Parameter); isParam && f.body != f.loop {
					// a parameter of the step helper: the argument at its call in the goroutine
					for _, site := range an.CallSitesOf(c, f.body) {
						if idx := an.ParamIndex(p); idx >= 0 && idx < len(site.Common().Args) {
							ctxV = an.Strip(site.Common().Args[idx])
						}
					}
				}
				for i := 0; i < 4; i++ {
					switch x := ctxV.(type) {
					case *ssa.FreeVar:
						if al, ok := an.FreeVarBinding(x).(*ssa.Alloc); ok {
							if sts := an.StoresTo(al); len(sts) == 1 {
								ctxV = an.Strip(sts[0].Val)
								continue
							}
						} else if b := an.FreeVarBinding(x); b != nil {
							ctxV = an.Strip(b)
							continue
						}
					case *ssa.Parameter:
						if gos := an.GoTargetOf(c.AllFuncs, x.Parent()); len(gos) == 1 {
							if idx := an.ParamIndex(x); idx >= 0 && idx < len(gos[0].Call.Args) {
								ctxV = an.Strip(gos[0].Call.Args[idx])
								continue
							}
						}
					}
					break
				}
				ctxDesc := an.D().Of(ctxV)
				okCtx := false
				if ex, ok := ctxV.(*ssa.Extract); ok && ex.Index == 0 {
					if wc, ok := ex.Tuple.(*ssa.Call); ok && an.IsFunc(an.Callee(wc), "context", "WithCancel") {
						an.Instrs(wc.Parent(), func(in ssa.Instruction) {
							st, ok := in.(*ssa.Store)
							if !ok {
								return
							}
							if fld := an.FieldOfAddr(st.Addr); an.SameField(fld, f.cancelFld) {
								if e1, ok := an.Strip(st.Val).(*ssa.Extract); ok && e1.Index == 1 && e1.Tuple == ex.Tuple {
									okCtx = true
								}
							}
						})
					}
				}
				if !okCtx {
					r.Violation(key, pos, "the Done channel selected on (%s) is not the context whose cancel function Stop calls", ctxDesc)
					continue
				}
				arm := arms[idx]
				if arm == nil {
					r.Undecided(key, pos, "arm block of the Done state not found")
					continue
				}
				first := arm.Instrs[0]
				if an.ReachableFromFeasible(first, sel) || first == ssa.Instruction(sel) {
					r.Violation(key, pos, "the Done arm can loop back to the select: the goroutine does not exit on cancellation")
					continue
				}
				stopsTicker, stopsTimer := false, false
				for b := arm; b != nil; {
					for _, in := range b.Instrs {
						if ci, ok := in.(ssa.CallInstruction); ok {
							t := an.Callee(ci)
							chk := func(g *ssa.Function) {
								if isTimeMethod(g, "Ticker", "Stop") {
									stopsTicker = true
								}
								if isTimeMethod(g, "Timer", "Stop") {
									stopsTimer = true
								}
							}
							if t != nil {
								chk(t)
								an.ReachesCall(t, 2, func(g *ssa.Function) bool { chk(g); return false })
							}
						}
					}
					if len(b.Succs) == 1 {
						b = b.Succs[0]
					} else {
						b = nil
					}
				}
				// shutdown duties deferred by the goroutine before it reached the select run on this exit as well
				an.Instrs(sel.Parent(), func(in ssa.Instruction) {
					d, isDefer := in.(*ssa.Defer)
					if !isDefer || !an.Dominates(d, sel) {
						return
					}
					chk := func(g *ssa.Function) {
						if isTimeMethod(g, "Ticker", "Stop") {
							stopsTicker = true
						}
						if isTimeMethod(g, "Timer", "Stop") {
							stopsTimer = true
						}
					}
					if t := an.Callee(d); t != nil {
						chk(t)
						an.ReachesCall(t, 2, func(g *ssa.Function) bool { chk(g); return false })
					}
				})
				r.Check(stopsTicker && stopsTimer, key, pos, "Done arm stops ticker and timer and returns", "Done arm returns without stopping the ticker and the next-schedule timer")
			}
		}
		r.Floor("Done arms in the runner loop", found, 1)
	})

	rule(r, "C18.R4", "restart selects schedule 0, the next-schedule timer selects current+1, and the ticker period is the selected schedule's Frequency", func() {
		if f.loop == nil {
			r.Undecided("anchor", "-", "runner loop not found")
			return
		}
		// the schedule selector: the raterun function calling time.NewTicker with a non-constant argument
		var startFn *ssa.Function
		var tick ssa.CallInstruction
		for _, fn := range c.AllFuncs {
			if core.RelPkg(fn) != "internal/raterun" {
				continue
			}
			for _, call := range an.CallsTo(fn, func(g *ssa.Function) bool { return an.IsFunc(g, "time", "NewTicker") }) {
				if _, isConst := call.Common().Args[0].(*ssa.Const); !isConst {
					if _, isBin := call.Common().Args[0].(*ssa.BinOp); isBin {
						// constant expressions like time.Hour are Consts; a BinOp here is arithmetic on the period
					}
					startFn, tick = fn, call
				}
			}
		}
		for _, fn := range c.AllFuncs {
			if core.RelPkg(fn) != "internal/raterun" {
				continue
			}
			for _, call := range an.AllCalls(fn) {
				if isTimeMethod(an.Callee(call), "Timer", "Reset") {
					r.Violation(core.FuncName(fn)+"#timer-reset", an.Pos(c, call), "the next-schedule timer is re-armed with Reset: an expiry that was already delivered to its channel survives Stop+Reset (the module's go directive keeps buffered timer channels) and moves the runner to the next schedule at once instead of after its start delay; create a new timer")
				}
				if isTimeMethod(an.Callee(call), "Ticker", "Reset") {
					r.Violation(core.FuncName(fn)+"#ticker-reset", an.Pos(c, call), "the schedule switch re-arms the existing ticker with Reset: a tick of the previous schedule that is already pending survives the switch and fires the function at once with the new schedule's frequency (not a tick of the active schedule); stop the old ticker and create a new one")
				}
			}
		}
		if startFn == nil {
			r.Undecided("anchor:selector", "-", "no function of raterun creates a ticker with a non-constant period")
			return
		}
		// the previous ticker is stopped before it is replaced
		stopped := false
		for _, call := range an.AllCalls(startFn) {
			if isTimeMethod(an.Callee(call), "Ticker", "Stop") && an.Dominates(call, tick) {
				stopped = true
			}
		}
		r.Check(stopped, core.FuncName(startFn)+"#old-ticker-stopped", an.Pos(c, tick), "the previous ticker is stopped before the new one is created", "the previous schedule's ticker is not stopped when the schedule changes: it keeps running (leak) although its channel is no longer read")
		key := core.FuncName(startFn) + "#NewTicker"
		d := an.D().Of(tick.Common().Args[0])
		// accepted: <recv>.list[<idx>].Frequency where idx is the int parameter, or the current-index field stored from it before
		var idxParam *ssa.Parameter
		for _, p := range startFn.Params {
			if b, ok := p.Type().Underlying().(*types.Basic); ok && b.Kind() == types.Int {
				idxParam = p
			}
		}
		if idxParam == nil {
			r.Undecided(key, an.Pos(c, tick), "selector has no int parameter")
			return
		}
		ok := false
		why := ""
		if strings.HasSuffix(d, ".Frequency") {
			inner := strings.TrimSuffix(d, ".Frequency")
			if i := strings.LastIndex(inner, "["); i > 0 && strings.HasSuffix(inner, "]") {
				idx := inner[i+1 : len(inner)-1]
				if idx == an.ParamDesc(idxParam) {
					ok = true
				} else {
					// field holding the current index: must have been stored from the parameter before the ticker is made
					an.Instrs(startFn, func(in ssa.Instruction) {
						st, isSt := in.(*ssa.Store)
						if !isSt {
							return
						}
						if an.D().Of(st.Addr) == idx && an.D().Of(st.Val) == an.ParamDesc(idxParam) && an.Dominates(in, tick) {
							ok = true
						}
					})
					why = "index " + idx + " is not the selected schedule"
				}
			}
		} else {
			why = "period is " + d
		}
		r.Check(ok, key, an.Pos(c, tick), "ticker period is "+d+" of the schedule selected by parameter "+idxParam.Name(), "ticker period is not the selected schedule's Frequency: "+why)

		// arms
		// the field holding the current index: the one the selector stores its parameter into
		var curFld *types.Var
		an.Instrs(startFn, func(in ssa.Instruction) {
			if st, ok := in.(*ssa.Store); ok && an.Strip(st.Val) == ssa.Value(idxParam) {
				if fld := an.FieldOfAddr(st.Addr); fld != nil {
					curFld = fld
				}
			}
		})
		var argVal ssa.Value
		argTo := func(arm *ssa.BasicBlock) (string, bool) {
			for _, in := range arm.Instrs {
				ci, ok := in.(ssa.CallInstruction)
				if !ok {
					continue
				}
				t := an.Callee(ci)
				if t == nil {
					continue
				}
				if t == startFn {
					argVal = ci.Common().Args[len(ci.Common().Args)-1]
					return an.D().Of(argVal), true
				}
				for _, inner := range an.CallsTo(t, func(g *ssa.Function) bool { return g == startFn }) {
					argVal = inner.Common().Args[len(inner.Common().Args)-1]
					return an.D().Of(argVal), true
				}
			}
			return "", false
		}
		sawRestart, sawTimer := false, false
		for _, sel := range an.Selects(f.body) {
			arms := an.SelectArms(sel)
			for idx, st := range sel.States {
				fld, owner := an.TerminalField(st.Chan)
				if fld == nil || arms[idx] == nil {
					continue
				}
				pos := c.Pos(st.Pos)
				switch {
				case fld.Name() == "C" && an.IsNamed(owner, "time", "Timer"):
					sawTimer = true
					a, ok := argTo(arms[idx])
					good := false
					if bo, isBin := an.Strip(argVal).(*ssa.BinOp); ok && isBin && bo.Op == token.ADD && curFld != nil {
						x, y := bo.X, bo.Y
						if _, isK := x.(*ssa.Const); isK {
							x, y = y, x
						}
						k, isK := y.(*ssa.Const)
						fa, isFA := an.Strip(x).(*ssa.FieldAddr)
						good = isK && k.Value != nil && k.Int64() == 1 && isFA && an.SameField(an.FieldOfAddr(fa), curFld)
					}
					r.Check(good, core.FuncName(f.loop)+"#timer-arm", pos, "next-schedule arm selects "+a, "next-schedule arm does not select current+1 (selects "+a+")")
				case an.IsNamed(owner, raterunPkg, "Runner") && fld.Type().String() == "chan struct{}" && !an.SameField(fld, f.joinField):
					sawRestart = true
					a, ok := argTo(arms[idx])
					r.Check(ok && a == "0", core.FuncName(f.loop)+"#restart-arm", pos, "restart arm selects schedule 0", "restart arm does not select schedule 0 (selects "+a+")")
				}
			}
		}
		if !sawRestart {
			r.Undecided("restart-arm", "-", "no select arm on the runner's restart channel")
		}
		if !sawTimer {
			r.Undecided("timer-arm", "-", "no select arm on a time.Timer channel")
		}
	})
}

const joinRuleText = "join: the channel Stop waits on is released only by the goroutine that invokes the run function, after its last possible invocation"

// joinRule is C18.R1 (= C05.R1).
func joinRule(c *core.Ctx, r *core.Report, f *runnerFacts) {
	if f.stop == nil || f.joinField == nil {
		r.Undecided("anchor:Stop", "-", "no method of raterun calls a stored CancelFunc and then receives from a channel field")
		return
	}
	if f.loop == nil {
		r.Undecided("anchor:loop", "-", "runner goroutine not found")
		return
	}
	r.Exists("Stop", c.Pos(f.stop.Pos()), "%s cancels via field %s and blocks on field %s", core.FuncName(f.stop), f.cancelFld.Name(), f.joinField.Name())
	releases := 0
	for _, fn := range c.AllFuncs {
		an.Instrs(fn, func(in ssa.Instruction) {
			var ch ssa.Value
			what := ""
			switch x := in.(type) {
			case ssa.CallInstruction:
				if an.IsBuiltinCall(x, "close") {
					ch, what = x.Common().Args[0], "close"
				}
			case *ssa.Send:
				ch, what = x.Chan, "send"
			}
			if ch == nil {
				return
			}
			fld, _ := an.TerminalField(ch)
			if !an.SameField(fld, f.joinField) {
				return
			}
			releases++
			key := core.FuncName(fn) + "#" + what + "(" + f.joinField.Name() + ")"
			pos := an.Pos(c, in)
			if fn != f.loop {
				r.Violation(key, pos, "%s of the join channel in %s, which is not the goroutine invoking the run function (%s): Stop can return while the function still runs", what, core.FuncName(fn), core.FuncName(f.loop))
				return
			}
			if _, isDefer := in.(*ssa.Defer); isDefer {
				ok := true
				for _, s := range f.fnSites {
					var at ssa.Instruction = s
					if ev, isEv := f.siteEv[s]; isEv {
						at = ev.Root() // the call in the goroutine's own frame that leads to the invocation
					}
					if !an.Dominates(in, at) {
						ok = false
					}
				}
				if an.InLoop(in) {
					ok = false
				}
				r.Check(ok, key, pos, "deferred at the top of the runner goroutine: released when the goroutine returns, after every invocation",
					"deferred release does not dominate every invocation of the run function (or is registered in a loop)")
				return
			}
			for _, s := range f.fnSites {
				var at ssa.Instruction = s
				if ev, isEv := f.siteEv[s]; isEv {
					at = ev.Root()
				}
				if an.ReachableFrom(in, at) {
					r.Violation(key, pos, "the run function can still be invoked (%s) after the join channel is released", an.Pos(c, s))
					return
				}
			}
			r.OK(key, pos, "explicit release with no invocation reachable afterwards")
		})
	}
	if releases == 0 {
		r.Violation(core.FuncName(f.stop)+"#join-released-by-goroutine", an.Pos(c, f.stopRecv), "the channel Stop waits on (field %s) is never closed or sent to by the runner goroutine: whatever releases it (a cancelled context, say) does so without waiting for the goroutine, so Stop returns while the function may still run", f.joinField.Name())
		return
	}
	// every return of the goroutine is covered by a release
	for _, ret := range an.Returns(f.loop) {
		covered := false
		an.Instrs(f.loop, func(in ssa.Instruction) {
			ci, ok := in.(ssa.CallInstruction)
			if !ok || !an.IsBuiltinCall(ci, "close") {
				return
			}
			if fld, _ := an.TerminalField(ci.Common().Args[0]); an.SameField(fld, f.joinField) && an.Dominates(in, ret) {
				covered = true
			}
		})
		r.Check(covered, core.FuncName(f.loop)+"#return", an.Pos(c, ret), "return is preceded by the release on every path", "the goroutine can return without releasing the join channel: Stop would block forever")
	}
	// Stop really waits
	pd := an.NewPostDom(f.stop)
	entry := f.stop.Blocks[0].Instrs[0]
	waits := entry == f.stopRecv || pd.PostDominates(f.stopRecv, entry)
	if !waits {
		// a runner that was never started has nothing to wait for: returns taken only when the stored cancel function
		// is nil (nothing was started, or a pending start was just abandoned) are not waits that were skipped
		waits = true
		for _, ret := range an.Returns(f.stop) {
			if an.Dominates(f.stopRecv, ret) {
				continue
			}
			neverStarted := false
			for _, g := range an.GuardsOf(ret.Block()) {
				bo, isBin := g.Cond.(*ssa.BinOp)
				if !isBin || !isNilConst(bo.Y) || (bo.Op == token.EQL) != g.Polarity {
					continue
				}
				if fld, owner := an.TerminalField(stripAllocs(bo.X)); fld != nil && an.IsNamed(fld.Type(), "context", "CancelFunc") && an.IsNamed(owner, raterunPkg, "Runner") {
					neverStarted = true
				}
			}
			if !neverStarted {
				waits = false
			}
		}
	}
	r.Check(waits, core.FuncName(f.stop)+"#wait", an.Pos(c, f.stopRecv), "Stop receives from the join channel on every path", "Stop can return without waiting on the join channel")
}
