package rules

import (
	"go/ast"
	"go/constant"
	"go/token"
	"go/types"
	"strings"

	"golang.org/x/tools/go/ssa"

	"f1verif/internal/an"
	"f1verif/internal/core"
)

// divisorFieldsPositive implements C14.R8 for internal/gaussian.
func divisorFieldsPositive(c *core.Ctx, r *core.Report) {
	const gpkg = core.ModPath + "/internal/gaussian"
	divFields := map[*types.Var]ssa.Instruction{}
	var collect func(v ssa.Value, seen map[ssa.Value]bool, at ssa.Instruction)
	collect = func(v ssa.Value, seen map[ssa.Value]bool, at ssa.Instruction) {
		v = an.Strip(v)
		if v == nil || seen[v] {
			return
		}
		seen[v] = true
		switch x := v.(type) {
		case *ssa.FieldAddr:
			if f := an.FieldOfAddr(x); f != nil && an.IsNamed(x.X.Type(), gpkg, "Distribution") {
				if _, ok := divFields[f]; !ok {
					divFields[f] = at
				}
			}
		case *ssa.BinOp:
			collect(x.X, seen, at)
			collect(x.Y, seen, at)
		case *ssa.Phi:
			for _, e := range x.Edges {
				collect(e, seen, at)
			}
		}
	}
	nDiv := 0
	for _, fn := range c.AllFuncs {
		if core.RelPkg(fn) != "internal/gaussian" {
			continue
		}
		an.Instrs(fn, func(in ssa.Instruction) {
			bo, ok := in.(*ssa.BinOp)
			if !ok || bo.Op != token.QUO {
				return
			}
			if b, isB := bo.Type().Underlying().(*types.Basic); !isB || b.Info()&types.IsFloat == 0 {
				return
			}
			nDiv++
			collect(bo.Y, map[ssa.Value]bool{}, in)
		})
	}
	r.Count("float divisions in internal/gaussian", nDiv)
	n := 0
	for fld, at := range divFields {
		for _, fn := range c.AllFuncs {
			if !core.InModule(fn) {
				continue
			}
			an.Instrs(fn, func(in ssa.Instruction) {
				st, ok := in.(*ssa.Store)
				if !ok || !an.SameField(an.FieldOfAddr(st.Addr), fld) {
					return
				}
				n++
				key := core.FuncName(fn) + "#" + fld.Name() + ">0"
				var src *ssa.Parameter
				for _, p := range fn.Params {
					if dependsOn(st.Val, p) {
						src = p
					}
				}
				if src == nil {
					if k, isK := an.Strip(st.Val).(*ssa.Const); isK && k.Value != nil && k.Float64() > 0 {
						r.OK(key, an.Pos(c, in), "positive constant")
						return
					}
					r.Violation(key, an.Pos(c, in), "%s (a divisor at %s) is set to %s, which is not shown positive", fld.Name(), an.Pos(c, at), an.D().Of(st.Val))
					return
				}
				positive := false
				ltZeroFalse, eqZeroFalse := false, false
				for _, g := range an.GuardsOf(in.Block()) {
					bo, isBin := g.Cond.(*ssa.BinOp)
					if !isBin || an.Strip(g.T(bo.X)) != ssa.Value(src) {
						continue
					}
					k, isK := bo.Y.(*ssa.Const)
					if !isK || k.Value == nil || k.Float64() != 0 {
						continue
					}
					switch {
					case bo.Op == token.LEQ && !g.Polarity, bo.Op == token.GTR && g.Polarity:
						positive = true
					case bo.Op == token.LSS && !g.Polarity, bo.Op == token.GEQ && g.Polarity:
						ltZeroFalse = true
					case bo.Op == token.EQL && !g.Polarity, bo.Op == token.NEQ && g.Polarity:
						eqZeroFalse = true
					}
				}
				positive = positive || (ltZeroFalse && eqZeroFalse)
				r.Check(positive, key, an.Pos(c, in), sprintf("%s is set from parameter %s on a path where %s > 0", fld.Name(), src.Name(), src.Name()), sprintf("%s (a divisor at %s) is set from parameter %s on a path where %s may be 0: the density is NaN, every tick requests a negative count, and the random distribution panics after setup", fld.Name(), an.Pos(c, at), src.Name(), src.Name()))
			})
		}
	}
	r.Floor("stores to divisor fields of gaussian.Distribution", n, 1)
}

// stageTargetsNonNegative implements C14.R9: in the stages parser every int field of staged.Stage that is fed from
// strconv.Atoi is stored under a guard rejecting negative values.
func stageTargetsNonNegative(c *core.Ctx, r *core.Report) {
	const spkg = core.ModPath + "/internal/trigger/staged"
	n := 0
	for _, fn := range c.AllFuncs {
		if core.RelPkg(fn) != "internal/trigger/staged" {
			continue
		}
		an.Instrs(fn, func(in ssa.Instruction) {
			st, ok := in.(*ssa.Store)
			if !ok {
				return
			}
			fld := an.FieldOfAddr(st.Addr)
			fa, isFA := st.Addr.(*ssa.FieldAddr)
			if fld == nil || !isFA || !an.IsNamed(fa.X.Type(), spkg, "Stage") {
				return
			}
			atoi := callBehind(an.Strip(st.Val), "strconv", "Atoi")
			if atoi == nil {
				return
			}
			n++
			key := core.FuncName(fn) + "#" + fld.Name() + ">=0"
			okGuard := false
			for _, g := range an.GuardsOf(in.Block()) {
				bo, isBin := g.Cond.(*ssa.BinOp)
				if !isBin || callBehind(an.Strip(g.T(bo.X)), "strconv", "Atoi") != atoi {
					continue
				}
				k, isK := bo.Y.(*ssa.Const)
				if !isK || k.Value == nil {
					continue
				}
				if (bo.Op == token.LSS && !g.Polarity && k.Int64() <= 0) || (bo.Op == token.GEQ && g.Polarity && k.Int64() >= 0) || (bo.Op == token.GTR && g.Polarity && k.Int64() >= -1) || (bo.Op == token.LEQ && !g.Polarity && k.Int64() >= -1) {
					okGuard = true
				}
			}
			r.Check(okGuard, key, an.Pos(c, in), "the parsed target is stored only when it is not negative", sprintf("the stages parser stores the parsed number into Stage.%s without rejecting negative values: `--stages 0s:0,10s:-5` is accepted, the profile requests negative counts, and with --distribution random rand.Intn panics during the run", fld.Name()))
		})
	}
	r.Floor("stage fields fed from Atoi", n, 1)
}

// sameLen: two evaluations of len() of the same value.
func sameLen(a, b ssa.Value) bool {
	ca, ok1 := an.Strip(a).(*ssa.Call)
	cb, ok2 := an.Strip(b).(*ssa.Call)
	return ok1 && ok2 && an.IsBuiltinCall(ca, "len") && an.IsBuiltinCall(cb, "len") && an.Strip(ca.Call.Args[0]) == an.Strip(cb.Call.Args[0])
}

// positiveGuard: on the way to `at`, v was tested > 0 (or >= 1).
func positiveGuard(at ssa.Instruction, v ssa.Value) bool {
	for _, g := range an.GuardsOf(at.Block()) {
		bo, ok := g.Cond.(*ssa.BinOp)
		if !ok || !(sameCellLoad(g.T(bo.X), v) || an.Strip(g.T(bo.X)) == an.Strip(v) || sameLen(g.T(bo.X), v)) {
			continue
		}
		k, isK := bo.Y.(*ssa.Const)
		if !isK || k.Value == nil {
			continue
		}
		z := k.Float64()
		switch {
		case bo.Op == token.GTR && g.Polarity && z >= 0, bo.Op == token.LEQ && !g.Polarity && z >= 0,
			bo.Op == token.GEQ && g.Polarity && z >= 1, bo.Op == token.LSS && !g.Polarity && z >= 1:
			return true
		}
	}
	return false
}

// nonNegativeGuard: on the way to `at`, v was tested >= 0.
func nonNegativeGuard(at ssa.Instruction, v ssa.Value) bool {
	if positiveGuard(at, v) {
		return true
	}
	for _, g := range an.GuardsOf(at.Block()) {
		bo, ok := g.Cond.(*ssa.BinOp)
		if !ok || !(sameCellLoad(g.T(bo.X), v) || an.Strip(g.T(bo.X)) == an.Strip(v)) {
			continue
		}
		k, isK := bo.Y.(*ssa.Const)
		if !isK || k.Value == nil || k.Float64() != 0 {
			continue
		}
		if (bo.Op == token.LSS && !g.Polarity) || (bo.Op == token.GEQ && g.Polarity) {
			return true
		}
	}
	return false
}

// randomBoundsPositive implements C14.R10.
func randomBoundsPositive(c *core.Ctx, r *core.Report) {
	n := 0
	for _, fn := range c.AllFuncs {
		if !strings.HasPrefix(core.RelPkg(fn), "internal/trigger") {
			continue
		}
		for _, call := range an.AllCalls(fn) {
			isDraw := an.IsFunc(an.Callee(call), "math/rand", "Intn") || an.IsFunc(an.Callee(call), "math/rand/v2", "IntN")
			if !isDraw && an.Callee(call) == nil && !call.Common().IsInvoke() {
				if sig, ok := call.Common().Value.Type().Underlying().(*types.Signature); ok && sig.Params().Len() == 1 && sig.Results().Len() == 1 {
					pb, okP := sig.Params().At(0).Type().Underlying().(*types.Basic)
					rb, okR := sig.Results().At(0).Type().Underlying().(*types.Basic)
					isDraw = okP && okR && pb.Kind() == types.Int && rb.Kind() == types.Int
				}
			}
			if !isDraw || len(call.Common().Args) != 1 {
				continue
			}
			n++
			arg := call.Common().Args[0]
			okPos := false
			if k, isK := arg.(*ssa.Const); isK && k.Value != nil && k.Int64() > 0 {
				okPos = true
			}
			okPos = okPos || positiveGuard(call, arg)
			r.Check(okPos, core.FuncName(fn)+"#random-bound", an.Pos(c, call), "the bound of the random draw is > 0 on this path", "the random source is asked for a draw below "+an.D().Of(arg)+" without a test that it is positive: a negative count from the rate function (negative volume or weights, a window not longer than the tick) makes rand.Intn panic during the run")
		}
	}
	r.Floor("random draws in the trigger packages", n, 1)
}

// gaussianPreconditions implements C11.R6 on the function that builds the gaussian calculator.
func gaussianPreconditions(c *core.Ctx, r *core.Report) {
	const gpkg = "internal/trigger/gaussian"
	var ctor *ssa.Function
	for _, fn := range c.AllFuncs {
		if core.RelPkg(fn) != gpkg || fn.Parent() != nil || fn.Signature.Results().Len() != 2 {
			continue
		}
		if an.IsNamed(fn.Signature.Results().At(0).Type(), core.ModPath+"/"+gpkg, "Calculator") {
			ctor = fn
		}
	}
	if ctor == nil {
		panic(core.AnchorError{What: "the constructor of gaussian.Calculator"})
	}
	// the literal returned on success
	var lit *ssa.Alloc
	var okRet *ssa.Return
	for _, ret := range an.Returns(ctor) {
		if isNilConst(ret.Results[1]) {
			lit, okRet = an.StructLiteralOf(ret.Results[0]), ret
		}
	}
	if lit == nil {
		r.Undecided(core.FuncName(ctor)+"#literal", c.Pos(ctor.Pos()), "the calculator is not returned as a literal")
		return
	}
	key := core.FuncName(ctor)
	// (1) float parameters scaling the rate (the volume) are tested not negative
	for _, p := range ctor.Params {
		if b, ok := p.Type().Underlying().(*types.Basic); ok && b.Info()&types.IsFloat != 0 {
			r.Check(nonNegativeGuard(okRet, p), key+"#"+p.Name()+">=0", c.Pos(ctor.Pos()), "parameter "+p.Name()+" is tested not negative before the calculator is returned", "the calculator is built without rejecting a negative "+p.Name()+": every tick then requests a negative count")
		}
	}
	// (2) every element of a []float64 parameter (the weights) is tested not negative inside a loop that can reject
	for _, p := range ctor.Params {
		sl, ok := p.Type().Underlying().(*types.Slice)
		if !ok {
			continue
		}
		if b, isB := sl.Elem().Underlying().(*types.Basic); !isB || b.Info()&types.IsFloat == 0 {
			continue
		}
		tested := false
		for _, b := range ctor.Blocks {
			iff, isIf := b.Instrs[len(b.Instrs)-1].(*ssa.If)
			if !isIf {
				continue
			}
			bo, isBin := iff.Cond.(*ssa.BinOp)
			if !isBin {
				continue
			}
			ia, isIA := an.Strip(bo.X).(*ssa.IndexAddr)
			if !isIA || an.Strip(ia.X) != ssa.Value(p) {
				continue
			}
			if k, isK := bo.Y.(*ssa.Const); isK && k.Value != nil && k.Float64() == 0 && (bo.Op == token.LSS || bo.Op == token.GEQ) {
				rej := b.Succs[0]
				if bo.Op == token.GEQ {
					rej = b.Succs[1]
				}
				for _, ret := range an.Returns(ctor) {
					if (ret.Block() == rej || rej.Dominates(ret.Block())) && !isNilConst(ret.Results[1]) {
						tested = true
					}
				}
			}
		}
		if !tested {
			// … or in a validation helper the constructor hands the list to
			for _, t := range rejectingTests(ctor, 3) {
				k, isK := an.Strip(t.Y.V).(*ssa.Const)
				if !isK || k.Value == nil || k.Float64() != 0 || t.Op != token.LSS || !an.InLoop(t.Ev.Instr) {
					continue
				}
				ia, isIA := an.Strip(t.RawX).(*ssa.IndexAddr)
				if !isIA {
					if ld, isLd := t.RawX.(*ssa.UnOp); isLd {
						ia, isIA = ld.X.(*ssa.IndexAddr)
					}
				}
				if isIA && an.Strip(an.EventFV(t.Ev, ia.X).Resolve(nil).V) == ssa.Value(p) {
					tested = true
				}
			}
		}
		r.Check(tested, key+"#"+p.Name()+"-elements>=0", c.Pos(ctor.Pos()), "every element of "+p.Name()+" is tested not negative", "the elements of "+p.Name()+" are not tested: a negative weight turns that window's requests negative")
	}
	// (3) float divisions by computed values, and float fields the rate method divides by
	divFields := map[string]bool{}
	for _, fn := range c.AllFuncs {
		if core.RelPkg(fn) != gpkg || fn == ctor {
			continue
		}
		an.Instrs(fn, func(in ssa.Instruction) {
			bo, ok := in.(*ssa.BinOp)
			if !ok || bo.Op != token.QUO {
				return
			}
			if b, isB := bo.Type().Underlying().(*types.Basic); !isB || b.Info()&types.IsFloat == 0 {
				return
			}
			if fld, owner := an.TerminalField(bo.Y); fld != nil && nestedIn(c, owner, core.ModPath+"/"+gpkg, "Calculator") {
				divFields[fld.Name()] = true
			}
		})
	}
	an.Instrs(ctor, func(in ssa.Instruction) {
		bo, ok := in.(*ssa.BinOp)
		if !ok || bo.Op != token.QUO {
			return
		}
		if b, isB := bo.Type().Underlying().(*types.Basic); !isB || b.Info()&types.IsFloat == 0 {
			return
		}
		if _, isK := bo.Y.(*ssa.Const); isK {
			return
		}
		// float64(len(x)) under len(x) > 0 (or != 0: a length is never negative)
		if cv, isCv := bo.Y.(*ssa.Convert); isCv {
			if call, isCall := cv.X.(*ssa.Call); isCall && an.IsBuiltinCall(call, "len") {
				okLen := positiveGuard(in, call)
				for _, g := range an.GuardsOf(in.Block()) {
					gb, isBin := g.Cond.(*ssa.BinOp)
					if !isBin || !(an.Strip(gb.X) == ssa.Value(call) || sameLen(gb.X, call)) {
						continue
					}
					if k, isK := gb.Y.(*ssa.Const); isK && k.Value != nil && k.Float64() == 0 && ((gb.Op == token.EQL && !g.Polarity) || (gb.Op == token.NEQ && g.Polarity)) {
						okLen = true
					}
				}
				if okLen {
					r.OK(key+"#div-by-len", an.Pos(c, in), "divides by a length tested > 0")
					return
				}
			}
		}
		r.Check(positiveGuard(in, bo.Y), key+"#divisor>0@"+an.D().Of(bo.Y), an.Pos(c, in), "the divisor is tested > 0 before the division", "the scale is divided by "+an.D().Of(bo.Y)+" without a test that it is positive: a repeat window not longer than the tick interval (or a distribution lying outside the window) makes it zero or negative, and the rate becomes infinite or negative")
	})
	nDiv := 0
	for f, vs := range literalLeafFieldStores(lit) {
		if !divFields[f] {
			continue
		}
		nDiv++
		okPos := true
		for _, v := range vs {
			// where this value is stored (or, for the literal's own stores, where the calculator is returned)
			var at ssa.Instruction = okRet
			for _, ref := range an.Referrers(lit) {
				if fa, isFA := ref.(*ssa.FieldAddr); isFA && an.FieldOfAddr(fa).Name() == f {
					for _, st := range an.StoresTo(fa) {
						if st.Val == v {
							at = st
						}
					}
				}
			}
			one := false
			switch x := an.Strip(v).(type) {
			case *ssa.Const:
				one = x.Value != nil && x.Float64() > 0
			case *ssa.Phi:
				one = true
				for i, e := range x.Edges {
					if k, isK := e.(*ssa.Const); isK && k.Value != nil && k.Float64() > 0 {
						continue
					}
					pred := x.Block().Preds[i]
					if positiveGuard(pred.Instrs[len(pred.Instrs)-1], e) || positiveGuard(okRet, e) {
						continue
					}
					// the edge itself is the passing side of a test of the value
					onEdge := false
					if iff, isIf := pred.Instrs[len(pred.Instrs)-1].(*ssa.If); isIf {
						if bo, isBin := iff.Cond.(*ssa.BinOp); isBin && an.Strip(bo.X) == an.Strip(e) {
							if k, isK := bo.Y.(*ssa.Const); isK && k.Value != nil && k.Float64() >= 0 {
								taken := pred.Succs[0] == x.Block()
								onEdge = (bo.Op == token.LEQ && !taken) || (bo.Op == token.GTR && taken)
							}
						}
					}
					if !onEdge {
						one = false
					}
				}
			case *ssa.Extract:
				// computed (and validated) by a helper: every successful return of the helper hands back a positive
				// constant — the default, which must be chosen only for an empty list — or a value tested > 0
				one = positiveGuard(at, v) || positiveGuard(okRet, v)
				if call, isCall := x.Tuple.(*ssa.Call); isCall && !one {
					if h := an.Callee(call); h != nil && core.RelPkg(h) == gpkg && h.Blocks != nil {
						ei := errIndex(h)
						one = ei >= 0
						n := 0
						for _, hr := range an.Returns(h) {
							if ei < 0 || !isNilConst(hr.Results[ei]) {
								continue
							}
							n++
							rv := hr.Results[x.Index]
							if k, isK := an.Strip(rv).(*ssa.Const); isK && k.Value != nil && k.Float64() > 0 {
								okEmpty, why := returnOnlyWhenEmpty(hr)
								r.Check(okEmpty, key+"#"+f+"-default-only-when-empty", an.Pos(c, hr), "the constant default of "+f+" is returned only when no weights are given", "the constant default of "+f+" is also returned when weights are given ("+why+"): those weights are then divided by 1 instead of their mean, and the window requests weight× the configured volume")
								continue
							}
							if !positiveGuard(hr, rv) {
								one = false
							}
						}
						if n == 0 {
							one = false
						}
					}
				}
			default:
				one = positiveGuard(at, v) || positiveGuard(okRet, v)
			}
			if !one {
				okPos = false
			}
		}
		// the divisor's constant default (mean weight 1 when no weights are given) is chosen only when the list is empty
		for _, v := range vs {
			phi, isPhi := an.Strip(v).(*ssa.Phi)
			if !isPhi {
				continue
			}
			for i, e := range phi.Edges {
				if _, isK := e.(*ssa.Const); !isK {
					continue
				}
				ok, why := edgeOnlyWhenEmpty(phi, i, ctor)
				r.Check(ok, key+"#"+f+"-default-only-when-empty", c.Pos(phi.Pos()), "the constant default of "+f+" is taken only when no weights are given", "the constant default of "+f+" is also taken when weights are given ("+why+"): those weights are then divided by 1 instead of their mean, and the window requests weight× the configured volume")
			}
		}
		r.Check(okPos, key+"#"+f+">0", c.Pos(lit.Pos()), "field "+f+" (a divisor of the rate) is positive when the calculator is returned", "field "+f+", which the rate is divided by, is not shown positive: weights that sum to zero give a NaN rate, i.e. a negative request")
	}
	r.Floor("divisor fields of the calculator set in its constructor", nDiv, len(divFields))
}

// wrappingOrder: in every function that builds api.Rates, the rate handed to NewDistribution is the result of WithJitter
// (applied to the profile's own rate function) and Rates.Rate is NewDistribution's rate result.
func wrappingOrder(c *core.Ctx, r *core.Report) {
	n := 0
	for _, fn := range c.AllFuncs {
		if !strings.HasPrefix(core.RelPkg(fn), "internal/trigger/") {
			continue
		}
		for _, call := range an.AllCalls(fn) {
			nd, ok := call.(*ssa.Call)
			// NewDistribution, or the variant it hands its parameters on to
			ndFn := c.MustFn("internal/trigger/api", "NewDistribution")
			if !ok || an.Callee(nd) == nil || (an.Callee(nd) != ndFn && an.Callee(nd) != delegateTarget(ndFn)) || fn == ndFn {
				continue
			}
			n++
			key := core.FuncName(fn) + "#wrapping"
			// the rate argument
			var rateArg ssa.Value
			for _, a := range nd.Call.Args {
				if an.IsNamed(a.Type(), apiPkg, "RateFunction") {
					rateArg = a
				}
			}
			rv := an.Strip(rateArg)
			if ex, isEx := rv.(*ssa.Extract); isEx && ex.Index == 0 {
				rv = ex.Tuple // a maker that also reports an error (`WithShapedJitter(…) (RateFunction, error)`)
			}
			wj, isWJ := rv.(*ssa.Call)
			okIn := isWJ && isJitterMaker(c, an.Callee(wj))
			// nothing wraps the distributed rate again
			okOut := true
			for _, ref := range an.Referrers(nd) {
				ex, isEx := ref.(*ssa.Extract)
				if !isEx || ex.Index != 1 {
					continue
				}
				for _, use := range an.Referrers(ex) {
					if uc, isCall := use.(*ssa.Call); isCall && isJitterMaker(c, an.Callee(uc)) {
						okOut = false
					}
				}
			}
			r.Check(okIn && okOut, key, an.Pos(c, nd), "NewDistribution(…, WithJitter(profile, jitter)): jitter inside, distribution outside", "the distribution is not applied on top of the jittered rate (jitter is applied per sub-tick, or not at all): the carried remainder and the once-per-cycle evaluation are lost")
		}
	}
	r.Floor("NewDistribution call sites", n, 4)
}

func isMethodOf(f *ssa.Function, pkg, typ string) bool {
	if f == nil || f.Signature.Recv() == nil {
		return false
	}
	return an.IsNamed(f.Signature.Recv().Type(), pkg, typ)
}

// errBeforeUse implements C14.R12.
func errBeforeUse(c *core.Ctx, r *core.Report) {
	n, bad := 0, 0
	for _, fn := range c.AllFuncs {
		if !inputFacing(fn) {
			continue
		}
		for _, ci := range an.AllCalls(fn) {
			call, ok := ci.(*ssa.Call)
			if !ok {
				continue
			}
			res := call.Call.Signature().Results()
			if res.Len() < 2 || !types.Identical(res.At(res.Len()-1).Type(), types.Universe.Lookup("error").Type()) {
				continue
			}
			// only results computed by module code: library results are documented per function
			if t := an.Callee(call); t == nil || !core.InModule(t) {
				continue
			}
			for _, ref := range an.Referrers(call) {
				ex, isEx := ref.(*ssa.Extract)
				if !isEx || ex.Index == res.Len()-1 {
					continue
				}
				switch ex.Type().Underlying().(type) {
				case *types.Pointer, *types.Slice, *types.Map, *types.Interface, *types.Signature:
				default:
					continue
				}
				for _, use := range an.Referrers(ex) {
					deref := false
					switch u := use.(type) {
					case *ssa.FieldAddr, *ssa.IndexAddr, *ssa.Index, *ssa.Lookup, *ssa.Field:
						deref = true
					case *ssa.UnOp:
						deref = u.Op == token.MUL
					case ssa.CallInstruction:
						// called on it (receiver) or called itself
						cc := u.Common()
						deref = cc.Value == ssa.Value(ex) || (len(cc.Args) > 0 && cc.Args[0] == ssa.Value(ex) && cc.Signature().Recv() != nil)
					}
					if !deref {
						continue
					}
					n++
					guarded := false
					for _, g := range an.GuardsOf(use.Block()) {
						if errNilGuard(g, call) {
							guarded = true
						}
					}
					if !guarded {
						bad++
						r.Violation(core.FuncName(fn)+"#use-before-err@"+an.D().Of(call.Call.Value), an.Pos(c, use), "the result of %s is used here before its error was tested nil: when the input is rejected the result is nil and this panics instead of returning the error", an.D().Of(call.Call.Value))
					}
				}
			}
		}
	}
	if bad == 0 {
		r.OK("input-facing#use-after-err", "-", "%d uses of results returned with an error, each after the error was tested nil", n)
	}
	r.Floor("uses of results returned with an error", n, 5)
}

// deferKeepsError implements C14.R13 on the type-checked syntax tree (the named result is a types.Var there; in
// the SSA form it is one more heap cell). Checked are the packages of inputFacing.
func deferKeepsError(c *core.Ctx, r *core.Report) {
	errT := types.Universe.Lookup("error").Type()
	nDefers, nAssign := 0, 0
	for _, pkg := range c.Pkgs {
		rel := strings.TrimPrefix(strings.TrimPrefix(pkg.PkgPath, core.ModPath), "/")
		if !strings.HasPrefix(rel, "internal/trigger") && rel != "internal/run" {
			continue
		}
		info := pkg.TypesInfo
		for _, file := range pkg.Syntax {
			ast.Inspect(file, func(n ast.Node) bool {
				var ftype *ast.FuncType
				var body *ast.BlockStmt
				name := "func literal"
				switch f := n.(type) {
				case *ast.FuncDecl:
					ftype, body, name = f.Type, f.Body, f.Name.Name
				case *ast.FuncLit:
					ftype, body = f.Type, f.Body
				}
				if ftype == nil || body == nil || ftype.Results == nil {
					return true
				}
				// the named error results of this function
				results := map[*types.Var]bool{}
				for _, fld := range ftype.Results.List {
					for _, id := range fld.Names {
						if v, ok := info.Defs[id].(*types.Var); ok && types.Identical(v.Type(), errT) {
							results[v] = true
						}
					}
				}
				if len(results) == 0 {
					return true
				}
				isRes := func(e ast.Expr) *types.Var {
					id, ok := ast.Unparen(e).(*ast.Ident)
					if !ok {
						return nil
					}
					v, _ := info.Uses[id].(*types.Var)
					if v != nil && results[v] {
						return v
					}
					return nil
				}
				// deferred literals of this function's own body (not of nested literals: their `defer` is theirs)
				var visit func(n ast.Node) bool
				visit = func(n ast.Node) bool {
					if _, isLit := n.(*ast.FuncLit); isLit {
						return false
					}
					d, ok := n.(*ast.DeferStmt)
					if !ok {
						return true
					}
					lit, ok := d.Call.Fun.(*ast.FuncLit)
					if !ok {
						return true
					}
					nDefers++
					// walk the literal keeping the stack of enclosing if-conditions (with the branch taken)
					type guard struct {
						cond ast.Expr
						then bool
					}
					var walk func(n ast.Node, gs []guard)
					checkAssign := func(as *ast.AssignStmt, gs []guard) {
						for i, lhs := range as.Lhs {
							v := isRes(lhs)
							if v == nil {
								continue
							}
							nAssign++
							var rhs ast.Expr
							if len(as.Rhs) == len(as.Lhs) {
								rhs = as.Rhs[i]
							} else if len(as.Rhs) == 1 {
								rhs = as.Rhs[0]
							}
							ok := false
							why := ""
							// a freshly built error is never nil
							if call, isCall := ast.Unparen(rhs).(*ast.CallExpr); isCall && len(as.Rhs) == len(as.Lhs) {
								if sel, isSel := call.Fun.(*ast.SelectorExpr); isSel {
									if fn, _ := info.Uses[sel.Sel].(*types.Func); fn != nil && fn.Pkg() != nil {
										full := fn.Pkg().Path() + "." + fn.Name()
										if full == "fmt.Errorf" || full == "errors.New" {
											ok, why = true, "a freshly built error"
										}
									}
								}
							}
							// `a && b` on the then-side and `a || b` on the else-side hold conjunct by conjunct
							var flat []guard
							var split func(e ast.Expr, then bool)
							split = func(e ast.Expr, then bool) {
								if be, ok := ast.Unparen(e).(*ast.BinaryExpr); ok && ((be.Op == token.LAND && then) || (be.Op == token.LOR && !then)) {
									split(be.X, then)
									split(be.Y, then)
									return
								}
								flat = append(flat, guard{e, then})
							}
							for _, g := range gs {
								split(g.cond, g.then)
							}
							// errors.Join(result, …) keeps whatever is being returned
							if call, isCall := ast.Unparen(rhs).(*ast.CallExpr); isCall && len(as.Rhs) == len(as.Lhs) {
								if sel, isSel := call.Fun.(*ast.SelectorExpr); isSel {
									if fn, _ := info.Uses[sel.Sel].(*types.Func); fn != nil && fn.Pkg() != nil && fn.Pkg().Path() == "errors" && fn.Name() == "Join" {
										for _, a := range call.Args {
											if isRes(a) == v {
												ok, why = true, "joined with the error being returned"
											}
										}
									}
								}
							}
							for _, g := range flat {
								be, isBin := ast.Unparen(g.cond).(*ast.BinaryExpr)
								if !isBin {
									continue
								}
								x, y := be.X, be.Y
								if id, isId := ast.Unparen(x).(*ast.Ident); isId && id.Name == "nil" {
									x, y = y, x
								}
								if id, isId := ast.Unparen(y).(*ast.Ident); !isId || id.Name != "nil" {
									continue
								}
								eqNil := (be.Op == token.EQL && g.then) || (be.Op == token.NEQ && !g.then)
								neNil := (be.Op == token.NEQ && g.then) || (be.Op == token.EQL && !g.then)
								// only while nothing is being returned yet
								if isRes(x) == v && eqNil {
									ok, why = true, "assigned only while the result is still nil"
								}
								// the value assigned was tested non-nil
								if neNil && rhs != nil && types.ExprString(ast.Unparen(x)) == types.ExprString(ast.Unparen(rhs)) && isRes(x) == nil {
									ok, why = true, "the value assigned was tested non-nil"
								}
								// re-wrapping the result itself under `result != nil`
								if isRes(x) == v && neNil {
									if call, isCall := ast.Unparen(rhs).(*ast.CallExpr); isCall {
										_ = call
										ok, why = ok, why
									}
								}
							}
							key := name + "#deferred-" + v.Name()
							pos := c.Pos(as.Pos())
							if ok {
								r.OK(key, pos, "deferred assignment to %s: %s", v.Name(), why)
							} else {
								r.Violation(key, pos, "a deferred function assigns the error result %s with %s, which may be nil, whatever is being returned: a failure on the way (a read error, a rejected input) is erased, the caller gets a nil value with a nil error and dereferences it", v.Name(), types.ExprString(rhs))
							}
						}
					}
					walk = func(n ast.Node, gs []guard) {
						switch x := n.(type) {
						case nil:
							return
						case *ast.FuncLit:
							return
						case *ast.IfStmt:
							if x.Init != nil {
								walk(x.Init, gs)
							}
							walk(x.Body, append(append([]guard{}, gs...), guard{x.Cond, true}))
							if x.Else != nil {
								walk(x.Else, append(append([]guard{}, gs...), guard{x.Cond, false}))
							}
							return
						case *ast.AssignStmt:
							checkAssign(x, gs)
							return
						case *ast.BlockStmt:
							for _, s := range x.List {
								walk(s, gs)
							}
							return
						case *ast.ForStmt:
							walk(x.Body, gs)
							return
						case *ast.RangeStmt:
							walk(x.Body, gs)
							return
						case *ast.SwitchStmt:
							walk(x.Body, gs)
							return
						case *ast.CaseClause:
							for _, s := range x.Body {
								walk(s, gs)
							}
							return
						case *ast.LabeledStmt:
							walk(x.Stmt, gs)
							return
						}
					}
					walk(lit.Body, nil)
					return true
				}
				ast.Inspect(body, visit)
				return true
			})
		}
	}
	r.OK("input-facing#deferred-literals", "-", "%d deferred literals in functions with a named error result, %d assignments to such a result inside them", nDefers, nAssign)
}

// gateClosesBeforeDrain implements C02.R11.
func gateClosesBeforeDrain(c *core.Ctx, r *core.Report) {
	pf := findPending(c)
	if pf == nil {
		r.Undecided("anchor", "-", "pending counter not resolved")
		return
	}
	isSet := func(_ ssa.CallInstruction, t *ssa.Function) bool { return t != nil && pf.setFns[t] }
	// atomic.Bool operations seen from a root function (through helpers)
	type flagEv struct {
		fld *types.Var
		op  string
		ev  an.Event
		val ssa.Value
	}
	flagOps := func(root *ssa.Function) []flagEv {
		var out []flagEv
		an.Flatten(root, flatDepth, nil, func(e an.Event) {
			call := e.Call()
			if call == nil {
				return
			}
			t := an.Callee(call)
			if t == nil || t.Pkg == nil || t.Pkg.Pkg.Path() != "sync/atomic" || t.Signature.Recv() == nil || len(call.Common().Args) == 0 {
				return
			}
			if !an.IsNamed(t.Signature.Recv().Type(), "sync/atomic", "Bool") {
				return
			}
			fld, _ := an.TerminalField(call.Common().Args[0])
			if fld == nil {
				return
			}
			fe := flagEv{fld: fld, op: t.Name(), ev: e}
			if len(call.Common().Args) > 1 {
				fe.val = call.Common().Args[1]
			}
			out = append(out, fe)
		})
		return out
	}
	var pkgFns []*ssa.Function
	for _, fn := range c.AllFuncs {
		if core.RelPkg(fn) == "internal/workers" && fn.Parent() == nil {
			pkgFns = append(pkgFns, fn)
		}
	}
	// acceptors: functions handing a non-constant count to the supersede (through helpers), not called by another one
	acceptsAt := map[*ssa.Function][]an.Event{}
	for _, fn := range pkgFns {
		for _, e := range an.FlatCalls(fn, flatDepth, isSet) {
			root, isCall := e.Root().(ssa.CallInstruction)
			if !isCall || root.Parent() != fn {
				continue
			}
			nonConst := false
			for _, a := range root.Common().Args {
				if _, isK := a.(*ssa.Const); !isK && isIntType(a.Type()) {
					nonConst = true
				}
			}
			if nonConst {
				acceptsAt[fn] = append(acceptsAt[fn], e)
			}
		}
	}
	top := map[*ssa.Function]bool{}
	for fn := range acceptsAt {
		top[fn] = true
	}
	for a := range acceptsAt {
		for b := range acceptsAt {
			if a != b && len(an.FlatCalls(a, flatDepth, func(_ ssa.CallInstruction, t *ssa.Function) bool { return t == b })) > 0 {
				delete(top, b)
			}
		}
	}
	// the flags by which ticks are accepted without a look at the context
	gates := map[*types.Var]*ssa.Function{}
	nAcc := 0
	for fn := range top {
		nAcc++
		for _, e := range acceptsAt[fn] {
			ctxGated := false
			for _, ce := range an.FlatCalls(fn, flatDepth, func(call ssa.CallInstruction, t *ssa.Function) bool {
				return call.Common().IsInvoke() && call.Common().Method.Name() == "Err" && an.IsNamed(call.Common().Value.Type(), "context", "Context")
			}) {
				if an.Before(ce, e) {
					ctxGated = true
				}
			}
			if ctxGated {
				continue
			}
			for _, fe := range flagOps(fn) {
				if fe.op == "Load" && an.Before(fe.ev, e) {
					gates[fe.fld] = fn
				}
			}
		}
	}
	r.Exists("functions accepting ticks", "-", "%d", nAcc)
	// accepting a tick and publishing it are one step with respect to the final drain: where a tick's request is handed
	// to the pending counter (a supersede with a non-constant count), the gate — the pool's stop flag or a context — is
	// tested inside the critical section that holds the supersede. A test made before the lock is taken (Trigger's
	// `ctx.Err()`) leaves a window: the tick passes the test, the stop function runs to completion, the tick is published
	// — and nobody drains after the stop, so its requests are neither started nor reported dropped.
	nPub := 0
	for _, fn := range pkgFns {
		for _, call := range an.AllCalls(fn) {
			t := an.Callee(call)
			if t == nil || !pf.setFns[t] || len(call.Common().Args) < 2 {
				continue
			}
			if _, isK := an.Strip(call.Common().Args[1]).(*ssa.Const); isK {
				continue
			}
			nPub++
			key := core.FuncName(fn) + "#gate-with-publish"
			ls := an.NewLockState(fn)
			var held *an.Held
			for _, h := range ls.At(call) {
				if h.Mode == 'W' {
					hh := h
					held = &hh
				}
			}
			if held == nil {
				r.Violation(key, an.Pos(c, call), "a tick's request is handed to the pending counter outside any critical section: whether the pool still accepts ticks cannot be decided together with the hand-over")
				continue
			}
			okGate := false
			an.Instrs(fn, func(in ssa.Instruction) {
				iff, isIf := in.(*ssa.If)
				if !isIf || !an.Dominates(iff, call) {
					return
				}
				underLock := false
				for _, h := range ls.At(iff) {
					if h.Mode == 'W' && an.SameField(h.Field, held.Field) {
						underLock = true
					}
				}
				if !underLock {
					return
				}
				cond := an.Strip(iff.Cond)
				if derivesFromStopFlag(cond, 0) {
					okGate = true
					// the flag tested here is a gate: the stop function has to close it before its final supersede
					for _, fe := range flagOps(fn) {
						if fe.op == "Load" && an.Before(fe.ev, an.Event{Instr: call, Frame: &an.Frame{Fn: fn}}) {
							gates[fe.fld] = fn
						}
					}
				}
				if bo, isBin := cond.(*ssa.BinOp); isBin {
					if ec, isCall := an.Strip(bo.X).(*ssa.Call); isCall && ec.Common().IsInvoke() && ec.Common().Method.Name() == "Err" && an.IsNamed(ec.Common().Value.Type(), "context", "Context") {
						okGate = true
					}
				}
			})
			r.Check(okGate, key, an.Pos(c, call), "whether the pool still accepts ticks is tested in the critical section that hands the request over", "the request is handed to the pending counter under "+held.Base+"."+held.Field.Name()+" without a test, inside that critical section, of the stop flag or the context: a tick that passed the earlier test is published after the stop function has run its final supersede, and its requests are neither started nor reported dropped")
		}
	}
	r.Floor("hand-overs of a tick's request to the pending counter", nPub, 1)
	if len(gates) == 0 {
		r.OK("gate#context", "-", "ticks are accepted by the context (or unconditionally): no stop flag gates them; the order of flag and supersede in the stop function does not matter for accepting")
		return
	}
	for _, fn := range pkgFns {
		sets := an.FlatCalls(fn, flatDepth, isSet)
		if len(sets) == 0 {
			continue
		}
		for _, fe := range flagOps(fn) {
			acc, gated := gates[fe.fld]
			k, isK := fe.val.(*ssa.Const)
			if !gated || fe.op != "Store" || !isK || k.Value == nil || k.Value.String() != "true" {
				continue
			}
			for _, se := range sets {
				r.Check(an.Before(fe.ev, se), core.FuncName(fn)+"#gate-before-supersede", an.Pos(c, se.Root()), "the flag that "+acc.Name()+" accepts ticks by is set before the pending work is superseded for the last time", "the pending work is superseded before the flag that "+core.FuncName(acc)+" accepts ticks by is set: a tick arriving in between is accepted after the final accounting — it is neither started nor reported dropped")
			}
		}
	}
}

// restartDelivery implements C18.R6.
func restartDelivery(c *core.Ctx, r *core.Report) {
	f := findRunner(c)
	if f.body == nil {
		panic(core.AnchorError{What: "the periodic runner's goroutine"})
	}
	// the restart channel: the chan struct{} field of Runner received from in the select that is not the join channel
	var restart *types.Var
	for _, sel := range an.Selects(f.body) {
		for _, st := range sel.States {
			if st.Dir != types.RecvOnly {
				continue
			}
			fld, owner := an.TerminalField(st.Chan)
			if fld != nil && an.IsNamed(owner, raterunPkg, "Runner") && !an.SameField(fld, f.joinField) {
				if _, isChan := fld.Type().Underlying().(*types.Chan); isChan {
					restart = fld
				}
			}
		}
	}
	if restart == nil {
		r.Undecided("restart-channel", "-", "no select arm of the runner receives from a channel field of Runner other than the join channel")
		return
	}
	n := 0
	for _, fn := range c.AllFuncs {
		if core.RelPkg(fn) != "internal/raterun" {
			continue
		}
		an.Instrs(fn, func(in ssa.Instruction) {
			switch x := in.(type) {
			case *ssa.Send:
				if fld, _ := an.TerminalField(x.Chan); an.SameField(fld, restart) {
					n++
					r.OK(core.FuncName(fn)+"#restart-send", an.Pos(c, in), "blocking send on the restart channel")
				}
			case *ssa.Select:
				for _, st := range x.States {
					if st.Dir != types.SendOnly {
						continue
					}
					if fld, _ := an.TerminalField(st.Chan); an.SameField(fld, restart) {
						n++
						if !x.Blocking && reportsOutcome(fn) {
							// a try-variant next to the blocking one: the caller is told that nothing was sent
							r.OK(core.FuncName(fn)+"#restart-send", an.Pos(c, in), "non-blocking send whose outcome is returned to the caller (true: sent, false: not sent)")
							continue
						}
						r.Check(x.Blocking, core.FuncName(fn)+"#restart-send", an.Pos(c, in), "the send waits for the runner", "Restart gives up when the runner is not waiting in its select at that moment (select with default): a Restart arriving while the function executes is silently dropped and the runner never returns to the first schedule")
					}
				}
			}
		})
	}
	r.Floor("sends on the restart channel", n, 1)
	// the way from the restart arm to the selector
	for _, sel := range an.Selects(f.body) {
		arms := an.SelectArms(sel)
		for idx, st := range sel.States {
			fld, _ := an.TerminalField(st.Chan)
			if !an.SameField(fld, restart) || arms[idx] == nil {
				continue
			}
			for _, in := range arms[idx].Instrs {
				ci, ok := in.(*ssa.Call)
				if !ok {
					continue
				}
				t := an.Callee(ci)
				if t == nil || core.RelPkg(t) != "internal/raterun" {
					continue
				}
				// calls inside the helper must be unconditional
				okPath := true
				for _, inner := range an.AllCalls(t) {
					if it := an.Callee(inner); it != nil && core.RelPkg(it) == "internal/raterun" && len(an.GuardsOf(inner.Block())) > 0 {
						okPath = false
					}
				}
				r.Check(okPath, core.FuncName(t)+"#restart-unconditional", an.Pos(c, ci), "the restart arm selects the first schedule unconditionally", "on Restart the first schedule is selected only under a condition: a Restart while the first schedule is active (or before it started) is ignored, so the runner leaves the first schedule at the original time")
			}
		}
	}
}

// limitPlumbing: the plain uint64 field of PoolManager (the limit the refusal predicate of C03.R2 compares with) is
// only ever set from a constructor parameter, and every constructor call passes a RunOptions.MaxIterations.
func limitPlumbing(c *core.Ctx, r *core.Report) {
	var limit *types.Var
	for _, f := range leafFields(c, "internal/workers", "PoolManager") {
		if b, ok := f.Type().(*types.Basic); ok && b.Kind() == types.Uint64 {
			if limit != nil {
				panic(core.AnchorError{What: "PoolManager has more than one plain uint64 field: which one is the iteration limit?"})
			}
			limit = f
		}
	}
	if limit == nil {
		panic(core.AnchorError{What: "the iteration limit field of PoolManager (a plain uint64)"})
	}
	type ctorParam struct {
		fn  *ssa.Function
		idx int
	}
	var ctors []ctorParam
	for _, fn := range c.AllFuncs {
		if !core.InModule(fn) {
			continue
		}
		an.Instrs(fn, func(in ssa.Instruction) {
			st, ok := in.(*ssa.Store)
			if !ok || !an.SameField(an.FieldOfAddr(st.Addr), limit) {
				return
			}
			p, isP := an.Strip(st.Val).(*ssa.Parameter)
			if !isP {
				r.Violation(core.FuncName(fn)+"#limit-store", an.Pos(c, in), "the iteration limit is set to %s, not to the constructor's limit parameter", an.D().Of(st.Val))
				return
			}
			r.OK(core.FuncName(fn)+"#limit-store", an.Pos(c, in), "limit ← parameter %s", p.Name())
			ctors = append(ctors, ctorParam{fn, an.ParamIndex(p)})
		})
	}
	n := 0
	for _, ct := range ctors {
		for _, site := range an.CallSitesOf(c, ct.fn) {
			arg := site.Common().Args[ct.idx]
			// the limit may pass through further constructors (a helper building the limit value, the manager's own
			// constructor): follow parameters up to the call that supplies it
			for hop := 0; hop < 3; hop++ {
				p, isP := an.Strip(arg).(*ssa.Parameter)
				if !isP {
					break
				}
				ups := an.CallSitesOf(c, p.Parent())
				if len(ups) != 1 || an.ParamIndex(p) >= len(ups[0].Common().Args) {
					break
				}
				site, arg = ups[0], ups[0].Common().Args[an.ParamIndex(p)]
			}
			n++
			fld, owner := an.TerminalField(arg)
			ok := fld != nil && fld.Name() == "MaxIterations" && an.IsNamed(owner, optionsPkg, "RunOptions")
			r.Check(ok, core.FuncName(site.Parent())+"#limit-arg", an.Pos(c, site), "the pool manager's limit is RunOptions.MaxIterations", "the pool manager is constructed with "+an.D().Of(arg)+" as its iteration limit, not with RunOptions.MaxIterations: the configured ceiling is not the one enforced")
		}
	}
	r.Floor("constructions of the pool manager", n, 1)
}

// Rules that are a necessary condition of more than one property are decided once, in the property whose
// mechanism they describe, and imported by the others (DESIGN §10.8). An imported obligation keeps the source
// rule's id in its key ("C07.R3:T.FailNow#…").

var importDepth int

type importCacheKey struct {
	c    *core.Ctx
	prop string
}

var importCache = map[importCacheKey]*core.Report{}

// importRules copies into r the obligations of property prop whose rule id is listed (and, when keep is given,
// that keep accepts). It returns the number copied, or -1 when called while another import is running (imports
// do not nest: an importing rule group is skipped inside an imported run).
func importRules(c *core.Ctx, r *core.Report, prop string, ruleIDs []string, keep func(o core.Obligation) bool) int {
	if importDepth > 0 {
		return -1
	}
	importDepth++
	defer func() { importDepth-- }()
	k := importCacheKey{c, prop}
	sub := importCache[k]
	if sub == nil {
		sub = core.NewReport(prop)
		Get(prop)(c, sub)
		importCache[k] = sub
	}
	n := 0
	for _, o := range sub.Obls {
		ok := false
		for _, id := range ruleIDs {
			if o.Rule == id {
				ok = true
			}
		}
		if !ok || (keep != nil && !keep(o)) || strings.HasPrefix(o.Key, "floor:") || strings.HasPrefix(o.Key, "count:") {
			continue
		}
		n++
		switch o.Status {
		case core.Discharged:
			r.OK(o.Rule+":"+o.Key, o.Pos, "%s", o.Msg)
		case core.Violated:
			r.Violation(o.Rule+":"+o.Key, o.Pos, "%s", o.Msg)
		case core.Undecided:
			r.Undecided(o.Rule+":"+o.Key, o.Pos, "%s", o.Msg)
		}
	}
	return n
}

// imported registers, for property prop, a rule that imports rules of another property.
func imported(prop, id, text, from string, ruleIDs []string, keep func(o core.Obligation) bool, floor int) {
	extra[prop] = append(extra[prop], func(c *core.Ctx, r *core.Report) {
		if importDepth > 0 {
			return
		}
		rule(r, id, text, func() {
			n := importRules(c, r, from, ruleIDs, keep)
			if n >= 0 {
				r.Floor("imported obligations of "+from, n, floor)
			}
		})
	})
}

func keyContains(subs ...string) func(o core.Obligation) bool {
	return func(o core.Obligation) bool {
		for _, s := range subs {
			if strings.Contains(o.Key, s) {
				return true
			}
		}
		return false
	}
}

func init() {
	extra["C10"] = append(extra["C10"], func(c *core.Ctx, r *core.Report) {
		rule(r, "C10.R7", "the profile configured on the command line is the one computed: every option a trigger builder registers is read by it, every option is read before the rates are computed, and no argument of the computation is assigned again afterwards (a fallback or derived value applied too late)", func() {
			builderWiring(c, r, []string{"staged", "ramp"}, 8, 2)
		})
	})
	extra["C11"] = append(extra["C11"], func(c *core.Ctx, r *core.Report) {
		rule(r, "C11.R8", "the gaussian profile configured on the command line is the one computed: every option the builder registers is read by it, every option is read before the rates are computed, and no argument of the computation (the volume derived from --peak-rate, for one) is assigned again afterwards", func() {
			builderWiring(c, r, []string{"gaussian"}, 8, 1)
		})
	})
	extra["C15"] = append(extra["C15"], func(c *core.Ctx, r *core.Report) {
		rule(r, "C15.R6", "the time against which stages are judged past or future is taken when the config file is parsed (time.Now() at the ParseConfigFile call), not captured earlier", func() {
			parseReferenceTime(c, r)
		})
	})
	extra["C03"] = append(extra["C03"], func(c *core.Ctx, r *core.Report) {
		rule(r, "C03.R7", "the limit the allocator enforces is the configured one: RunOptions.MaxIterations comes from the --max-iterations flag / the config file's max-iterations, and every PoolManager is constructed with RunOptions.MaxIterations as its limit", func() {
			runOptionSources(c, r, []string{"MaxIterations"})
			limitPlumbing(c, r)
		})
	})
	extra["C14"] = append(extra["C14"], func(c *core.Ctx, r *core.Report) {
		rule(r, "C14.R8", "the gaussian curve is defined: every field of gaussian.Distribution that a method divides by is only ever set from a constructor parameter tested to be > 0 on that path (a zero standard deviation gives NaN rates, i.e. negative requests and a panic in the random distribution)", func() {
			divisorFieldsPositive(c, r)
		})
	})
	extra["C14"] = append(extra["C14"], func(c *core.Ctx, r *core.Report) {
		rule(r, "C14.R9", "stage targets are validated like rates: the number parsed for a stage's target is stored only on a path where it was tested not to be negative (a negative target gives negative requests, and rand.Intn panics on them in the random distribution)", func() {
			stageTargetsNonNegative(c, r)
		})
	})
	extra["C14"] = append(extra["C14"], func(c *core.Ctx, r *core.Report) {
		rule(r, "C14.R10", "a random draw is only asked for a positive bound: every argument handed to rand.Intn or to an injected func(int) int random source in the trigger packages is tested > 0 on the path to the call (Intn panics for n <= 0, and a rate function can return a negative count)", func() {
			randomBoundsPositive(c, r)
		})
	})
	extra["C11"] = append(extra["C11"], func(c *core.Ctx, r *core.Report) {
		rule(r, "C11.R6", "the preconditions under which the gaussian rate is non-negative and finite are enforced when the calculator is built: the volume is tested not negative, every weight not negative, and every computed value the scale is divided by (the covered probability mass, the mean weight) is tested > 0 before the division or before it is stored", func() {
			gaussianPreconditions(c, r)
		})
	})
	imported("C14", "C14.R11", "a gaussian trigger built from accepted input has a finite, non-negative rate (shared with C11.R6)", "C11", []string{"C11.R6"}, func(o core.Obligation) bool { return !strings.Contains(o.Key, "default-only-when-empty") }, 1)
	extra["C11"] = append(extra["C11"], func(c *core.Ctx, r *core.Report) {
		rule(r, "C11.R9", "the list of weights holds exactly the weights given: a []float64 of the gaussian package that is made with a non-zero length and filled by index has its element stored on every pass of the filling loop (a skipped entry would stay 0, i.e. a window with no load and a wrong mean weight); lists built by append are exact by construction", func() {
			n := 0
			for _, fn := range c.AllFuncs {
				if core.RelPkg(fn) != "internal/trigger/gaussian" {
					continue
				}
				an.Instrs(fn, func(in ssa.Instruction) {
					mk, ok := in.(*ssa.MakeSlice)
					if !ok {
						return
					}
					sl, isSl := mk.Type().Underlying().(*types.Slice)
					if !isSl {
						return
					}
					if b, isB := sl.Elem().Underlying().(*types.Basic); !isB || b.Info()&types.IsFloat == 0 {
						return
					}
					if k, isK := mk.Len.(*ssa.Const); isK && k.Value != nil && k.Int64() == 0 {
						n++
						r.OK(core.FuncName(fn)+"#weights-list", an.Pos(c, in), "made empty and appended to: holds exactly what was parsed")
						return
					}
					n++
					// stores through an index into this slice, inside a loop
					okAll, found := true, false
					an.Instrs(fn, func(x ssa.Instruction) {
						st, isSt := x.(*ssa.Store)
						if !isSt {
							return
						}
						ia, isIA := st.Addr.(*ssa.IndexAddr)
						if !isIA || stripAllocs(ia.X) != ssa.Value(mk) {
							return
						}
						_, head := an.NaturalLoopOf(st.Block())
						if head == nil {
							return
						}
						found = true
						// from the loop's body entry to the next pass: the store happens exactly once (paths leaving the
						// function — a parse error — do not matter)
						for _, succ := range head.Succs {
							if loop, _ := an.NaturalLoopOf(st.Block()); loop == nil || !loop[succ] {
								continue
							}
							for _, e := range an.PathCountUntil(succ.Instrs[0], func(y ssa.Instruction) an.Interval {
								if y == ssa.Instruction(st) {
									return an.Interval{Lo: 1, Hi: 1}
								}
								return an.Interval{}
							}, map[*ssa.BasicBlock]bool{head: true}) {
								if _, isRet := e.Instr.(*ssa.Return); isRet {
									continue
								}
								if e.Count.Lo != 1 || e.Count.Hi != 1 {
									okAll = false
								}
							}
						}
					})
					r.Check(found && okAll, core.FuncName(fn)+"#weights-list", an.Pos(c, in), "pre-sized and filled on every pass", "a list of weights is made with a fixed length and some pass of the filling loop stores nothing (an entry that is skipped stays 0): that window requests nothing and the mean weight is computed over the wrong number of windows")
				})
			}
			r.Floor("float lists built in the gaussian package", n, 1)
		})
	})
	extra["C13"] = append(extra["C13"], func(c *core.Ctx, r *core.Report) {
		rule(r, "C13.R5", "a stage without any jitter setting runs with zero jitter (the identity): the value a validator allocates for a missing jitter is the constant 0; and every Calculate*Rate applies jitter to the per-cycle rate before the distribution spreads it (so that the carry advances once per cycle)", func() {
			n := 0
			for _, fn := range c.AllFuncs {
				if core.RelPkg(fn) != "internal/trigger/file" {
					continue
				}
				an.Instrs(fn, func(in ssa.Instruction) {
					st, ok := in.(*ssa.Store)
					if !ok {
						return
					}
					fld := an.FieldOfAddr(st.Addr)
					if hc, isCall := st.Val.(*ssa.Call); isCall && fld != nil && fld.Name() == "Jitter" {
						// `s.Jitter = orDefault(s.Jitter, defaults.Jitter, fallback)`: the value made when both are missing
						if cs := coalesceOf(an.Callee(hc)); cs != nil {
							for _, fv := range cs.fresh {
								if ia, isIA := an.Strip(fv).(*ssa.IndexAddr); isIA {
									// the caller's own fallback (`orDefault(own, def, 0)` with a variadic last parameter)
									if hp, isP := an.Strip(ia.X).(*ssa.Parameter); isP {
										if i := an.ParamIndex(hp); i >= 0 && i < len(hc.Call.Args) {
											els := varargElems(hc.Call.Args[i])
											n++
											okZero := len(els) > 0
											for _, el := range els {
												k, isK := an.Strip(el).(*ssa.Const)
												if !isK || k.Value == nil || k.Float64() != 0 {
													okZero = false
												}
											}
											r.Check(okZero, core.FuncName(fn)+"#missing-jitter=0", an.Pos(c, in), "missing jitter defaults to 0", "a stage without a jitter setting gets a non-zero jitter: zero jitter is no longer the identity for such stages")
										}
									}
									continue
								}
								fa, isFA := an.Strip(fv).(*ssa.Alloc)
								if !isFA {
									continue
								}
								n++
								okZero := true
								for _, init := range an.StoresTo(fa) {
									var v ssa.Value = init.Val
									if hp, isP := an.Strip(v).(*ssa.Parameter); isP {
										if i := an.ParamIndex(hp); i >= 0 && i < len(hc.Call.Args) {
											v = hc.Call.Args[i]
										}
									}
									k, isK := an.Strip(v).(*ssa.Const)
									if !isK || k.Value == nil || k.Float64() != 0 {
										okZero = false
									}
								}
								r.Check(okZero, core.FuncName(fn)+"#missing-jitter=0", an.Pos(c, in), "missing jitter defaults to 0", "a stage without a jitter setting gets a non-zero jitter: zero jitter is no longer the identity for such stages")
							}
						}
						return
					}
					al, isAl := st.Val.(*ssa.Alloc)
					if fld == nil || fld.Name() != "Jitter" || !isAl {
						return
					}
					n++
					okZero := true
					for _, init := range an.StoresTo(al) {
						k, isK := init.Val.(*ssa.Const)
						if !isK || k.Value == nil || k.Float64() != 0 {
							okZero = false
						}
					}
					r.Check(okZero, core.FuncName(fn)+"#missing-jitter=0", an.Pos(c, in), "missing jitter defaults to 0", "a stage without a jitter setting gets a non-zero jitter: zero jitter is no longer the identity for it")
				})
			}
			r.Floor("default jitter allocations", n, 1)
			wrappingOrder(c, r)
		})
	})
	imported("C12", "C12.R6", "the distribution wraps the jittered rate, not the other way round: the underlying (jittered) rate is evaluated once per cycle (shared with C13.R5)", "C13", []string{"C13.R5"}, keyContains("#wrapping"), 4)
	extra["C19"] = append(extra["C19"], func(c *core.Ctx, r *core.Report) {
		rule(r, "C19.R6", "building the view data never fails: no index or slice expression in Result's methods or in the views package can be out of range (the bounding idioms of C14.R1)", func() {
			boundsRuleFor(c, r, func(fn *ssa.Function) bool {
				rel := core.RelPkg(fn)
				if rel == "internal/run/views" {
					return true
				}
				return rel == "internal/run" && isMethodOf(an.Outermost(fn), runPkg, "Result")
			}, 1)
		})
	})
	extra["C19"] = append(extra["C19"], func(c *core.Ctx, r *core.Report) {
		rule(r, "C19.R7", "the final summary is rendered from the final result: in the run's Do, nothing that writes the result (an error added, the totals taken, the test duration recorded) can execute after the summary was rendered", func() {
			summaryAfterWrites(c, r)
		})
	})
	extra["C19"] = append(extra["C19"], func(c *core.Ctx, r *core.Report) {
		rule(r, "C19.R8", "the structured-log banner of the final result is a function of the verdict alone: along every path of ResultData.Log the message logged is decided by the Failed field (one message when it is true, another when it is false), whatever the error value is", func() {
			var logFn *ssa.Function
			for _, fn := range c.AllFuncs {
				if core.RelPkg(fn) == "internal/run/views" && fn.Name() == "Log" && fn.Signature.Recv() != nil && an.IsNamed(fn.Signature.Recv().Type(), core.ModPath+"/internal/run/views", "ResultData") {
					logFn = fn
				}
			}
			if logFn == nil {
				panic(core.AnchorError{What: "views.ResultData.Log"})
			}
			paths, err := an.DecisionPathsInl(logFn, 256, 2, nil)
			if err != nil {
				r.Undecided("ResultData.Log#paths", c.Pos(logFn.Pos()), "%v", err)
				return
			}
			byVerdict := map[string]map[string]bool{"true": {}, "false": {}, "?": {}}
			for _, p := range paths {
				verdict := "?"
				for _, l := range p.Lits {
					if fld, owner := an.TerminalField(l.T(l.Cond)); fld != nil && fld.Name() == "Failed" && an.IsNamed(owner, core.ModPath+"/internal/run/views", "ResultData") {
						if _, isBin := an.Strip(l.Cond).(*ssa.BinOp); !isBin {
							verdict = sprintf("%v", l.Val)
						}
					}
				}
				// the message constants of slog calls on this path
				for _, b := range p.Blocks {
					for _, in := range b.Instrs {
						call, ok := in.(ssa.CallInstruction)
						if !ok {
							continue
						}
						t := an.Callee(call)
						if t == nil || t.Pkg == nil || t.Pkg.Pkg.Path() != "log/slog" || len(call.Common().Args) < 2 {
							continue
						}
						if k, isK := call.Common().Args[1].(*ssa.Const); isK && k.Value != nil && k.Value.Kind() == constant.String {
							byVerdict[verdict][t.Name()+":"+constant.StringVal(k.Value)] = true
						}
					}
				}
			}
			tr, fa, un := keys(byVerdict["true"]), keys(byVerdict["false"]), keys(byVerdict["?"])
			ok := len(tr) == 1 && len(fa) == 1 && tr[0] != fa[0] && len(un) == 0
			r.Check(ok, "ResultData.Log#banner", c.Pos(logFn.Pos()), sprintf("Failed → %v, not Failed → %v", tr, fa), sprintf("the structured-log banner is not decided by the verdict alone (Failed=true logs %v, Failed=false logs %v, paths that do not test Failed log %v): the log line can say failed where the text summary says passed", tr, fa, un))
		})
	})
	extra["C15"] = append(extra["C15"], func(c *core.Ctx, r *core.Report) {
		rule(r, "C15.R7", "the last hop of the limits: every run option is fed, in config-file mode, from the same-named field of the options the trigger carries (api.Options.X → RunOptions.X)", func() {
			runOptionSources(c, r, []string{"MaxDuration", "Concurrency", "MaxIterations", "MaxFailures", "MaxFailuresRate", "IgnoreDropped"})
		})
	})
	extra["C20"] = append(extra["C20"], func(c *core.Ctx, r *core.Report) {
		rule(r, "C20.R5", "combining any number of components (also none) never indexes the component list out of range (the bounding idioms of C14.R1)", func() {
			// CombineScenarios, its literals, and the helpers of its package they call
			sel := map[*ssa.Function]bool{}
			var add func(fn *ssa.Function, depth int)
			add = func(fn *ssa.Function, depth int) {
				if fn == nil || sel[fn] || fn.Blocks == nil || core.RelPkg(fn) != "pkg/f1" {
					return
				}
				sel[fn] = true
				for _, lit := range fn.AnonFuncs {
					add(lit, depth)
				}
				if depth == 0 {
					return
				}
				for _, call := range an.AllCalls(fn) {
					add(an.Callee(call), depth-1)
				}
				// functions and methods taken as values (returned as the combined scenario / iteration function)
				an.Instrs(fn, func(in ssa.Instruction) {
					if mc, ok := in.(*ssa.MakeClosure); ok {
						if f, isF := mc.Fn.(*ssa.Function); isF {
							add(an.Unwrap(f), depth-1)
						}
					}
				})
			}
			for _, fn := range c.AllFuncs {
				if core.RelPkg(fn) == "pkg/f1" && fn.Parent() == nil && fn.Name() == "CombineScenarios" {
					add(fn, 3)
				}
			}
			boundsRuleFor(c, r, func(fn *ssa.Function) bool { return sel[fn] }, 1)
		})
	})
	extra["C14"] = append(extra["C14"], func(c *core.Ctx, r *core.Report) {
		rule(r, "C14.R12", "in input-facing code a pointer, slice, map or interface returned together with an error is used (dereferenced, indexed, called on) only after that error was tested nil: a rejected input must come back as the error, not as a nil dereference", func() {
			errBeforeUse(c, r)
		})
		rule(r, "C14.R13", "in input-facing code a deferred function does not erase the error being returned: an assignment to a named error result inside a deferred literal stores a value that is not nil (fmt.Errorf / errors.New / a value tested non-nil) or runs only when the result is still nil — otherwise a read or parse failure comes back as (nil, nil) and the caller dereferences nil", func() {
			deferKeepsError(c, r)
		})
	})
	extra["C19"] = append(extra["C19"], func(c *core.Ctx, r *core.Report) {
		rule(r, "C19.R9", "a share of the failed iterations stated anywhere (a percentage next to the verdict's threshold) is taken of all iterations — successful, failed and dropped — like the share the verdict tests: every quotient in internal/progress whose numerator is the failed count divides by a total that includes the dropped count", func() {
			// the count fields a value is computed from
			var leaves func(v ssa.Value, depth int, out map[string]bool)
			leaves = func(v ssa.Value, depth int, out map[string]bool) {
				if depth <= 0 || v == nil {
					return
				}
				switch x := v.(type) {
				case *ssa.BinOp:
					leaves(x.X, depth-1, out)
					leaves(x.Y, depth-1, out)
				case *ssa.Convert:
					leaves(x.X, depth-1, out)
				case *ssa.ChangeType:
					leaves(x.X, depth-1, out)
				case *ssa.Phi:
					for _, e := range x.Edges {
						leaves(e, depth-1, out)
					}
				case *ssa.Call:
					if t := an.Callee(x); t != nil && core.InModule(t) && t.Blocks != nil {
						for _, ret := range an.Returns(t) {
							if len(ret.Results) == 1 {
								leaves(ret.Results[0], depth-1, out)
							}
						}
					}
				case *ssa.UnOp:
					if sv := stripAllocs(x); sv != ssa.Value(x) {
						leaves(sv, depth-1, out)
						return
					}
					if fld, owner := an.TerminalField(x); fld != nil && owner != nil {
						out[shortPath(an.D().Of(x))] = true
					}
				case *ssa.Field:
					out[shortPath(an.D().Of(x))] = true
				}
			}
			has := func(m map[string]bool, sub string) bool {
				for k := range m {
					if strings.Contains(k, sub) {
						return true
					}
				}
				return false
			}
			n := 0
			for _, fn := range c.AllFuncs {
				if core.RelPkg(fn) != "internal/progress" {
					continue
				}
				an.Instrs(fn, func(in ssa.Instruction) {
					q, ok := in.(*ssa.BinOp)
					if !ok || q.Op != token.QUO {
						return
					}
					num, den := map[string]bool{}, map[string]bool{}
					leaves(q.X, 6, num)
					leaves(q.Y, 6, den)
					if !has(num, "FailedIterationDurations.Count") || has(num, "SuccessfulIterationDurations.Count") {
						return // not a share of the failed iterations
					}
					n++
					okDen := has(den, "FailedIterationDurations.Count") && has(den, "SuccessfulIterationDurations.Count") && has(den, "DroppedIterationCount")
					r.Check(okDen, core.FuncName(fn)+"#failed-share-of-all", an.Pos(c, q), "the failed share is taken of all iterations (successful + failed + dropped)", sprintf("the failed share computed here is taken of %v, not of all iterations (successful + failed + dropped): with dropped iterations present the figure stated differs from the share the verdict and the summary's other lines are based on", keys(den)))
				})
			}
			r.Exists("failed-share quotients in internal/progress", "-", "%d", n)
		})
	})
	extra["C02"] = append(extra["C02"], func(c *core.Ctx, r *core.Report) {
		rule(r, "C02.R10", "when triggering stops, whatever is still pending is superseded and accounted for: on every path of the pool's stop function the pending counter is swapped exactly once (a mode that queues work behind the backlog must not apply to the stop)", func() {
			pf := findPending(c)
			if pf == nil {
				r.Undecided("anchor", "-", "pending counter not resolved")
				return
			}
			n := 0
			for _, fn := range c.AllFuncs {
				if core.RelPkg(fn) != "internal/workers" {
					continue
				}
				// the stop function of a pool with a pending counter, by role: the function that asks for the pending work to be
				// superseded by nothing — it hands the constant 0 to the supersede (directly or through the sending helper)
				isSet := func(_ ssa.CallInstruction, t *ssa.Function) bool { return t != nil && pf.setFns[t] }
				asksZero := false
				for _, e := range an.FlatCalls(fn, flatDepth, isSet) {
					root, isCall := e.Root().(ssa.CallInstruction)
					if !isCall || root.Parent() != fn {
						continue
					}
					// the limit path also empties the counter, on purpose without accounting (C02.R5): a supersede whose
					// result is thrown away is that one, not the stop
					if rv, isV := root.(ssa.Value); isV && pf.setFns[an.Callee(root)] && len(an.Referrers(rv)) == 0 {
						continue
					}
					for _, a := range root.Common().Args {
						if k, isK := a.(*ssa.Const); isK && k.Value != nil && isIntType(k.Type()) && k.Int64() == 0 {
							asksZero = true
						}
					}
				}
				if !asksZero {
					continue
				}
				n++
				tot, ok := an.Total(an.PathCount(fn, an.CallWeight(isSet, flatDepth)), false)
				r.Check(ok && tot.Lo == 1 && tot.Hi == 1, core.FuncName(fn)+"#supersedes", c.Pos(fn.Pos()), "the stop supersedes the pending work exactly once on every path", "on the stop path the pending counter is swapped "+tot.String()+" times (expected exactly once): work still pending when triggering stops is neither started nor reported dropped")
			}
			r.Floor("stop functions of pools with a pending counter", n, 1)
		})
	})
	extra["C02"] = append(extra["C02"], func(c *core.Ctx, r *core.Report) {
		rule(r, "C02.R11", "the gate a tick passes is closed before the final accounting: when the function that accepts a tick decides by the pool's stop flag alone (not by its context), the stop function stores that flag before it supersedes the pending work — otherwise a tick arriving between the final supersede and the flag is accepted after the accounting and is neither started nor reported dropped", func() {
			gateClosesBeforeDrain(c, r)
		})
	})
	extra["C18"] = append(extra["C18"], func(c *core.Ctx, r *core.Report) {
		rule(r, "C18.R8", "a start that is still pending is abandoned by Stop: a timer armed to start the runner later (time.AfterFunc whose function reaches the start) is kept in a field of the Runner, and Stop stops that timer on every path (whenever there is one) — otherwise the runner starts after Stop has returned", func() {
			f := findRunner(c)
			if f == nil || f.stop == nil {
				r.Undecided("anchor", "-", "Runner.Stop not resolved")
				return
			}
			n := 0
			for _, fn := range c.AllFuncs {
				if core.RelPkg(fn) != "internal/raterun" {
					continue
				}
				for _, call := range an.AllCalls(fn) {
					t := an.Callee(call)
					if t == nil || t.Pkg == nil || t.Pkg.Pkg.Path() != "time" || t.Name() != "AfterFunc" || len(call.Common().Args) != 2 {
						continue
					}
					cb := an.FuncValueOf(call.Common().Args[1])
					if cb == nil || f.loop == nil {
						continue
					}
					// does the callback reach the function that starts the runner goroutine?
					starts := false
					for _, g := range an.GoTargetOf(c.AllFuncs, f.loop) {
						starter := an.Outermost(g.Parent())
						if cb == starter || an.ReachesCall(cb, 3, func(h *ssa.Function) bool { return h == starter }) {
							starts = true
						}
					}
					if !starts {
						continue
					}
					n++
					key := core.FuncName(fn) + "#pending-start"
					// kept in a field of the Runner
					var timerFld *types.Var
					if v, isV := call.(ssa.Value); isV {
						for _, ref := range an.Referrers(v) {
							if st, isSt := ref.(*ssa.Store); isSt {
								if fld := an.FieldOfAddr(st.Addr); fld != nil {
									timerFld = fld
								}
								// through a local that is then stored
								if al, isAl := st.Addr.(*ssa.Alloc); isAl {
									for _, r2 := range an.Referrers(al) {
										if ld, isLd := r2.(*ssa.UnOp); isLd {
											for _, r3 := range an.Referrers(ld) {
												if st2, isSt2 := r3.(*ssa.Store); isSt2 && an.FieldOfAddr(st2.Addr) != nil {
													timerFld = an.FieldOfAddr(st2.Addr)
												}
											}
										}
									}
								}
							}
						}
					}
					if timerFld == nil {
						r.Violation(key, an.Pos(c, call), "the timer of a delayed start is not kept: Stop cannot abandon the pending start, and the runner starts after Stop returned")
						continue
					}
					// Stop stops it on every path, unless there is none
					isTimerStop := func(ci ssa.CallInstruction, t2 *ssa.Function) bool {
						if t2 == nil || t2.Name() != "Stop" || t2.Signature.Recv() == nil || !an.IsNamed(t2.Signature.Recv().Type(), "time", "Timer") {
							return false
						}
						fld, _ := an.TerminalField(ci.Common().Args[0])
						return fld != nil && an.SameField(fld, timerFld)
					}
					evs := an.FlatCalls(f.stop, flatDepth, isTimerStop)
					okStop := len(evs) > 0
					for _, e := range evs {
						// the only condition on it is that a timer exists
						for _, fg := range an.GuardsOfEvent(e) {
							bo, isBin := fg.Cond.(*ssa.BinOp)
							gf, _ := an.TerminalField(func() ssa.Value {
								if isBin {
									return bo.X
								}
								return nil
							}())
							if !isBin || !isNilConst(bo.Y) || gf == nil || !an.SameField(gf, timerFld) {
								okStop = false
							}
						}
						// and it happens before Stop can return
						if root := e.Root(); root.Parent() == f.stop {
							for _, ret := range an.Returns(f.stop) {
								if !an.Dominates(root, ret) {
									okStop = false
								}
							}
						}
					}
					r.Check(okStop, key, an.Pos(c, call), "Stop stops the pending timer "+timerFld.Name()+" on every path (whenever there is one)", "Stop does not stop the timer of a pending start ("+timerFld.Name()+") on every path: a Stop issued before the delay has elapsed returns, and the runner starts afterwards")
				}
			}
			r.Exists("delayed starts", "-", "%d timers armed to start the runner later", n)
		})
	})
	teardownCallers := func(prop, id string) {
		extra[prop] = append(extra[prop], func(c *core.Ctx, r *core.Report) {
			rule(r, id, "the handle's tearing-down phase begins only when its use ends: the function that switches the phase marker on is reached only through the teardown the constructor handed out, never called from another method while the body may still run", func() {
				f := handleFields(c)
				if f.tearing == nil {
					r.Undecided("anchor", "-", "no phase marker on testing.T")
					return
				}
				n := 0
				for _, fn := range c.AllFuncs {
					if core.RelPkg(fn) != "pkg/f1/testing" || fn.Parent() != nil {
						continue
					}
					sets := false
					an.Instrs(fn, func(in ssa.Instruction) {
						if st, ok := in.(*ssa.Store); ok && an.SameField(an.FieldOfAddr(st.Addr), f.tearing) {
							if k, isK := st.Val.(*ssa.Const); isK && k.Value != nil && k.Value.String() == f.tearingOn {
								sets = true
							}
						}
					})
					if !sets {
						continue
					}
					n++
					// an unexported helper of the teardown (the function running one cleanup) is entered by the teardown
					// itself: the obligation moves to the unexported function calling it, up to the one nobody calls
					sites := an.CallSitesOf(c, fn)
					for hops := 0; hops < 3 && len(sites) > 0; hops++ {
						up := map[*ssa.Function]bool{}
						movable := true
						for _, cs := range sites {
							p := an.Outermost(cs.Parent())
							if core.RelPkg(p) != "pkg/f1/testing" || token.IsExported(p.Name()) || p == fn {
								movable = false
							}
							up[p] = true
						}
						if !movable || len(up) != 1 {
							break
						}
						for p := range up {
							fn = p
						}
						sites = an.CallSitesOf(c, fn)
					}
					for _, cs := range sites {
						r.Violation(core.FuncName(cs.Parent())+"#enters-teardown", an.Pos(c, cs), "%s switches the handle into its tearing-down phase by calling %s directly: a failure or panic of the body after this point is booked as a teardown failure and the iteration is reported as passed", core.FuncName(cs.Parent()), core.FuncName(fn))
					}
					if len(sites) == 0 {
						r.OK(core.FuncName(fn)+"#enters-teardown", c.Pos(fn.Pos()), "%s is reached only as the teardown value handed out with the handle", core.FuncName(fn))
					}
				}
				r.Floor("functions switching the phase marker on", n, 1)
			})
		})
	}
	teardownCallers("C07", "C07.R8")
	teardownCallers("C01", "C01.R15")
	extra["C04"] = append(extra["C04"], func(c *core.Ctx, r *core.Report) {
		rule(r, "C04.R7", "a worker leaves its loop only when the pool was stopped or the limit path was taken: every exit of the loop around the iteration runner is decided by the stop flag, follows the limit path, or is decided by a helper that reports so only in those two cases", func() {
			workerExitRule(c, r)
		})
		rule(r, "C04.R9", "the iteration function runs on the goroutine of the worker that took the request: no second `go` between the start of a worker and the call of the user's function", func() {
			ownGoroutineRule(c, r)
		})
	})
	extra["C18"] = append(extra["C18"], func(c *core.Ctx, r *core.Report) {
		rule(r, "C18.R7", "the next schedule takes over its start delay after the current one was started: every timer the runner arms is armed with the start-delay field of a schedule of its list (the Schedule field that does not feed the ticker), read when the timer is armed — not with a time computed from an earlier anchor", func() {
			rpkg := core.ModPath + "/internal/raterun"
			// the ticker's field, by use
			tickerFld := map[*types.Var]bool{}
			var arms []*ssa.Call
			for _, fn := range c.AllFuncs {
				if core.RelPkg(fn) != "internal/raterun" {
					continue
				}
				for _, ci := range an.AllCalls(fn) {
					call, ok := ci.(*ssa.Call)
					if !ok {
						continue
					}
					t := an.Callee(call)
					if t == nil || t.Pkg == nil || t.Pkg.Pkg.Path() != "time" {
						continue
					}
					switch {
					case t.Name() == "NewTicker" || (t.Name() == "Reset" && t.Signature.Recv() != nil && an.IsNamed(t.Signature.Recv().Type(), "time", "Ticker")):
						arg := call.Call.Args[len(call.Call.Args)-1]
						if f, owner := an.TerminalField(an.RootFV(fn, arg).Resolve(nil).V); f != nil && an.IsNamed(owner, rpkg, "Schedule") {
							tickerFld[f] = true
						}
					case t.Name() == "NewTimer" || (t.Name() == "Reset" && t.Signature.Recv() != nil && an.IsNamed(t.Signature.Recv().Type(), "time", "Timer")):
						arms = append(arms, call)
					}
				}
			}
			for _, call := range arms {
				fn := call.Parent()
				arg := call.Call.Args[len(call.Call.Args)-1]
				rv := an.RootFV(fn, arg).Resolve(nil).V
				f, owner := an.TerminalField(rv)
				ok := f != nil && an.IsNamed(owner, rpkg, "Schedule") && !tickerFld[f]
				if ok {
					// of an element of a list
					if fa, isFA := an.Terminal(rv).(*ssa.FieldAddr); isFA {
						if _, isIA := an.Strip(fa.X).(*ssa.IndexAddr); !isIA {
							ok = false
						}
					}
				}
				r.Check(ok, core.FuncName(fn)+"#timer-delay", an.Pos(c, call), "armed with a schedule's start delay", "a timer is armed with "+an.D().Of(arg)+", not with the start delay of a schedule of the list: the next schedule does not take over its start delay after the current one started (for instance when the runner is started some time after it was built)")
			}
			r.Floor("timers armed by the runner", len(arms), 2)
			r.Floor("schedule fields feeding the ticker", len(tickerFld), 1)
		})
	})
	extra["C18"] = append(extra["C18"], func(c *core.Ctx, r *core.Report) {
		rule(r, "C18.R6", "a Restart is never lost or skipped: it is delivered with a plain blocking send on the restart channel, and the restart arm reaches the schedule selector with 0 unconditionally (no test of the current index on the way)", func() {
			restartDelivery(c, r)
		})
	})
	extra["C05"] = append(extra["C05"], func(c *core.Ctx, r *core.Report) {
		rule(r, "C05.R12", "the completion timeout the command hands to the run is the package's fixed timeout, not one of the run's own options; and every worker signs off from the running-workers WaitGroup with a deferred Done (so that an iteration ending its goroutine by Goexit or a panic still lets the run complete)", func() {
			n := 0
			for _, fn := range c.AllFuncs {
				if core.RelPkg(fn) != "internal/run" {
					continue
				}
				for _, call := range an.AllCalls(fn) {
					t := an.Callee(call)
					if t == nil || t.Name() != "NewRun" || core.RelPkg(t) != "internal/run" {
						continue
					}
					for i, a := range call.Common().Args {
						if i >= t.Signature.Params().Len() || !isDuration(t.Signature.Params().At(i).Type()) {
							continue
						}
						n++
						// the run's own options: every value stored into a struct literal passed to the same call
						isOption := ""
						for _, o := range call.Common().Args {
							lit := an.StructLiteralOf(o)
							if lit == nil {
								continue
							}
							for name, vals := range an.LiteralFieldStores(lit) {
								for _, v := range vals {
									if _, k := an.Strip(v).(*ssa.Const); !k && an.Strip(v) == an.Strip(a) {
										isOption = name
									}
								}
							}
						}
						r.Check(isOption == "", core.FuncName(fn)+"#completion-timeout", an.Pos(c, call), "the completion timeout is not one of the run's options", "the completion timeout handed to NewRun is the value of the run option "+isOption+", not the command's own timeout: with a short "+isOption+" iterations still running are abandoned early, with a long one a blocked iteration holds the run for that long")
					}
				}
			}
			r.Floor("NewRun calls with a timeout", n, 1)
			m := 0
			for _, fn := range c.AllFuncs {
				if core.RelPkg(fn) != "internal/workers" {
					continue
				}
				for _, call := range an.AllCalls(fn) {
					t := an.Callee(call)
					if t == nil || t.Name() != "Done" || t.Signature.Recv() == nil || !an.IsNamed(t.Signature.Recv().Type(), "sync", "WaitGroup") {
						continue
					}
					fld, owner := an.TerminalField(call.Common().Args[0])
					if fld == nil || !an.IsNamed(owner, workersPkg, "PoolManager") {
						continue
					}
					m++
					_, isDefer := call.(*ssa.Defer)
					r.Check(isDefer && dominatesAllReturns(call, fn), core.FuncName(fn)+"#worker-signs-off", an.Pos(c, call), "deferred before the worker loop", "the worker's Done on the running-workers WaitGroup is not deferred (or not registered on every path): an iteration that ends its goroutine with runtime.Goexit or an uncontained panic never signs off, and the run waits out the whole completion timeout")
				}
			}
			r.Floor("worker sign-offs", m, 2)
		})
	})
	extra["C05"] = append(extra["C05"], func(c *core.Ctx, r *core.Report) {
		rule(r, "C05.R10", "the duration limit enforced is the configured one: RunOptions.MaxDuration comes from the --max-duration flag / the config file's max-duration", func() {
			runOptionSources(c, r, []string{"MaxDuration"})
		})
	})
	extra["C04"] = append(extra["C04"], func(c *core.Ctx, r *core.Report) {
		rule(r, "C04.R5", "the worker count used is the configured one: RunOptions.Concurrency comes from the --concurrency flag / the config file's concurrency", func() {
			runOptionSources(c, r, []string{"Concurrency"})
		})
	})
	imported("C01", "C01.R9", "the exported iteration samples are those of this run: every metric vector is reset at run start and observed on the live series (nothing cached across Reset): shared with C16.R3", "C16", []string{"C16.R3"}, keyContains("#observe", "Metrics.Reset#"), 1)
	imported("C01", "C01.R10", "an iteration is reported by its own handle: every pool gets freshly built per-worker states (shared with C07.R5)", "C07", []string{"C07.R5"}, nil, 1)
	imported("C06", "C06.R7", "a failure or panic inside a cleanup is classified and routed to the teardown-failed flag (shared with C07.R2, C07.R3), and every pool builds its own per-worker handles so that a body's cleanups run on that body's handle (C07.R5)", "C07", []string{"C07.R2", "C07.R3", "C07.R5"}, nil, 6)
	imported("C08", "C08.R7", "a failing setup cleanup reaches the verdict: the failure APIs route a failure raised while tearing down to the teardown-failed flag (shared with C07.R2, C07.R3)", "C07", []string{"C07.R2", "C07.R3"}, nil, 5)
	imported("C09", "C09.R5", "the pool hands out exactly the requested number: supersede and take are single atomic read-modify-writes (shared with C02.R2)", "C02", []string{"C02.R2"}, nil, 2)
	imported("C10", "C10.R6", "a config-file stage's own staged/ramp settings are replaced by defaults only when unset (shared with C15.R2)", "C15", []string{"C15.R2"}, keyContains("validateStagedStage#", "validateRampStage#"), 2)
	imported("C11", "C11.R4", "requests stay non-negative under jitter (shared with C13.R2) and a config-file stage's own gaussian settings are replaced by defaults only when unset (shared with C15.R2)", "C13", []string{"C13.R2"}, nil, 1)
	imported("C11", "C11.R5", "a config-file stage's own gaussian settings are replaced by defaults only when unset (shared with C15.R2)", "C15", []string{"C15.R2"}, keyContains("validateGaussianStage#"), 2)
	imported("C12", "C12.R5", "a config-file stage runs the distributed rate with the tick interval returned with it (shared with C15.R3)", "C15", []string{"C15.R3"}, keyContains("rate-pair"), 1)
	imported("C13", "C13.R4", "a config-file stage's own jitter is replaced by the default only when unset (shared with C15.R2)", "C15", []string{"C15.R2"}, keyContains("#Jitter←", "#inherits-Jitter"), 4)
	imported("C17", "C17.R5", "lifetime figures are fed only from drained period figures; Snapshot and Total both go through the drain (shared with C01.R4, C01.R6)", "C01", []string{"C01.R4", "C01.R6"}, nil, 4)
	imported("C17", "C17.R6", "stage timings recorded with T.Time go to their own stage series, not into the iteration series whose durations this property is about (shared with C16.R1)", "C16", []string{"C16.R1"}, keyContains("RecordIterationStage#WithLabelValues"), 1)
	imported("C01", "C01.R11", "the outcome is read once, after the recovered body and before the cleanups (shared with C07.R4), and every iteration or drop is observed in the metric unless iteration metrics are disabled (shared with C16.R4)", "C07", []string{"C07.R4"}, keyContains("#outcome-read"), 1)
	imported("C01", "C01.R12", "every iteration or drop handed to the metrics is observed unless iteration metrics are disabled (shared with C16.R4)", "C16", []string{"C16.R4"}, keyContains("#always-unless-disabled", "#at-most-one", "#observe-site"), 2)
	imported("C02", "C02.R7", "requests are discarded silently only at the configured limit: the limit the allocator enforces is the max-iterations option (shared with C03.R7)", "C03", []string{"C03.R7"}, nil, 1)
	imported("C05", "C05.R13", "the run stops at the max-iterations limit for every N > 0: the allocator refuses ids above the limit (shared with C03.R2)", "C03", []string{"C03.R2"}, nil, 1)
	imported("C01", "C01.R13", "a failure is attributed to the phase it happened in: a failing cleanup does not turn a passed iteration into a failed one (shared with C07.R3)", "C07", []string{"C07.R3"}, keyContains("#failed-phase", "#marks-once"), 1)
	imported("C07", "C07.R7", "a failed iteration is reported as failed in the result: the drained per-period figures are merged into the lifetime totals unconditionally and each result kind is routed to its own accumulator (shared with C01.R4, C01.R6)", "C01", []string{"C01.R4", "C01.R6"}, nil, 4)
	imported("C08", "C08.R9", "the counts the verdict is computed from are the recorded ones: drained figures reach the lifetime totals and each result kind its own accumulator (shared with C01.R4, C01.R6)", "C01", []string{"C01.R4", "C01.R6"}, nil, 4)
	imported("C01", "C01.R14", "a panic with any value is classified as a failure of its iteration (shared with C07.R2): otherwise an iteration that panicked is counted as successful", "C07", []string{"C07.R2"}, nil, 1)
	imported("C02", "C02.R8", "the limit is reached exactly when an allocation was refused: the allocator hands out ids by one atomic increment and refuses exactly above the limit (shared with C03.R1, C03.R2)", "C03", []string{"C03.R1", "C03.R2"}, nil, 2)
	imported("C09", "C09.R6", "in config-file mode the tick interval of a stage is the stage's own iteration frequency, replaced by the default only when unset (shared with C15.R2)", "C15", []string{"C15.R2"}, keyContains("#IterationFrequency"), 1)
	imported("C05", "C05.R14", "a staged run ends at the trigger's own total duration: the staged trigger reports the sum of its stage durations (shared with C10.R2)", "C10", []string{"C10.R2"}, keyContains("#Trigger.Duration", "CalculateStagedRate#Duration", "MaxDuration#sum", "staged#trigger-literal"), 2)
	imported("C03", "C03.R8", "in config-file mode the limit handed to the run is the file's max-iterations (shared with C15.R4)", "C15", []string{"C15.R4"}, keyContains("MaxIterations"), 1)
	imported("C08", "C08.R8", "in config-file mode the tolerances handed to the run are the file's own (shared with C15.R4)", "C15", []string{"C15.R4"}, keyContains("axFailures", "IgnoreDropped"), 3)
	imported("C05", "C05.R11", "in config-file mode the duration limit handed to the run is the file's max-duration (shared with C15.R4)", "C15", []string{"C15.R4"}, keyContains("MaxDuration"), 1)
	imported("C04", "C04.R6", "in config-file mode the worker count handed to the run is the file's concurrency (shared with C15.R4)", "C15", []string{"C15.R4"}, keyContains("Concurrency"), 1)
	imported("C11", "C11.R7", "a config-file gaussian stage runs the distributed rate with the tick interval returned with it (shared with C15.R3)", "C15", []string{"C15.R3"}, keyContains("rate-pair"), 1)
	imported("C19", "C19.R5", "the banner is chosen by a verdict that is a function of the counts and options only (shared with C08.R1)", "C08", []string{"C08.R1"}, nil, 1)
	imported("C18", "C18.R5", "the runner is stopped on every path after it was started (shared with C05.R3)", "C05", []string{"C05.R3"}, keyContains("progress-region", "progress-start"), 0)
	imported("C02", "C02.R9", "what a tick requests is what reaches the pending counter: a request trimmed or changed on the way is neither started nor reported dropped (shared with C09.R2)", "C09", []string{"C09.R2"}, keyContains("#chain"), 1)
	imported("C04", "C04.R8", "pending requests are not lost on the way to the workers: supersede and take are single atomic read-modify-writes, so that `concurrency` pending requests can occupy all workers (shared with C02.R2)", "C02", []string{"C02.R2"}, nil, 2)
	imported("C08", "C08.R10", "the verdict is computed from the final totals: they are stored unmodified and unconditionally where they are taken (shared with C01.R16)", "C01", []string{"C01.R16"}, nil, 2)
	imported("C19", "C19.R10", "the summary states the final totals: they are stored unmodified and unconditionally where they are taken (shared with C01.R16)", "C01", []string{"C01.R16"}, nil, 2)
	imported("C03", "C03.R9", "every invocation observes its own iteration id: the id is stored in the worker's handle, so no two running workers — of this pool or of an earlier stage's pool whose iteration is still in flight — may share a handle: every pool builds its own per-worker states (shared with C07.R5)", "C07", []string{"C07.R5"}, nil, 1)
	imported("C20", "C20.R6", "a component's failure or stop is booked on that iteration's handle: every pool builds its own per-worker states, so an iteration overrunning its stage does not share a handle with an iteration of the next stage (shared with C07.R5)", "C07", []string{"C07.R5"}, nil, 1)
	imported("C20", "C20.R4", "a stop inside a component unwinds to the runner's frame: recover is called only by the classifier deferred from frames that call user code, and the pooled handle is fully reset between iterations (shared with C07.R4, C07.R6)", "C07", []string{"C07.R4", "C07.R6"}, nil, 3)
}

// mayRunAfter reports whether event w can execute after event s (same root), defers running last-in first-out
// when their frame exits.
func mayRunAfter(w, s an.Event) bool {
	cw, cs := an.Chain(w), an.Chain(s)
	for i := 0; i < len(cw) && i < len(cs); i++ {
		if cw[i] == cs[i] {
			continue
		}
		_, dw := cw[i].(*ssa.Defer)
		_, ds := cs[i].(*ssa.Defer)
		switch {
		case dw && ds:
			return an.ReachableFrom(cw[i], cs[i])
		case dw:
			return an.ReachableFrom(cw[i], cs[i]) || an.ReachableFrom(cs[i], cw[i])
		case ds:
			return false
		default:
			return an.ReachableFrom(cs[i], cw[i])
		}
	}
	return false
}

func summaryAfterWrites(c *core.Ctx, r *core.Report) {
	do, _ := runDo(c)
	if do == nil {
		r.Undecided("anchor", "-", "the run's Do not found")
		return
	}
	isSummary := func(_ ssa.CallInstruction, t *ssa.Function) bool {
		if t == nil || !isMethodOf(t, runPkg, "Result") || t.Signature.Results().Len() != 1 {
			return false
		}
		return strings.Contains(t.Signature.Results().At(0).Type().String(), "views.ResultData")
	}
	writes := func(t *ssa.Function) bool {
		if t == nil || !isMethodOf(t, runPkg, "Result") || t.Blocks == nil {
			return false
		}
		w := false
		an.Instrs(t, func(in ssa.Instruction) {
			if st, ok := in.(*ssa.Store); ok {
				if fa, ok := st.Addr.(*ssa.FieldAddr); ok && len(t.Params) > 0 && an.Strip(fa.X) == ssa.Value(t.Params[0]) {
					w = true
				}
			}
		})
		return w
	}
	sums := an.FlatCalls(do, flatDepth, isSummary)
	if !r.Floor("summary renderings in Do", len(sums), 1) {
		return
	}
	ws := an.FlatCalls(do, flatDepth, func(_ ssa.CallInstruction, t *ssa.Function) bool { return writes(t) })
	r.Floor("result writes in Do", len(ws), 3)
	for _, s := range sums {
		for _, w := range ws {
			key := core.FuncName(do) + "#summary-after:" + an.Callee(w.Call()).Name() + "@" + core.FuncName(w.Instr.Parent())
			r.Check(!mayRunAfter(w, s), key, an.Pos(c, w.Instr), "runs before the summary is rendered", "this write of the result ("+an.Callee(w.Call()).Name()+") can execute after the summary was rendered at "+an.Pos(c, s.Instr)+": the banner and counts printed are not those of the result the run returns")
		}
	}
}

// edgeOnlyWhenEmpty: edge i of phi is reached only under a test implying len(p) == 0 for a slice parameter p of fn.
func edgeOnlyWhenEmpty(phi *ssa.Phi, i int, fn *ssa.Function) (bool, string) {
	to := phi.Block()
	b := to.Preds[i]
	for {
		if _, isIf := b.Instrs[len(b.Instrs)-1].(*ssa.If); isIf {
			break
		}
		if len(b.Preds) != 1 || len(b.Instrs) != 1 {
			return false, "the default is not selected by a test of the list's length"
		}
		to, b = b, b.Preds[0]
	}
	iff := b.Instrs[len(b.Instrs)-1].(*ssa.If)
	taken := b.Succs[0] == to
	bo, ok := an.Strip(iff.Cond).(*ssa.BinOp)
	if !ok {
		return false, "the default is not selected by a test of the list's length"
	}
	x, y, op := bo.X, bo.Y, bo.Op
	if _, isK := x.(*ssa.Const); isK {
		x, y = y, x
		switch op {
		case token.LSS:
			op = token.GTR
		case token.GTR:
			op = token.LSS
		case token.LEQ:
			op = token.GEQ
		case token.GEQ:
			op = token.LEQ
		}
	}
	call, isCall := an.Strip(x).(*ssa.Call)
	k, isK := y.(*ssa.Const)
	if !isCall || !an.IsBuiltinCall(call, "len") || !isK || k.Value == nil {
		return false, "the default is not selected by a test of the list's length"
	}
	if _, isParam := an.Strip(call.Call.Args[0]).(*ssa.Parameter); !isParam {
		return false, "the length tested is not that of a parameter"
	}
	n := k.Int64()
	if !taken {
		switch op {
		case token.GTR:
			op = token.LEQ
		case token.GEQ:
			op = token.LSS
		case token.LSS:
			op = token.GEQ
		case token.LEQ:
			op = token.GTR
		case token.EQL:
			op = token.NEQ
		case token.NEQ:
			op = token.EQL
		}
	}
	// on this edge: len op n; it must imply len <= 0
	implies := (op == token.LEQ && n <= 0) || (op == token.LSS && n <= 1) || (op == token.EQL && n == 0)
	return implies, sprintf("on this edge len(%s) %s %d", an.D().Of(call.Call.Args[0]), op, n)
}

// returnOnlyWhenEmpty: the return is guarded by a test implying len(p) == 0 for a slice parameter p.
func returnOnlyWhenEmpty(ret *ssa.Return) (bool, string) {
	for _, g := range an.GuardsOf(ret.Block()) {
		bo, ok := g.Cond.(*ssa.BinOp)
		if !ok {
			continue
		}
		x, y, op := bo.X, bo.Y, bo.Op
		if _, isK := x.(*ssa.Const); isK {
			x, y = y, x
			op = map[token.Token]token.Token{token.LSS: token.GTR, token.LEQ: token.GEQ, token.GTR: token.LSS, token.GEQ: token.LEQ, token.EQL: token.EQL, token.NEQ: token.NEQ}[op]
		}
		call, isCall := an.Strip(x).(*ssa.Call)
		k, isK := y.(*ssa.Const)
		if !isCall || !an.IsBuiltinCall(call, "len") || !isK || k.Value == nil {
			continue
		}
		if _, isParam := an.Strip(call.Call.Args[0]).(*ssa.Parameter); !isParam {
			continue
		}
		if !g.Polarity {
			op = negateCmp(op)
		}
		n := k.Int64()
		if (op == token.LEQ && n <= 0) || (op == token.LSS && n <= 1) || (op == token.EQL && n == 0) {
			return true, ""
		}
		return false, sprintf("returned under len(%s) %s %d", an.D().Of(call.Call.Args[0]), op, n)
	}
	return false, "not guarded by a test of the list's length"
}

// literalLeafFieldStores is LiteralFieldStores that also lists the fields of struct values nested in the literal.
func literalLeafFieldStores(al ssa.Value) map[string][]ssa.Value {
	out := map[string][]ssa.Value{}
	var walk func(base ssa.Value, depth int)
	walk = func(base ssa.Value, depth int) {
		for _, ref := range an.Referrers(base) {
			fa, ok := ref.(*ssa.FieldAddr)
			if !ok || fa.X != base {
				continue
			}
			name := an.FieldOfAddr(fa).Name()
			for _, st := range an.StoresTo(fa) {
				out[name] = append(out[name], st.Val)
			}
			if _, isStruct := an.FieldOfAddr(fa).Type().Underlying().(*types.Struct); isStruct && depth < 2 {
				walk(fa, depth+1)
			}
		}
	}
	walk(al, 0)
	return out
}

// reportsOutcome: fn returns a single bool, and both `true` and `false` are returned as constants (a try-operation
// telling its caller whether it took effect).
func reportsOutcome(fn *ssa.Function) bool {
	res := fn.Signature.Results()
	if res.Len() != 1 {
		return false
	}
	if b, ok := res.At(0).Type().Underlying().(*types.Basic); !ok || b.Kind() != types.Bool {
		return false
	}
	sawT, sawF := false, false
	var visit func(v ssa.Value, depth int)
	visit = func(v ssa.Value, depth int) {
		switch x := v.(type) {
		case *ssa.Const:
			if x.Value != nil && x.Value.Kind() == constant.Bool {
				if constant.BoolVal(x.Value) {
					sawT = true
				} else {
					sawF = true
				}
			}
		case *ssa.Phi:
			if depth > 0 {
				for _, e := range x.Edges {
					visit(e, depth-1)
				}
			}
		}
	}
	for _, ret := range an.Returns(fn) {
		visit(ret.Results[0], 3)
	}
	return sawT && sawF
}
