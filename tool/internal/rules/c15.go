package rules

import (
	"go/token"
	"go/types"
	"sort"
	"strings"

	"golang.org/x/tools/go/ssa"

	"f1verif/internal/an"
	"f1verif/internal/core"
)

func init() { register("C15", c15) }

// paramFieldAlias: which config field a Calculate*Rate parameter means (reason: the flag it is fed from on the CLI path).
var paramFieldAlias = map[string]string{
	"jitterarg":           "Jitter",             // --jitter
	"jitter":              "Jitter",             // --jitter (gaussian)
	"ratearg":             "Rate",               // --rate
	"distributiontypearg": "Distribution",       // --distribution
	"startratearg":        "StartRate",          // --start-rate
	"endratearg":          "EndRate",            // --end-rate
	"duration":            "Duration",           // --ramp-duration / stage duration
	"frequency":           "IterationFrequency", // --iteration-frequency
	"stg":                 "Stages",             // --stages
	"volume":              "Volume",             // --volume
	"repeat":              "Repeat",             // --repeat
	"peak":                "Peak",               // --peak
	"stddev":              "StandardDeviation",  // --standard-deviation
	"weightsarg":          "Weights",            // --weights
}

func c15(c *core.Ctx, r *core.Report) {
	r.Explanation = "Decides the structure of config-file planning and staging: (R1) skip rule — the cumulative duration is increased by every stage's own duration unconditionally and before the test, the test is stageStart == nil ∨ stageStart.Add(cumulative).After(now) on the post-increment value, kept stages are appended in loop order, and the total reported is that accumulator; " +
		"(R2) default inheritance copies the same-named default field (one frozen cross-name fallback) and the four rate modes treat distribution/jitter/parameters alike; (R3) every Calculate*Rate argument is the stage field that parameter means, and the runnable stage takes duration/parameters/users from the matching fields and interval/rate from that same call; " +
		"(R4) limits map one-to-one onto RunnableStages and api.Options and the trigger's duration is the total; (R5) stages run synchronously in slice order, each returns only after its goroutine finished, parameters are set before the stage goroutine starts and unset (same map) on every exit."
	r.NotDecided = []string{"time.Time arithmetic itself", "visibility of the environment inside user code"}
	fpkg := "internal/trigger/file"
	pcf := delegateTarget(c.MustFn(fpkg, "ParseConfigFile"))

	var totalPhi *ssa.Phi
	pcfEntry := pcf
	// the plan's field holding the total duration, by role: the Duration-typed field of RunnableStages that has no
	// namesake among the Limits
	totalFld := "stagesTotalDuration"
	if rs, _ := c.Named(fpkg, "RunnableStages").Underlying().(*types.Struct); rs != nil {
		lim, _ := c.Named(fpkg, "Limits").Underlying().(*types.Struct)
		var cands []string
		for i := 0; i < rs.NumFields(); i++ {
			f := rs.Field(i)
			if !an.IsNamed(f.Type(), "time", "Duration") {
				continue
			}
			namesake := false
			for j := 0; lim != nil && j < lim.NumFields(); j++ {
				if strings.EqualFold(lim.Field(j).Name(), f.Name()) {
					namesake = true
				}
			}
			if !namesake {
				cands = append(cands, f.Name())
			}
		}
		if len(cands) == 1 {
			totalFld = cands[0]
		}
	}
	// the planning loop may live in a helper of ParseConfigFile: R1 looks at the function holding the append of
	// runnable stages (by role), R4 resolves what ParseConfigFile returns through that helper
	for _, e := range an.FlatCalls(pcfEntry, flatDepth, func(call ssa.CallInstruction, _ *ssa.Function) bool {
		return an.IsBuiltinCall(call, "append") && strings.Contains(call.Common().Args[0].Type().String(), "runnableStage")
	}) {
		pcf = e.Instr.Parent()
	}
	rule(r, "C15.R1", "skip rule shape in ParseConfigFile", func() {
		// the After test (possibly inside a helper predicate)
		isTimeMethod := func(t *ssa.Function, name string) bool {
			return t != nil && t.Name() == name && t.Signature.Recv() != nil && an.IsNamed(t.Signature.Recv().Type(), "time", "Time")
		}
		var afterEv *an.Event
		for _, e := range an.FlatCalls(pcf, flatDepth, func(_ ssa.CallInstruction, t *ssa.Function) bool {
			return isTimeMethod(t, "After") || isTimeMethod(t, "Before")
		}) {
			e := e
			afterEv = &e
		}
		if afterEv == nil {
			r.Violation("ParseConfigFile#test", c.Pos(pcf.Pos()), "no `scheduled end After now` test: stages are not filtered by stage-start (or filtered by something else)")
			return
		}
		after, _ := afterEv.Instr.(*ssa.Call)
		// deref: the value (in ParseConfigFile's frame) behind loads and helper parameters
		deref := func(v ssa.Value) ssa.Value {
			for i := 0; i < 6; i++ {
				v = afterEv.Translate(an.Strip(v))
				u, ok := v.(*ssa.UnOp)
				if !ok || u.Op != token.MUL {
					break
				}
				if _, isParam := an.Strip(u.X).(*ssa.Parameter); !isParam {
					break
				}
				v = u.X
			}
			return v
		}
		isStageStart := func(v ssa.Value) bool {
			d := an.D().Of(deref(v))
			return strings.HasSuffix(d, ".Schedule.StageStart") || strings.HasSuffix(d, ".Schedule.StageStart)")
		}
		// `end.After(now)` and `now.Before(end)` are the same test
		endArg, nowArg := after.Call.Args[0], after.Call.Args[1]
		if isTimeMethod(an.Callee(after), "Before") {
			endArg, nowArg = nowArg, endArg
		}
		nowV := deref(nowArg)
		nowP, nowIsParam := nowV.(*ssa.Parameter)
		nowOK := nowIsParam && nowP.Parent() == pcf && an.IsNamed(nowP.Type(), "time", "Time")
		add, isAdd := an.Strip(endArg).(*ssa.Call)
		okAdd := isAdd && isTimeMethod(an.Callee(add), "Add") && isStageStart(add.Call.Args[0])
		if !(nowOK && okAdd) && isTimeMethod(an.Callee(after), "Before") {
			r.Violation("ParseConfigFile#test", an.Pos(c, after), "the skip test uses Before on the scheduled end: stages whose scheduled end is still in the future are dropped and finished ones kept")
			return
		}
		r.Check(nowOK && okAdd, "ParseConfigFile#test", an.Pos(c, after), "test is stageStart.Add(cumulative).After(now)", "the skip test is "+an.D().Of(after)+", expected stageStart.Add(cumulative).After(now)")
		if !okAdd {
			return
		}
		cum, isBin := an.Strip(deref(add.Call.Args[1])).(*ssa.BinOp)
		if !isBin || cum.Op != token.ADD {
			r.Violation("ParseConfigFile#cumulative", an.Pos(c, add), "the offset added to stage-start is %s, not the cumulative duration including this stage: a stage is judged by where it starts, not where it ends", an.D().Of(add.Call.Args[1]))
			return
		}
		phi, isPhi := cum.X.(*ssa.Phi)
		if !isPhi {
			phi, isPhi = cum.Y.(*ssa.Phi)
		}
		if !isPhi {
			r.Violation("ParseConfigFile#cumulative", an.Pos(c, cum), "the cumulative duration is not a loop accumulator")
			return
		}
		term := cum.Y
		if cum.Y == ssa.Value(phi) {
			term = cum.X
		}
		td := an.D().Of(term)
		// this stage's own (validated) duration: the Duration field of a Stage value obtained, in this pass of the loop,
		// from the loop's element (the element itself or the result of a call made on it)
		incFld, incOwner := an.TerminalField(term)
		okInc := incFld != nil && incFld.Name() == "Duration" && an.IsNamed(incOwner, filePkg, "Stage")
		if okInc {
			if in, isIn := an.Strip(term).(ssa.Instruction); isIn {
				loop, _ := an.NaturalLoopOf(cum.Block())
				okInc = loop != nil && loop[in.Block()]
			}
		}
		r.Check(okInc, "ParseConfigFile#increment", an.Pos(c, cum), "increment is this stage's validated Duration", "the accumulator is increased by "+td+", not by the stage's own duration")
		// unconditional: every loop-carried edge of the accumulator is the incremented value
		uncond := true
		init := false
		for _, e := range phi.Edges {
			if k, ok := e.(*ssa.Const); ok && k.Int64() == 0 {
				init = true
				continue
			}
			if e != ssa.Value(cum) {
				uncond = false
			}
		}
		r.Check(uncond && init, "ParseConfigFile#unconditional", an.Pos(c, cum), "cumulative += duration on every iteration (all loop-carried edges carry the incremented value), starting at 0", "the cumulative duration is not increased on every iteration (skipped stages do not count): later stages are judged against too early an end, and the total duration shrinks")
		totalPhi = phi
		// kept branch: append guarded by (stageStart == nil) or After
		var app *ssa.Call
		for _, call := range an.AllCalls(pcf) {
			if an.IsBuiltinCall(call, "append") && strings.Contains(call.Common().Args[0].Type().String(), "runnableStage") {
				app, _ = call.(*ssa.Call)
			}
		}
		if app == nil {
			r.Violation("ParseConfigFile#append", c.Pos(pcf.Pos()), "kept stages are not appended to the plan")
			return
		}
		// append target is the loop-carried slice: order preserved
		sp, okS := app.Call.Args[0].(*ssa.Phi)
		r.Check(okS && phiCycle(sp, app), "ParseConfigFile#order", an.Pos(c, app), "kept stages are appended to the plan in loop order", "kept stages are not appended at the end of the plan (order changed)")
		// which conditions lead from the increment (run on every iteration) to the append: enumerated as the
		// paths of one iteration, helper predicates expanded, and compared with the truth table of
		// stageStart == nil ∨ scheduledEnd.After(now)
		paths, err := an.PathsBetween(cum.Block(), app.Block(), 256)
		if err != nil {
			r.Undecided("ParseConfigFile#keep-condition", an.Pos(c, app), "%v", err)
			return
		}
		type kterm struct{ n, a int } // -1 unconstrained, 0 false, 1 true
		var terms []kterm
		var other []string
		for _, p := range paths {
			alts := [][]an.Lit{{}}
			for _, l := range p.Lits {
				var next [][]an.Lit
				for _, alt := range an.ExpandLit(l, flatDepth, nil) {
					for _, pre := range alts {
						next = append(next, append(append([]an.Lit(nil), pre...), alt...))
					}
				}
				alts = next
			}
			for _, alt := range alts {
				t := kterm{-1, -1}
				consistent := true
				set := func(cur *int, v bool) {
					iv := 0
					if v {
						iv = 1
					}
					if *cur != -1 && *cur != iv {
						consistent = false
					}
					*cur = iv
				}
				for _, l := range alt {
					cond := an.Strip(l.Cond)
					if cond == ssa.Value(after) {
						set(&t.a, l.Val)
						continue
					}
					if bo, ok := cond.(*ssa.BinOp); ok && (bo.Op == token.EQL || bo.Op == token.NEQ) {
						x, y := bo.X, bo.Y
						if isNilConst(x) {
							x, y = y, x
						}
						if isNilConst(y) {
							xv := l.T(an.Strip(x))
							xd := an.D().Of(xv)
							if strings.HasSuffix(xd, ".Schedule.StageStart") {
								set(&t.n, l.Val == (bo.Op == token.EQL))
								continue
							}
							if ex, isEx := an.Strip(x).(*ssa.Extract); isEx && types.Identical(ex.Type(), types.Universe.Lookup("error").Type()) {
								continue // error checks of this iteration's own calls
							}
						}
					}
					other = append(other, sprintf("%s=%v", an.D().Of(l.Cond), l.Val))
				}
				if consistent {
					terms = append(terms, t)
				}
			}
		}
		keepWhen := func(n, a int) bool {
			for _, t := range terms {
				if (t.n == -1 || t.n == n) && (t.a == -1 || t.a == a) {
					return true
				}
			}
			return false
		}
		table := sprintf("nil,·→%v/%v  set,after→%v  set,over→%v", keepWhen(1, 0), keepWhen(1, 1), keepWhen(0, 1), keepWhen(0, 0))
		okTable := keepWhen(1, 0) && keepWhen(1, 1) && keepWhen(0, 1) && !keepWhen(0, 0)
		r.Check(okTable && len(other) == 0, "ParseConfigFile#keep-condition", an.Pos(c, app), "a stage is kept iff stageStart == nil or its scheduled end is after now", sprintf("a stage is kept under {%s} (other conditions: %v), expected exactly stageStart == nil ∨ scheduledEnd.After(now)", table, other))
		// the appended element is this iteration's parsed stage
		ed := an.D().Of(app.Call.Args[1])
		if sl, ok := app.Call.Args[1].(*ssa.Slice); ok {
			if al, ok := sl.X.(*ssa.Alloc); ok {
				for _, ref := range an.Referrers(al) {
					if ia, ok := ref.(*ssa.IndexAddr); ok {
						for _, st := range an.StoresTo(ia) {
							ed = an.D().Of(st.Val)
						}
					}
				}
			}
		}
		r.Check(strings.Contains(ed, "parseStage("), "ParseConfigFile#element", an.Pos(c, app), "the element appended is the stage parsed in this iteration", "the element appended is "+ed)
	})

	rule(r, "C15.R2", "default inheritance: every `s.F = defaults.G` has F ≡ G (one frozen fallback: Default.Concurrency ← Limits.Concurrency); the four rate-mode validators all inherit Distribution, Jitter and Parameters", func() {
		n := 0
		perFn := map[string]map[string]bool{}
		ownInherit := map[string]bool{} // functions that copy a default in their own body (the validators)
		for _, fn := range c.AllFuncs {
			if core.RelPkg(fn) != fpkg {
				continue
			}
			if fn.Parent() != nil {
				continue
			}
			// through helpers (virtual inlining): a helper that receives the default as a parameter is seen with
			// the caller's argument
			an.Flatten(fn, flatDepth, nil, func(e an.Event) {
				in := e.Instr
				st, ok := in.(*ssa.Store)
				if !ok {
					return
				}
				dst := an.FieldOfAddr(st.Addr)
				if dst == nil || dst.Pkg() == nil || dst.Pkg().Path() != filePkg {
					return
				}
				if _, isPtr := dst.Type().Underlying().(*types.Pointer); !isPtr {
					return
				}
				own, ownOK := st.Val.(*ssa.UnOp)
				if e.Frame.Parent != nil && ownOK && ptrField(own) {
					return // decided with the helper itself as root
				}
				viaCoalesce := false
				u, ok := e.Translate(st.Val).(*ssa.UnOp)
				hc, isCall := st.Val.(*ssa.Call)
				if ex, isEx := st.Val.(*ssa.Extract); isEx && ex.Index == 0 {
					// `s.F, err = requiredField(s.F, defaults.G, …)`
					hc, isCall = ex.Tuple.(*ssa.Call)
				}
				if isCall && e.Frame.Parent == nil {
					// `s.F = orDefault(s.F, defaults.G, fallback)`: a coalescing helper preferring the stage's own value, then
					// the default, then a fresh value, is the inheritance block in one expression
					cs := coalesceOf(an.Callee(hc))
					if cs == nil && an.Callee(hc) != nil && core.InModule(an.Callee(hc)) {
						// a helper that is handed the stage's own value and a default but is not a plain nil-coalescing (it looks
						// at the values, has effects, or loops): what it returns for a value the stage did set is not decided
						ownSeen, defSeen := false, false
						var cand []ssa.Value
						for _, a := range hc.Call.Args {
							cand = append(cand, a)
							cand = append(cand, varargElems(a)...)
						}
						for _, a := range cand {
							au, isU := a.(*ssa.UnOp)
							if !isU || !ptrField(au) {
								continue
							}
							if an.SameField(an.FieldOfAddr(au.X), dst) && an.Strip(au.X.(*ssa.FieldAddr).X) == an.Strip(st.Addr.(*ssa.FieldAddr).X) {
								ownSeen = true
							} else {
								defSeen = true
							}
						}
						if ownSeen && defSeen {
							r.Violation(core.FuncName(fn)+"#"+dst.Name()+"←"+core.FuncName(an.Callee(hc))+"#only-when-unset", an.Pos(c, in), "%s is chosen between the stage's own value and a default by %s, which is not a plain `own if set, else default, else fallback`: a value the stage sets (for instance an explicit 0) can be replaced by the default", dst.Name(), core.FuncName(an.Callee(hc)))
							return
						}
					}
					if cs != nil {
						ownIdx, defIdx := -1, -1
						for i, a := range hc.Call.Args {
							au, isU := a.(*ssa.UnOp)
							if !isU || !ptrField(au) {
								continue
							}
							if an.SameField(an.FieldOfAddr(au.X), dst) && an.Strip(au.X.(*ssa.FieldAddr).X) == an.Strip(st.Addr.(*ssa.FieldAddr).X) {
								ownIdx = i
							} else {
								defIdx = i
							}
						}
						if ownIdx >= 0 && defIdx >= 0 {
							if !cs.prefers(ownIdx, defIdx) {
								r.Violation(core.FuncName(fn)+"#"+dst.Name()+"←"+core.FuncName(an.Callee(hc))+"#only-when-unset", an.Pos(c, in), "%s is computed by %s, which does not prefer the stage's own value over the default and the default over a fresh value", dst.Name(), core.FuncName(an.Callee(hc)))
								return
							}
							u, ok = hc.Call.Args[defIdx].(*ssa.UnOp), true
							viaCoalesce = true
						}
					}
				}
				if !ok || !ptrField(u) {
					return
				}
				src := an.FieldOfAddr(u.X)
				srcD, dstD := an.D().Of(u), an.D().Of(e.Translate(an.Strip(st.Addr.(*ssa.FieldAddr).X)))+"."+dst.Name()
				if e.Frame.Parent == nil {
					dstD = an.D().Of(st.Addr)
				}
				n++
				key := core.FuncName(fn) + "#" + dst.Name() + "←" + shortPath(srcD)
				if perFn[fn.Name()] == nil {
					perFn[fn.Name()] = map[string]bool{}
				}
				perFn[fn.Name()][dst.Name()] = true
				if e.Frame.Parent == nil {
					ownInherit[fn.Name()] = true
				}
				// inheritance fills a gap only: the store is guarded by "the stage's own value is nil" (in this frame or
				// in the caller of a helper); a default that overrides a value the stage did set changes the plan
				onlyWhenUnset := false
				for _, g := range an.GuardsOfEvent(e) {
					bo, isBin := g.Cond.(*ssa.BinOp)
					if !isBin || (bo.Op != token.EQL && bo.Op != token.NEQ) {
						continue
					}
					x, y := bo.X, bo.Y
					if isNilConst(x) {
						x, y = y, x
					}
					if !isNilConst(y) || (bo.Op == token.EQL) != g.Polarity {
						continue
					}
					if fa, isFA := an.Strip(g.T(x)).(*ssa.FieldAddr); isFA && an.SameField(an.FieldOfAddr(fa), dst) {
						onlyWhenUnset = true
					}
				}
				if viaCoalesce {
					onlyWhenUnset = true
				}
				if !onlyWhenUnset {
					r.Violation(key+"#only-when-unset", an.Pos(c, in), "%s is overwritten with the default %s also when the stage sets it itself (the store is not guarded by %s == nil): an explicit value is silently replaced", dstD, srcD, dst.Name())
					return
				}
				if src.Name() == dst.Name() {
					r.OK(key, an.Pos(c, in), "%s ← %s, only when unset", dstD, srcD)
					return
				}
				if dstD == "$recv.Default.Concurrency" && srcD == "$recv.Limits.Concurrency" {
					r.OK(key, an.Pos(c, in), "frozen exception: the users default falls back to the global concurrency limit (documented), only when unset")
					return
				}
				r.Violation(key, an.Pos(c, in), "%s inherits %s: a stage that omits %s silently takes the default of a different option", dstD, srcD, dst.Name())
			})
		}
		r.Floor("default-inheritance assignments", n, 16)
		// siblings agree: every validator that inherits one of the rate-mode options inherits all of them; the users
		// validator (the one inheriting Concurrency into a stage) inherits Parameters; some validator inherits the
		// options common to all stages
		modeValidators := 0
		var names []string
		for name := range perFn {
			names = append(names, name)
		}
		sort.Strings(names)
		for _, name := range names {
			got := perFn[name]
			if !ownInherit[name] {
				continue // sees the validators' stores only through calls
			}
			if got["Distribution"] || got["Jitter"] {
				modeValidators++
				for _, f := range []string{"Distribution", "Jitter", "Parameters"} {
					r.Check(got[f], name+"#inherits-"+f, "-", name+" inherits "+f+" from the defaults", name+" does not inherit "+f+" from the default section, unlike its sibling validators")
				}
			}
			if got["Concurrency"] && name != "validateCommonFields" && !got["Duration"] {
				r.Check(got["Parameters"], name+"#inherits-Parameters", "-", "users stages inherit Parameters", name+" does not inherit Parameters")
			}
		}
		r.Floor("rate-mode validators", modeValidators, 4)
		common := map[string]bool{}
		for _, got := range perFn {
			for f := range got {
				common[f] = true
			}
		}
		for _, f := range []string{"Duration", "Mode", "Concurrency"} {
			r.Check(common[f], "defaults#inherits-"+f, "-", "stages inherit "+f, "no validator inherits "+f+" from the default section")
		}
	})

	rule(r, "C15.R3", "parseStage passes each Calculate*Rate parameter the stage field it means; the runnable stage takes StageDuration/Params/UsersConcurrency from Duration/Parameters/Concurrency and IterationDuration/Rate from that same call's result", func() {
		ps := c.MustFn(fpkg, "Stage.parseStage")
		nCalls := 0
		for _, call := range an.AllCalls(ps) {
			t := an.Callee(call)
			if t == nil || !strings.HasPrefix(t.Name(), "Calculate") || !strings.HasSuffix(t.Name(), "Rate") {
				continue
			}
			nCalls++
			for i, p := range t.Params {
				if i >= len(call.Common().Args) {
					break
				}
				arg := call.Common().Args[i]
				key := "parseStage#" + t.Name() + "(" + p.Name() + ")"
				want, known := paramFieldAlias[strings.ToLower(p.Name())]
				d := an.D().Of(arg)
				if p.Name() == "startTime" {
					r.Check(d == "nil", key, an.Pos(c, call), "stages inside a config file start when the stage starts (nil start time)", "startTime is "+d)
					continue
				}
				if !known {
					r.Note(key, an.Pos(c, call), "new parameter %s has no entry in the correspondence table (information)", p.Name())
					continue
				}
				r.Check(strings.HasSuffix(d, "."+want), key, an.Pos(c, call), p.Name()+" ← "+shortPath(d), "parameter "+p.Name()+" of "+t.Name()+" receives "+shortPath(d)+", expected the stage's "+want)
			}
		}
		r.Floor("Calculate*Rate calls in parseStage", nCalls, 4)
		// runnableStage literals
		nLit := 0
		for _, ret := range an.Returns(ps) {
			if !isNilConst(ret.Results[1]) {
				continue
			}
			lit := an.StructLiteralOf(ret.Results[0])
			if lit == nil {
				continue
			}
			nLit++
			lf := an.LiteralFields(lit)
			key := sprintf("parseStage#runnableStage%d", nLit)
			want := map[string]string{"StageDuration": "Duration", "Params": "Parameters", "UsersConcurrency": "Concurrency"}
			for f, src := range want {
				if v, ok := lf[f]; ok {
					d := an.D().Of(v)
					r.Check(strings.HasSuffix(d, "."+src), key+"."+f, an.Pos(c, ret), f+" ← "+shortPath(d), "runnableStage."+f+" is fed from "+shortPath(d)+", expected the stage's "+src)
				}
			}
			if _, ok := lf["StageDuration"]; !ok {
				r.Violation(key+".StageDuration", an.Pos(c, ret), "a runnable stage is built without its duration")
			}
			iv, okI := lf["IterationDuration"]
			rv, okR := lf["Rate"]
			if okI != okR {
				r.Violation(key+".rate-pair", an.Pos(c, ret), "a runnable stage sets only one of IterationDuration / Rate")
			}
			if okI && okR && alwaysZeroRate(rv) {
				// a stage that requests nothing at any tick (a pause): every tick interval goes with it
				r.OK(key+".rate-pair", an.Pos(c, ret), "the rate is the constant 0: no load, whatever the interval")
			} else if okI && okR {
				fi, _ := an.TerminalField(iv)
				fr, _ := an.TerminalField(rv)
				var ci, cr ssa.Value
				if u, ok := iv.(*ssa.UnOp); ok {
					if fa, ok := u.X.(*ssa.FieldAddr); ok {
						ci = an.Strip(fa.X)
					}
				}
				if u, ok := rv.(*ssa.UnOp); ok {
					if fa, ok := u.X.(*ssa.FieldAddr); ok {
						cr = an.Strip(fa.X)
					}
				}
				same := ci != nil && ci == cr && fi != nil && fr != nil && fi.Name() == "IterationDuration" && fr.Name() == "Rate"
				r.Check(same, key+".rate-pair", an.Pos(c, ret), "IterationDuration and Rate come from the same Calculate*Rate result", "IterationDuration ("+shortPath(an.D().Of(iv))+") and Rate ("+shortPath(an.D().Of(rv))+") do not come from the same rate calculation")
			}
		}
		r.Floor("runnableStage literals", nLit, 5)
	})

	rule(r, "C15.R4", "limits map one-to-one: Limits.X → RunnableStages.X → api.Options.X (same name), Scenario → Scenario, the plan's total duration is the loop accumulator and becomes Trigger.Duration", func() {
		for _, ret := range an.Returns(pcfEntry) {
			if !isNilConst(ret.Results[1]) {
				continue
			}
			lit := an.StructLiteralOf(ret.Results[0])
			if lit == nil {
				r.Undecided("ParseConfigFile#literal", an.Pos(c, ret), "RunnableStages is not returned as a literal")
				continue
			}
			lf := an.LiteralFields(lit)
			for f, v := range lf {
				d := an.D().Of(v)
				key := "RunnableStages." + f
				switch f {
				case "Stages":
					rd := an.D().Of(an.RootFV(pcfEntry, v).Resolve(nil).V)
					r.Check(strings.HasPrefix(rd, "phi(") || strings.Contains(rd, "append("), key, an.Pos(c, ret), "the kept stages", "Stages is "+shortPath(d))
				case totalFld:
					r.Check(totalPhi != nil && an.RootFV(pcfEntry, v).Resolve(nil).V == ssa.Value(totalPhi), key, an.Pos(c, ret), "total duration is the accumulator over all stages", "the total duration reported is "+shortPath(d)+", not the sum over all stages of the file")
				case "Scenario":
					r.Check(strings.HasSuffix(d, "#0.Scenario"), key, an.Pos(c, ret), "← "+shortPath(d), "Scenario is fed from "+shortPath(d))
				default:
					want := strings.ToUpper(f[:1]) + f[1:]
					if lim, _ := c.Named(fpkg, "Limits").Underlying().(*types.Struct); lim != nil {
						has := false
						for j := 0; j < lim.NumFields(); j++ {
							if lim.Field(j).Name() == want {
								has = true
							}
						}
						if !has {
							// a figure of the plan that is not one of the file's limits (a count of skipped stages, …)
							r.Note(key, an.Pos(c, ret), "%s is not a limit of the file: ← %s", f, shortPath(d))
							continue
						}
					}
					r.Check(strings.HasSuffix(d, "#0.Limits."+want), key, an.Pos(c, ret), "← "+shortPath(d), "RunnableStages."+f+" is fed from "+shortPath(d)+", expected Limits."+want)
				}
			}
			for _, must := range []string{"Stages", totalFld, "Scenario", "MaxDuration", "Concurrency", "MaxIterations", "maxFailures", "maxFailuresRate", "IgnoreDropped"} {
				if _, ok := lf[must]; !ok {
					r.Violation("RunnableStages."+must, an.Pos(c, ret), "RunnableStages.%s is never set", must)
				}
			}
		}
		// the file builder
		n := 0
		for _, fn := range c.AllFuncs {
			if core.RelPkg(fn) != fpkg {
				continue
			}
			for _, ret := range an.Returns(fn) {
				if len(ret.Results) == 0 {
					continue
				}
				lit := an.StructLiteralOf(ret.Results[0])
				if lit == nil || !an.IsNamed(lit.Type(), apiPkg, "Trigger") {
					continue
				}
				n++
				lf := an.LiteralFields(lit)
				if v, ok := lf["Duration"]; ok {
					d := an.D().Of(v)
					r.Check(strings.HasSuffix(d, "#0."+totalFld) || fromPlanField(v, totalFld), "file.Trigger.Duration", an.Pos(c, ret), "Trigger.Duration ← "+shortPath(d), "the file trigger's Duration is "+shortPath(d)+", not the plan's total duration")
				} else {
					r.Violation("file.Trigger.Duration", an.Pos(c, ret), "the file trigger does not report its total duration")
				}
				// Options literal: nested struct stored field by field
				for _, ref := range an.Referrers(lit) {
					fa, ok := ref.(*ssa.FieldAddr)
					if !ok || an.FieldOfAddr(fa).Name() != "Options" {
						continue
					}
					for name, v := range an.LiteralFields(fa) {
						d := an.D().Of(v)
						want := name
						alt := strings.ToLower(name[:1]) + name[1:]
						r.Check(strings.HasSuffix(d, "#0."+want) || strings.HasSuffix(d, "#0."+alt) || fromPlanField(v, want) || fromPlanField(v, alt), "file.Options."+name, an.Pos(c, ret), name+" ← "+shortPath(d), "api.Options."+name+" is fed from "+shortPath(d)+", expected RunnableStages."+want)
					}
				}
			}
		}
		r.Floor("file trigger literals", n, 1)
	})

	rule(r, "C15.R5", "run time: stages are run by a synchronous call in slice order; runStage returns only after its stage goroutine closed stageDone; setEnvs precedes the goroutine and unsetEnvs of the same map runs on every exit; both walk the same map", func() {
		rs := c.MustFn(fpkg, "runStage")
		// callers
		for _, call := range an.CallSitesOf(c, rs) {
			fn := call.Parent()
			key := core.FuncName(fn) + "#runStage"
			if _, isCall := call.(*ssa.Call); !isCall {
				r.Violation(key, an.Pos(c, call), "runStage is started with go/defer: stages overlap instead of running one after another")
				continue
			}
			arg := call.Common().Args[3]
			ia, ok := an.Strip(arg).(*ssa.IndexAddr)
			okOrder := ok && isCounter(ia.Index)
			if okOrder {
				_, okOrder = forwardBound(call.Block(), ia.Index, ia.X, func(a, b ssa.Value) bool { return a == b })
			}
			r.Check(okOrder, key, an.Pos(c, call), "synchronous call per stage, in slice order", "stages are not run in the order of the plan (argument "+an.D().Of(arg)+")")
		}
		// stageDone
		var done *ssa.MakeChan
		an.Instrs(rs, func(in ssa.Instruction) {
			if mc, ok := in.(*ssa.MakeChan); ok {
				done = mc
			}
		})
		if done == nil {
			r.Undecided("runStage#stageDone", c.Pos(rs.Pos()), "no completion channel in runStage")
			return
		}
		isDone := func(v ssa.Value) bool { return stripAllocs(v) == ssa.Value(done) }
		for _, ret := range an.Returns(rs) {
			waited := returnAfterRecv(rs, ret, isDone, 2)
			r.Check(waited, "runStage#joins-stage", an.Pos(c, ret), "this return is reached only after stageDone", "runStage can return while its stage goroutine is still triggering: the next stage overlaps it")
		}
		// env pairing, seen through helpers and deferred literals: the os.Setenv / os.Unsetenv calls reached from runStage
		osCalls := func(name string) []an.Event {
			return an.FlatCalls(rs, flatDepth, func(_ ssa.CallInstruction, t *ssa.Function) bool { return an.IsFunc(t, "os", name) })
		}
		sets, unsetEvs := osCalls("Setenv"), osCalls("Unsetenv")
		if len(sets) == 0 || len(unsetEvs) == 0 {
			r.Violation("runStage#env", c.Pos(rs.Pos()), "stage parameters are not both set and unset in runStage")
			return
		}
		// each walks a map: key (and value) are the range's own key (and value); the map, seen from runStage
		walked := func(e an.Event, withValue bool) (an.FV, bool) {
			args := e.Call().Common().Args
			key, ok := an.Strip(args[0]).(*ssa.Extract)
			if !ok || key.Index != 1 {
				return an.FV{}, false
			}
			nx, ok := key.Tuple.(*ssa.Next)
			if !ok {
				return an.FV{}, false
			}
			if withValue {
				val, ok := an.Strip(args[1]).(*ssa.Extract)
				if !ok || val.Index != 2 || val.Tuple != key.Tuple {
					return an.FV{}, false
				}
			}
			rg, ok := nx.Iter.(*ssa.Range)
			if !ok {
				return an.FV{}, false
			}
			return an.EventFV(e, rg.X).Resolve(nil), true
		}
		setMap, okS := walked(sets[0], true)
		unsetMap, okU := walked(unsetEvs[0], false)
		r.Check(okS, "setEnvs#walk", an.Pos(c, sets[0].Instr), "os.Setenv is applied to every key and value of a map", "os.Setenv is not applied to the keys and values of the map walked")
		r.Check(okU, "unsetEnvs#walk", an.Pos(c, unsetEvs[0].Instr), "os.Unsetenv is applied to every key of a map", "os.Unsetenv is not applied to the keys of the map walked")
		if !okS || !okU {
			return
		}
		sameMap := sameHandle(setMap, unsetMap)
		fld, _ := an.TerminalField(setMap.V)
		r.Check(sameMap && fld != nil && fld.Name() == "Params", "runStage#same-map", an.Pos(c, unsetEvs[0].Instr), "set and unset use the stage's own parameter map "+an.D().Of(setMap.V), "parameters set from "+an.D().Of(setMap.V)+" but unset from "+an.D().Of(unsetMap.V)+": variables remain in the environment after the run")
		set, unset := sets[0].Root(), unsetEvs[0].Root()
		for _, g := range an.GoSites(rs) {
			r.Check(an.Dominates(set, g) || (an.InLoop(set) && set.Block().Dominates(g.Block()) == false && an.ReachableFrom(set, g) && !an.ReachableFrom(g, set)), "runStage#set-before-stage", an.Pos(c, g), "parameters are in the environment before the stage goroutine starts", "the stage goroutine starts before its parameters are set")
		}
		released := true
		if _, isDefer := unset.(*ssa.Defer); isDefer {
			released = dominatesAllReturns(unset, rs)
		} else {
			esc := an.EscapesWithout(set, func(in ssa.Instruction) bool { return in == unset })
			released = esc == nil
			if esc != nil {
				r.Violation("runStage#unset-on-every-exit", an.Pos(c, esc), "this return is reachable after setEnvs without unsetEnvs: when the run is cancelled mid-stage the stage's parameters stay in the environment")
			}
		}
		if released {
			r.OK("runStage#unset-on-every-exit", an.Pos(c, unset), "unsetEnvs runs on every exit after setEnvs")
		} else if _, isDefer := unset.(*ssa.Defer); isDefer {
			r.Violation("runStage#unset-on-every-exit", an.Pos(c, unset), "the deferred unsetEnvs does not cover every return")
		}
		// the same pairing wherever else the package puts parameters into the environment (parameters shared by all
		// stages, set around the stage loop): after the helper that sets them was called, every exit of that function
		// passes the helper that removes them
		reaches := func(f *ssa.Function, name string) bool {
			if f == nil || core.RelPkg(f) != fpkg || f.Blocks == nil {
				return false
			}
			return len(an.FlatCalls(f, 2, func(_ ssa.CallInstruction, t *ssa.Function) bool { return an.IsFunc(t, "os", name) })) > 0
		}
		for _, fn := range c.AllFuncs {
			if core.RelPkg(fn) != fpkg || an.Outermost(fn) == rs || reaches(fn, "Setenv") && fn.Parent() == nil && len(an.CallSitesOf(c, fn)) > 0 && !reaches(fn, "Unsetenv") {
				continue
			}
			nth := 0
			for _, call := range an.AllCalls(fn) {
				if _, isDefer := call.(*ssa.Defer); isDefer || !reaches(an.Callee(call), "Setenv") || reaches(an.Callee(call), "Unsetenv") {
					continue
				}
				nth++
				key := core.FuncName(fn) + "#unset-on-every-exit" + itoa(nth)
				isUnset := func(in ssa.Instruction) bool {
					ci, ok := in.(ssa.CallInstruction)
					return ok && reaches(an.Callee(ci), "Unsetenv") && !reaches(an.Callee(ci), "Setenv")
				}
				covered := false
				an.Instrs(fn, func(in ssa.Instruction) {
					if d, isDefer := in.(*ssa.Defer); isDefer && isUnset(d) && dominatesAllReturns(d, fn) {
						covered = true
					}
				})
				if covered {
					r.OK(key, an.Pos(c, call), "a deferred removal covers every exit")
					continue
				}
				esc := an.EscapesWithout(call, func(in ssa.Instruction) bool {
					if _, isDefer := in.(*ssa.Defer); isDefer {
						return false
					}
					return isUnset(in)
				})
				if esc != nil {
					r.Violation(key, an.Pos(c, esc), "this exit is reachable after parameters were put into the environment here without removing them: when the run is cancelled or ends early they remain set after the run")
				} else {
					r.OK(key, an.Pos(c, call), "every exit after this call removes the parameters again")
				}
			}
		}
	})
}

// returnAfterRecv: the return is reached only after a receive from the channel isDone recognises — an explicit
// receive or select arm dominating it, a select all of whose other arms receive from it before reaching the
// return, or a call of a helper of the module that itself returns only after receiving from the channel handed to it.
func returnAfterRecv(fn *ssa.Function, ret *ssa.Return, isDone func(ssa.Value) bool, depth int) bool {
	waited := false
	an.Instrs(fn, func(in ssa.Instruction) {
		if !an.Dominates(in, ret) {
			return
		}
		if u, ok := in.(*ssa.UnOp); ok && u.Op == token.ARROW && isDone(u.X) {
			waited = true
		}
		if call, ok := in.(*ssa.Call); ok && depth > 0 {
			t := an.Callee(call)
			if t == nil || !core.InModule(t) || t.Blocks == nil {
				return
			}
			for i, a := range call.Call.Args {
				if !isDone(a) || i >= len(t.Params) {
					continue
				}
				p := t.Params[i]
				all := len(an.Returns(t)) > 0
				for _, hr := range an.Returns(t) {
					if !returnAfterRecv(t, hr, func(v ssa.Value) bool { return stripAllocs(v) == ssa.Value(p) }, depth-1) {
						all = false
					}
				}
				if all {
					waited = true
				}
			}
		}
	})
	if sel, idx := an.ArmOf(ret); sel != nil && idx >= 0 && isDone(sel.States[idx].Chan) {
		waited = true
	}
	// returns after the select statement (fallthrough of an arm)
	if !waited {
		for _, sel := range an.Selects(fn) {
			if !an.Dominates(sel, ret) {
				continue
			}
			all := true
			for idx, arm := range an.SelectArms(sel) {
				if isDone(sel.States[idx].Chan) {
					continue
				}
				got := false
				for _, in := range arm.Instrs {
					if u, ok := in.(*ssa.UnOp); ok && u.Op == token.ARROW && isDone(u.X) {
						got = true
					}
				}
				if !got && an.ReachableFrom(arm.Instrs[0], ret) {
					all = false
				}
			}
			waited = all
		}
	}
	return waited
}

// fromPlanField: v is a load of the named field of a RunnableStages value (the plan ParseConfigFile built, however
// it reached this function: a call result, a parameter or a method receiver).
// alwaysZeroRate: the rate function returns the constant 0 on every path.
func alwaysZeroRate(v ssa.Value) bool {
	var f *ssa.Function
	switch x := an.Strip(v).(type) {
	case *ssa.Function:
		f = x
	case *ssa.MakeClosure:
		f, _ = x.Fn.(*ssa.Function)
	case *ssa.ChangeType:
		return alwaysZeroRate(x.X)
	}
	if f == nil || f.Blocks == nil {
		return false
	}
	rets := an.Returns(f)
	for _, ret := range rets {
		k, ok := ret.Results[0].(*ssa.Const)
		if !ok || k.Value == nil || k.Int64() != 0 {
			return false
		}
	}
	return len(rets) > 0
}

func fromPlanField(v ssa.Value, name string) bool {
	fld, owner := an.TerminalField(v)
	return fld != nil && fld.Name() == name && an.IsNamed(owner, filePkg, "RunnableStages")
}
