package rules

import (
	"go/token"
	"go/types"

	"golang.org/x/tools/go/ssa"

	"f1verif/internal/an"
	"f1verif/internal/core"
)

// Rejecting tests, seen through helpers.
//
// A validation "rejects when C" if the branch on C leads only to returns carrying a non-nil error — in the
// function under inspection itself, or in a helper it calls whose error result the caller tests and turns into
// its own error return. rejectingTests enumerates the branches of root (and of its helpers, virtually inlined)
// whose one side rejects, and hands each comparison to the visitor with its operands resolved to root's frame
// where possible.

type rejectTest struct {
	Ev     an.Event    // the If
	Op     token.Token // comparison under which the input is REJECTED (negated when the false side rejects)
	X, Y   an.FV       // operands, resolved
	RawX   ssa.Value
	RawY   ssa.Value
	Cond   *ssa.BinOp
	OnTrue bool
}

func errIndex(fn *ssa.Function) int {
	res := fn.Signature.Results()
	for i := res.Len() - 1; i >= 0; i-- {
		if types.Identical(res.At(i).Type(), types.Universe.Lookup("error").Type()) {
			return i
		}
	}
	return -1
}

// sideRejects: every return reachable from block b (without leaving fn) carries a non-nil error.
func sideRejects(b *ssa.BasicBlock, fn *ssa.Function) bool {
	ei := errIndex(fn)
	if ei < 0 {
		return false
	}
	seen := map[*ssa.BasicBlock]bool{}
	var stack []*ssa.BasicBlock
	stack = append(stack, b)
	found := false
	for len(stack) > 0 {
		x := stack[len(stack)-1]
		stack = stack[:len(stack)-1]
		if seen[x] {
			continue
		}
		seen[x] = true
		switch t := x.Instrs[len(x.Instrs)-1].(type) {
		case *ssa.Return:
			v := t.Results[ei]
			if isNilConst(v) {
				return false
			}
			if phi, ok := v.(*ssa.Phi); ok {
				// a merged result: the edge taken from this side must not be nil; approximate by requiring no nil edge
				for _, e := range phi.Edges {
					if isNilConst(e) {
						return false
					}
				}
			}
			found = true
		case *ssa.Panic:
			found = true
		default:
			stack = append(stack, x.Succs...)
		}
	}
	return found
}

// callerPropagates: the helper frame's error result is tested by the caller and a non-nil error leaves the caller
// with an error too (recursively up to the root).
func callerPropagates(fr *an.Frame) bool {
	for f := fr; f.Parent != nil; f = f.Parent {
		call, ok := f.Site.(*ssa.Call)
		if !ok {
			return false
		}
		ei := errIndex(f.Fn)
		if ei < 0 {
			return false
		}
		var errVal ssa.Value = call
		if f.Fn.Signature.Results().Len() > 1 {
			errVal = nil
			for _, ref := range an.Referrers(call) {
				if ex, ok := ref.(*ssa.Extract); ok && ex.Index == ei {
					errVal = ex
				}
			}
		}
		if errVal == nil {
			return false
		}
		ok = false
		for _, ref := range an.Referrers(errVal) {
			bo, isB := ref.(*ssa.BinOp)
			if !isB || !(bo.Op == token.NEQ || bo.Op == token.EQL) || !(isNilConst(bo.X) || isNilConst(bo.Y)) {
				continue
			}
			for _, r2 := range an.Referrers(bo) {
				iff, isIf := r2.(*ssa.If)
				if !isIf {
					continue
				}
				side := iff.Block().Succs[0]
				if bo.Op == token.EQL {
					side = iff.Block().Succs[1]
				}
				if sideRejects(side, f.Parent.Fn) {
					ok = true
				}
			}
		}
		// or handed straight back: `return helper(...)` / `return x, helper-error`
		for _, ref := range an.Referrers(errVal) {
			if ret, isRet := ref.(*ssa.Return); isRet {
				pei := errIndex(f.Parent.Fn)
				if pei >= 0 && ret.Results[pei] == errVal {
					ok = true
				}
			}
		}
		if !ok {
			return false
		}
	}
	return true
}

func negateCmp(op token.Token) token.Token {
	switch op {
	case token.LSS:
		return token.GEQ
	case token.LEQ:
		return token.GTR
	case token.GTR:
		return token.LEQ
	case token.GEQ:
		return token.LSS
	case token.EQL:
		return token.NEQ
	case token.NEQ:
		return token.EQL
	}
	return op
}

func rejectingTests(root *ssa.Function, depth int) []rejectTest {
	var out []rejectTest
	// operands are resolved through helpers of root's own package only
	rel := core.RelPkg(root)
	stop := func(f *ssa.Function) bool { return core.RelPkg(f) != rel }
	an.Flatten(root, depth, nil, func(e an.Event) {
		iff, ok := e.Instr.(*ssa.If)
		if !ok {
			return
		}
		cond := iff.Cond
		neg := false
		for {
			u, isU := cond.(*ssa.UnOp)
			if !isU || u.Op != token.NOT {
				break
			}
			cond, neg = u.X, !neg
		}
		bo, ok := cond.(*ssa.BinOp)
		if !ok {
			return
		}
		fn := iff.Parent()
		tRej := sideRejects(iff.Block().Succs[0], fn)
		fRej := sideRejects(iff.Block().Succs[1], fn)
		if tRej == fRej {
			return
		}
		if e.Frame.Parent != nil && !callerPropagates(e.Frame) {
			return
		}
		op := bo.Op
		onTrue := tRej
		if neg {
			onTrue = !onTrue
		}
		if !onTrue {
			op = negateCmp(op)
		}
		out = append(out, rejectTest{Ev: e, Op: op, X: an.EventFV(e, bo.X).Resolve(stop), Y: an.EventFV(e, bo.Y).Resolve(stop), RawX: bo.X, RawY: bo.Y, Cond: bo, OnTrue: tRej})
	})
	return out
}

// singleSource follows a value whose content the program text fixes to one source: a load of a struct field
// that is stored exactly once in the whole module, or a parameter of a function that is called from exactly one
// place (and never taken as a value). It stops at the first value that has no such single source.
func singleSource(c *core.Ctx, v ssa.Value) ssa.Value {
	for hop := 0; hop < 6; hop++ {
		v = an.Strip(v)
		switch x := v.(type) {
		case *ssa.FieldAddr, *ssa.Field:
			fld := an.FieldOfAddr(x.(ssa.Value))
			if fld == nil || fld.Pkg() == nil {
				return v
			}
			var vals []ssa.Value
			for _, fn := range c.AllFuncs {
				if fn.Pkg == nil || fn.Pkg.Pkg != fld.Pkg() {
					if o := fn.Origin(); o == nil || o.Pkg == nil || o.Pkg.Pkg != fld.Pkg() {
						if an.Outermost(fn).Pkg == nil || an.Outermost(fn).Pkg.Pkg != fld.Pkg() {
							continue
						}
					}
				}
				an.Instrs(fn, func(in ssa.Instruction) {
					if st, ok := in.(*ssa.Store); ok && an.SameField(an.FieldOfAddr(st.Addr), fld) {
						vals = append(vals, st.Val)
					}
				})
			}
			if len(vals) != 1 || fld.Exported() {
				return v
			}
			v = vals[0]
		case *ssa.Parameter:
			fn := x.Parent()
			sites := an.CallSitesOf(c, fn)
			if len(sites) != 1 || fn.Object() == nil || fn.Object().Exported() {
				return v
			}
			idx := an.ParamIndex(x)
			if idx < 0 || idx >= len(sites[0].Common().Args) {
				return v
			}
			v = sites[0].Common().Args[idx]
		default:
			return v
		}
	}
	return v
}
