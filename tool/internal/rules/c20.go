package rules

import (
	"go/token"
	"golang.org/x/tools/go/ssa"

	"f1verif/internal/an"
	"f1verif/internal/core"
)

func init() { register("C20", c20) }

func c20(c *core.Ctx, r *core.Report) {
	r.Explanation = "Decides the structure of CombineScenarios: (R1) the setup closure calls every component with its own parameter (the setup handle it was given), appends each result in loop order to a slice created inside that setup call, and the iteration closure calls every stored function with its own parameter; " +
		"(R2) both loops are single forward passes over the whole slice, one call per element, with no go, defer or recover — so a FailNow/panic in component i unwinds past components i+1… into the frame C07.R1 guards, in that iteration only; (R3) such an iteration is reported failed (C07.R1–R3: containment, classifier, failure APIs)."
	r.NotDecided = []string{"behaviour of the components themselves"}
	cs := delegateTarget(c.MustFn("pkg/f1", "CombineScenarios"))
	var setupFn, iterFn *ssa.Function
	// by role: the setup function is the ScenarioFn value CombineScenarios returns, the iteration function the RunFn
	// value that one returns — function literals or methods taken as values
	fnBehind := func(v ssa.Value) *ssa.Function {
		for i := 0; i < 4; i++ {
			switch x := v.(type) {
			case *ssa.ChangeType:
				v = x.X
			case *ssa.MakeClosure:
				if f, ok := x.Fn.(*ssa.Function); ok {
					return an.Unwrap(f)
				}
				return nil
			case *ssa.Function:
				return x
			default:
				return nil
			}
		}
		return nil
	}
	for _, ret := range an.Returns(cs) {
		if len(ret.Results) == 1 {
			if f := fnBehind(ret.Results[0]); f != nil && f.Parent() == nil {
				setupFn = f
				for _, r2 := range an.Returns(f) {
					if len(r2.Results) == 1 {
						if g := fnBehind(r2.Results[0]); g != nil {
							iterFn = g
						}
					}
				}
			}
		}
	}
	for _, a := range cs.AnonFuncs {
		if a.Signature.Results().Len() == 1 && an.IsNamed(a.Signature.Results().At(0).Type(), testingPkg, "RunFn") {
			setupFn = a
			for _, b := range a.AnonFuncs {
				if b.Signature.Results().Len() == 0 {
					iterFn = b
				}
			}
		}
	}

	// the component call of a closure, possibly inside a helper it calls in place
	loopCall := func(fn *ssa.Function, typ string) (*an.Event, bool) {
		evs := an.FlatCalls(fn, flatDepth, func(call ssa.CallInstruction, t *ssa.Function) bool {
			if t != nil {
				return false
			}
			nt := an.DynCallType(call)
			return nt != nil && an.IsNamed(nt, testingPkg, typ)
		})
		if len(evs) == 0 {
			return nil, false
		}
		return &evs[len(evs)-1], len(evs) == 1
	}
	inFrames := func(e *an.Event, fn *ssa.Function) bool {
		for f := e.Frame; f != nil; f = f.Parent {
			if f.Fn == fn {
				return true
			}
		}
		return false
	}

	// every iteration function the setup can hand back (variants chosen by an option are all judged)
	var iterFns []*ssa.Function
	if setupFn != nil {
		seenIter := map[*ssa.Function]bool{}
		for _, r2 := range an.Returns(setupFn) {
			if len(r2.Results) == 1 {
				if g := fnBehind(r2.Results[0]); g != nil && !seenIter[g] {
					seenIter[g] = true
					iterFns = append(iterFns, g)
				}
			}
		}
	}
	if len(iterFns) == 0 && iterFn != nil {
		iterFns = []*ssa.Function{iterFn}
	}
	runIter := func() {
		rule(r, "C20.R1", "components receive the closure's own handle; results are collected in order into a slice owned by that setup call; stored functions are called with the iteration's own handle", func() {
			if setupFn == nil || iterFn == nil {
				panic(core.AnchorError{What: "setup / iteration closures of CombineScenarios"})
			}
			sev, one := loopCall(setupFn, "ScenarioFn")
			if sev == nil || !one {
				r.Violation("CombineScenarios$setup#call", c.Pos(setupFn.Pos()), "the setup closure does not contain exactly one component-setup call site")
				return
			}
			sc := sev.Call()
			h := sev.Translate(sc.Common().Args[0])
			hp, isParam := h.(*ssa.Parameter)
			r.Check(isParam && hp.Parent() == setupFn, "CombineScenarios$setup#handle", an.Pos(c, sc), "each component setup receives the setup closure's own parameter", "component setups are called with "+an.D().Of(h)+", not with the handle this setup was given: cleanups and failures land on another handle")
			// the component called is the range element of the scenarios given
			r.Check(isRangeElemOf(sc.Common().Value), "CombineScenarios$setup#element", an.Pos(c, sc), "the component called is the loop's element of the scenarios given", "the setup called is "+an.D().Of(sc.Common().Value))
			// result appended, in loop order, to a list: a local cell (load/append/store back) or a loop-carried value
			v, _ := sc.(ssa.Value)
			appended := false
			var target *ssa.Alloc
			var listPhi *ssa.Phi
			for _, ref := range an.Referrers(v) {
				st, ok := ref.(*ssa.Store)
				if !ok {
					continue
				}
				ia, ok := st.Addr.(*ssa.IndexAddr)
				if !ok {
					continue
				}
				arr, _ := ia.X.(*ssa.Alloc)
				for _, r2 := range an.Referrers(arr) {
					sl, ok := r2.(*ssa.Slice)
					if !ok {
						continue
					}
					for _, r3 := range an.Referrers(sl) {
						ap, ok := r3.(*ssa.Call)
						if !ok || !an.IsBuiltinCall(ap, "append") {
							continue
						}
						switch base := ap.Call.Args[0].(type) {
						case *ssa.UnOp:
							// append(load(cell), elems...) stored back to the cell
							for _, r4 := range an.Referrers(ap) {
								if st2, ok := r4.(*ssa.Store); ok && st2.Addr == base.X {
									appended = true
									switch a := base.X.(type) {
									case *ssa.Alloc:
										target = a
									case *ssa.FreeVar:
										if b := an.FreeVarBinding(a); b != nil {
											target, _ = b.(*ssa.Alloc)
										}
									}
								}
							}
						case *ssa.Phi:
							if phiCycle(base, ap) {
								appended = true
								listPhi = base
							}
						}
					}
				}
			}
			if !appended {
				r.Violation("CombineScenarios$setup#collect", an.Pos(c, sc), "the iteration function returned by a component setup is not appended to the list the iteration closure walks")
				return
			}
			fresh := false
			if target != nil {
				fresh = inFrames(sev, target.Parent())
			} else if listPhi != nil {
				fresh = true
				for _, e := range listPhi.Edges {
					if k, isK := e.(*ssa.Const); isK && k.IsNil() {
						continue
					}
					if call, isCall := e.(*ssa.Call); isCall && an.IsBuiltinCall(call, "append") {
						continue
					}
					if _, isMk := e.(*ssa.MakeSlice); isMk {
						continue
					}
					fresh = false
				}
			}
			r.Check(fresh, "CombineScenarios$setup#fresh-list", an.Pos(c, sc), "the list of iteration functions is created inside the setup call (fresh per setup)", "the list of iteration functions lives outside the setup closure: a second setup of the same combined scenario appends to the first one's list, so every component runs twice (stale closures first)")
			// the iteration closure walks that same list
			iev, one := loopCall(iterFn, "RunFn")
			if iev == nil || !one {
				r.Violation("CombineScenarios$iter#call", c.Pos(iterFn.Pos()), "the iteration closure does not contain exactly one component call site")
				return
			}
			ic := iev.Call()
			ih := iev.Translate(ic.Common().Args[0])
			p, isP := ih.(*ssa.Parameter)
			r.Check(isP && p.Parent() == iterFn, "CombineScenarios$iter#handle", an.Pos(c, ic), "each component iteration receives the iteration closure's own parameter", "component iteration functions are called with "+an.D().Of(ih)+" (e.g. the captured setup handle), not with this iteration's handle")
			// list identity: the list walked is the captured variable of the setup call that holds the collected list
			okList := false
			if ia, ok := an.Strip(ic.Common().Value).(*ssa.IndexAddr); ok {
				lv := an.EventFV(*iev, ia.X).Resolve(nil).V
				if fv, ok := lv.(*ssa.FreeVar); ok && fv.Parent() == iterFn {
					if al, ok := an.FreeVarBinding(fv).(*ssa.Alloc); ok {
						switch {
						case target != nil:
							okList = al == target
						case listPhi != nil:
							sts := an.StoresTo(al)
							okList = len(sts) == 1 && an.RootFV(setupFn, sts[0].Val).Resolve(nil).V == ssa.Value(listPhi)
						}
					}
				}
			}
			if ia, ok := an.Strip(ic.Common().Value).(*ssa.IndexAddr); ok && !okList {
				// the iteration function is a method taken as a value on the collected list: the list walked is its receiver,
				// bound where the setup returns it
				lv := an.EventFV(*iev, ia.X).Resolve(nil).V
				if rp, isP := lv.(*ssa.Parameter); isP && rp.Parent() == iterFn && an.ParamIndex(rp) == 0 && iterFn.Signature.Recv() != nil {
					for _, ret := range an.Returns(setupFn) {
						mc, isMC := an.Strip(ret.Results[0]).(*ssa.MakeClosure)
						if ct, isCT := an.Strip(ret.Results[0]).(*ssa.ChangeType); isCT {
							mc, isMC = ct.X.(*ssa.MakeClosure)
						}
						if !isMC || len(mc.Bindings) != 1 {
							continue
						}
						if f, isF := mc.Fn.(*ssa.Function); !isF || an.Unwrap(f) != iterFn {
							continue
						}
						bv := an.Strip(an.RootFV(setupFn, mc.Bindings[0]).Resolve(nil).V)
						switch {
						case listPhi != nil:
							okList = bv == ssa.Value(listPhi)
						case target != nil:
							if ld, isLd := mc.Bindings[0].(*ssa.UnOp); isLd {
								okList = ld.X == ssa.Value(target)
							}
						}
					}
				}
			}
			r.Check(okList, "CombineScenarios$iter#list", an.Pos(c, ic), "the iteration closure walks the list its setup filled", "the iteration closure walks "+an.D().Of(ic.Common().Value)+", not the list filled by its setup")
			// the closures returned are these
			for _, ret := range an.Returns(setupFn) {
				mc, ok := an.Strip(ret.Results[0]).(*ssa.MakeClosure)
				if ct, isCT := an.Strip(ret.Results[0]).(*ssa.ChangeType); isCT {
					mc, ok = ct.X.(*ssa.MakeClosure)
				}
				if ok && mc.Fn != ssa.Value(iterFn) {
					if f, isF := mc.Fn.(*ssa.Function); isF && an.Unwrap(f) == iterFn {
						mc = &ssa.MakeClosure{Fn: iterFn}
					}
				}
				if ok && mc.Fn != ssa.Value(iterFn) {
					// another of the iteration functions the setup can hand back: judged in its own pass
					other := false
					for _, it := range iterFns {
						if f, isF := mc.Fn.(*ssa.Function); isF && (f == it || an.Unwrap(f) == it) {
							other = true
						}
					}
					if other {
						continue
					}
				}
				r.Check(ok && mc.Fn == ssa.Value(iterFn), "CombineScenarios$setup#returns", an.Pos(c, ret), "the setup returns the walking closure", "the setup closure returns "+an.D().Of(ret.Results[0]))
			}
		})

		rule(r, "C20.R2", "both loops are single forward passes over the whole slice (range counter bounded by its length), one call per element, with no go, defer or recover inside the closures", func() {
			if setupFn == nil || iterFn == nil {
				panic(core.AnchorError{What: "closures of CombineScenarios"})
			}
			for name, fn := range map[string]*ssa.Function{"setup": setupFn, "iter": iterFn} {
				typ := map[string]string{"setup": "ScenarioFn", "iter": "RunFn"}[name]
				ev, _ := loopCall(fn, typ)
				key := "CombineScenarios$" + name
				if ev == nil {
					r.Violation(key+"#loop", c.Pos(fn.Pos()), "no component call")
					continue
				}
				call := ev.Call()
				if _, isCall := call.(*ssa.Call); !isCall {
					r.Violation(key+"#sync", an.Pos(c, call), "components are started with go/defer: a later component runs although an earlier one stopped the iteration, and order is lost")
					continue
				}
				ia, ok := an.Strip(call.Common().Value).(*ssa.IndexAddr)
				var idx ssa.Value
				if ok {
					idx = ia.Index
					// `for i = range list` with i declared outside the loop (kept for a deferred report): the index is read
					// back from the variable the counter was just stored in
					if ld, isLd := idx.(*ssa.UnOp); isLd && ld.Op == token.MUL {
						if cellA, isAl := ld.X.(*ssa.Alloc); isAl {
							var inLoopStores []*ssa.Store
							for _, st := range an.StoresTo(cellA) {
								if st.Parent() == call.Parent() && an.InLoop(st) {
									inLoopStores = append(inLoopStores, st)
								}
							}
							if len(inLoopStores) == 1 && isCounter(inLoopStores[0].Val) && inLoopStores[0].Block().Dominates(call.Block()) {
								idx = inLoopStores[0].Val
							}
						}
					}
				}
				okLoop := ok && isCounter(idx)
				why := "the element called is not indexed by a forward loop counter"
				if okLoop {
					if _, ok := forwardBound(call.Block(), idx, ia.X, func(a, b ssa.Value) bool { return a == b }); !ok {
						okLoop, why = false, "the loop is not bounded by the length of the list (some components are skipped)"
					}
				}
				if okLoop {
					// the pass ends only when the list is exhausted: no other way out of the loop (a `return` or `break` after
					// a component that merely marked the iteration failed would skip the later components)
					if loop, _ := an.NaturalLoopOf(call.Block()); loop != nil {
						for b := range loop {
							exits := false
							for _, sc := range b.Succs {
								if !loop[sc] {
									exits = true
								}
							}
							if !exits {
								continue
							}
							isBoundTest := false
							if iff, isIf := b.Instrs[len(b.Instrs)-1].(*ssa.If); isIf {
								if bo, isBin := iff.Cond.(*ssa.BinOp); isBin {
									for _, side := range []ssa.Value{bo.X, bo.Y} {
										if side == idx {
											isBoundTest = true
										}
										if inc, isInc := side.(*ssa.BinOp); isInc && (inc.X == idx || inc.Y == idx) {
											isBoundTest = true
										}
										if ph, isPhi := idx.(*ssa.BinOp); isPhi && (side == ph.X || side == ph.Y) {
											isBoundTest = true
										}
									}
								}
							}
							// … or when the iteration was stopped: the test reads a flag of the handle that only the stopping
							// failure API sets (the function that unwinds with a panic) — FailNow ends the iteration, also when a
							// component swallowed the panic it unwinds with. (That the flag is cleared for the next iteration is
							// C07.R4's full-reset obligation.)
							if !isBoundTest && stopFlagTest(c, b) {
								isBoundTest = true
							}
							if !isBoundTest {
								okLoop, why = false, "the loop over the components is left at "+an.Pos(c, b.Instrs[len(b.Instrs)-1])+" before the list is exhausted: later components are skipped in that iteration"
							}
						}
					}
				}
				if okLoop && an.OnCycleAvoiding(call, loopHeaderOf(call)) {
					okLoop, why = false, "a component is called more than once per pass"
				}
				if okLoop && len(an.GuardsOf(call.Block())) > 1 {
					okLoop, why = false, "the component call is conditional"
				}
				// the helper holding the loop is itself called once, unconditionally
				for fr := ev.Frame; okLoop && fr.Parent != nil; fr = fr.Parent {
					if an.InLoop(fr.Site) || len(an.GuardsOf(fr.Site.Block())) > 0 {
						okLoop, why = false, "the pass over the components is itself conditional or repeated"
					}
				}
				r.Check(okLoop, key+"#loop", an.Pos(c, call), "forward range over the whole list, one call per element", "components are not run by a single forward pass over the whole list: "+why)
				clean := true
				an.Flatten(fn, flatDepth, nil, func(e an.Event) {
					in := e.Instr
					switch x := in.(type) {
					case *ssa.Go:
						clean = false
						r.Violation(key+"#go", an.Pos(c, in), "go statement inside the combined closure")
					case *ssa.Defer:
						// a deferred report (logging which component stopped the iteration) unwinds like no defer at all;
						// a deferred function that recovers does not
						recovers := false
						if t := an.Callee(x); t != nil && t.Blocks != nil {
							recovers = an.ReachesCall(t, 3, func(g *ssa.Function) bool { return false }) || callsRecover(t, 3)
						} else if t == nil {
							recovers = true // a deferred call of an unknown function value
						}
						if recovers {
							clean = false
							r.Violation(key+"#defer", an.Pos(c, in), "a deferred function that can recover inside the combined closure: it lets later components run after one stopped the iteration")
						}
					case ssa.CallInstruction:
						if an.IsBuiltinCall(x, "recover") {
							clean = false
							r.Violation(key+"#recover", an.Pos(c, in), "recover inside the combined closure swallows a component's FailNow/panic")
						}
					}
				})
				for _, a := range fn.AnonFuncs {
					isVariant := a == iterFn
					for _, it := range iterFns {
						if a == it {
							isVariant = true
						}
					}
					if isVariant {
						continue
					}
					// a literal that holds a component call wraps the components; one that does not (a deferred report) is
					// judged by the defer rule above
					if inner, _ := loopCall(a, typ); inner != nil {
						clean = false
						r.Violation(key+"#nested", c.Pos(a.Pos()), "components are wrapped in an extra function literal")
					}
				}
				if clean {
					r.OK(key+"#effects", c.Pos(fn.Pos()), "no go/defer/recover: a stopping component unwinds into the runner's recovered frame")
				}
			}
		})

	}
	if len(iterFns) == 0 {
		runIter()
	}
	for _, it := range iterFns {
		iterFn = it
		runIter()
	}
	rule(r, "C20.R3", "an iteration stopped by a component is reported failed: containment, classifier and failure-API rules of C07 (R1–R3)", func() {
		sub := core.NewReport("C07")
		c07(c, sub)
		n := 0
		for _, o := range sub.Obls {
			if !(o.Rule == "C07.R1" || o.Rule == "C07.R2" || o.Rule == "C07.R3") {
				continue
			}
			n++
			switch o.Status {
			case core.Discharged:
				r.OK(o.Rule+":"+o.Key, o.Pos, "%s", o.Msg)
			case core.Violated:
				r.Violation(o.Rule+":"+o.Key, o.Pos, "%s", o.Msg)
			case core.Undecided:
				r.Undecided(o.Rule+":"+o.Key, o.Pos, "%s", o.Msg)
			}
		}
		r.Floor("C07 obligations", n, 10)
	})
}

func isRangeElemOf(v ssa.Value) bool {
	ia, ok := an.Strip(v).(*ssa.IndexAddr)
	return ok && isCounter(ia.Index)
}

// callsRecover: f, or a module function it calls (to the given depth), calls the builtin recover.
func callsRecover(f *ssa.Function, depth int) bool {
	if f == nil || f.Blocks == nil || depth < 0 {
		return false
	}
	for _, call := range an.AllCalls(f) {
		if an.IsBuiltinCall(call, "recover") {
			return true
		}
		if t := an.Callee(call); t != nil && t != f && core.InModule(t) && callsRecover(t, depth-1) {
			return true
		}
	}
	for _, a := range f.AnonFuncs {
		if callsRecover(a, depth-1) {
			return true
		}
	}
	return false
}

// stopFlagTest: block b ends in `if handle.Stopped()`-like test: a niladic bool method of testing.T returning the Load
// of an atomic.Bool field that is stored true only in functions that panic (the stopping failure API).
func stopFlagTest(c *core.Ctx, b *ssa.BasicBlock) bool {
	iff, ok := b.Instrs[len(b.Instrs)-1].(*ssa.If)
	if !ok {
		return false
	}
	call, ok := an.Strip(iff.Cond).(*ssa.Call)
	if !ok {
		return false
	}
	g := an.Callee(call)
	if g == nil || g.Blocks == nil || g.Signature.Recv() == nil || !an.IsNamed(g.Signature.Recv().Type(), testingPkg, "T") {
		return false
	}
	rets := an.Returns(g)
	if len(rets) != 1 || len(rets[0].Results) != 1 {
		return false
	}
	ld, ok := an.Strip(rets[0].Results[0]).(*ssa.Call)
	if !ok {
		return false
	}
	lt := an.Callee(ld)
	if lt == nil || lt.Pkg == nil || lt.Pkg.Pkg.Path() != "sync/atomic" || lt.Name() != "Load" || len(ld.Call.Args) == 0 {
		return false
	}
	flag, _ := an.TerminalField(ld.Call.Args[0])
	if flag == nil {
		return false
	}
	setters := 0
	for _, fn := range c.AllFuncs {
		if !core.InModule(fn) {
			continue
		}
		for _, op := range an.AtomicOps([]*ssa.Function{fn}) {
			if !an.SameField(op.Field, flag) || op.Op != "Store" || len(op.Call.Common().Args) < 2 {
				continue
			}
			k, isK := op.Call.Common().Args[1].(*ssa.Const)
			if !isK || k.Value == nil || k.Value.String() != "true" {
				continue
			}
			setters++
			panics := false
			an.Instrs(an.Outermost(fn), func(in ssa.Instruction) {
				if _, isPanic := in.(*ssa.Panic); isPanic {
					panics = true
				}
			})
			if !panics {
				return false
			}
		}
	}
	return setters > 0
}
