package rules

import (
	"go/token"
	"go/types"
	"strings"

	"golang.org/x/tools/go/ssa"

	"f1verif/internal/an"
	"f1verif/internal/core"
)

func init() { register("C02", c02) }

// pendingCounter locates, by role, the atomic field of internal/workers that is Swap-ped (the pending
// job counter) and the functions operating on it.
type pendingFacts struct {
	field   *types.Var
	ops     []an.AtomicOp
	setFns  map[*ssa.Function]bool // functions containing a Swap on it
	takeFns map[*ssa.Function]bool // functions containing an Add on it
	loadFns map[*ssa.Function]bool
}

func findPending(c *core.Ctx) *pendingFacts {
	p := &pendingFacts{setFns: map[*ssa.Function]bool{}, takeFns: map[*ssa.Function]bool{}, loadFns: map[*ssa.Function]bool{}}
	var fns []*ssa.Function
	for _, fn := range c.AllFuncs {
		if core.RelPkg(fn) == "internal/workers" {
			fns = append(fns, fn)
		}
	}
	all := an.AtomicOps(fns)
	for _, op := range all {
		if op.Op == "Swap" {
			if p.field != nil && !an.SameField(p.field, op.Field) {
				panic(core.AnchorError{What: "pending counter is ambiguous: more than one swapped atomic field in internal/workers"})
			}
			p.field = op.Field
		}
	}
	if p.field == nil {
		// fall back: the atomic.Int64 field of a struct embedded in the trigger pool (when Swap was replaced)
		for _, op := range all {
			if b, ok := op.Field.Type().(*types.Named); ok && b.Obj().Name() == "Int64" {
				p.field = op.Field
			}
		}
	}
	if p.field == nil {
		panic(core.AnchorError{What: "pending job counter (an atomic field of internal/workers)"})
	}
	for _, op := range all {
		if !an.SameField(op.Field, p.field) {
			continue
		}
		p.ops = append(p.ops, op)
		switch op.Op {
		case "Swap", "Store":
			p.setFns[op.Fn] = true
		case "Add", "CompareAndSwap":
			if !casRetryLoop(op.Fn, p.field) {
				p.takeFns[op.Fn] = true
			}
		case "Load":
			p.loadFns[op.Fn] = true
		}
	}
	return p
}

// dropRecorders: functions of internal/workers that record a DroppedResult (role-based, see dropRecorderFns).
func dropRecorders(c *core.Ctx) map[*ssa.Function]bool {
	runner, _, _ := iterationRunner(c)
	out := map[*ssa.Function]bool{}
	for _, f := range dropRecorderFns(c, nil, runner) {
		out[f] = true
	}
	return out
}

// limitPredicates: functions of internal/workers returning bool that compare the id counter with the limit.
func limitPredicate(c *core.Ctx) *ssa.Function {
	var found *ssa.Function
	for _, fn := range c.AllFuncs {
		if core.RelPkg(fn) != "internal/workers" || fn.Parent() != nil || fn.Signature.Results().Len() != 1 || fn.Signature.Params().Len() != 0 || fn.Signature.Recv() == nil {
			continue
		}
		if b, ok := fn.Signature.Results().At(0).Type().(*types.Basic); !ok || b.Kind() != types.Bool {
			continue
		}
		if !an.IsNamed(fn.Signature.Recv().Type(), workersPkg, "PoolManager") {
			continue
		}
		loads, cmp := false, false
		an.Flatten(fn, 2, nil, func(e an.Event) {
			if call := e.Call(); call != nil {
				t := an.Callee(call)
				if t != nil && t.Pkg != nil && t.Pkg.Pkg.Path() == "sync/atomic" && t.Name() == "Load" && len(call.Common().Args) > 0 {
					if fa, ok := call.Common().Args[0].(*ssa.FieldAddr); ok && nestedIn(c, fa.X.Type(), workersPkg, "PoolManager") {
						loads = true
					}
				}
			}
			if bo, ok := e.Instr.(*ssa.BinOp); ok && (bo.Op == token.GTR || bo.Op == token.GEQ || bo.Op == token.LSS || bo.Op == token.LEQ) {
				for _, o := range []ssa.Value{bo.X, bo.Y} {
					if f, owner := an.TerminalField(o); f != nil && nestedIn(c, owner, workersPkg, "PoolManager") && !an.IsNamed(f.Type(), "sync/atomic", "Uint64") {
						if _, isConst := bo.X.(*ssa.Const); !isConst {
							if _, isConst := bo.Y.(*ssa.Const); !isConst {
								cmp = true
							}
						}
					}
				}
			}
		})
		if loads && cmp {
			found = fn
		}
	}
	return found
}

func c02(c *core.Ctx, r *core.Report) {
	r.Explanation = "Decides the structural conditions of work conservation in the trigger pool: (R1) the pending counter is touched only by its own methods, called only from the pool; " +
		"(R2) supersede is one atomic Swap whose result is returned, take is one read-modify-write whose own result decides, nobody Loads then writes; " +
		"(R3) the number of reported drops is the loop bound and the bound is the Swap result; the drop recorder has no other caller; " +
		"(R4) on a successful take exactly one id is allocated and then exactly one of {run the iteration, limit path}; (R5) the limit path discards pending work silently before cancelling and never reaches the drop recorder; " +
		"(R6) every reported drop is guarded by a negative limit test evaluated after the Swap. The wake-up discipline of idle workers is decided under C04/C05 (a lost wake-up delays or drops work but still accounts for it). " +
		"The full interleaving semantics of set/take/none is not decided."
	r.NotDecided = []string{"behaviour of set/take/none under every interleaving (state-space question)", "liveness of workers"}
	var pf *pendingFacts
	drops := map[*ssa.Function]bool{}

	rule(r, "C02.R1", "the pending counter is touched only inside methods of its own type, and those are called only from methods of the pool that embeds it", func() {
		pf = findPending(c)
		owner := ""
		for _, op := range pf.ops {
			fa := op.Call.Common().Args[0].(*ssa.FieldAddr)
			owner = ownerNameOf(fa.X.Type())
			recv := op.Fn.Signature.Recv()
			key := core.FuncName(op.Fn) + "#" + op.Op
			ok := recv != nil && ownerNameOf(recv.Type()) == owner
			r.Check(ok, key, an.Pos(c, op.Call), op.Op+" on "+owner+"."+pf.field.Name()+" inside a method of "+owner, op.Op+" on the pending counter outside its own type's methods")
			if !ok {
				continue
			}
			for _, call := range an.CallSitesOf(c, op.Fn) {
				caller := an.Outermost(call.Parent())
				crecv := caller.Signature.Recv()
				okc := crecv != nil && core.RelPkg(caller) == "internal/workers" && strings.Contains(types.TypeString(crecv.Type().Underlying(), nil)+fieldTypes(crecv.Type()), owner)
				r.Check(okc, core.FuncName(call.Parent())+"→"+core.FuncName(op.Fn), an.Pos(c, call), "counter method called from a method of the pool owning the counter", "pending counter manipulated from "+core.FuncName(call.Parent())+", outside the pool that owns it")
			}
		}
		r.Floor("operations on the pending counter", len(pf.ops), 3)
	})

	rule(r, "C02.R2", "supersede is a single Swap whose result is returned; take is a single RMW and its boolean derives only from that RMW's result; no function Loads and then writes the counter; no plain Store", func() {
		if pf == nil {
			r.Undecided("anchor", "-", "pending counter not resolved")
			return
		}
		perFn := map[*ssa.Function][]an.AtomicOp{}
		for _, op := range pf.ops {
			perFn[op.Fn] = append(perFn[op.Fn], op)
		}
		sawSwap, sawTake := false, false
		for fn, ops := range perFn {
			key := core.FuncName(fn)
			var names []string
			for _, o := range ops {
				names = append(names, o.Op)
			}
			hasLoad, hasWrite, hasStore := false, false, false
			for _, o := range ops {
				switch o.Op {
				case "Load":
					hasLoad = true
				case "Store":
					hasStore, hasWrite = true, true
				default:
					hasWrite = true
				}
			}
			if hasStore {
				r.Violation(key+"#store", an.Pos(c, ops[0].Call), "plain Store on the pending counter (%v): what it overwrites is neither started nor reported dropped", names)
				continue
			}
			if hasLoad && hasWrite && casRetryLoop(fn, pf.field) {
				// `for { cur := Load(); if CompareAndSwap(cur, f(cur)) { return } }`: the write takes effect only when nobody
				// acted since the Load — one atomic read-modify-write, retried until it applies
				r.OK(key+"#cas-loop", an.Pos(c, ops[0].Call), "compare-and-swap retry loop: a single atomic read-modify-write on the pending counter")
				continue
			}
			if hasLoad && hasWrite {
				r.Violation(key+"#check-then-act", an.Pos(c, ops[0].Call), "%s both Loads and modifies the pending counter (%v): another worker or tick can act between the two", key, names)
				continue
			}
			if len(ops) > 1 && hasWrite {
				r.Violation(key+"#multi-rmw", an.Pos(c, ops[0].Call), "%d atomic operations (%v) on the pending counter in one function: not a single read-modify-write", len(ops), names)
				continue
			}
			o := ops[0]
			v, _ := o.Call.(ssa.Value)
			switch o.Op {
			case "Swap":
				sawSwap = true
				ok := false
				for _, ret := range an.Returns(fn) {
					if len(ret.Results) == 1 && an.Strip(ret.Results[0]) == v {
						ok = true
					}
				}
				r.Check(ok, key+"#swap", an.Pos(c, o.Call), "single Swap whose previous value is returned", "the value removed by the Swap is not what the function returns")
			case "Add", "CompareAndSwap":
				sawTake = true
				ok := len(an.Returns(fn)) > 0
				for _, ret := range an.Returns(fn) {
					if len(ret.Results) != 1 {
						ok = false
						continue
					}
					bo, isCmp := an.Strip(ret.Results[0]).(*ssa.BinOp)
					if !isCmp || !((an.Strip(bo.X) == v && isConst(bo.Y)) || (an.Strip(bo.Y) == v && isConst(bo.X))) {
						ok = false
					}
				}
				if o.Op == "Add" {
					k, isK := o.Call.Common().Args[1].(*ssa.Const)
					if !isK || k.Int64() != -1 {
						r.Violation(key+"#delta", an.Pos(c, o.Call), "take changes the pending counter by %s, not by -1", an.D().Of(o.Call.Common().Args[1]))
					}
				}
				r.Check(ok, key+"#rmw", an.Pos(c, o.Call), "single "+o.Op+" and the decision compares that operation's own result with a constant", "the take decision is not computed from the RMW's own result alone")
			case "Load":
				r.OK(key+"#load", an.Pos(c, o.Call), "read-only")
			default:
				r.Undecided(key, an.Pos(c, o.Call), "unknown operation %s", o.Op)
			}
		}
		if !sawSwap {
			r.Violation("supersede#swap", "-", "no function supersedes the pending counter with an atomic Swap")
		}
		if !sawTake {
			r.Violation("take#rmw", "-", "no function takes from the pending counter with an atomic read-modify-write")
		}
	})

	var sender *ssa.Function
	var dropCalls []ssa.CallInstruction
	boundIsLocalSwap := map[*ssa.Function]bool{}
	rule(r, "C02.R3", "drops are reported in a loop whose bound is the value the Swap returned; the drop recorder has no other caller", func() {
		if pf == nil {
			r.Undecided("anchor", "-", "pending counter not resolved")
			return
		}
		drops = dropRecorders(c)
		if !r.Floor("drop recorders", len(drops), 1) {
			return
		}
		for d := range drops {
			for _, call := range an.CallSitesOf(c, d) {
				dropCalls = append(dropCalls, call)
			}
		}
		if !r.Floor("drop recorder call sites", len(dropCalls), 1) {
			return
		}
		for _, call := range dropCalls {
			fn := call.Parent()
			key := core.FuncName(fn) + "#drop"
			if sender != nil && sender != fn {
				r.Violation(key, an.Pos(c, call), "a second function (%s) reports drops; only the supersede path decides what was dropped", core.FuncName(fn))
				continue
			}
			sender = fn
			loop, head := an.NaturalLoopOf(call.Block())
			if loop == nil {
				// a recorder of several drops (C01.R1 `#bulk`: one record per unit of its count) called once with the
				// Swap result as the count
				if cnt, _ := bulkDropRecorder(c, an.Callee(call)); cnt != nil && an.ParamIndex(cnt) < len(call.Common().Args) {
					arg := stripAllocs(call.Common().Args[an.ParamIndex(cnt)])
					if isSwapResult(pf, arg, 3) {
						boundIsLocalSwap[fn] = true
						r.OK(key, an.Pos(c, call), "the Swap result %s is handed to a recorder of that many drops", an.D().Of(arg))
					} else {
						r.Violation(key, an.Pos(c, call), "%s is asked to report %s drops, which is not the value the Swap returned", core.FuncName(an.Callee(call)), an.D().Of(arg))
					}
					continue
				}
				r.Violation(key, an.Pos(c, call), "drop report is not in a loop bounded by the Swap result")
				continue
			}
			if an.OnCycleAvoiding(call, head) {
				r.Violation(key, an.Pos(c, call), "drop report sits in a nested loop")
				continue
			}
			// every comparison that enters / continues the loop has the same bound
			var bounds []ssa.Value
			okShape, why := true, ""
			checkCond := func(cond ssa.Value) {
				bo, ok := cond.(*ssa.BinOp)
				if !ok {
					okShape, why = false, "loop condition is "+an.D().Of(cond)
					return
				}
				switch bo.Op {
				case token.LSS:
					bounds = append(bounds, bo.Y)
				case token.GTR:
					bounds = append(bounds, bo.X)
				default:
					okShape, why = false, "loop condition uses "+bo.Op.String()
				}
			}
			for b := range loop {
				if iff, ok := b.Instrs[len(b.Instrs)-1].(*ssa.If); ok {
					if loop[b.Succs[0]] != loop[b.Succs[1]] {
						checkCond(iff.Cond)
					}
				}
			}
			for _, p := range head.Preds {
				if loop[p] {
					continue
				}
				if iff, ok := p.Instrs[len(p.Instrs)-1].(*ssa.If); ok {
					if bo, isB := iff.Cond.(*ssa.BinOp); isB && (bo.Op == token.LSS || bo.Op == token.GTR) {
						checkCond(iff.Cond)
					}
				}
			}
			if len(bounds) == 0 {
				okShape, why = false, "no bounding comparison found"
			}
			var bound ssa.Value
			for _, b := range bounds {
				sb := stripAllocs(b)
				if bound == nil {
					bound = sb
				} else if bound != sb {
					okShape, why = false, "the loop is bounded by different values"
				}
			}
			if !okShape {
				r.Violation(key, an.Pos(c, call), "the number of reported drops is not the Swap result: %s", why)
				continue
			}
			// nothing superseded on some path (work queued behind the backlog instead): zero drops there
			if ph, isPhi := bound.(*ssa.Phi); isPhi {
				var nz []ssa.Value
				for _, e := range ph.Edges {
					if k, isK := e.(*ssa.Const); isK && k.Value != nil && k.Int64() == 0 {
						continue
					}
					nz = append(nz, e)
				}
				if len(nz) == 1 {
					bound = stripAllocs(nz[0])
				}
			}
			// the bound is the Swap result, directly or as a parameter fed with it at every call site
			if isSwapResult(pf, bound, 3) {
				boundIsLocalSwap[fn] = true
				r.OK(key, an.Pos(c, call), "one drop per loop iteration, loop bounded by the Swap result %s", an.D().Of(bound))
				continue
			}
			if p, isParam := bound.(*ssa.Parameter); isParam {
				sites := an.CallSitesOf(c, fn)
				okAll := len(sites) > 0
				for _, cs := range sites {
					arg := stripAllocs(cs.Common().Args[paramIdx(p)])
					if !isSwapResult(pf, arg, 3) {
						okAll = false
						r.Violation(key, an.Pos(c, cs), "%s is asked to report %s drops, which is not the value the Swap returned", core.FuncName(fn), an.D().Of(arg))
					}
				}
				if okAll {
					r.OK(key, an.Pos(c, call), "loop bounded by parameter %s, which every caller feeds with the Swap result", p.Name())
				}
				continue
			}
			r.Violation(key, an.Pos(c, call), "the number of reported drops is bounded by %s, not by the value returned by the Swap: requests are reported dropped that were started (or the reverse)", an.D().Of(bound))
		}
	})

	rule(r, "C02.R4", "in the worker loop, after a successful take exactly one id is allocated and then exactly one of {the iteration runs, the limit path is taken}", func() {
		if pf == nil {
			r.Undecided("anchor", "-", "pending counter not resolved")
			return
		}
		runner, _, _ := iterationRunner(c)
		n := 0
		for _, fn := range c.AllFuncs {
			if core.RelPkg(fn) != "internal/workers" {
				continue
			}
			for _, call := range an.AllCalls(fn) {
				t := an.Callee(call)
				if t == nil || !pf.takeFns[t] {
					continue
				}
				n++
				key := core.FuncName(fn) + "#after-take"
				v, _ := call.(ssa.Value)
				// true successor of the If on take()'s result
				var then *ssa.BasicBlock
				var takenIf *ssa.If
				for _, ref := range an.Referrers(v) {
					if iff, ok := ref.(*ssa.If); ok {
						then, takenIf = iff.Block().Succs[0], iff
					}
					if u, ok := ref.(*ssa.UnOp); ok && u.Op == token.NOT {
						for _, r2 := range an.Referrers(u) {
							if iff, ok := r2.(*ssa.If); ok {
								then, takenIf = iff.Block().Succs[1], iff
							}
						}
					}
				}
				if then == nil {
					r.Violation(key, an.Pos(c, call), "result of take is not branched on")
					continue
				}
				_, head := an.NaturalLoopOf(call.Block())
				// nothing leaves the loop iteration between the take and the test of its result: a job that was taken is
				// not abandoned before anybody looks whether it was
				if takenIf.Block() != call.Block() {
					var exits []ssa.Instruction
					for _, ret := range an.Returns(fn) {
						exits = append(exits, ret)
					}
					if head != nil && len(head.Instrs) > 0 {
						exits = append(exits, head.Instrs[0])
					}
					for _, ex := range exits {
						for _, s := range call.Block().Succs {
							if reachesAvoiding(s, ex, takenIf) && !(ex.Block() == head && s == head) {
								r.Violation(key+"-abandoned", an.Pos(c, ex), "this exit of the loop iteration is reachable after take() and before its result is tested: a request that was taken (the pending count is already decremented) is neither started nor reported dropped when the pool stops in between")
							}
						}
					}
				}
				stop := map[*ssa.BasicBlock]bool{}
				if head != nil {
					stop[head] = true
				}
				isNext := func(_ ssa.CallInstruction, t *ssa.Function) bool {
					return isMethod(t, workersPkg, "PoolManager", "NextIteration")
				}
				isRunOrLimit := func(ci ssa.CallInstruction, t *ssa.Function) bool {
					if t == runner {
						return true
					}
					if t == nil {
						return isCancelFieldCall(ci)
					}
					return core.RelPkg(t) == "internal/workers" && callsCancelField(t)
				}
				ok := true
				for _, e := range an.PathCountUntil(then.Instrs[0], an.CallWeight(isNext, flatDepth), stop) {
					if e.Count.Lo != 1 || e.Count.Hi != 1 {
						ok = false
						r.Violation(key+"-id", an.Pos(c, e.Instr), "NextIteration executed %s times between a successful take and this exit of the iteration", e.Count)
					}
				}
				for _, e := range an.PathCountUntil(then.Instrs[0], an.CallWeight(isRunOrLimit, flatDepth), stop) {
					if e.Count.Lo != 1 || e.Count.Hi != 1 {
						ok = false
						r.Violation(key+"-start", an.Pos(c, e.Instr), "after a successful take, {run iteration, limit path} executed %s times before this exit: the request is neither started once nor discarded", e.Count)
					}
				}
				if ok {
					r.OK(key, an.Pos(c, call), "take → one NextIteration → exactly one of run/limit on every path of the loop iteration")
				}
			}
		}
		r.Floor("take sites", n, 1)
	})

	rule(r, "C02.R5", "the limit path discards the pending count (Swap result unused) before cancelling and does not reach the drop recorder", func() {
		if pf == nil {
			r.Undecided("anchor", "-", "pending counter not resolved")
			return
		}
		n := 0
		for _, fn := range c.AllFuncs {
			if core.RelPkg(fn) != "internal/workers" || !callsCancelField(fn) {
				continue
			}
			// only pools that have a pending counter
			recv := fn.Signature.Recv()
			if recv == nil || !strings.Contains(fieldTypes(recv.Type()), ownerOfPending(pf)) {
				continue
			}
			n++
			key := core.FuncName(fn)
			var setCall, cancel ssa.CallInstruction
			for _, call := range an.AllCalls(fn) {
				if t := an.Callee(call); t != nil && pf.setFns[t] {
					setCall = call
				}
				if isCancelFieldCall(call) {
					cancel = call
				}
			}
			if setCall == nil {
				r.Violation(key+"#discard", c.Pos(fn.Pos()), "limit path cancels without clearing the pending count: what is pending is later reported as dropped by stop()")
				continue
			}
			k, isK := setCall.Common().Args[len(setCall.Common().Args)-1].(*ssa.Const)
			r.Check(isK && k.Int64() == 0, key+"#zero", an.Pos(c, setCall), "pending count set to 0", "limit path sets the pending count to "+an.D().Of(setCall.Common().Args[len(setCall.Common().Args)-1]))
			v, _ := setCall.(ssa.Value)
			r.Check(v == nil || len(an.Referrers(v)) == 0, key+"#silent", an.Pos(c, setCall), "the discarded count is not used (silent)", "the count discarded on the limit path is used")
			r.Check(an.Dominates(setCall, cancel), key+"#order", an.Pos(c, cancel), "pending cleared before the cancel", "limit path cancels before clearing the pending count")
			reaches := an.ReachesCall(fn, 4, func(g *ssa.Function) bool { return drops[g] })
			r.Check(!reaches, key+"#no-drop", c.Pos(fn.Pos()), "limit path does not reach the drop recorder synchronously", "limit path reaches the drop recorder: limit-discarded work is reported as dropped")
		}
		r.Floor("limit paths of counter-based pools", n, 1)
	})

	rule(r, "C02.R6", "every drop report is control-dependent on a negative test of the limit predicate evaluated after the Swap (a tick can slip between the limit path's discard and its cancel, and stop() runs after every ending)", func() {
		if pf == nil || len(dropCalls) == 0 {
			r.Undecided("anchor", "-", "drop call sites not resolved (R3)")
			return
		}
		lim := limitPredicate(c)
		if lim == nil {
			r.Undecided("anchor:limit-predicate", "-", "no bool function of internal/workers compares the id counter with maxIterations")
			return
		}
		// the predicate itself: true only once an allocation was refused, i.e. the attempt counter is strictly above the
		// limit; at exactly the limit every started iteration was allowed and superseded work is still a real drop
		strict := 0
		an.Flatten(lim, 2, nil, func(e an.Event) {
			bo, ok := e.Instr.(*ssa.BinOp)
			if !ok {
				return
			}
			isCounterLoad := func(v ssa.Value) bool {
				// through a helper's parameter to the caller's argument
				call, ok := an.Strip(an.EventFV(e, v).Resolve(nil).V).(*ssa.Call)
				if !ok {
					return false
				}
				t := an.Callee(call)
				return t != nil && t.Pkg != nil && t.Pkg.Pkg.Path() == "sync/atomic" && t.Name() == "Load"
			}
			isLimit := func(v ssa.Value) bool {
				f, owner := an.TerminalField(v)
				return f != nil && nestedIn(c, owner, workersPkg, "PoolManager") && !an.IsNamed(f.Type(), "sync/atomic", "Uint64")
			}
			op := bo.Op
			x, y := bo.X, bo.Y
			if isLimit(x) && isCounterLoad(y) {
				x, y, op = y, x, map[token.Token]token.Token{token.LSS: token.GTR, token.LEQ: token.GEQ, token.GTR: token.LSS, token.GEQ: token.LEQ}[op]
			}
			if !isCounterLoad(x) || !isLimit(y) {
				return
			}
			strict++
			r.Check(op == token.GTR, core.FuncName(lim)+"#strict", an.Pos(c, bo), "the limit counts as reached only when the attempt counter exceeds it", sprintf("the limit predicate compares the attempt counter with the limit using %s: with exactly max-iterations iterations started and none refused, work superseded by the next tick is discarded silently instead of being reported dropped", op))
		})
		r.Floor("comparisons of the attempt counter with the limit in the predicate", strict, 1)
		for _, call := range dropCalls {
			fn := call.Parent()
			key := core.FuncName(fn) + "#drop-guard"
			// the guard sits in the function that reports the drop, or — when the report was moved into a helper — at
			// every call site of that helper
			var guardedAt func(at ssa.CallInstruction, depth int) (bool, string)
			guardedAt = func(at ssa.CallInstruction, depth int) (bool, string) {
				holder := at.Parent()
				var setCall ssa.CallInstruction
				for _, sc := range an.AllCalls(holder) {
					if v, isV := sc.(ssa.Value); isV && isSwapResult(pf, v, 3) {
						setCall = sc
					}
				}
				why := "no guard on " + core.FuncName(lim)
				for _, g := range an.GuardsOf(at.Block()) {
					gc, isCall := an.Strip(g.Cond).(*ssa.Call)
					if !isCall || !isLimitPredicate(an.Callee(gc), lim) {
						continue
					}
					if g.Polarity {
						why = "drops are reported only when the limit IS reached"
						continue
					}
					// the test follows the Swap on every path that made one (the Swap may sit in one branch of a mode switch)
					if setCall != nil && !an.Dominates(setCall, gc) && !(an.ReachableFrom(setCall, gc) && !an.ReachableFrom(gc, setCall)) {
						why = "the limit test at " + an.Pos(c, gc) + " is evaluated before the Swap at " + an.Pos(c, setCall) + ": the limit can be reached in between"
						continue
					}
					return true, ""
				}
				if depth <= 0 || setCall != nil {
					return false, why
				}
				sites := an.CallSitesOf(c, holder)
				if len(sites) == 0 {
					return false, why
				}
				for _, s := range sites {
					if ok, w := guardedAt(s, depth-1); !ok {
						return false, w
					}
				}
				return true, ""
			}
			ok, why := guardedAt(call, 2)
			r.Check(ok, key, an.Pos(c, call), "guarded by !"+core.FuncName(lim)+"() evaluated after the Swap", "drop report not guarded by a negative limit test after the Swap: "+why)
		}
	})

}

func isConst(v ssa.Value) bool { _, ok := v.(*ssa.Const); return ok }

func ownerOfPending(pf *pendingFacts) string {
	for _, op := range pf.ops {
		return ownerNameOf(op.Call.Common().Args[0].(*ssa.FieldAddr).X.Type())
	}
	return "?"
}

// fieldTypes renders the field types of a (pointer to) struct, to test "has a field of type X".
func fieldTypes(t types.Type) string {
	if p, ok := t.(*types.Pointer); ok {
		t = p.Elem()
	}
	st, ok := t.Underlying().(*types.Struct)
	if !ok {
		return ""
	}
	s := ""
	for i := 0; i < st.NumFields(); i++ {
		s += " " + types.TypeString(st.Field(i).Type(), func(*types.Package) string { return "" })
	}
	return s
}

func isCancelFieldCall(call ssa.CallInstruction) bool {
	if an.Callee(call) != nil || call.Common().IsInvoke() {
		return false
	}
	// the cancel function a pool of internal/workers keeps for its worker context (not any CancelFunc field: a test
	// handle may own a context of its own)
	fld, _ := an.TerminalField(call.Common().Value)
	return fld != nil && an.IsNamed(fld.Type(), "context", "CancelFunc") && fld.Pkg() != nil && fld.Pkg().Path() == workersPkg
}

func callsCancelField(fn *ssa.Function) bool {
	for _, call := range an.AllCalls(fn) {
		if isCancelFieldCall(call) {
			return true
		}
	}
	return false
}

func paramIdx(p *ssa.Parameter) int {
	for i, q := range p.Parent().Params {
		if q == p {
			return i
		}
	}
	return -1
}

// isSwapResult: v is the value an atomic Swap on the pending counter returned, possibly handed back through
// helper functions (each returning exactly that).
func isSwapResult(pf *pendingFacts, v ssa.Value, depth int) bool {
	v = stripAllocs(v)
	call, ok := v.(*ssa.Call)
	if !ok {
		return false
	}
	for _, op := range pf.ops {
		if op.Op == "Swap" && ssa.Value(op.Call.(*ssa.Call)) == v {
			return true
		}
	}
	t := an.Callee(call)
	if t == nil || t.Blocks == nil || depth <= 0 || !core.InModule(t) {
		return false
	}
	rets := an.Returns(t)
	if len(rets) == 0 {
		return false
	}
	for _, ret := range rets {
		if len(ret.Results) != 1 || !isSwapResult(pf, ret.Results[0], depth-1) {
			return false
		}
	}
	return true
}

// isLimitPredicate: g is the limit predicate or a bool helper returning it.
func isLimitPredicate(g, lim *ssa.Function) bool {
	if g == nil {
		return false
	}
	if g == lim {
		return true
	}
	if g.Blocks == nil || !core.InModule(g) {
		return false
	}
	for _, ret := range an.Returns(g) {
		c, ok := an.Strip(ret.Results[0]).(*ssa.Call)
		if !ok || an.Callee(c) != lim {
			return false
		}
	}
	return len(an.Returns(g)) > 0
}

// casRetryLoop: fn's only operations on the counter are a Load and a CompareAndSwap whose expected value is that
// Load's result, in a loop that is left only when the CompareAndSwap succeeded.
func casRetryLoop(fn *ssa.Function, fld *types.Var) bool {
	var load, cas ssa.CallInstruction
	n := 0
	for _, op := range an.AtomicOps([]*ssa.Function{fn}) {
		if !an.SameField(op.Field, fld) {
			continue
		}
		n++
		switch op.Op {
		case "Load":
			load = op.Call
		case "CompareAndSwap":
			cas = op.Call
		}
	}
	if n != 2 || load == nil || cas == nil {
		return false
	}
	lv, _ := load.(ssa.Value)
	cv, _ := cas.(ssa.Value)
	if lv == nil || cv == nil || an.Strip(cas.Common().Args[1]) != lv {
		return false
	}
	loop, _ := an.NaturalLoopOf(cas.Block())
	if loop == nil || !loop[load.Block()] || !an.Dominates(load, cas) {
		return false
	}
	// every way out of the loop is the success branch of the CompareAndSwap
	for b := range loop {
		for si, sc := range b.Succs {
			if loop[sc] {
				continue
			}
			iff, isIf := b.Instrs[len(b.Instrs)-1].(*ssa.If)
			if !isIf || an.Strip(iff.Cond) != cv || si != 0 {
				return false
			}
		}
	}
	return true
}
