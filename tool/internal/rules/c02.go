package rules

import (
	"go/constant"
	"go/token"
	"go/types"
	"strings"

	"golang.org/x/tools/go/ssa"

	"f1verif/internal/an"
	"f1verif/internal/core"
)

func init() { register("C02", c02) }

// pendingCounter locates, by role, the atomic field of internal/workers that is Swap-ped (the pending
// job counter) and the functions operating on it.
type pendingFacts struct {
	field   *types.Var
	ops     []an.AtomicOp
	setFns  map[*ssa.Function]bool // functions containing a Swap on it
	takeFns map[*ssa.Function]bool // functions containing an Add on it
	loadFns map[*ssa.Function]bool
}

func findPending(c *core.Ctx) *pendingFacts {
	p := &pendingFacts{setFns: map[*ssa.Function]bool{}, takeFns: map[*ssa.Function]bool{}, loadFns: map[*ssa.Function]bool{}}
	var fns []*ssa.Function
	for _, fn := range c.AllFuncs {
		if core.RelPkg(fn) == "internal/workers" {
			fns = append(fns, fn)
		}
	}
	all := an.AtomicOps(fns)
	for _, op := range all {
		if op.Op == "Swap" {
			if p.field != nil && !an.SameField(p.field, op.Field) {
				panic(core.AnchorError{What: "pending counter is ambiguous: more than one swapped atomic field in internal/workers"})
			}
			p.field = op.Field
		}
	}
	if p.field == nil {
		// fall back: the atomic.Int64 field of a struct embedded in the trigger pool (when Swap was replaced)
		for _, op := range all {
			if b, ok := op.Field.Type().(*types.Named); ok && b.Obj().Name() == "Int64" {
				p.field = op.Field
			}
		}
	}
	if p.field == nil {
		panic(core.AnchorError{What: "pending job counter (an atomic field of internal/workers)"})
	}
	for _, op := range all {
		if !an.SameField(op.Field, p.field) {
			continue
		}
		p.ops = append(p.ops, op)
		switch op.Op {
		case "Swap", "Store":
			p.setFns[op.Fn] = true
		case "Add", "CompareAndSwap":
			p.takeFns[op.Fn] = true
		case "Load":
			p.loadFns[op.Fn] = true
		}
	}
	return p
}

// dropRecorders: functions of internal/workers that record a DroppedResult.
func dropRecorders(c *core.Ctx) map[*ssa.Function]bool {
	out := map[*ssa.Function]bool{}
	dropped := resultConst(c, "DroppedResult")
	for _, fn := range c.AllFuncs {
		if core.RelPkg(fn) != "internal/workers" {
			continue
		}
		for _, call := range an.AllCalls(fn) {
			t := an.Callee(call)
			if t == nil || !(isStatsRecord(t) || isMetricsIter(t)) {
				continue
			}
			if k, ok := resultArg(call).(*ssa.Const); ok && k.Value != nil && constant.StringVal(k.Value) == dropped {
				out[fn] = true
			}
		}
	}
	return out
}

// limitPredicates: functions of internal/workers returning bool that compare the id counter with the limit.
func limitPredicate(c *core.Ctx) *ssa.Function {
	var found *ssa.Function
	for _, fn := range c.AllFuncs {
		if core.RelPkg(fn) != "internal/workers" || fn.Signature.Results().Len() != 1 {
			continue
		}
		if b, ok := fn.Signature.Results().At(0).Type().(*types.Basic); !ok || b.Kind() != types.Bool {
			continue
		}
		loads, cmp := false, false
		for _, op := range an.AtomicOps([]*ssa.Function{fn}) {
			if op.Op == "Load" && an.IsNamed(op.Call.Common().Args[0].(*ssa.FieldAddr).X.Type(), workersPkg, "PoolManager") {
				loads = true
			}
		}
		an.Instrs(fn, func(in ssa.Instruction) {
			if bo, ok := in.(*ssa.BinOp); ok && (bo.Op == token.GTR || bo.Op == token.GEQ || bo.Op == token.LSS || bo.Op == token.LEQ) {
				if strings.Contains(an.D().Of(bo), "maxIterations") {
					cmp = true
				}
			}
		})
		if loads && cmp {
			found = fn
		}
	}
	return found
}

func c02(c *core.Ctx, r *core.Report) {
	r.Explanation = "Decides the structural conditions of work conservation in the trigger pool: (R1) the pending counter is touched only by its own methods, called only from the pool; " +
		"(R2) supersede is one atomic Swap whose result is returned, take is one read-modify-write whose own result decides, nobody Loads then writes; " +
		"(R3) the number of reported drops is the loop bound and the bound is the Swap result; the drop recorder has no other caller; " +
		"(R4) on a successful take exactly one id is allocated and then exactly one of {run the iteration, limit path}; (R5) the limit path discards pending work silently before cancelling and never reaches the drop recorder; " +
		"(R6) every reported drop is guarded by a negative limit test evaluated after the Swap; (R7) condition-variable discipline (no lost wake-up). " +
		"The full interleaving semantics of set/take/none is not decided."
	r.NotDecided = []string{"behaviour of set/take/none under every interleaving (state-space question)", "liveness of workers"}
	var pf *pendingFacts
	drops := map[*ssa.Function]bool{}

	rule(r, "C02.R1", "the pending counter is touched only inside methods of its own type, and those are called only from methods of the pool that embeds it", func() {
		pf = findPending(c)
		owner := ""
		for _, op := range pf.ops {
			fa := op.Call.Common().Args[0].(*ssa.FieldAddr)
			owner = ownerNameOf(fa.X.Type())
			recv := op.Fn.Signature.Recv()
			key := core.FuncName(op.Fn) + "#" + op.Op
			ok := recv != nil && ownerNameOf(recv.Type()) == owner
			r.Check(ok, key, an.Pos(c, op.Call), op.Op+" on "+owner+"."+pf.field.Name()+" inside a method of "+owner, op.Op+" on the pending counter outside its own type's methods")
			if !ok {
				continue
			}
			for _, call := range an.CallSitesOf(c, op.Fn) {
				caller := an.Outermost(call.Parent())
				crecv := caller.Signature.Recv()
				okc := crecv != nil && core.RelPkg(caller) == "internal/workers" && strings.Contains(types.TypeString(crecv.Type().Underlying(), nil)+fieldTypes(crecv.Type()), owner)
				r.Check(okc, core.FuncName(call.Parent())+"→"+core.FuncName(op.Fn), an.Pos(c, call), "counter method called from a method of the pool owning the counter", "pending counter manipulated from "+core.FuncName(call.Parent())+", outside the pool that owns it")
			}
		}
		r.Floor("operations on the pending counter", len(pf.ops), 3)
	})

	rule(r, "C02.R2", "supersede is a single Swap whose result is returned; take is a single RMW and its boolean derives only from that RMW's result; no function Loads and then writes the counter; no plain Store", func() {
		if pf == nil {
			r.Undecided("anchor", "-", "pending counter not resolved")
			return
		}
		perFn := map[*ssa.Function][]an.AtomicOp{}
		for _, op := range pf.ops {
			perFn[op.Fn] = append(perFn[op.Fn], op)
		}
		sawSwap, sawTake := false, false
		for fn, ops := range perFn {
			key := core.FuncName(fn)
			var names []string
			for _, o := range ops {
				names = append(names, o.Op)
			}
			hasLoad, hasWrite, hasStore := false, false, false
			for _, o := range ops {
				switch o.Op {
				case "Load":
					hasLoad = true
				case "Store":
					hasStore, hasWrite = true, true
				default:
					hasWrite = true
				}
			}
			if hasStore {
				r.Violation(key+"#store", an.Pos(c, ops[0].Call), "plain Store on the pending counter (%v): what it overwrites is neither started nor reported dropped", names)
				continue
			}
			if hasLoad && hasWrite {
				r.Violation(key+"#check-then-act", an.Pos(c, ops[0].Call), "%s both Loads and modifies the pending counter (%v): another worker or tick can act between the two", key, names)
				continue
			}
			if len(ops) > 1 && hasWrite {
				r.Violation(key+"#multi-rmw", an.Pos(c, ops[0].Call), "%d atomic operations (%v) on the pending counter in one function: not a single read-modify-write", len(ops), names)
				continue
			}
			o := ops[0]
			v, _ := o.Call.(ssa.Value)
			switch o.Op {
			case "Swap":
				sawSwap = true
				ok := false
				for _, ret := range an.Returns(fn) {
					if len(ret.Results) == 1 && an.Strip(ret.Results[0]) == v {
						ok = true
					}
				}
				r.Check(ok, key+"#swap", an.Pos(c, o.Call), "single Swap whose previous value is returned", "the value removed by the Swap is not what the function returns")
			case "Add", "CompareAndSwap":
				sawTake = true
				ok := len(an.Returns(fn)) > 0
				for _, ret := range an.Returns(fn) {
					if len(ret.Results) != 1 {
						ok = false
						continue
					}
					bo, isCmp := an.Strip(ret.Results[0]).(*ssa.BinOp)
					if !isCmp || !((an.Strip(bo.X) == v && isConst(bo.Y)) || (an.Strip(bo.Y) == v && isConst(bo.X))) {
						ok = false
					}
				}
				if o.Op == "Add" {
					k, isK := o.Call.Common().Args[1].(*ssa.Const)
					if !isK || k.Int64() != -1 {
						r.Violation(key+"#delta", an.Pos(c, o.Call), "take changes the pending counter by %s, not by -1", an.D().Of(o.Call.Common().Args[1]))
					}
				}
				r.Check(ok, key+"#rmw", an.Pos(c, o.Call), "single "+o.Op+" and the decision compares that operation's own result with a constant", "the take decision is not computed from the RMW's own result alone")
			case "Load":
				r.OK(key+"#load", an.Pos(c, o.Call), "read-only")
			default:
				r.Undecided(key, an.Pos(c, o.Call), "unknown operation %s", o.Op)
			}
		}
		if !sawSwap {
			r.Violation("supersede#swap", "-", "no function supersedes the pending counter with an atomic Swap")
		}
		if !sawTake {
			r.Violation("take#rmw", "-", "no function takes from the pending counter with an atomic read-modify-write")
		}
	})

	var sender *ssa.Function
	var dropCalls []ssa.CallInstruction
	rule(r, "C02.R3", "drops are reported in a loop whose bound is the value the Swap returned; the drop recorder has no other caller", func() {
		if pf == nil {
			r.Undecided("anchor", "-", "pending counter not resolved")
			return
		}
		drops = dropRecorders(c)
		if !r.Floor("drop recorders", len(drops), 1) {
			return
		}
		for d := range drops {
			for _, call := range an.CallSitesOf(c, d) {
				dropCalls = append(dropCalls, call)
			}
		}
		if !r.Floor("drop recorder call sites", len(dropCalls), 1) {
			return
		}
		for _, call := range dropCalls {
			fn := call.Parent()
			key := core.FuncName(fn) + "#drop"
			if sender != nil && sender != fn {
				r.Violation(key, an.Pos(c, call), "a second function (%s) reports drops; only the supersede path decides what was dropped", core.FuncName(fn))
				continue
			}
			sender = fn
			// the set call in this function
			var setCall *ssa.Call
			for _, sc := range an.AllCalls(fn) {
				if t := an.Callee(sc); t != nil && pf.setFns[t] {
					if v, ok := sc.(*ssa.Call); ok {
						setCall = v
					}
				}
			}
			if setCall == nil {
				r.Violation(key, an.Pos(c, call), "%s reports drops but does not supersede the pending counter itself: the count cannot be the Swap result", core.FuncName(fn))
				continue
			}
			loop, _ := an.NaturalLoopOf(call.Block())
			if loop == nil {
				// a single conditional report can only be right for bound 1
				r.Violation(key, an.Pos(c, call), "drop report is not in a loop bounded by the Swap result")
				continue
			}
			if an.OnCycleAvoiding(call, call.Block()) {
				r.Violation(key, an.Pos(c, call), "drop report sits in a nested loop")
				continue
			}
			// every If that keeps/enters the loop compares against the Swap result
			okBound, n := true, 0
			why := ""
			checkCond := func(cond ssa.Value) {
				bo, ok := cond.(*ssa.BinOp)
				if !ok {
					okBound, why = false, "loop condition is "+an.D().Of(cond)
					return
				}
				n++
				var bound ssa.Value
				switch bo.Op {
				case token.LSS:
					bound = bo.Y
				case token.GTR:
					bound = bo.X
				default:
					okBound, why = false, "loop condition uses "+bo.Op.String()
					return
				}
				if an.Strip(bound) != ssa.Value(setCall) {
					okBound, why = false, "loop bound is "+an.D().Of(bound)+", not the value returned by the Swap at "+an.Pos(c, setCall)
				}
			}
			for b := range loop {
				if iff, ok := b.Instrs[len(b.Instrs)-1].(*ssa.If); ok {
					inT, inF := loop[b.Succs[0]], loop[b.Succs[1]]
					if inT != inF {
						checkCond(iff.Cond)
					}
				}
			}
			_, head := an.NaturalLoopOf(call.Block())
			for _, p := range head.Preds {
				if loop[p] {
					continue
				}
				if iff, ok := p.Instrs[len(p.Instrs)-1].(*ssa.If); ok {
					checkCond(iff.Cond)
				}
			}
			if n == 0 {
				okBound, why = false, "no bounding comparison found"
			}
			r.Check(okBound, key, an.Pos(c, call), "one drop per loop iteration, loop bounded by the Swap result "+an.D().Of(setCall), "the number of reported drops is not the Swap result: "+why)
		}
	})

	rule(r, "C02.R4", "in the worker loop, after a successful take exactly one id is allocated and then exactly one of {the iteration runs, the limit path is taken}", func() {
		if pf == nil {
			r.Undecided("anchor", "-", "pending counter not resolved")
			return
		}
		runner, _, _ := iterationRunner(c)
		n := 0
		for _, fn := range c.AllFuncs {
			if core.RelPkg(fn) != "internal/workers" {
				continue
			}
			for _, call := range an.AllCalls(fn) {
				t := an.Callee(call)
				if t == nil || !pf.takeFns[t] {
					continue
				}
				n++
				key := core.FuncName(fn) + "#after-take"
				v, _ := call.(ssa.Value)
				// true successor of the If on take()'s result
				var then *ssa.BasicBlock
				for _, ref := range an.Referrers(v) {
					if iff, ok := ref.(*ssa.If); ok {
						then = iff.Block().Succs[0]
					}
				}
				if then == nil {
					r.Violation(key, an.Pos(c, call), "result of take is not branched on")
					continue
				}
				_, head := an.NaturalLoopOf(call.Block())
				stop := map[*ssa.BasicBlock]bool{}
				if head != nil {
					stop[head] = true
				}
				isNext := func(_ ssa.CallInstruction, t *ssa.Function) bool {
					return isMethod(t, workersPkg, "PoolManager", "NextIteration")
				}
				isRunOrLimit := func(ci ssa.CallInstruction, t *ssa.Function) bool {
					if t == runner {
						return true
					}
					return t != nil && core.RelPkg(t) == "internal/workers" && callsCancelField(t)
				}
				ok := true
				for _, e := range an.PathCountUntil(then.Instrs[0], an.CallWeight(isNext, 0), stop) {
					if e.Count.Lo != 1 || e.Count.Hi != 1 {
						ok = false
						r.Violation(key+"-id", an.Pos(c, e.Instr), "NextIteration executed %s times between a successful take and this exit of the iteration", e.Count)
					}
				}
				for _, e := range an.PathCountUntil(then.Instrs[0], an.CallWeight(isRunOrLimit, 0), stop) {
					if e.Count.Lo != 1 || e.Count.Hi != 1 {
						ok = false
						r.Violation(key+"-start", an.Pos(c, e.Instr), "after a successful take, {run iteration, limit path} executed %s times before this exit: the request is neither started once nor discarded", e.Count)
					}
				}
				if ok {
					r.OK(key, an.Pos(c, call), "take → one NextIteration → exactly one of run/limit on every path of the loop iteration")
				}
			}
		}
		r.Floor("take sites", n, 1)
	})

	rule(r, "C02.R5", "the limit path discards the pending count (Swap result unused) before cancelling and does not reach the drop recorder", func() {
		if pf == nil {
			r.Undecided("anchor", "-", "pending counter not resolved")
			return
		}
		n := 0
		for _, fn := range c.AllFuncs {
			if core.RelPkg(fn) != "internal/workers" || !callsCancelField(fn) {
				continue
			}
			// only pools that have a pending counter
			recv := fn.Signature.Recv()
			if recv == nil || !strings.Contains(fieldTypes(recv.Type()), ownerOfPending(pf)) {
				continue
			}
			n++
			key := core.FuncName(fn)
			var setCall, cancel ssa.CallInstruction
			for _, call := range an.AllCalls(fn) {
				if t := an.Callee(call); t != nil && pf.setFns[t] {
					setCall = call
				}
				if isCancelFieldCall(call) {
					cancel = call
				}
			}
			if setCall == nil {
				r.Violation(key+"#discard", c.Pos(fn.Pos()), "limit path cancels without clearing the pending count: what is pending is later reported as dropped by stop()")
				continue
			}
			k, isK := setCall.Common().Args[len(setCall.Common().Args)-1].(*ssa.Const)
			r.Check(isK && k.Int64() == 0, key+"#zero", an.Pos(c, setCall), "pending count set to 0", "limit path sets the pending count to "+an.D().Of(setCall.Common().Args[len(setCall.Common().Args)-1]))
			v, _ := setCall.(ssa.Value)
			r.Check(v == nil || len(an.Referrers(v)) == 0, key+"#silent", an.Pos(c, setCall), "the discarded count is not used (silent)", "the count discarded on the limit path is used")
			r.Check(an.Dominates(setCall, cancel), key+"#order", an.Pos(c, cancel), "pending cleared before the cancel", "limit path cancels before clearing the pending count")
			reaches := an.ReachesCall(fn, 4, func(g *ssa.Function) bool { return drops[g] })
			r.Check(!reaches, key+"#no-drop", c.Pos(fn.Pos()), "limit path does not reach the drop recorder synchronously", "limit path reaches the drop recorder: limit-discarded work is reported as dropped")
		}
		r.Floor("limit paths of counter-based pools", n, 1)
	})

	rule(r, "C02.R6", "every drop report is control-dependent on a negative test of the limit predicate evaluated after the Swap (a tick can slip between the limit path's discard and its cancel, and stop() runs after every ending)", func() {
		if pf == nil || len(dropCalls) == 0 {
			r.Undecided("anchor", "-", "drop call sites not resolved (R3)")
			return
		}
		lim := limitPredicate(c)
		if lim == nil {
			r.Undecided("anchor:limit-predicate", "-", "no bool function of internal/workers compares the id counter with maxIterations")
			return
		}
		for _, call := range dropCalls {
			fn := call.Parent()
			key := core.FuncName(fn) + "#drop-guard"
			var setCall ssa.CallInstruction
			for _, sc := range an.AllCalls(fn) {
				if t := an.Callee(sc); t != nil && pf.setFns[t] {
					setCall = sc
				}
			}
			ok, why := false, "no guard on "+core.FuncName(lim)
			for _, g := range an.GuardsOf(call.Block()) {
				gc, isCall := an.Strip(g.Cond).(*ssa.Call)
				if !isCall || an.Callee(gc) != lim {
					continue
				}
				if g.Polarity {
					why = "drops are reported only when the limit IS reached"
					continue
				}
				if setCall != nil && !an.Dominates(setCall, gc) {
					why = "the limit test at " + an.Pos(c, gc) + " is evaluated before the Swap at " + an.Pos(c, setCall) + ": the limit can be reached in between"
					continue
				}
				ok = true
			}
			r.Check(ok, key, an.Pos(c, call), "guarded by !"+core.FuncName(lim)+"() evaluated after the Swap", "drop report not guarded by a negative limit test after the Swap: "+why)
		}
	})

	rule(r, "C02.R7", "condition-variable discipline: Wait in a loop re-checking the predicate under L; every write that can end the wait is followed on all paths by a Broadcast executed with L held", func() {
		condDiscipline(c, r)
	})
}

func isConst(v ssa.Value) bool { _, ok := v.(*ssa.Const); return ok }

func ownerOfPending(pf *pendingFacts) string {
	for _, op := range pf.ops {
		return ownerNameOf(op.Call.Common().Args[0].(*ssa.FieldAddr).X.Type())
	}
	return "?"
}

// fieldTypes renders the field types of a (pointer to) struct, to test "has a field of type X".
func fieldTypes(t types.Type) string {
	if p, ok := t.(*types.Pointer); ok {
		t = p.Elem()
	}
	st, ok := t.Underlying().(*types.Struct)
	if !ok {
		return ""
	}
	s := ""
	for i := 0; i < st.NumFields(); i++ {
		s += " " + types.TypeString(st.Field(i).Type(), func(*types.Package) string { return "" })
	}
	return s
}

func isCancelFieldCall(call ssa.CallInstruction) bool {
	if an.Callee(call) != nil || call.Common().IsInvoke() {
		return false
	}
	fld, _ := an.TerminalField(call.Common().Value)
	return fld != nil && an.IsNamed(fld.Type(), "context", "CancelFunc")
}

func callsCancelField(fn *ssa.Function) bool {
	for _, call := range an.AllCalls(fn) {
		if isCancelFieldCall(call) {
			return true
		}
	}
	return false
}
