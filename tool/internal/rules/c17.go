package rules

import (
	"go/token"
	"go/types"
	"sort"
	"strings"

	"golang.org/x/tools/go/ssa"

	"f1verif/internal/an"
	"f1verif/internal/core"
)

func init() { register("C17", c17) }

func isNanoTime(f *ssa.Function) bool {
	return f != nil && f.Name() == "NanoTime" && core.RelPkg(f) == "internal/xtime"
}

// clockBracket checks that in fn the duration handed to the recording calls is c2 − c1 of two monotonic
// clock reads in fn's own frame that bracket exactly the recovered user call.
func clockBracket(c *core.Ctx, r *core.Report, fn *ssa.Function, body an.Event, recorders func(*ssa.Function) bool, allowedBetween func(*ssa.Function) bool) {
	key := core.FuncName(fn)
	var durs []an.FV
	var recCalls []ssa.Instruction
	for _, e := range recordEvents(fn) {
		if !recorders(an.Callee(e.Ev.Call())) {
			continue
		}
		args := e.Ev.Call().Common().Args
		recCalls = append(recCalls, e.Ev.Instr)
		durs = append(durs, an.EventFV(e.Ev, args[len(args)-1]).Resolve(isNanoTime))
	}
	if len(durs) == 0 {
		r.Undecided(key+"#recorders", c.Pos(fn.Pos()), "no recording call found")
		return
	}
	sameVal := func(a, b ssa.Value) bool {
		if a == b {
			return true
		}
		ua, ok1 := a.(*ssa.UnOp)
		ub, ok2 := b.(*ssa.UnOp)
		return ok1 && ok2 && ua.Op == token.MUL && ub.Op == token.MUL && ua.X == ub.X
	}
	for i, d := range durs {
		if !sameVal(d.V, durs[0].V) {
			r.Violation(key+"#same-duration", an.Pos(c, recCalls[i]), "the statistics and the metric are given different durations (%s vs %s)", an.D().Of(d.V), an.D().Of(durs[0].V))
			return
		}
	}
	sub, ok := durs[0].V.(*ssa.BinOp)
	if !ok || sub.Op != token.SUB {
		r.Violation(key+"#duration-shape", an.Pos(c, recCalls[0]), "the recorded duration is %s, not the difference of two clock reads taken in this frame: a body that panics (FailNow, failed assertion, crash) or an early exit leaves it unset or stale", an.D().Of(durs[0].V))
		return
	}
	x := an.FV{V: sub.X, F: durs[0].F}.Resolve(isNanoTime)
	y := an.FV{V: sub.Y, F: durs[0].F}.Resolve(isNanoTime)
	c2, ok2 := x.V.(*ssa.Call)
	c1, ok1 := y.V.(*ssa.Call)
	if !ok1 || !ok2 || !isNanoTime(an.Callee(c1)) || !isNanoTime(an.Callee(c2)) {
		r.Violation(key+"#duration-shape", an.Pos(c, sub), "the recorded duration is %s, not NanoTime() − NanoTime()", an.D().Of(sub))
		return
	}
	c1Ev, c2Ev := an.Event{Instr: c1, Frame: y.F}, an.Event{Instr: c2, Frame: x.F}
	r.Check(an.Before(c1Ev, body), key+"#start-before-body", an.Pos(c, c1), "the first clock read precedes the body", "the start time is read after the body started")
	r.Check(an.Before(body, c2Ev), key+"#end-after-body", an.Pos(c, c2), "the second clock read follows the recovered body on every path (also when it panicked)", "the end time is read before the body finished")
	inLoop := func(e an.Event) bool {
		in := e.Instr
		for fr := e.Frame; fr != nil; fr = fr.Parent {
			if an.InLoop(in) {
				return true
			}
			if fr.Parent != nil {
				in = fr.Site
			}
		}
		return false
	}
	if inLoop(c1Ev) || inLoop(c2Ev) {
		r.Violation(key+"#clock-loop", an.Pos(c, c1), "clock reads sit in a loop")
	}
	// what runs between the two reads, apart from the recovered frame of the body itself
	bodyRoot := body.Root()
	clean := true
	an.Flatten(fn, flatDepth, nil, func(e an.Event) {
		call := e.Call()
		if call == nil || e.Instr == ssa.Instruction(c1) || e.Instr == ssa.Instruction(c2) || e.Root() == bodyRoot {
			return
		}
		if _, isDefer := e.Instr.(*ssa.Defer); isDefer {
			return
		}
		if an.Before(c1Ev, e) && an.Before(e, c2Ev) {
			t := an.Callee(call)
			if t != nil && (allowedBetween(t) || (an.Inlinable(fn)(call, t) && e.Frame.Fn != nil)) {
				return // helpers are looked into: their own calls are judged
			}
			clean = false
			r.Violation(key+"#between-clocks", an.Pos(c, e.Instr), "%s executes between the two clock reads: its time is charged to the iteration's duration", an.D().Of(call.Common().Value))
		}
	})
	if clean {
		r.OK(key+"#between-clocks", an.Pos(c, c2), "only the recovered body (and the outcome read) run between the clock reads")
	}
	// cleanups after the second read
	for _, e := range an.FlatCalls(fn, flatDepth, func(call ssa.CallInstruction, t *ssa.Function) bool {
		if t != nil || call.Common().IsInvoke() {
			return false
		}
		fld, owner := an.TerminalField(call.Common().Value)
		return fld != nil && an.IsNamed(owner, workersPkg, "iterationState")
	}) {
		_, isDefer := e.Instr.(*ssa.Defer)
		isDefer = isDefer && e.Frame.Parent == nil // deferred in the runner's own frame: runs when the runner returns
		r.Check(isDefer || an.Before(c2Ev, e), key+"#cleanups-excluded", an.Pos(c, e.Instr), "cleanups run after the second clock read", "the iteration's cleanups run before the end time is read: their time is included in the duration")
	}
}

func c17(c *core.Ctx, r *core.Report) {
	r.Explanation = "Decides structurally: (R1) the duration recorded for an iteration (and for setup) is the difference of two monotonic clock reads taken in the runner's own frame, the first before and the second after the recovered body on every path, with nothing else in between and the cleanups after the second read; the first read happens inside the runner, i.e. after the worker took the job; " +
		"(R2) aggregation correspondences — merge and drain pair sum↔sum, count↔count, min↔min, max↔max and touch every field; the snapshot maps Count←count, Min←min, Max←max, Average←sum/count with the divisor guarded; (R3) lifetime count/sum are only added to and read; " +
		"(R4) the lifetime minimum is overwritten only when it is unset or the period's minimum is set (0 is the 'no minimum yet' sentinel, so an empty period cannot wipe it). NOT decided: min ≤ mean ≤ max and exactness of the integer mean (value reasoning)."
	r.NotDecided = []string{"min ≤ mean ≤ max whenever count > 0", "exactness of the integer mean", "concurrent min/max updates in Add (property restricts aggregation to sequential use)"}
	ppkg := "internal/progress"

	rule(r, "C17.R1", "recorded durations are NanoTime₂ − NanoTime₁ with the two reads bracketing exactly the recovered body, in the runner's own frame; cleanups and queueing are outside", func() {
		runner, bodyEv, _ := userRunner(c, "RunFn", func(t *ssa.Function) bool { return isStatsRecord(t) || isMetricsIter(t) })
		clockBracket(c, r, runner, bodyEv,
			func(t *ssa.Function) bool { return isStatsRecord(t) || isMetricsIter(t) },
			func(t *ssa.Function) bool {
				return isMethod(t, testingPkg, "T", "Failed") || an.IsFunc(t, metricsPkg, "Result")
			})
		setup, sbodyEv, _ := userRunner(c, "ScenarioFn", func(t *ssa.Function) bool { return isMethod(t, metricsPkg, "Metrics", "RecordSetupResult") })
		clockBracket(c, r, setup, sbodyEv,
			func(t *ssa.Function) bool { return isMethod(t, metricsPkg, "Metrics", "RecordSetupResult") },
			func(t *ssa.Function) bool {
				return isMethod(t, testingPkg, "T", "Failed") || an.IsFunc(t, metricsPkg, "Result")
			})
		// the value flows unchanged to the accumulators
		// the duration is the function's own int64 parameter, whatever it is called
		durParam := func(fn *ssa.Function) ssa.Value {
			for _, p := range fn.Params {
				if b, ok := p.Type().Underlying().(*types.Basic); ok && b.Kind() == types.Int64 {
					return p
				}
			}
			return nil
		}
		rec := c.MustFn(ppkg, "Stats.Record")
		for _, call := range an.AllCalls(rec) {
			if isMethod(an.Callee(call), progressPkg, "DurationStats", "Record") {
				r.Check(an.Strip(call.Common().Args[1]) == durParam(rec), "Stats.Record#value", an.Pos(c, call), "duration passed on unchanged", "Stats.Record passes "+an.D().Of(call.Common().Args[1])+" instead of the duration")
			}
		}
		dr := c.MustFn(ppkg, "DurationStats.Record")
		for _, call := range an.AllCalls(dr) {
			if isMethod(an.Callee(call), progressPkg, "IterationDurations", "Add") {
				hotClass, _ := progressRoles(c)
				r.Check(an.Strip(call.Common().Args[1]) == durParam(dr) && strings.HasSuffix(an.D().Of(call.Common().Args[0]), "."+fieldOfClass(hotClass)), "DurationStats.Record#value", an.Pos(c, call), "recorded into the per-period accumulator unchanged", "DurationStats.Record adds "+an.D().Of(call.Common().Args[1])+" to "+an.D().Of(call.Common().Args[0]))
			}
		}
		add := c.MustFn(ppkg, "IterationDurations.Add")
		for _, op := range an.AtomicOps([]*ssa.Function{add}) {
			if op.Op != "Add" {
				continue
			}
			d := an.D().Of(op.Call.Common().Args[1])
			roles := durationRoles(c)
			switch op.Field.Name() {
			case roles.sum:
				r.Check(an.Strip(op.Call.Common().Args[1]) == durParam(add), "IterationDurations.Add#sum", an.Pos(c, op.Call), "sum += duration", "sum is increased by "+d)
			case roles.count:
				r.Check(d == "1", "IterationDurations.Add#count", an.Pos(c, op.Call), "count += 1", "count is increased by "+d)
			default:
				r.Violation("IterationDurations.Add#"+op.Field.Name(), an.Pos(c, op.Call), "%s is accumulated with Add", op.Field.Name())
			}
		}
	})

	rule(r, "C17.R2", "aggregation correspondences: merge/drain pair each field with the same-named field and cover sum, count, min, max; Snapshot maps Count←count, Min←min, Max←max, Average←sum/count with a zero-count guard", func() {
		hotClass, lifeClass := progressRoles(c)
		roles := durationRoles(c)
		if roles.mismatch != "" {
			r.Violation("IterationDurations#roles", c.Pos(c.MustFn(ppkg, "IterationDurations.Snapshot").Pos()), "%sthe figures reported are not the ones maintained", roles.mismatch)
		}
		// every atomic field of the accumulator type
		var fields []string
		acc := c.Named(ppkg, "IterationDurations").Underlying().(*types.Struct)
		var leaves func(st *types.Struct, depth int)
		leaves = func(st *types.Struct, depth int) {
			for i := 0; i < st.NumFields(); i++ {
				f := st.Field(i)
				// fields grouped into small structs of the package count by their own atomics
				if n, isNamed := f.Type().(*types.Named); isNamed && n.Obj().Pkg() != nil && n.Obj().Pkg().Path() == progressPkg && depth < 3 {
					if inner, isStruct := n.Underlying().(*types.Struct); isStruct {
						leaves(inner, depth+1)
						continue
					}
				}
				fields = append(fields, f.Name())
			}
		}
		leaves(acc, 0)
		merged, cleared := map[string]bool{}, map[string]bool{}
		for _, s := range durationAtomics(c) {
			if s.Op == "Load" || len(s.Call.Common().Args) < 2 {
				continue
			}
			// clearing the per-period accumulator
			if has(s.classes, hotClass) && (s.Op == "Swap" || s.Op == "Store") {
				if k, ok := s.Call.Common().Args[1].(*ssa.Const); ok && k.Value != nil && k.Int64() == 0 {
					cleared[s.Field.Name()] = true
				}
			}
			// transfers between instances
			src, ok := stripAllocs(s.Call.Common().Args[1]).(*ssa.Call)
			if !ok {
				continue
			}
			t := an.Callee(src)
			if t == nil || t.Pkg == nil || t.Pkg.Pkg.Path() != "sync/atomic" {
				continue
			}
			sf := an.FieldOfAddr(src.Call.Args[0])
			if sf == nil || an.D().Of(accBase(src.Call.Args[0])) == an.D().Of(accBase(s.Call.Common().Args[0])) {
				continue
			}
			key := s.Fn.Name() + "#" + s.Field.Name() + "←" + sf.Name()
			r.Check(sf.Name() == s.Field.Name(), key, an.Pos(c, s.Call), s.Field.Name()+" fed from the other instance's "+sf.Name(), "field "+s.Field.Name()+" is fed from the other instance's "+sf.Name()+": the aggregate is corrupted")
			if has(s.classes, lifeClass) && sf.Name() == s.Field.Name() {
				merged[s.Field.Name()] = true
			}
		}
		for _, f := range fields {
			r.Check(merged[f], "merge#covers-"+f, "-", "the lifetime "+f+" is fed from a period's "+f, "no merge carries "+f+" into the lifetime accumulator: lifetime figures ignore it")
			r.Check(cleared[f], "drain#clears-"+f, "-", "the per-period "+f+" is cleared by the drain", "the drain does not clear the per-period "+f+": the next period's figures include the previous ones")
		}
		snap := c.MustFn(ppkg, "IterationDurations.Snapshot")
		for _, ret := range an.Returns(snap) {
			lit := an.StructLiteralOf(ret.Results[0])
			if lit == nil {
				r.Undecided("IterationDurations.Snapshot#literal", an.Pos(c, ret), "not a literal")
				continue
			}
			for k, v := range an.LiteralFields(lit) {
				src := feedOf(v)
				d := src.String()
				switch k {
				case "Min":
					r.Check(src.only(roles.min) && len(src.ops) == 0, "Snapshot#Min", an.Pos(c, ret), "Min ← min", "Snapshot.Min is fed from "+d)
				case "Max":
					r.Check(src.only(roles.max) && len(src.ops) == 0, "Snapshot#Max", an.Pos(c, ret), "Max ← max", "Snapshot.Max is fed from "+d)
				case "Count":
					r.Check(src.only(roles.count) && len(src.ops) == 0 && src.constsWithin("0"), "Snapshot#Count", an.Pos(c, ret), "Count ← count", "Snapshot.Count is fed from "+d)
				case "Average":
					okk := len(src.quos) > 0 && src.constsWithin("0") && len(src.ops) == 1
					guard := true
					for _, q := range src.quos {
						nx, dx := feedOf(q.X), feedOf(q.Y)
						if !nx.only(roles.sum) || len(nx.ops) != 0 || !dx.only(roles.count) || len(dx.ops) != 0 {
							okk = false
						}
						g := false
						for _, gd := range an.GuardsOf(q.Block()) {
							bo, ok := gd.Cond.(*ssa.BinOp)
							if !ok {
								continue
							}
							x, y := bo.X, bo.Y
							if _, isK := x.(*ssa.Const); isK {
								x, y = y, x
							}
							k, isK := y.(*ssa.Const)
							if !isK || k.Value == nil || k.Value.String() != "0" || !feedOf(gd.T(x)).only(roles.count) {
								continue
							}
							if (bo.Op == token.EQL && !gd.Polarity) || (bo.Op == token.NEQ && gd.Polarity) || (bo.Op == token.GTR && gd.Polarity) {
								g = true
							}
						}
						guard = guard && g
					}
					r.Check(okk && guard, "Snapshot#Average", an.Pos(c, ret), "Average ← sum/count under count != 0 (0 otherwise)", "Snapshot.Average is fed from "+d+sprintf(" (zero-count guard: %v)", guard))
				}
			}
		}
	})

	rule(r, "C17.R3", "lifetime count and sum only grow: on the lifetime accumulators they are touched only by Add and Load", func() {
		n := 0
		_, lifeClass := progressRoles(c)
		roles := durationRoles(c)
		for _, s := range durationAtomics(c) {
			if !has(s.classes, lifeClass) || !(s.Field.Name() == roles.count || s.Field.Name() == roles.sum) {
				continue
			}
			n++
			key := "lifetime." + s.Field.Name() + "@" + core.FuncName(s.Fn) + "#" + s.Op
			onlyLifetime := len(s.classes) == 1
			switch s.Op {
			case "Add", "Load":
				r.OK(key, an.Pos(c, s.Call), "%s on the lifetime %s", s.Op, s.Field.Name())
			default:
				if onlyLifetime {
					r.Violation(key, an.Pos(c, s.Call), "%s on the lifetime %s: lifetime figures can decrease", s.Op, s.Field.Name())
				} else {
					// the same method also serves other instances (e.g. the drain on the per-period accumulator)
					r.Note(key, an.Pos(c, s.Call), "%s reaches classes %v; only reported when it can only be the lifetime accumulator", s.Op, s.classes)
					n--
				}
			}
		}
		r.Floor("operations on lifetime count/sum", n, 2)
	})

	rule(r, "C17.R7", "while recording, a period's extremes only move outwards: every plain store to the maximum (minimum) cell in IterationDurations.Add stores the duration itself and lies, on every path, behind a test that the duration is larger (smaller) than the cell's current value or that the cell is still unset (== 0) — an unconditional store (`first sample sets both`) erases extremes a concurrent drain has not yet taken, and a wrong test makes Min/Max something else than the smallest/largest recorded duration", func() {
		extremesMoveOutwards(c, r)
	})

	rule(r, "C17.R4", "the lifetime minimum is overwritten by a period's minimum only on paths where it is unset (== 0) or the period's minimum is set (> 0)", func() {
		upd := c.MustFn(ppkg, "IterationDurations.Update")
		roles := durationRoles(c)
		paths, err := an.DecisionPaths(upd, 4096)
		if err != nil {
			r.Undecided("Update#paths", c.Pos(upd.Pos()), "%v", err)
			return
		}
		n, bad := 0, 0
		for _, p := range paths {
			// does this path store into i.min?
			var store ssa.Instruction
			var val ssa.Value
			for _, b := range p.Blocks {
				for _, in := range b.Instrs {
					if call, ok := in.(ssa.CallInstruction); ok {
						t := an.Callee(call)
						if t != nil && t.Pkg != nil && t.Pkg.Pkg.Path() == "sync/atomic" && t.Name() == "Store" {
							if f := an.FieldOfAddr(call.Common().Args[0]); f != nil && f.Name() == roles.min && an.Strip(accBase(call.Common().Args[0])) == ssa.Value(upd.Params[0]) {
								store, val = in, call.Common().Args[1]
							}
						}
					}
				}
			}
			if store == nil {
				continue
			}
			n++
			unset, periodSet := false, false
			for _, l := range p.Lits {
				bo, ok := l.Cond.(*ssa.BinOp)
				if !ok {
					continue
				}
				xd, yd := an.D().Of(bo.X), an.D().Of(bo.Y)
				ownMinLoad := strings.HasSuffix(xd, "Load($recv."+roles.min+")")
				if lc, isCall := an.Strip(bo.X).(*ssa.Call); isCall {
					if lt := an.Callee(lc); lt != nil && lt.Pkg != nil && lt.Pkg.Pkg.Path() == "sync/atomic" && lt.Name() == "Load" {
						if f := an.FieldOfAddr(lc.Call.Args[0]); f != nil && f.Name() == roles.min && an.Strip(accBase(lc.Call.Args[0])) == ssa.Value(upd.Params[0]) {
							ownMinLoad = true
						}
					}
				}
				if ownMinLoad && yd == "0" && ((bo.Op == token.EQL && l.Val) || (bo.Op == token.NEQ && !l.Val)) {
					unset = true
				}
				if stripAllocs(bo.X) == stripAllocs(val) && yd == "0" && ((bo.Op == token.GTR && l.Val) || (bo.Op == token.NEQ && l.Val) || (bo.Op == token.EQL && !l.Val)) {
					periodSet = true
				}
			}
			if !(unset || periodSet) {
				bad++
				r.Violation("Update#min-sentinel", an.Pos(c, store), "the lifetime minimum is overwritten on a path where it is set and the period's minimum may be 0 (an empty period): a quiet snapshot wipes the minimum, and the next period re-seeds it above the true minimum")
			}
		}
		if bad == 0 {
			r.OK("Update#min-sentinel", c.Pos(upd.Pos()), "%d paths overwrite the lifetime minimum, each with min unset or the period's minimum set", n)
		}
		r.Floor("paths storing the lifetime minimum", n, 1)
	})
}

// feed describes where a value comes from: which accumulator fields are loaded, which constants and which
// arithmetic is involved — through conversions, phis, locals and helpers of the module.
type feed struct {
	fields map[string]bool
	consts map[string]bool
	ops    map[string]bool
	quos   []*ssa.BinOp
	other  []string
}

func (f *feed) only(field string) bool {
	return len(f.fields) == 1 && f.fields[field] && len(f.other) == 0
}

func (f *feed) constsWithin(allowed ...string) bool {
	for k := range f.consts {
		ok := false
		for _, a := range allowed {
			if a == k {
				ok = true
			}
		}
		if !ok {
			return false
		}
	}
	return true
}

func (f *feed) String() string {
	var parts []string
	for k := range f.fields {
		parts = append(parts, "load("+k+")")
	}
	for k := range f.consts {
		parts = append(parts, k)
	}
	for k := range f.ops {
		parts = append(parts, "op"+k)
	}
	parts = append(parts, f.other...)
	sort.Strings(parts)
	return "{" + strings.Join(parts, ", ") + "}"
}

func feedOf(v ssa.Value) *feed {
	f := &feed{fields: map[string]bool{}, consts: map[string]bool{}, ops: map[string]bool{}}
	seen := map[ssa.Value]bool{}
	var walk func(v ssa.Value, depth int)
	walk = func(v ssa.Value, depth int) {
		v = an.Strip(v)
		if v == nil || seen[v] {
			return
		}
		seen[v] = true
		switch x := v.(type) {
		case *ssa.Const:
			if x.Value != nil {
				f.consts[x.Value.String()] = true
			} else {
				f.consts["zero"] = true
			}
		case *ssa.Phi:
			for _, e := range x.Edges {
				walk(e, depth)
			}
		case *ssa.BinOp:
			f.ops[x.Op.String()] = true
			if x.Op == token.QUO {
				f.quos = append(f.quos, x)
			}
			walk(x.X, depth)
			walk(x.Y, depth)
		case *ssa.Extract:
			call, ok := x.Tuple.(*ssa.Call)
			t := an.Callee(call)
			if !ok || t == nil || t.Blocks == nil || !core.InModule(t) || depth <= 0 {
				f.other = append(f.other, an.D().Of(v))
				return
			}
			for _, ret := range an.Returns(t) {
				walk(ret.Results[x.Index], depth-1)
			}
		case *ssa.Call:
			t := an.Callee(x)
			if t != nil && t.Pkg != nil && t.Pkg.Pkg.Path() == "sync/atomic" && t.Name() == "Load" {
				if fld := an.FieldOfAddr(x.Call.Args[0]); fld != nil {
					f.fields[fld.Name()] = true
					return
				}
			}
			if t != nil && t.Blocks != nil && core.InModule(t) && depth > 0 && t.Signature.Results().Len() == 1 {
				for _, ret := range an.Returns(t) {
					walk(ret.Results[0], depth-1)
				}
				return
			}
			f.other = append(f.other, an.D().Of(v))
		default:
			f.other = append(f.other, an.D().Of(v))
		}
	}
	walk(v, flatDepth)
	return f
}

// durRoles names the four cells of the duration accumulator by what they are used for. When the fields carry the
// usual names (sum, count, min, max) those are the roles. Otherwise the roles are read off twice and must agree:
// from the snapshot (the cell feeding Count, Min, Max and the numerator of Average) and from Add (the cell
// increased by the duration, the one increased by 1, the one overwritten when the duration is larger / smaller).
type durRoles struct {
	sum, count, min, max string
	mismatch             string // the two readings disagree: reported by C17.R2
}

var durRolesCache = map[*core.Ctx]*durRoles{}

func durationRoles(c *core.Ctx) *durRoles {
	if dr, ok := durRolesCache[c]; ok {
		return dr
	}
	dr := &durRoles{sum: "sum", count: "count", min: "min", max: "max"}
	durRolesCache[c] = dr
	ppkg := "internal/progress"
	names := map[string]bool{}
	for _, s := range durationAtomics(c) {
		names[s.Field.Name()] = true
	}
	if names["sum"] && names["count"] && names["min"] && names["max"] {
		return dr
	}
	// reading 1: the snapshot
	snapR := map[string]string{}
	one := func(f *feed) string {
		if len(f.fields) != 1 {
			return ""
		}
		for k := range f.fields {
			return k
		}
		return ""
	}
	for _, ret := range an.Returns(c.MustFn(ppkg, "IterationDurations.Snapshot")) {
		lit := an.StructLiteralOf(ret.Results[0])
		if lit == nil {
			continue
		}
		for k, v := range an.LiteralFields(lit) {
			src := feedOf(v)
			switch k {
			case "Min":
				snapR["min"] = one(src)
			case "Max":
				snapR["max"] = one(src)
			case "Count":
				snapR["count"] = one(src)
			case "Average":
				for _, q := range src.quos {
					snapR["sum"] = one(feedOf(q.X))
				}
			}
		}
	}
	// reading 2: Add
	addR := map[string]string{}
	add := c.MustFn(ppkg, "IterationDurations.Add")
	var dur ssa.Value
	for _, p := range add.Params {
		if b, ok := p.Type().Underlying().(*types.Basic); ok && b.Kind() == types.Int64 {
			dur = p
		}
	}
	loadedField := func(v ssa.Value) string {
		call, ok := an.Strip(v).(*ssa.Call)
		if !ok {
			return ""
		}
		t := an.Callee(call)
		if t == nil || t.Pkg == nil || t.Pkg.Pkg.Path() != "sync/atomic" || t.Name() != "Load" {
			return ""
		}
		if f := an.FieldOfAddr(call.Call.Args[0]); f != nil {
			return f.Name()
		}
		return ""
	}
	for _, op := range an.AtomicOps([]*ssa.Function{add}) {
		if op.Op != "Add" {
			continue
		}
		arg := an.Strip(op.Call.Common().Args[1])
		if arg == dur {
			addR["sum"] = op.Field.Name()
		} else if k, isK := arg.(*ssa.Const); isK && k.Value != nil && k.Int64() == 1 {
			addR["count"] = op.Field.Name()
		}
	}
	an.Instrs(add, func(in ssa.Instruction) {
		bo, ok := in.(*ssa.BinOp)
		if !ok {
			return
		}
		x, y, op := an.Strip(bo.X), an.Strip(bo.Y), bo.Op
		if y == dur {
			x, y, op = y, x, mirrorCmp(op)
		}
		if x != dur {
			return
		}
		f := loadedField(y)
		if f == "" {
			return
		}
		switch op {
		case token.GTR, token.GEQ:
			addR["max"] = f
		case token.LSS, token.LEQ:
			addR["min"] = f
		}
	})
	pick := func(role string, dst *string) {
		s, a := snapR[role], addR[role]
		switch {
		case s != "" && a != "" && s != a:
			dr.mismatch += sprintf("the snapshot reports field %s as the %s, while Add maintains field %s as the %s; ", s, role, a, role)
			*dst = s
		case s != "":
			*dst = s
		case a != "":
			*dst = a
		}
	}
	pick("sum", &dr.sum)
	pick("count", &dr.count)
	pick("min", &dr.min)
	pick("max", &dr.max)
	return dr
}

// extremesMoveOutwards implements C17.R7.
func extremesMoveOutwards(c *core.Ctx, r *core.Report) {
	ppkg := "internal/progress"
	add := c.MustFn(ppkg, "IterationDurations.Add")
	roles := durationRoles(c)
	var dur ssa.Value
	for _, p := range add.Params {
		if b, ok := p.Type().Underlying().(*types.Basic); ok && b.Kind() == types.Int64 {
			dur = p
		}
	}
	loadedField := func(v ssa.Value) string {
		call, ok := an.Strip(v).(*ssa.Call)
		if !ok {
			return ""
		}
		t := an.Callee(call)
		if t == nil || t.Pkg == nil || t.Pkg.Pkg.Path() != "sync/atomic" || t.Name() != "Load" {
			return ""
		}
		if f := an.FieldOfAddr(call.Call.Args[0]); f != nil {
			return f.Name()
		}
		return ""
	}
	// does literal l establish "dur beyond the cell's value in direction dir" or "the cell is unset"?
	establishes := func(l an.Lit, cell string, wantLarger bool) bool {
		bo, ok := an.Strip(l.Cond).(*ssa.BinOp)
		if !ok {
			return false
		}
		x, y, op := an.Strip(bo.X), an.Strip(bo.Y), bo.Op
		if y == dur {
			x, y, op = y, x, mirrorCmp(op)
		}
		if x == dur && loadedField(y) == cell {
			larger := ((op == token.GTR || op == token.GEQ) && l.Val) || ((op == token.LEQ || op == token.LSS) && !l.Val)
			smaller := ((op == token.LSS || op == token.LEQ) && l.Val) || ((op == token.GEQ || op == token.GTR) && !l.Val)
			return (wantLarger && larger) || (!wantLarger && smaller)
		}
		// the unset sentinel: cell == 0
		if k, isK := y.(*ssa.Const); isK && k.Value != nil && k.Int64() == 0 && loadedField(x) == cell {
			return (op == token.EQL && l.Val) || (op == token.NEQ && !l.Val)
		}
		return false
	}
	n := 0
	paths, perr := an.DecisionPaths(add, 1024)
	for _, op := range an.AtomicOps([]*ssa.Function{add}) {
		if op.Op != "Store" || (op.Field.Name() != roles.max && op.Field.Name() != roles.min) {
			continue
		}
		n++
		wantLarger := op.Field.Name() == roles.max
		what := "minimum"
		if wantLarger {
			what = "maximum"
		}
		key := "IterationDurations.Add#" + what + "-store"
		if an.Strip(op.Call.Common().Args[1]) != dur {
			r.Violation(key, an.Pos(c, op.Call), "the %s is set to %s, not to the duration being recorded", what, an.D().Of(op.Call.Common().Args[1]))
			continue
		}
		if perr != nil {
			r.Undecided(key, an.Pos(c, op.Call), "paths of Add not enumerable (%v): cannot show the store is guarded", perr)
			continue
		}
		ok, seen := true, 0
		for _, p := range paths {
			at := -1
			for i, b := range p.Blocks {
				if b == op.Call.Block() {
					at = i
				}
			}
			if at < 0 {
				continue
			}
			seen++
			before := map[*ssa.BasicBlock]bool{}
			for _, b := range p.Blocks[:at] {
				before[b] = true
			}
			guarded := false
			for _, l := range p.Lits {
				if l.If != nil && before[l.If.Block()] && establishes(l, op.Field.Name(), wantLarger) {
					guarded = true
				}
			}
			if !guarded {
				ok = false
			}
		}
		r.Check(ok && seen > 0, key, an.Pos(c, op.Call), "the "+what+" is overwritten only when the duration lies beyond it (or it is unset)", "the "+what+" of the running period is overwritten on a path that has not compared the duration with it: an extreme recorded earlier — and not yet drained into the lifetime figures — is lost")
	}
	r.Floor("stores to the period's extremes in Add", n, 2)
}
