package rules

import (
	"go/token"
	"go/types"
	"strings"

	"golang.org/x/tools/go/ssa"

	"f1verif/internal/an"
	"f1verif/internal/core"
)

func init() { register("C03", c03) }

// idCounterOps lists atomic operations on the atomic.Uint64 id counter of PoolManager.
func idCounterOps(c *core.Ctx) []an.AtomicOp {
	var all []an.AtomicOp
	for _, op := range an.AtomicOps(c.AllFuncs) {
		fa, ok := op.Call.Common().Args[0].(*ssa.FieldAddr)
		if ok && nestedIn(c, fa.X.Type(), workersPkg, "PoolManager") {
			all = append(all, op)
		}
	}
	// by role: the id counter is the atomic the allocator (the function handing out `(id, error)`) works on; other
	// atomics of the manager (statistics, in-flight figures) are not ids
	inAlloc := map[*types.Var]bool{}
	for _, op := range all {
		res := op.Fn.Signature.Results()
		if res.Len() == 2 && types.Identical(res.At(1).Type(), types.Universe.Lookup("error").Type()) && op.Fn.Signature.Params().Len() == 0 {
			inAlloc[op.Field] = true
		}
	}
	if len(inAlloc) == 0 {
		return all
	}
	var out []an.AtomicOp
	for _, op := range all {
		if inAlloc[op.Field] {
			out = append(out, op)
		}
	}
	return out
}

func isNextIteration(f *ssa.Function) bool {
	return isMethod(f, workersPkg, "PoolManager", "NextIteration")
}

func c03(c *core.Ctx, r *core.Report) {
	r.Explanation = "Decides the structural conditions of 'max-iterations is a hard ceiling; ids unique and gapless': (R1) the id counter is modified only by one atomic Add(1) in the allocator and the id handed out is that Add's result; " +
		"(R2) the allocator's refusal predicate has the truth table max>0 ∧ id>max on the post-increment value; (R3) every call of the iteration runner is made from a pool worker goroutine and is preceded in the same loop iteration by an allocation whose error was tested nil, whose id (decimal) is given to Reset on the T of the state handed to the runner; T.Reset stores it in T.Iteration; " +
		"(R4) one PoolManager per run (not per stage) and every pool is created from the manager handed to the trigger; (R5) a refused id never reaches the runner; (R6) an allocated id is always run exactly once. " +
		"'Exactly N when the trigger keeps requesting' is liveness and not decided."
	r.NotDecided = []string{"exactly N iterations when requests keep coming (liveness)"}

	var alloc *ssa.Function
	var addOp *an.AtomicOp
	rule(r, "C03.R1", "the id counter is written only by a single atomic Add(1) in the allocator; the returned id is that Add's result and the allocator does not Load the counter", func() {
		ops := idCounterOps(c)
		if !r.Floor("operations on the id counter", len(ops), 1) {
			return
		}
		for i := range ops {
			op := ops[i]
			key := core.FuncName(op.Fn) + "#" + op.Op
			switch op.Op {
			case "Load":
				r.OK(key, an.Pos(c, op.Call), "read-only use of the id counter")
			case "Add":
				k, isK := op.Call.Common().Args[1].(*ssa.Const)
				if !isK || k.Uint64() != 1 {
					r.Violation(key, an.Pos(c, op.Call), "id counter incremented by %s: ids are not gapless", an.D().Of(op.Call.Common().Args[1]))
					continue
				}
				if addOp != nil {
					r.Violation(key, an.Pos(c, op.Call), "a second increment of the id counter (also at %s): ids are skipped", an.Pos(c, addOp.Call))
					continue
				}
				addOp, alloc = &ops[i], op.Fn
				r.OK(key, an.Pos(c, op.Call), "single Add(1)")
			default:
				r.Violation(key, an.Pos(c, op.Call), "%s on the id counter: ids can repeat or skip when two workers allocate concurrently", op.Op)
			}
		}
		if addOp == nil {
			r.Violation("allocator#rmw", "-", "no atomic Add(1) allocates iteration ids")
			return
		}
		for _, op := range ops {
			if op.Fn == alloc && op.Op == "Load" {
				r.Violation(core.FuncName(alloc)+"#check-then-act", an.Pos(c, op.Call), "the allocator also Loads the counter: its decision is not made on the increment's own result")
			}
		}
		// returned id on success paths
		paths, err := an.DecisionPaths(alloc, 64)
		if err != nil {
			r.Undecided(core.FuncName(alloc)+"#paths", c.Pos(alloc.Pos()), "allocator is not loop-free: %v", err)
			return
		}
		n := 0
		for _, p := range paths {
			if p.Ret == nil || len(p.Ret.Results) != 2 {
				continue
			}
			errv := p.OnPath(p.Ret.Results[1])
			if k, ok := errv.(*ssa.Const); ok && k.IsNil() {
				n++
				id := an.Strip(p.OnPath(p.Ret.Results[0]))
				r.Check(id == ssa.Value(addOp.Call.(*ssa.Call)), core.FuncName(alloc)+"#id", an.Pos(c, p.Ret), "success returns the Add's result", "success returns "+an.D().Of(id)+", not the increment's result")
			}
		}
		r.Floor("success returns of the allocator", n, 1)
	})

	rule(r, "C03.R2", "refusal predicate: the allocator returns an error exactly when maxIterations > 0 and the post-increment id > maxIterations", func() {
		if alloc == nil || addOp == nil {
			r.Undecided("anchor", "-", "allocator not resolved (R1)")
			return
		}
		addV := ssa.Value(addOp.Call.(*ssa.Call))
		paths, err := an.DecisionPathsInl(alloc, 256, 2, nil)
		if err != nil {
			r.Undecided("paths", c.Pos(alloc.Pos()), "%v", err)
			return
		}
		// classify atoms
		type sem struct {
			v   string // "M" (max>0) or "G" (id>max)
			neg bool
		}
		classify := func(l an.Lit) (sem, string) {
			cond := l.Cond
			bo, ok := an.Strip(cond).(*ssa.BinOp)
			if !ok {
				// a bool field computed once from the limit (`limited: max > 0`): the field stands for that comparison when
				// it is the field's only store in the module and the limit field is set, there, from the same value
				if fa, isFA := an.Strip(cond).(*ssa.FieldAddr); isFA && nestedIn(c, fa.X.Type(), workersPkg, "PoolManager") {
					if src, isBin := singleSource(c, fa).(*ssa.BinOp); isBin {
						lim, zero := src.X, src.Y
						op := src.Op
						if k, isK := lim.(*ssa.Const); isK && k.Value != nil {
							lim, zero = zero, lim
							op = map[token.Token]token.Token{token.GTR: token.LSS, token.LSS: token.GTR, token.GEQ: token.LEQ, token.LEQ: token.GEQ, token.EQL: token.EQL, token.NEQ: token.NEQ}[op]
						}
						sameAsLimit := false
						an.Instrs(src.Parent(), func(in ssa.Instruction) {
							if st, isSt := in.(*ssa.Store); isSt {
								if f := an.FieldOfAddr(st.Addr); f != nil && !an.IsNamed(f.Type(), "sync/atomic", "Uint64") {
									if b, isB := f.Type().(*types.Basic); isB && b.Kind() == types.Uint64 && an.Strip(st.Val) == an.Strip(lim) {
										sameAsLimit = true
									}
								}
							}
						})
						if k, isK := zero.(*ssa.Const); isK && k.Value != nil && sameAsLimit {
							switch {
							case k.Uint64() == 0 && (op == token.GTR || op == token.NEQ), k.Uint64() == 1 && op == token.GEQ:
								return sem{"M", false}, ""
							case k.Uint64() == 0 && (op == token.EQL || op == token.LEQ), k.Uint64() == 1 && op == token.LSS:
								return sem{"M", true}, ""
							}
						}
					}
				}
				return sem{}, "condition " + an.D().Of(cond) + " is not a comparison"
			}
			x, y := an.Strip(l.T(bo.X)), an.Strip(l.T(bo.Y))
			op := bo.Op
			isMax := func(v ssa.Value) bool {
				f, owner := an.TerminalField(v)
				return f != nil && nestedIn(c, owner, workersPkg, "PoolManager") && !an.IsNamed(f.Type(), "sync/atomic", "Uint64")
			}
			isZero := func(v ssa.Value) bool { k, ok := v.(*ssa.Const); return ok && k.Value != nil && k.Uint64() == 0 }
			isOne := func(v ssa.Value) bool { k, ok := v.(*ssa.Const); return ok && k.Value != nil && k.Uint64() == 1 }
			flip := map[token.Token]token.Token{token.GTR: token.LSS, token.LSS: token.GTR, token.GEQ: token.LEQ, token.LEQ: token.GEQ, token.EQL: token.EQL, token.NEQ: token.NEQ}
			// normalise so that max is on the left for M, id on the left for G
			if isMax(y) && (isZero(x) || isOne(x)) {
				x, y, op = y, x, flip[op]
			}
			if isMax(x) && isZero(y) {
				switch op {
				case token.GTR, token.NEQ:
					return sem{"M", false}, ""
				case token.EQL, token.LEQ:
					return sem{"M", true}, ""
				}
			}
			if isMax(x) && isOne(y) {
				switch op {
				case token.GEQ:
					return sem{"M", false}, ""
				case token.LSS:
					return sem{"M", true}, ""
				}
			}
			if y == addV && isMax(x) {
				x, y, op = y, x, flip[op]
			}
			if x == addV && isMax(y) {
				switch op {
				case token.GTR:
					return sem{"G", false}, ""
				case token.LEQ:
					return sem{"G", true}, ""
				default:
					return sem{}, "the id is compared with the limit using " + op.String() + " (off by one against 'id > max')"
				}
			}
			return sem{}, "unrecognised comparison " + an.D().Of(bo)
		}
		key := core.FuncName(alloc) + "#refusal"
		bad := false
		for _, m := range []bool{false, true} {
			for _, g := range []bool{false, true} {
				want := m && g
				matched := 0
				for _, p := range paths {
					if p.Ret == nil {
						continue
					}
					consistent := true
					for _, l := range p.Lits {
						s, why := classify(l)
						if why != "" {
							r.Violation(key, an.Pos(c, l.If), "%s", why)
							return
						}
						val := map[string]bool{"M": m, "G": g}[s.v]
						if s.neg {
							val = !val
						}
						if val != l.Val {
							consistent = false
						}
					}
					if !consistent {
						continue
					}
					matched++
					errv := p.OnPath(p.Ret.Results[1])
					k, isK := errv.(*ssa.Const)
					refused := !(isK && k.IsNil())
					if refused != want {
						bad = true
						r.Violation(key, an.Pos(c, p.Ret), "with max>0=%v and id>max=%v the allocator %s, expected %s", m, g, map[bool]string{true: "refuses", false: "hands out the id"}[refused], map[bool]string{true: "refusal", false: "an id"}[want])
					}
				}
				if matched == 0 {
					r.Undecided(key, c.Pos(alloc.Pos()), "no path consistent with max>0=%v, id>max=%v", m, g)
					bad = true
				}
			}
		}
		if !bad {
			r.OK(key, c.Pos(alloc.Pos()), "truth table over {max>0, id>max} equals max>0 ∧ id>max (4 rows, %d paths)", len(paths))
		}
	})

	runner, _, _ := func() (f *ssa.Function, a, b ssa.CallInstruction) {
		defer func() { _ = recover() }()
		return iterationRunner(c)
	}()

	rule(r, "C03.R3", "every call of the iteration runner is made by a pool worker goroutine and preceded, in the same loop iteration, by an id allocation whose error was tested nil; Reset receives that id in decimal on the T of the state handed to the runner; T.Reset stores it in T.Iteration", func() {
		if runner == nil {
			panic(core.AnchorError{What: "iteration runner"})
		}
		runs, stray := workerRuns(c, runner)
		for _, s := range stray {
			r.Violation(core.FuncName(s.Parent())+"#run", an.Pos(c, s), "iteration runner called from %s, which is not (reached from) a pool worker goroutine", core.FuncName(s.Parent()))
		}
		if !r.Floor("runner calls in worker goroutines", len(runs), 2) {
			return
		}
		for _, wr := range runs {
			fn := wr.Worker
			s := wr.Run
			key := core.FuncName(fn) + "#run"
			pos := an.Pos(c, s.Instr)
			// the allocation of this pass: an allocator call that precedes the run and, in the frame where the two
			// part ways, lies in the same innermost loop (a helper holding both has no loop of its own)
			samePass := func(a, b an.Event) bool {
				ca, cb := an.Chain(a), an.Chain(b)
				for i := 0; i < len(ca) && i < len(cb); i++ {
					if ca[i] == cb[i] {
						continue
					}
					la, _ := an.NaturalLoopOf(ca[i].Block())
					lb, _ := an.NaturalLoopOf(cb[i].Block())
					if (la == nil) != (lb == nil) {
						return false
					}
					if la == nil {
						return i > 0 // both outside any loop: fine inside a helper, not in the worker's own frame
					}
					return la[cb[i].Block()] && lb[ca[i].Block()]
				}
				return false
			}
			var nextEv *an.Event
			for _, e := range eventsBefore(fn, s, func(_ ssa.CallInstruction, t *ssa.Function) bool { return isNextIteration(t) }) {
				e := e
				if samePass(e, s) {
					nextEv = &e
				}
			}
			if nextEv == nil {
				r.Violation(key, pos, "the runner call is not preceded in the same loop iteration by an id allocation: iterations can run without an id or reuse one")
				continue
			}
			next, _ := nextEv.Instr.(*ssa.Call)
			// error tested nil
			guarded := false
			for _, g := range an.GuardsOfEvent(s) {
				if errNilGuard(g.Guard, next) {
					guarded = true
				}
			}
			if !guarded {
				r.Violation(key, pos, "the runner is called without the allocator's error having been tested nil: a refused id (limit reached) still runs an iteration")
				continue
			}
			// Reset
			var reset *an.Event
			for _, e := range eventsBefore(fn, s, func(_ ssa.CallInstruction, t *ssa.Function) bool { return isMethod(t, testingPkg, "T", "Reset") }) {
				e := e
				if an.Before(*nextEv, e) {
					reset = &e
				}
			}
			if reset == nil {
				r.Violation(key, pos, "no T.Reset between the id allocation and the runner call: the iteration observes a stale id and state")
				continue
			}
			stateV := an.EventFV(s, s.Call().Common().Args[1]).Resolve(nil).V
			stateDesc := an.D().Of(stateV)
			tV := an.EventFV(*reset, reset.Call().Common().Args[0]).Resolve(nil)
			tDesc := an.D().Of(tV.V)
			sameState := false
			if fa, ok := tV.V.(*ssa.FieldAddr); ok {
				sameState = unspill((an.FV{V: fa.X, F: tV.F}).Resolve(nil).V) == unspill(stateV)
			}
			if f, ok := tV.V.(*ssa.Field); ok {
				sameState = unspill((an.FV{V: f.X, F: tV.F}).Resolve(nil).V) == unspill(stateV)
			}
			if !sameState {
				r.Violation(key, an.Pos(c, reset.Instr), "Reset is applied to %s but the runner receives %s", tDesc, stateDesc)
				continue
			}
			fuV := an.EventFV(*reset, reset.Call().Common().Args[1]).Resolve(nil)
			fu, ok := fuV.V.(*ssa.Call)
			okID := ok && an.IsFunc(an.Callee(fu), "strconv", "FormatUint")
			if okID {
				ex, isEx := (an.FV{V: fu.Call.Args[0], F: fuV.F}).Resolve(isNextIteration).V.(*ssa.Extract)
				base, isK := fu.Call.Args[1].(*ssa.Const)
				okID = isEx && ex.Tuple == ssa.Value(next) && ex.Index == 0 && isK && base.Int64() == 10
			}
			if !okID {
				r.Violation(key, an.Pos(c, reset.Instr), "Reset receives %s, not the decimal form of the id just allocated", an.D().Of(reset.Call().Common().Args[1]))
				continue
			}
			r.OK(key, pos, "go-started worker: NextIteration → err==nil → Reset(FormatUint(id,10)) on %s → Run(%s)", tDesc, stateDesc)
		}
		// T.Reset stores its parameter into Iteration
		reset := c.MustFn("pkg/f1/testing", "T.Reset")
		stored := false
		an.Instrs(reset, func(in ssa.Instruction) {
			if st, ok := in.(*ssa.Store); ok {
				if f := an.FieldOfAddr(st.Addr); f != nil && f.Name() == "Iteration" {
					if _, isP := an.Strip(st.Val).(*ssa.Parameter); isP {
						stored = true
					}
				}
			}
		})
		r.Check(stored, "T.Reset#Iteration", c.Pos(reset.Pos()), "Reset stores its parameter into T.Iteration", "T.Reset does not store the id into T.Iteration")
	})

	rule(r, "C03.R4", "one PoolManager per run: the constructor is called once, outside any loop, only from Run.run; every pool is created from the manager handed to the trigger (a parameter), never from a fresh one", func() {
		// the constructors of the manager, by role: functions of internal/workers without receiver handing back a
		// PoolManager (a variant that delegates to another is one of them; its own call of that other is not a creation site)
		isCtor := func(t *ssa.Function) bool {
			return t != nil && core.RelPkg(t) == "internal/workers" && t.Signature.Recv() == nil && t.Parent() == nil &&
				t.Signature.Results().Len() == 1 && an.IsNamed(t.Signature.Results().At(0).Type(), workersPkg, "PoolManager")
		}
		var sites []ssa.CallInstruction
		for _, fn := range c.AllFuncs {
			if !core.InModule(fn) || isCtor(an.Outermost(fn)) {
				continue
			}
			for _, call := range an.AllCalls(fn) {
				if isCtor(an.Callee(call)) {
					sites = append(sites, call)
				}
			}
		}
		for _, s := range sites {
			key := core.FuncName(s.Parent()) + "#new-manager"
			rel := core.RelPkg(s.Parent())
			if rel != "internal/run" {
				r.Violation(key, an.Pos(c, s), "a PoolManager (and with it a fresh id counter) is created in %s: the max-iterations ceiling no longer spans the whole run", core.FuncName(s.Parent()))
				continue
			}
			r.Check(!an.InLoop(s), key, an.Pos(c, s), "created once per run", "PoolManager created inside a loop")
		}
		r.Floor("PoolManager constructor call sites", len(sites), 1)
		n := 0
		for _, fn := range c.AllFuncs {
			for _, call := range an.AllCalls(fn) {
				t := an.Callee(call)
				if t == nil || t.Signature.Recv() == nil || !an.IsNamed(t.Signature.Recv().Type(), workersPkg, "PoolManager") {
					continue
				}
				if !(strings.HasPrefix(t.Name(), "New") && core.RelPkg(fn) != "internal/workers") {
					continue
				}
				n++
				recv := an.Strip(call.Common().Args[0])
				if fv, ok := recv.(*ssa.FreeVar); ok {
					if b := an.FreeVarBinding(fv); b != nil {
						recv = an.Strip(b)
					}
				}
				_, isParam := recv.(*ssa.Parameter)
				r.Check(isParam, core.FuncName(fn)+"#"+t.Name(), an.Pos(c, call), "pool created from the manager parameter "+an.D().Of(recv), "pool created from "+an.D().Of(recv)+", not from the run's manager")
			}
		}
		r.Floor("pool creations in triggers", n, 2)
	})

	rule(r, "C03.R5", "after a refused allocation the worker cannot reach the runner without allocating again", func() {
		if runner == nil {
			panic(core.AnchorError{What: "iteration runner"})
		}
		n := 0
		for _, fn := range allocHolders(c) {
			// the instructions of fn through which the runner is reached
			var runSites []ssa.Instruction
			for _, e := range an.FlatCalls(fn, flatDepth, func(_ ssa.CallInstruction, t *ssa.Function) bool { return t == runner }) {
				runSites = append(runSites, e.Root())
			}
			for _, call := range an.AllCalls(fn) {
				if !isNextIteration(an.Callee(call)) {
					continue
				}
				nv, ok := call.(*ssa.Call)
				if !ok {
					continue
				}
				for _, b := range fn.Blocks {
					iff, ok := b.Instrs[len(b.Instrs)-1].(*ssa.If)
					if !ok {
						continue
					}
					bo, ok := an.Strip(iff.Cond).(*ssa.BinOp)
					if !ok {
						continue
					}
					ex, ok := an.Strip(bo.X).(*ssa.Extract)
					if !ok || ex.Tuple != ssa.Value(nv) || ex.Index != 1 {
						continue
					}
					errSucc := b.Succs[0]
					if bo.Op == token.EQL {
						errSucc = b.Succs[1]
					}
					n++
					// search from errSucc for a runner call avoiding the allocator
					reach := false
					for _, s := range runSites {
						if reachesAvoiding(errSucc, s, call) {
							reach = true
						}
					}
					r.Check(!reach, core.FuncName(fn)+"#refused", an.Pos(c, iff), "the refused branch cannot reach the runner call without a new allocation", "the branch taken when the id is refused still reaches the runner call: more than max-iterations iterations run")
				}
			}
		}
		r.Floor("refusal branches in worker loops", n, 2)
	})
	rule(r, "C03.R6", "gapless: once an id has been handed out (error tested nil) the worker runs the iteration exactly once on every path of that loop iteration (no return, continue or second run in between)", func() {
		if runner == nil {
			panic(core.AnchorError{What: "iteration runner"})
		}
		n := 0
		for _, fn := range allocHolders(c) {
			for _, call := range an.AllCalls(fn) {
				nv, ok := call.(*ssa.Call)
				if !ok || !isNextIteration(an.Callee(call)) {
					continue
				}
				for _, b := range fn.Blocks {
					iff, ok := b.Instrs[len(b.Instrs)-1].(*ssa.If)
					if !ok {
						continue
					}
					bo, ok := an.Strip(iff.Cond).(*ssa.BinOp)
					if !ok {
						continue
					}
					ex, ok := an.Strip(bo.X).(*ssa.Extract)
					if !ok || ex.Tuple != ssa.Value(nv) || ex.Index != 1 {
						continue
					}
					okSucc := b.Succs[1]
					if bo.Op == token.EQL {
						okSucc = b.Succs[0]
					}
					_, head := an.NaturalLoopOf(call.Block())
					stop := map[*ssa.BasicBlock]bool{}
					if head != nil {
						stop[head] = true
					}
					n++
					good := true
					for _, e := range an.PathCountUntil(okSucc.Instrs[0], an.CallWeight(func(_ ssa.CallInstruction, t *ssa.Function) bool { return t == runner }, flatDepth), stop) {
						if e.Count.Lo != 1 || e.Count.Hi != 1 {
							good = false
							r.Violation(core.FuncName(fn)+"#allocated-id-run", an.Pos(c, e.Instr), "after an id was allocated the iteration runs %s times before this exit of the loop iteration: the id is skipped (a gap, and fewer than max-iterations runs) or used twice", e.Count)
						}
					}
					if good {
						r.OK(core.FuncName(fn)+"#allocated-id-run", an.Pos(c, iff), "every path from the successful allocation runs the iteration exactly once")
					}
				}
			}
		}
		r.Floor("successful-allocation branches", n, 2)
	})
	_ = types.Typ
}

// allocHolders lists the functions of internal/workers that call the id allocator (the worker loops, or the
// helpers they run one pass with).
func allocHolders(c *core.Ctx) []*ssa.Function {
	var out []*ssa.Function
	for _, fn := range c.AllFuncs {
		if core.RelPkg(fn) != "internal/workers" {
			continue
		}
		for _, call := range an.AllCalls(fn) {
			if isNextIteration(an.Callee(call)) {
				out = append(out, fn)
				break
			}
		}
	}
	return out
}

// reachesAvoiding: can control flow from the start of block `from` reach instruction target without
// executing instruction avoid?
func reachesAvoiding(from *ssa.BasicBlock, target, avoid ssa.Instruction) bool {
	seen := map[*ssa.BasicBlock]bool{}
	stack := []*ssa.BasicBlock{from}
	for len(stack) > 0 {
		b := stack[len(stack)-1]
		stack = stack[:len(stack)-1]
		if seen[b] {
			continue
		}
		seen[b] = true
		blocked := false
		for _, in := range b.Instrs {
			if in == avoid {
				blocked = true
				break
			}
			if in == target {
				return true
			}
		}
		if !blocked {
			stack = append(stack, b.Succs...)
		}
	}
	return false
}

// errNilGuard: the guard states that the error result of call `next` is nil.
func errNilGuard(g an.Guard, next *ssa.Call) bool {
	bo, ok := an.Strip(g.Cond).(*ssa.BinOp)
	if !ok {
		return false
	}
	x, y := an.Strip(bo.X), bo.Y
	if k, isK := x.(*ssa.Const); isK && k.IsNil() {
		x, y = an.Strip(bo.Y), bo.X
	}
	ex, ok := x.(*ssa.Extract)
	if !ok || ex.Tuple != ssa.Value(next) || ex.Index != next.Call.Signature().Results().Len()-1 {
		return false
	}
	k, ok := y.(*ssa.Const)
	if !ok || !k.IsNil() {
		return false
	}
	return (bo.Op == token.NEQ && !g.Polarity) || (bo.Op == token.EQL && g.Polarity)
}

// unspill: a struct handled by value lives in a local the compiler copies the parameter (or value) into; the local
// stands for what was copied.
func unspill(v ssa.Value) ssa.Value {
	for i := 0; i < 4; i++ {
		switch x := v.(type) {
		case *ssa.Alloc:
			sts := an.StoresTo(x)
			if len(sts) != 1 {
				return v
			}
			v = an.Strip(sts[0].Val)
		case *ssa.UnOp:
			if x.Op != token.MUL {
				return v
			}
			v = x.X
		default:
			return v
		}
	}
	return v
}
