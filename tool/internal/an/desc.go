package an

import (
	"fmt"
	"go/constant"
	"go/token"
	"go/types"
	"sort"
	"strings"

	"golang.org/x/tools/go/ssa"

	"f1verif/internal/core"
)

// Desc renders the resolved provenance of an SSA value as a canonical expression string
// (analysis I of DESIGN.md): parameters are "$name", captured variables "^name", field accesses
// ".f", loads/conversions are transparent, single-store locals are replaced by what was stored,
// phis whose incomings agree collapse, calls print as callee(args). It is an abstraction of *where
// a value comes from*, never of what it evaluates to.
type Desc struct {
	MaxDepth int
	// Opaque, when set, stops at a value and returns a replacement string.
	Opaque func(v ssa.Value) (string, bool)
	// Inline > 0 describes calls of module functions by what they return (parameters replaced by the
	// arguments' descriptions) when every return describes to the same expression: extracting an expression
	// into a helper, or inlining one, does not change the description.
	Inline int
	subst  map[*ssa.Parameter]string
}

// ParamDesc is how a parameter is rendered: a method's receiver as "$recv" whatever it is called, any other
// parameter as "$name".
func ParamDesc(p *ssa.Parameter) string {
	if fn := p.Parent(); fn != nil && fn.Signature.Recv() != nil && len(fn.Params) > 0 && fn.Params[0] == p {
		return "$recv"
	}
	return "$" + p.Name()
}

func D() *Desc { return &Desc{MaxDepth: 14} }

// DI is D with helper inlining (two levels).
func DI() *Desc { return &Desc{MaxDepth: 16, Inline: 2} }

func (d *Desc) Of(v ssa.Value) string { return d.of(v, 0, map[ssa.Value]bool{}) }

func constStr(c *ssa.Const) string {
	if c.Value == nil {
		return "nil"
	}
	if c.Value.Kind() == constant.String {
		return fmt.Sprintf("%q", constant.StringVal(c.Value))
	}
	return c.Value.ExactString()
}

func (d *Desc) of(v ssa.Value, depth int, seen map[ssa.Value]bool) string {
	if v == nil {
		return "<nil>"
	}
	if d.Opaque != nil {
		if s, ok := d.Opaque(v); ok {
			return s
		}
	}
	if depth > d.MaxDepth {
		return "…"
	}
	if seen[v] {
		return "↺"
	}
	seen[v] = true
	defer delete(seen, v)
	rec := func(x ssa.Value) string { return d.of(x, depth+1, seen) }
	switch x := v.(type) {
	case *ssa.Const:
		return constStr(x)
	case *ssa.Parameter:
		if s, ok := d.subst[x]; ok {
			return s
		}
		return ParamDesc(x)
	case *ssa.FreeVar:
		if b := FreeVarBinding(x); b != nil {
			return "^" + rec(b)
		}
		return "^" + x.Name()
	case *ssa.Global:
		return "global:" + x.Name()
	case *ssa.Function:
		return "func:" + core.FuncName(x)
	case *ssa.Builtin:
		return "builtin:" + x.Name()
	case *ssa.FieldAddr:
		f := FieldOfAddr(x)
		return rec(x.X) + "." + f.Name()
	case *ssa.Field:
		f := FieldOfAddr(x)
		return rec(x.X) + "." + f.Name()
	case *ssa.UnOp:
		switch x.Op {
		case token.MUL:
			if a, ok := x.X.(*ssa.Alloc); ok {
				if st := reachingStore(a, x); st != nil {
					return rec(st.Val)
				}
			}
			return rec(x.X)
		case token.NOT:
			return "!" + rec(x.X)
		case token.SUB:
			return "-" + rec(x.X)
		case token.ARROW:
			return "<-" + rec(x.X)
		case token.XOR:
			return "^" + rec(x.X)
		}
	case *ssa.Alloc:
		return d.alloc(x, depth, seen)
	case *ssa.Phi:
		set := map[string]bool{}
		for _, e := range x.Edges {
			set[rec(e)] = true
		}
		var l []string
		for s := range set {
			l = append(l, s)
		}
		sort.Strings(l)
		if len(l) == 1 {
			return l[0]
		}
		return "phi(" + strings.Join(l, " | ") + ")"
	case *ssa.Call:
		return d.call(x, depth, seen)
	case *ssa.Extract:
		if call, ok := x.Tuple.(*ssa.Call); ok {
			if s, ok := d.inlineCall(call, x.Index, depth, seen); ok {
				return s
			}
		}
		return rec(x.Tuple) + "#" + fmt.Sprint(x.Index)
	case *ssa.Convert:
		return rec(x.X)
	case *ssa.ChangeType:
		return rec(x.X)
	case *ssa.MakeInterface:
		return rec(x.X)
	case *ssa.ChangeInterface:
		return rec(x.X)
	case *ssa.BinOp:
		return "(" + rec(x.X) + " " + x.Op.String() + " " + rec(x.Y) + ")"
	case *ssa.IndexAddr:
		return rec(x.X) + "[" + rec(x.Index) + "]"
	case *ssa.Index:
		return rec(x.X) + "[" + rec(x.Index) + "]"
	case *ssa.Lookup:
		return rec(x.X) + "[" + rec(x.Index) + "]"
	case *ssa.Slice:
		lo, hi := "", ""
		if x.Low != nil {
			lo = rec(x.Low)
		}
		if x.High != nil {
			hi = rec(x.High)
		}
		return rec(x.X) + "[" + lo + ":" + hi + "]"
	case *ssa.MakeClosure:
		return "closure:" + core.FuncName(x.Fn.(*ssa.Function))
	case *ssa.MakeMap:
		return "make(map)"
	case *ssa.MakeSlice:
		return "make(slice," + rec(x.Len) + ")"
	case *ssa.MakeChan:
		return "make(chan)"
	case *ssa.TypeAssert:
		return rec(x.X) + ".(" + types.TypeString(x.AssertedType, nil) + ")"
	case *ssa.Range:
		return "range(" + rec(x.X) + ")"
	case *ssa.Next:
		return "next(" + rec(x.Iter) + ")"
	case *ssa.Select:
		return "select"
	}
	return fmt.Sprintf("?%T", v)
}

// inlineCall describes result idx of a call by the callee's return expressions.
func (d *Desc) inlineCall(x *ssa.Call, idx int, depth int, seen map[ssa.Value]bool) (string, bool) {
	if d.Inline <= 0 {
		return "", false
	}
	f := Callee(x)
	if f == nil || f.Blocks == nil || !core.InModule(f) || len(f.Blocks) > 12 {
		return "", false
	}
	rets := Returns(f)
	if len(rets) == 0 || len(rets) > 4 || idx >= len(rets[0].Results) {
		return "", false
	}
	sub := map[*ssa.Parameter]string{}
	for k, v := range d.subst {
		sub[k] = v
	}
	for i, p := range f.Params {
		if i < len(x.Call.Args) {
			sub[p] = d.of(x.Call.Args[i], depth+1, seen)
		}
	}
	inner := &Desc{MaxDepth: d.MaxDepth, Opaque: d.Opaque, Inline: d.Inline - 1, subst: sub}
	set := map[string]bool{}
	for _, r := range rets {
		set[inner.of(r.Results[idx], depth+1, map[ssa.Value]bool{})] = true
	}
	var l []string
	for s := range set {
		l = append(l, s)
	}
	sort.Strings(l)
	if len(l) == 1 {
		return l[0], true
	}
	return "phi(" + strings.Join(l, " | ") + ")", true
}

func (d *Desc) call(x *ssa.Call, depth int, seen map[ssa.Value]bool) string {
	rec := func(v ssa.Value) string { return d.of(v, depth+1, seen) }
	cc := x.Common()
	if x.Type() != nil {
		if _, isTuple := x.Type().(*types.Tuple); !isTuple {
			if s, ok := d.inlineCall(x, 0, depth, seen); ok {
				return s
			}
		}
	}
	var args []string
	for _, a := range cc.Args {
		args = append(args, rec(a))
	}
	if cc.IsInvoke() {
		return "invoke:" + cc.Method.Name() + "(" + strings.Join(append([]string{rec(cc.Value)}, args...), ", ") + ")"
	}
	if f := Callee(x); f != nil {
		return core.FuncName(f) + "(" + strings.Join(args, ", ") + ")"
	}
	if b, ok := cc.Value.(*ssa.Builtin); ok {
		return b.Name() + "(" + strings.Join(args, ", ") + ")"
	}
	return "dyn:" + rec(cc.Value) + "(" + strings.Join(args, ", ") + ")"
}

// StoresTo lists the Store instructions whose address is exactly a.
func StoresTo(a ssa.Value) []*ssa.Store {
	var out []*ssa.Store
	for _, r := range Referrers(a) {
		if s, ok := r.(*ssa.Store); ok && s.Addr == a {
			out = append(out, s)
		}
	}
	return out
}

func (d *Desc) alloc(a *ssa.Alloc, depth int, seen map[ssa.Value]bool) string {
	stores := StoresTo(a)
	// escaping to closures that may write: treat as a cell
	for _, r := range Referrers(a) {
		if mc, ok := r.(*ssa.MakeClosure); ok {
			for i, b := range mc.Bindings {
				if b == a {
					fn := mc.Fn.(*ssa.Function)
					fv := fn.FreeVars[i]
					for _, rr := range Referrers(fv) {
						if s, ok := rr.(*ssa.Store); ok && s.Addr == fv {
							return "cell:" + a.Comment
						}
					}
				}
			}
		}
	}
	if len(stores) == 1 {
		return d.of(stores[0].Val, depth+1, seen)
	}
	if len(stores) == 0 {
		return "local:" + a.Comment
	}
	set := map[string]bool{}
	for _, s := range stores {
		set[d.of(s.Val, depth+1, seen)] = true
	}
	var l []string
	for s := range set {
		l = append(l, s)
	}
	sort.Strings(l)
	if len(l) == 1 {
		return l[0]
	}
	return "var:" + a.Comment + "{" + strings.Join(l, " | ") + "}"
}

// LiteralFields maps field name -> stored value for a struct built in place (composite literal or
// field-by-field initialised local) whose storage is the given address (an Alloc or similar).
func LiteralFields(addr ssa.Value) map[string]ssa.Value {
	out := map[string]ssa.Value{}
	for _, r := range Referrers(addr) {
		fa, ok := r.(*ssa.FieldAddr)
		if !ok || fa.X != addr {
			continue
		}
		f := FieldOfAddr(fa)
		for _, s := range StoresTo(fa) {
			out[f.Name()] = s.Val
		}
	}
	return out
}

// LiteralFieldStores maps field names to every value stored into that field of the struct at addr (a variable
// filled in field by field has several stores per field, on different branches).
func LiteralFieldStores(addr ssa.Value) map[string][]ssa.Value {
	out := map[string][]ssa.Value{}
	for _, r := range Referrers(addr) {
		fa, ok := r.(*ssa.FieldAddr)
		if !ok || fa.X != addr {
			continue
		}
		f := FieldOfAddr(fa)
		for _, s := range StoresTo(fa) {
			out[f.Name()] = append(out[f.Name()], s.Val)
		}
	}
	return out
}

// StructLiteralOf finds, for a value that is a struct (loaded from a literal's Alloc) or a pointer to
// one, the Alloc holding the literal.
func StructLiteralOf(v ssa.Value) *ssa.Alloc {
	for i := 0; i < 6 && v != nil; i++ {
		switch x := v.(type) {
		case *ssa.Alloc:
			return x
		case *ssa.UnOp:
			if x.Op == token.MUL {
				v = x.X
				continue
			}
			return nil
		case *ssa.ChangeType:
			v = x.X
		case *ssa.MakeInterface:
			v = x.X
		default:
			return nil
		}
	}
	return nil
}

// FreeVarBinding returns the value the enclosing function binds to the closure's free variable
// (nil when the closure is created at more than one site with different bindings).
func FreeVarBinding(fv *ssa.FreeVar) ssa.Value {
	fn := fv.Parent()
	par := fn.Parent()
	if par == nil {
		return nil
	}
	idx := -1
	for i, f := range fn.FreeVars {
		if f == fv {
			idx = i
		}
	}
	if idx < 0 {
		return nil
	}
	var found ssa.Value
	for _, b := range par.Blocks {
		for _, in := range b.Instrs {
			if mc, ok := in.(*ssa.MakeClosure); ok && mc.Fn == fn {
				if found != nil && found != mc.Bindings[idx] {
					return nil
				}
				found = mc.Bindings[idx]
			}
		}
	}
	return found
}

// reachingStore returns the store to a that certainly supplies the value read by load: the latest
// store preceding it in the same block, else the only store that dominates it when no other store
// can execute in between (approximated: it is the single store of the function dominating the load,
// or every other store is dominated by the load).
func reachingStore(a *ssa.Alloc, load ssa.Instruction) *ssa.Store {
	b := load.Block()
	var last *ssa.Store
	for _, in := range b.Instrs {
		if in == load {
			break
		}
		if st, ok := in.(*ssa.Store); ok && st.Addr == ssa.Value(a) {
			last = st
		}
	}
	if last != nil {
		return last
	}
	// walk up single-predecessor chains
	for cur := b; len(cur.Preds) == 1; {
		cur = cur.Preds[0]
		for i := len(cur.Instrs) - 1; i >= 0; i-- {
			if st, ok := cur.Instrs[i].(*ssa.Store); ok && st.Addr == ssa.Value(a) {
				return st
			}
		}
		if cur == b {
			break
		}
	}
	return nil
}
