package an

import (
	"go/constant"
	"go/token"

	"golang.org/x/tools/go/ssa"
)

// SelectArms maps each state index of a select to the entry block of its arm (the true successor of
// the `index == k` test go/ssa emits). A default arm (non-blocking select) is reported as index -1.
func SelectArms(sel *ssa.Select) map[int]*ssa.BasicBlock {
	arms := map[int]*ssa.BasicBlock{}
	for _, r := range Referrers(sel) {
		ex, ok := r.(*ssa.Extract)
		if !ok || ex.Index != 0 {
			continue
		}
		for _, u := range Referrers(ex) {
			bo, ok := u.(*ssa.BinOp)
			if !ok || bo.Op != token.EQL {
				continue
			}
			k, ok := bo.Y.(*ssa.Const)
			if !ok {
				continue
			}
			idx, _ := constant.Int64Val(k.Value)
			for _, uu := range Referrers(bo) {
				if iff, ok := uu.(*ssa.If); ok {
					arms[int(idx)] = iff.Block().Succs[0]
				}
			}
		}
	}
	return arms
}

// ArmOf returns the select and state index whose arm dominates the instruction (innermost), or nil.
func ArmOf(in ssa.Instruction) (*ssa.Select, int) {
	fn := in.Parent()
	var best *ssa.Select
	bestIdx := -2
	var bestBlock *ssa.BasicBlock
	for _, b := range fn.Blocks {
		for _, i := range b.Instrs {
			sel, ok := i.(*ssa.Select)
			if !ok {
				continue
			}
			for idx, arm := range SelectArms(sel) {
				if arm == in.Block() || arm.Dominates(in.Block()) {
					if bestBlock == nil || bestBlock.Dominates(arm) {
						best, bestIdx, bestBlock = sel, idx, arm
					}
				}
			}
		}
	}
	return best, bestIdx
}

// Selects lists the select instructions of fn.
func Selects(fn *ssa.Function) []*ssa.Select {
	var out []*ssa.Select
	Instrs(fn, func(in ssa.Instruction) {
		if s, ok := in.(*ssa.Select); ok {
			out = append(out, s)
		}
	})
	return out
}

// OnCycleAvoiding reports whether the instruction's block is on a CFG cycle that does not pass
// through the block `avoid`.
func OnCycleAvoiding(in ssa.Instruction, avoid *ssa.BasicBlock) bool {
	b := in.Block()
	if b == avoid {
		return false
	}
	seen := map[*ssa.BasicBlock]bool{}
	stack := append([]*ssa.BasicBlock(nil), b.Succs...)
	for len(stack) > 0 {
		x := stack[len(stack)-1]
		stack = stack[:len(stack)-1]
		if x == avoid || seen[x] {
			continue
		}
		if x == b {
			return true
		}
		seen[x] = true
		stack = append(stack, x.Succs...)
	}
	return false
}

// GoSites lists the `go` statements of fn.
func GoSites(fn *ssa.Function) []*ssa.Go {
	var out []*ssa.Go
	Instrs(fn, func(in ssa.Instruction) {
		if g, ok := in.(*ssa.Go); ok {
			out = append(out, g)
		}
	})
	return out
}
