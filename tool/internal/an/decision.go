package an

import (
	"fmt"
	"go/token"
	"go/types"

	"golang.org/x/tools/go/ssa"

	"f1verif/internal/core"
)

// Lit is a branch condition (negations stripped) with the value it had on a path.
type Lit struct {
	Cond ssa.Value
	Val  bool
	If   *ssa.If
	// Tr translates a value of the literal's own function (a bool helper that was expanded) into the root
	// function's frame; nil for literals of the root function.
	Tr func(ssa.Value) ssa.Value
}

// T applies the literal's translation.
func (l Lit) T(v ssa.Value) ssa.Value {
	if l.Tr == nil {
		return v
	}
	return l.Tr(v)
}

// DPath is one acyclic path through a function's CFG: the branch literals taken and the return reached.
type DPath struct {
	Blocks []*ssa.BasicBlock
	Lits   []Lit
	Ret    *ssa.Return
	Panic  *ssa.Panic
}

// DecisionPaths enumerates every entry→return path of a loop-free function (analysis K). It fails on
// cycles or when there are more than limit paths.
func DecisionPaths(fn *ssa.Function, limit int) ([]DPath, error) {
	var out []DPath
	onPath := map[*ssa.BasicBlock]bool{}
	var walk func(b *ssa.BasicBlock, blocks []*ssa.BasicBlock, lits []Lit) error
	walk = func(b *ssa.BasicBlock, blocks []*ssa.BasicBlock, lits []Lit) error {
		if onPath[b] {
			return fmt.Errorf("cycle through block %d", b.Index)
		}
		if len(out) > limit {
			return fmt.Errorf("more than %d paths", limit)
		}
		onPath[b] = true
		defer delete(onPath, b)
		blocks = append(append([]*ssa.BasicBlock(nil), blocks...), b)
		last := b.Instrs[len(b.Instrs)-1]
		switch x := last.(type) {
		case *ssa.Return:
			out = append(out, DPath{Blocks: blocks, Lits: lits, Ret: x})
		case *ssa.Panic:
			out = append(out, DPath{Blocks: blocks, Lits: lits, Panic: x})
		case *ssa.If:
			cond, neg := condOnPath(x.Cond, blocks)
			for i, s := range b.Succs {
				val := i == 0
				if neg {
					val = !val
				}
				nl := lits
				if k, isK := cond.(*ssa.Const); isK && k.Value != nil {
					// a materialised && / || whose value is fixed by the way the block was entered
					if (k.Value.String() == "true") != val {
						continue // infeasible
					}
				} else {
					nl = append(append([]Lit(nil), lits...), Lit{Cond: cond, Val: val, If: x})
				}
				if err := walk(s, blocks, nl); err != nil {
					return err
				}
			}
		case *ssa.Jump:
			return walk(b.Succs[0], blocks, lits)
		default:
			return fmt.Errorf("unexpected terminator %T", last)
		}
		return nil
	}
	if err := walk(fn.Blocks[0], nil, nil); err != nil {
		return nil, err
	}
	return out, nil
}

// condOnPath strips negations from a branch condition and resolves a boolean phi (a materialised && / ||, as
// the compiler emits for tagless switch cases) by the edge through which the path entered the phi's block.
func condOnPath(cond ssa.Value, blocks []*ssa.BasicBlock) (ssa.Value, bool) {
	neg := false
	for i := 0; i < 8; i++ {
		if u, ok := cond.(*ssa.UnOp); ok && u.Op == token.NOT {
			cond, neg = u.X, !neg
			continue
		}
		phi, ok := cond.(*ssa.Phi)
		if !ok {
			break
		}
		idx := -1
		for k, b := range blocks {
			if b == phi.Block() {
				idx = k
			}
		}
		if idx <= 0 {
			break
		}
		pred := blocks[idx-1]
		found := false
		for k, pb := range phi.Block().Preds {
			if pb == pred {
				cond, found = phi.Edges[k], true
				break
			}
		}
		if !found {
			break
		}
	}
	return cond, neg
}

// OnPath resolves phis of v according to the blocks the path went through.
func (p DPath) OnPath(v ssa.Value) ssa.Value {
	for i := 0; i < 8; i++ {
		phi, ok := v.(*ssa.Phi)
		if !ok {
			return v
		}
		idx := -1
		for k, b := range p.Blocks {
			if b == phi.Block() {
				idx = k
			}
		}
		if idx <= 0 {
			return v
		}
		pred := p.Blocks[idx-1]
		found := false
		for k, pb := range phi.Block().Preds {
			if pb == pred {
				v = phi.Edges[k]
				found = true
				break
			}
		}
		if !found {
			return v
		}
	}
	return v
}

// boolHelper: cond is a call of a loop-free module function returning a single bool, or the bool result of a
// module function with several results (`n, ok := steps(d)`).
func boolHelper(cond ssa.Value) (*ssa.Call, *ssa.Function, int) {
	v := Strip(cond)
	idx := 0
	if ex, ok := v.(*ssa.Extract); ok {
		v, idx = ex.Tuple, ex.Index
	}
	call, ok := v.(*ssa.Call)
	if !ok {
		return nil, nil, 0
	}
	f := Callee(call)
	if f == nil || f.Blocks == nil || !core.InModule(f) || idx >= f.Signature.Results().Len() {
		return nil, nil, 0
	}
	if _, isEx := Strip(cond).(*ssa.Extract); !isEx && f.Signature.Results().Len() != 1 {
		return nil, nil, 0
	}
	if b, ok := f.Signature.Results().At(idx).Type().Underlying().(*types.Basic); !ok || b.Kind() != types.Bool {
		return nil, nil, 0
	}
	return call, f, idx
}

// ExpandLit replaces a literal on a bool-helper call by the alternatives (conjunctions of the helper's own
// branch literals) under which the helper returns the literal's value. Operands of the new literals are
// translated into the caller's frame through Lit.Tr.
func ExpandLit(l Lit, depth int, stop func(*ssa.Function) bool) [][]Lit {
	call, f, ridx := boolHelper(l.Cond)
	if f == nil || depth <= 0 || (stop != nil && stop(f)) {
		return [][]Lit{{l}}
	}
	paths, err := DecisionPaths(f, 256)
	if err != nil {
		return [][]Lit{{l}}
	}
	outer := l.Tr
	tr := func(v ssa.Value) ssa.Value {
		v = stripParamSpill(v)
		if p, ok := v.(*ssa.Parameter); ok && p.Parent() == f {
			idx := paramIndex(p)
			if idx >= 0 && idx < len(call.Call.Args) {
				a := call.Call.Args[idx]
				if outer != nil {
					return outer(a)
				}
				return a
			}
		}
		return v
	}
	var alts [][]Lit
	for _, p := range paths {
		if p.Ret == nil {
			continue
		}
		res := p.OnPath(Strip(p.Ret.Results[ridx]))
		for i := 0; i < 3; i++ {
			res = p.OnPath(Strip(res))
		}
		var lits []Lit
		for _, hl := range p.Lits {
			lits = append(lits, Lit{Cond: hl.Cond, Val: hl.Val, If: hl.If, Tr: tr})
		}
		want := l.Val
		for {
			u, ok := res.(*ssa.UnOp)
			if !ok || u.Op != token.NOT {
				break
			}
			res, want = p.OnPath(Strip(u.X)), !want
		}
		if k, ok := res.(*ssa.Const); ok && k.Value != nil {
			if (k.Value.String() == "true") != want {
				continue
			}
		} else {
			lits = append(lits, Lit{Cond: res, Val: want, If: l.If, Tr: tr})
		}
		// expand nested helpers
		expanded := [][]Lit{{}}
		for _, x := range lits {
			var next [][]Lit
			for _, alt := range ExpandLit(x, depth-1, stop) {
				for _, pre := range expanded {
					next = append(next, append(append([]Lit(nil), pre...), alt...))
				}
			}
			expanded = next
		}
		alts = append(alts, expanded...)
	}
	if len(alts) == 0 {
		return [][]Lit{{l}}
	}
	return alts
}

// DecisionPathsInl is DecisionPaths with branch conditions on bool helpers expanded into the helpers' own
// comparisons (virtual inlining): extracting a condition into a helper does not change the decision table.
func DecisionPathsInl(fn *ssa.Function, limit, depth int, stop func(*ssa.Function) bool) ([]DPath, error) {
	paths, err := DecisionPaths(fn, limit)
	if err != nil {
		return nil, err
	}
	var out []DPath
	for _, p := range paths {
		variants := [][]Lit{{}}
		for _, l := range p.Lits {
			var next [][]Lit
			for _, alt := range ExpandLit(l, depth, stop) {
				for _, pre := range variants {
					next = append(next, append(append([]Lit(nil), pre...), alt...))
				}
			}
			variants = next
			if len(variants) > limit {
				return nil, fmt.Errorf("more than %d expanded paths", limit)
			}
		}
		for _, v := range variants {
			q := p
			q.Lits = v
			out = append(out, q)
		}
	}
	return out, nil
}

// PathsBetween enumerates the acyclic CFG paths from block `from` to block `to` (both inclusive), with the
// branch literals taken on the way.
func PathsBetween(from, to *ssa.BasicBlock, limit int) ([]DPath, error) {
	var out []DPath
	onPath := map[*ssa.BasicBlock]bool{}
	reach := map[*ssa.BasicBlock]bool{}
	// blocks from which `to` is reachable
	var mark func(b *ssa.BasicBlock)
	mark = func(b *ssa.BasicBlock) {
		if reach[b] {
			return
		}
		reach[b] = true
		for _, p := range b.Preds {
			mark(p)
		}
	}
	mark(to)
	var walk func(b *ssa.BasicBlock, blocks []*ssa.BasicBlock, lits []Lit) error
	walk = func(b *ssa.BasicBlock, blocks []*ssa.BasicBlock, lits []Lit) error {
		if onPath[b] || !reach[b] {
			return nil
		}
		if len(out) > limit {
			return fmt.Errorf("more than %d paths", limit)
		}
		blocks = append(append([]*ssa.BasicBlock(nil), blocks...), b)
		if b == to {
			out = append(out, DPath{Blocks: blocks, Lits: lits})
			return nil
		}
		onPath[b] = true
		defer delete(onPath, b)
		last := b.Instrs[len(b.Instrs)-1]
		if x, ok := last.(*ssa.If); ok {
			cond, neg := condOnPath(x.Cond, blocks)
			for i, s := range b.Succs {
				val := (i == 0) != neg
				nl := lits
				if k, isK := cond.(*ssa.Const); isK && k.Value != nil {
					if (k.Value.String() == "true") != val {
						continue
					}
				} else {
					nl = append(append([]Lit(nil), lits...), Lit{Cond: cond, Val: val, If: x})
				}
				if err := walk(s, blocks, nl); err != nil {
					return err
				}
			}
			return nil
		}
		for _, s := range b.Succs {
			if err := walk(s, blocks, lits); err != nil {
				return err
			}
		}
		return nil
	}
	if err := walk(from, nil, nil); err != nil {
		return nil, err
	}
	return out, nil
}
