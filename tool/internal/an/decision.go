package an

import (
	"fmt"
	"go/token"

	"golang.org/x/tools/go/ssa"
)

// Lit is a branch condition (negations stripped) with the value it had on a path.
type Lit struct {
	Cond ssa.Value
	Val  bool
	If   *ssa.If
}

// DPath is one acyclic path through a function's CFG: the branch literals taken and the return reached.
type DPath struct {
	Blocks []*ssa.BasicBlock
	Lits   []Lit
	Ret    *ssa.Return
	Panic  *ssa.Panic
}

// DecisionPaths enumerates every entry→return path of a loop-free function (analysis K). It fails on
// cycles or when there are more than limit paths.
func DecisionPaths(fn *ssa.Function, limit int) ([]DPath, error) {
	var out []DPath
	onPath := map[*ssa.BasicBlock]bool{}
	var walk func(b *ssa.BasicBlock, blocks []*ssa.BasicBlock, lits []Lit) error
	walk = func(b *ssa.BasicBlock, blocks []*ssa.BasicBlock, lits []Lit) error {
		if onPath[b] {
			return fmt.Errorf("cycle through block %d", b.Index)
		}
		if len(out) > limit {
			return fmt.Errorf("more than %d paths", limit)
		}
		onPath[b] = true
		defer delete(onPath, b)
		blocks = append(append([]*ssa.BasicBlock(nil), blocks...), b)
		last := b.Instrs[len(b.Instrs)-1]
		switch x := last.(type) {
		case *ssa.Return:
			out = append(out, DPath{Blocks: blocks, Lits: lits, Ret: x})
		case *ssa.Panic:
			out = append(out, DPath{Blocks: blocks, Lits: lits, Panic: x})
		case *ssa.If:
			cond := x.Cond
			neg := false
			for {
				u, ok := cond.(*ssa.UnOp)
				if !ok || u.Op != token.NOT {
					break
				}
				cond, neg = u.X, !neg
			}
			for i, s := range b.Succs {
				val := i == 0
				if neg {
					val = !val
				}
				nl := append(append([]Lit(nil), lits...), Lit{Cond: cond, Val: val, If: x})
				if err := walk(s, blocks, nl); err != nil {
					return err
				}
			}
		case *ssa.Jump:
			return walk(b.Succs[0], blocks, lits)
		default:
			return fmt.Errorf("unexpected terminator %T", last)
		}
		return nil
	}
	if err := walk(fn.Blocks[0], nil, nil); err != nil {
		return nil, err
	}
	return out, nil
}

// OnPath resolves phis of v according to the blocks the path went through.
func (p DPath) OnPath(v ssa.Value) ssa.Value {
	for i := 0; i < 8; i++ {
		phi, ok := v.(*ssa.Phi)
		if !ok {
			return v
		}
		idx := -1
		for k, b := range p.Blocks {
			if b == phi.Block() {
				idx = k
			}
		}
		if idx <= 0 {
			return v
		}
		pred := p.Blocks[idx-1]
		found := false
		for k, pb := range phi.Block().Preds {
			if pb == pred {
				v = phi.Edges[k]
				found = true
				break
			}
		}
		if !found {
			return v
		}
	}
	return v
}
