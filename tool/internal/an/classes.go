package an

import (
	"go/types"
	"sort"

	"golang.org/x/tools/go/ssa"

	"f1verif/internal/core"
)

// InstanceClasses abstracts *which object* an address denotes: "Owner.field" for a struct field,
// "local" for a function-local variable, resolved through parameters by enumerating the call sites
// of the enclosing function (one level of call-site sensitivity per step, bounded depth).
func InstanceClasses(c *core.Ctx, v ssa.Value, depth int) []string {
	set := map[string]bool{}
	instanceClasses(c, v, depth, set, map[ssa.Value]bool{})
	var out []string
	for k := range set {
		out = append(out, k)
	}
	sort.Strings(out)
	return out
}

func ownerName(t types.Type) string {
	if p, ok := t.(*types.Pointer); ok {
		t = p.Elem()
	}
	if n, ok := t.(*types.Named); ok {
		return n.Obj().Name()
	}
	return t.String()
}

func instanceClasses(c *core.Ctx, v ssa.Value, depth int, set map[string]bool, seen map[ssa.Value]bool) {
	if seen[v] {
		return
	}
	seen[v] = true
	t := Terminal(v)
	switch x := t.(type) {
	case *ssa.FieldAddr:
		set[ownerName(x.X.Type())+"."+FieldOfAddr(x).Name()] = true
	case *ssa.Alloc:
		set["local"] = true
	case *ssa.Global:
		set["global:"+x.Name()] = true
	case *ssa.FreeVar:
		if b := FreeVarBinding(x); b != nil {
			instanceClasses(c, b, depth, set, seen)
		} else {
			set["?freevar"] = true
		}
	case *ssa.Parameter:
		if depth <= 0 {
			set["?depth"] = true
			return
		}
		fn := x.Parent()
		idx := -1
		for i, p := range fn.Params {
			if p == x {
				idx = i
			}
		}
		n := 0
		for _, g := range c.AllFuncs {
			for _, call := range AllCalls(g) {
				if Callee(call) != fn {
					continue
				}
				args := call.Common().Args
				if idx < len(args) {
					n++
					instanceClasses(c, args[idx], depth-1, set, seen)
				}
			}
		}
		if n == 0 {
			set["?uncalled:"+core.FuncName(fn)] = true
		}
	case *ssa.Phi:
		for _, e := range x.Edges {
			instanceClasses(c, e, depth, set, seen)
		}
	default:
		set["?"+D().Of(t)] = true
	}
}

// CallSitesOf lists the module call sites whose static callee is fn.
func CallSitesOf(c *core.Ctx, fn *ssa.Function) []ssa.CallInstruction {
	var out []ssa.CallInstruction
	for _, g := range c.AllFuncs {
		for _, call := range AllCalls(g) {
			if Callee(call) == fn {
				out = append(out, call)
			}
		}
	}
	return out
}

// FuncsOfType lists module functions (declared or literal) that are converted to / passed as the named
// function type pkgPath.name anywhere in the module: the possible targets of a dynamic call of a value
// of that type (type-based resolution of the quick tier).
func FuncsOfType(c *core.Ctx, pkgPath, name string) []*ssa.Function {
	set := map[*ssa.Function]bool{}
	fnOf := func(v ssa.Value) *ssa.Function {
		switch x := v.(type) {
		case *ssa.Function:
			return x
		case *ssa.MakeClosure:
			f, _ := x.Fn.(*ssa.Function)
			return f
		}
		return nil
	}
	for _, g := range c.AllFuncs {
		Instrs(g, func(in ssa.Instruction) {
			switch x := in.(type) {
			case *ssa.ChangeType:
				if IsNamed(x.Type(), pkgPath, name) {
					if f := fnOf(x.X); f != nil {
						set[Unwrap(f)] = true
					}
				}
			case ssa.CallInstruction:
				sig := x.Common().Signature()
				if sig == nil {
					return
				}
				args := x.Common().Args
				off := 0
				if sig.Recv() != nil && !x.Common().IsInvoke() {
					off = 1
				}
				for i := 0; i < sig.Params().Len() && i+off < len(args); i++ {
					if IsNamed(sig.Params().At(i).Type(), pkgPath, name) {
						if f := fnOf(args[i+off]); f != nil {
							set[Unwrap(f)] = true
						}
					}
				}
			case *ssa.Store:
				if p, ok := x.Addr.Type().(*types.Pointer); ok && IsNamed(p.Elem(), pkgPath, name) {
					if f := fnOf(x.Val); f != nil {
						set[Unwrap(f)] = true
					}
				}
			}
		})
	}
	var out []*ssa.Function
	for f := range set {
		out = append(out, f)
	}
	sort.Slice(out, func(i, j int) bool { return out[i].String() < out[j].String() })
	return out
}

// ReachSet computes the module functions reachable from root through static calls, function literals
// created on the way (they may be invoked later by callees) and the given resolution of dynamic calls.
// `go` statements are not followed (they start another root).
func ReachSet(root *ssa.Function, dyn func(call ssa.CallInstruction) []*ssa.Function) map[*ssa.Function]bool {
	seen := map[*ssa.Function]bool{}
	var walk func(f *ssa.Function)
	walk = func(f *ssa.Function) {
		if f == nil || seen[f] || f.Blocks == nil || !core.InModule(f) {
			return
		}
		seen[f] = true
		Instrs(f, func(in ssa.Instruction) {
			switch x := in.(type) {
			case *ssa.Go:
				return
			case ssa.CallInstruction:
				if t := Callee(x); t != nil {
					walk(t)
				} else if dyn != nil {
					for _, t := range dyn(x) {
						walk(t)
					}
				}
			case *ssa.MakeClosure:
				// a literal created here and not started with go may be called by callees
				isGo := false
				for _, ref := range Referrers(x) {
					if _, ok := ref.(*ssa.Go); ok {
						isGo = true
					}
				}
				if !isGo {
					if fn, ok := x.Fn.(*ssa.Function); ok {
						walk(fn)
					}
				}
			}
		})
	}
	walk(root)
	return seen
}

// FuncValueOf: the function behind a function value — a function, a closure over one, or a bound method.
func FuncValueOf(v ssa.Value) *ssa.Function {
	switch x := Strip(v).(type) {
	case *ssa.Function:
		return Unwrap(x)
	case *ssa.MakeClosure:
		if f, ok := x.Fn.(*ssa.Function); ok {
			return Unwrap(f)
		}
	case *ssa.ChangeType:
		return FuncValueOf(x.X)
	}
	return nil
}

// ParamCallSitesOf lists the calls `p(…)` of a function-typed parameter p inside module functions to which fn is
// handed as that parameter at some call site (`store(func() T { … })`, `store(s.Total)`): the places where fn runs
// although nobody calls it by name.
func ParamCallSitesOf(c *core.Ctx, fn *ssa.Function) []ssa.CallInstruction {
	var out []ssa.CallInstruction
	for _, g := range c.AllFuncs {
		for _, site := range AllCalls(g) {
			h := Callee(site)
			if h == nil || h.Blocks == nil || !core.InModule(h) {
				continue
			}
			for i, a := range site.Common().Args {
				if i >= len(h.Params) || FuncValueOf(a) != fn {
					continue
				}
				p := h.Params[i]
				for _, inner := range AllCalls(h) {
					if Callee(inner) == nil && !inner.Common().IsInvoke() && Strip(inner.Common().Value) == ssa.Value(p) {
						out = append(out, inner)
					}
				}
			}
		}
	}
	return out
}

// PassesFunc: some call in fn hands a function value satisfying pred to its callee.
func PassesFunc(fn *ssa.Function, pred func(*ssa.Function) bool) bool {
	for _, call := range AllCalls(fn) {
		for _, a := range call.Common().Args {
			if f := FuncValueOf(a); f != nil && pred(f) {
				return true
			}
		}
	}
	return false
}
