package an

import (
	"go/types"
	"sort"

	"golang.org/x/tools/go/ssa"

	"f1verif/internal/core"
)

// InstanceClasses abstracts *which object* an address denotes: "Owner.field" for a struct field,
// "local" for a function-local variable, resolved through parameters by enumerating the call sites
// of the enclosing function (one level of call-site sensitivity per step, bounded depth).
func InstanceClasses(c *core.Ctx, v ssa.Value, depth int) []string {
	set := map[string]bool{}
	instanceClasses(c, v, depth, set, map[ssa.Value]bool{})
	var out []string
	for k := range set {
		out = append(out, k)
	}
	sort.Strings(out)
	return out
}

func ownerName(t types.Type) string {
	if p, ok := t.(*types.Pointer); ok {
		t = p.Elem()
	}
	if n, ok := t.(*types.Named); ok {
		return n.Obj().Name()
	}
	return t.String()
}

func instanceClasses(c *core.Ctx, v ssa.Value, depth int, set map[string]bool, seen map[ssa.Value]bool) {
	if seen[v] {
		return
	}
	seen[v] = true
	t := Terminal(v)
	switch x := t.(type) {
	case *ssa.FieldAddr:
		set[ownerName(x.X.Type())+"."+FieldOfAddr(x).Name()] = true
	case *ssa.Alloc:
		set["local"] = true
	case *ssa.Global:
		set["global:"+x.Name()] = true
	case *ssa.FreeVar:
		if b := FreeVarBinding(x); b != nil {
			instanceClasses(c, b, depth, set, seen)
		} else {
			set["?freevar"] = true
		}
	case *ssa.Parameter:
		if depth <= 0 {
			set["?depth"] = true
			return
		}
		fn := x.Parent()
		idx := -1
		for i, p := range fn.Params {
			if p == x {
				idx = i
			}
		}
		n := 0
		for _, g := range c.AllFuncs {
			for _, call := range AllCalls(g) {
				if Callee(call) != fn {
					continue
				}
				args := call.Common().Args
				if idx < len(args) {
					n++
					instanceClasses(c, args[idx], depth-1, set, seen)
				}
			}
		}
		if n == 0 {
			set["?uncalled:"+core.FuncName(fn)] = true
		}
	case *ssa.Phi:
		for _, e := range x.Edges {
			instanceClasses(c, e, depth, set, seen)
		}
	default:
		set["?"+D().Of(t)] = true
	}
}

// CallSitesOf lists the module call sites whose static callee is fn.
func CallSitesOf(c *core.Ctx, fn *ssa.Function) []ssa.CallInstruction {
	var out []ssa.CallInstruction
	for _, g := range c.AllFuncs {
		for _, call := range AllCalls(g) {
			if Callee(call) == fn {
				out = append(out, call)
			}
		}
	}
	return out
}
