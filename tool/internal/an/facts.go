package an

import (
	"golang.org/x/tools/go/ssa"
)

// Facts is a forward must-analysis over string facts (analysis L): a fact holds at a point when it holds
// on every path reaching it. Gen updates the fact set at an instruction; Edge adds the facts learnt by
// taking one side of a branch.
type Facts struct {
	Fn    *ssa.Function
	Entry map[string]bool
	Gen   func(in ssa.Instruction, cur map[string]bool)
	Edge  func(iff *ssa.If, taken bool, cur map[string]bool)

	in []map[string]bool
}

func (f *Facts) Run() {
	n := len(f.Fn.Blocks)
	f.in = make([]map[string]bool, n)
	f.in[0] = copySet(f.Entry)
	work := []int{0}
	inWork := map[int]bool{0: true}
	rounds := 0
	for len(work) > 0 && rounds < 20000 {
		rounds++
		bi := work[0]
		work = work[1:]
		inWork[bi] = false
		b := f.Fn.Blocks[bi]
		cur := copySet(f.in[bi])
		for _, in := range b.Instrs {
			if f.Gen != nil {
				f.Gen(in, cur)
			}
		}
		var iff *ssa.If
		if len(b.Instrs) > 0 {
			iff, _ = b.Instrs[len(b.Instrs)-1].(*ssa.If)
		}
		for si, s := range b.Succs {
			out := copySet(cur)
			if iff != nil && f.Edge != nil {
				f.Edge(iff, si == 0, out)
			}
			var merged map[string]bool
			if f.in[s.Index] == nil {
				merged = out
			} else {
				merged = map[string]bool{}
				for k := range f.in[s.Index] {
					if out[k] {
						merged[k] = true
					}
				}
				if len(merged) == len(f.in[s.Index]) {
					continue
				}
			}
			f.in[s.Index] = merged
			if !inWork[s.Index] {
				work = append(work, s.Index)
				inWork[s.Index] = true
			}
		}
	}
}

// At returns the facts holding just before instruction in executes.
func (f *Facts) At(in ssa.Instruction) map[string]bool {
	b := in.Block()
	if f.in[b.Index] == nil {
		return map[string]bool{"<unreachable>": true}
	}
	cur := copySet(f.in[b.Index])
	for _, x := range b.Instrs {
		if x == in {
			break
		}
		if f.Gen != nil {
			f.Gen(x, cur)
		}
	}
	return cur
}

// Reachable reports whether the block of in was reached by the analysis.
func (f *Facts) Reachable(in ssa.Instruction) bool { return f.in[in.Block().Index] != nil }

func copySet(m map[string]bool) map[string]bool {
	o := make(map[string]bool, len(m))
	for k, v := range m {
		if v {
			o[k] = true
		}
	}
	return o
}
