package an

import (
	"strings"

	"golang.org/x/tools/go/ssa"
)

// Disjunctive facts: "or:a|b" (a, b plain facts in sorted order) holds when a or b holds. They are produced
// where two paths meet that each establish a different fact — the shape `if x == nil && y == nil { fail }`
// leaves behind — and consumed by ResolveOr when one alternative is refuted.

func orFact(a, b string) string {
	if a > b {
		a, b = b, a
	}
	return "or:" + a + "|" + b
}

func orParts(f string) (string, string, bool) {
	if !strings.HasPrefix(f, "or:") {
		return "", "", false
	}
	i := strings.Index(f, "|")
	if i < 0 {
		return "", "", false
	}
	return f[3:i], f[i+1:], true
}

// FactAbout: every path a fact (plain "kind:path" or a disjunction of two) speaks of starts with prefix.
func FactAbout(f, prefix string) bool {
	if a, b, ok := orParts(f); ok {
		return FactAbout(a, prefix) && FactAbout(b, prefix)
	}
	i := strings.Index(f, ":")
	return i >= 0 && strings.HasPrefix(f[i+1:], prefix)
}

// RebaseFact rewrites the leading `from` of the path(s) of a fact to `to` (a callee's receiver to the caller's argument).
func RebaseFact(f, from, to string) string {
	if a, b, ok := orParts(f); ok {
		return orFact(RebaseFact(a, from, to), RebaseFact(b, from, to))
	}
	i := strings.Index(f, ":")
	if i < 0 {
		return f
	}
	return f[:i+1] + to + strings.TrimPrefix(f[i+1:], from)
}

func holdsFact(set map[string]bool, f string) bool {
	if set[f] {
		return true
	}
	if a, b, ok := orParts(f); ok {
		return set[a] || set[b]
	}
	return false
}

func meetFacts(a, b map[string]bool) map[string]bool {
	out := map[string]bool{}
	var onlyA, onlyB []string
	for k := range a {
		if holdsFact(b, k) {
			out[k] = true
		} else if !strings.HasPrefix(k, "or:") {
			onlyA = append(onlyA, k)
		}
	}
	for k := range b {
		if holdsFact(a, k) {
			out[k] = true
		} else if !strings.HasPrefix(k, "or:") {
			onlyB = append(onlyB, k)
		}
	}
	if len(onlyA) > 0 && len(onlyA) <= 3 && len(onlyB) > 0 && len(onlyB) <= 3 {
		for _, x := range onlyA {
			for _, y := range onlyB {
				out[orFact(x, y)] = true
			}
		}
	}
	return out
}

func sameSet(a, b map[string]bool) bool {
	if len(a) != len(b) {
		return false
	}
	for k := range a {
		if !b[k] {
			return false
		}
	}
	return true
}

// ResolveOr: fact `refuted` is known not to hold; every disjunction containing it yields its other part.
func ResolveOr(cur map[string]bool, refuted string) {
	for k := range cur {
		if a, b, ok := orParts(k); ok {
			if a == refuted {
				cur[b] = true
			} else if b == refuted {
				cur[a] = true
			}
		}
	}
}

// KillFact removes a fact and every disjunction mentioning it.
func KillFact(cur map[string]bool, f string) {
	delete(cur, f)
	for k := range cur {
		if a, b, ok := orParts(k); ok && (a == f || b == f) {
			delete(cur, k)
		}
	}
}

// Facts is a forward must-analysis over string facts (analysis L): a fact holds at a point when it holds
// on every path reaching it. Gen updates the fact set at an instruction; Edge adds the facts learnt by
// taking one side of a branch.
type Facts struct {
	Fn    *ssa.Function
	Entry map[string]bool
	Gen   func(in ssa.Instruction, cur map[string]bool)
	Edge  func(iff *ssa.If, taken bool, cur map[string]bool)

	in []map[string]bool
}

func (f *Facts) Run() {
	n := len(f.Fn.Blocks)
	f.in = make([]map[string]bool, n)
	f.in[0] = copySet(f.Entry)
	work := []int{0}
	inWork := map[int]bool{0: true}
	rounds := 0
	for len(work) > 0 && rounds < 20000 {
		rounds++
		bi := work[0]
		work = work[1:]
		inWork[bi] = false
		b := f.Fn.Blocks[bi]
		cur := copySet(f.in[bi])
		for _, in := range b.Instrs {
			if f.Gen != nil {
				f.Gen(in, cur)
			}
		}
		var iff *ssa.If
		if len(b.Instrs) > 0 {
			iff, _ = b.Instrs[len(b.Instrs)-1].(*ssa.If)
		}
		for si, s := range b.Succs {
			out := copySet(cur)
			if iff != nil && f.Edge != nil {
				f.Edge(iff, si == 0, out)
			}
			var merged map[string]bool
			if f.in[s.Index] == nil {
				merged = out
			} else {
				merged = meetFacts(f.in[s.Index], out)
				if sameSet(merged, f.in[s.Index]) {
					continue
				}
			}
			f.in[s.Index] = merged
			if !inWork[s.Index] {
				work = append(work, s.Index)
				inWork[s.Index] = true
			}
		}
	}
}

// At returns the facts holding just before instruction in executes.
func (f *Facts) At(in ssa.Instruction) map[string]bool {
	b := in.Block()
	if f.in[b.Index] == nil {
		return map[string]bool{"<unreachable>": true}
	}
	cur := copySet(f.in[b.Index])
	for _, x := range b.Instrs {
		if x == in {
			break
		}
		if f.Gen != nil {
			f.Gen(x, cur)
		}
	}
	return cur
}

// Reachable reports whether the block of in was reached by the analysis.
func (f *Facts) Reachable(in ssa.Instruction) bool { return f.in[in.Block().Index] != nil }

func copySet(m map[string]bool) map[string]bool {
	o := make(map[string]bool, len(m))
	for k, v := range m {
		if v {
			o[k] = true
		}
	}
	return o
}
